import ConserveModel.Proofs.GapFsWalk
/-
What a SUCCESSFUL `restore_dir` (`create_dir_all`, AlreadyExists accepted) leaves behind, on a path
below the destination none of whose prefixes is a symlink: either every prefix of the path now
exists and is no symlink (`SolidTo`), or the path runs into a non-directory (`Blocked`: that is how
`create_dir_all` can return EEXIST).  Both facts survive everything restore does later (nodes are
never removed and keep their kind), and both make the deferred metadata calls harmless.
-/
namespace Conserve

/-- Every prefix of `cs` below `D` (`D ++ cs` included) exists and is not a symlink. -/
def SolidTo (fs : Fs) (D : Path) (cs : List Str) : Prop :=
  ∀ pre, pre <+: cs → ∃ x, fs.node (D ++ pre) = some x ∧ x.kind ≠ .symlink

/-- Some prefix of `cs` below `D` is reached through existing non-symlinks and is itself not a
directory (so: a file). -/
def Blocked (fs : Fs) (D : Path) (cs : List Str) : Prop :=
  ∃ pre0, pre0 <+: cs ∧ SolidTo fs D pre0 ∧ ∃ x, fs.node (D ++ pre0) = some x ∧ x.kind ≠ .dir

abbrev Kept (fs fs' : Fs) : Prop :=
  ∀ q x, fs.node q = some x → ∃ x', fs'.node q = some x' ∧ x'.kind = x.kind

theorem Kept.refl (fs : Fs) : Kept fs fs := fun _ x h => ⟨x, h, rfl⟩

theorem Kept.trans {a b c : Fs} (h1 : Kept a b) (h2 : Kept b c) : Kept a c := by
  intro q x hx
  obtain ⟨x1, hx1, hk1⟩ := h1 q x hx
  obtain ⟨x2, hx2, hk2⟩ := h2 q x1 hx1
  exact ⟨x2, hx2, hk2.trans hk1⟩

theorem SolidTo.kept {fs fs' : Fs} {D : Path} {cs : List Str} (h : SolidTo fs D cs) (hk : Kept fs fs') :
    SolidTo fs' D cs := by
  intro pre hp
  obtain ⟨x, hx, hxk⟩ := h pre hp
  obtain ⟨x', hx', hk'⟩ := hk _ x hx
  exact ⟨x', hx', by rw [hk']; exact hxk⟩

theorem Blocked.kept {fs fs' : Fs} {D : Path} {cs : List Str} (h : Blocked fs D cs) (hk : Kept fs fs') :
    Blocked fs' D cs := by
  obtain ⟨pre0, hp, hs, x, hx, hxk⟩ := h
  obtain ⟨x', hx', hk'⟩ := hk _ x hx
  exact ⟨pre0, hp, hs.kept hk, x', hx', by rw [hk']; exact hxk⟩

theorem SolidTo.cleanFullL {fs : Fs} {D : Path} {cs : List Str} (h : SolidTo fs D cs) : CleanFullL fs D cs := by
  intro pre hp y hy
  obtain ⟨x, hx, hk⟩ := h pre hp
  rw [hx] at hy; cases hy; exact hk

theorem SolidTo.of_have {fs : Fs} {D : Path} {cs : List Str} (hto : HaveTo fs D cs)
    (hself : ∃ x, fs.node (D ++ cs) = some x ∧ x.kind ≠ .symlink) : SolidTo fs D cs := by
  intro pre hp
  by_cases e : pre = cs
  · rw [e]; exact hself
  · obtain ⟨x, hx, hk⟩ := Fs.isDir_iff.1 (hto pre hp e)
    exact ⟨x, hx, by rw [hk]; decide⟩

theorem Blocked.mono {fs : Fs} {D : Path} {cs cs' : List Str} (h : Blocked fs D cs) (hp : cs <+: cs') :
    Blocked fs D cs' := by
  obtain ⟨pre0, hp0, rest⟩ := h
  exact ⟨pre0, hp0.trans hp, rest⟩

/-- Resolving a clean path below the destination, successfully: the answer is the path itself and
every proper prefix is an existing directory. -/
theorem resolve_clean_dirs {fs : Fs} {D : Path} {cs : List Str} {follow : Bool}
    (hD : DestOk fs D) (hg : ∀ c ∈ cs, goodName c = true) (hc : CleanTo fs D cs)
    (hfin : follow = false ∨ ∀ x, fs.node (D ++ cs) = some x → x.kind ≠ .symlink)
    {p : Path} (h : fs.resolve follow (D ++ cs) = .ok p) : p = D ++ cs ∧ HaveTo fs D cs := by
  have hfin' : (follow = false ∧ ([] : List Str) = []) ∨ ∀ x, fs.node (D ++ cs) = some x → x.kind ≠ .symlink :=
    hfin.imp (fun h => ⟨h, rfl⟩) id
  refine ⟨resolve_clean (trail := []) hD hg (fun _ h => nomatch h) hc hfin' p (by simpa using h), ?_⟩
  intro pre hp hne
  unfold Fs.resolve at h
  have := walk_clean_dirs fs follow resolveFuel maxSymlinks [] (D ++ cs) []
    (fun c hc' => by
      rcases List.mem_append.1 hc' with h1 | h1
      · exact hD.good c h1
      · exact hg c h1) (fun _ h => nomatch h)
    (fun q hq _ hne2 => by
      rw [List.nil_append]
      rcases prefix_append_cases hq with h1 | ⟨q', rfl, h1⟩
      · exact (noneOrDir_of_isDir (hD.dirs q h1)).notLink
      · exact hc q' h1 (fun e => hne2 (by rw [e])))
    (by simpa using hfin') p (by simpa using h) (D ++ pre)
    ((List.prefix_append_right_inj D).2 hp) (fun e => hne (List.append_cancel_left e))
  simpa using this

/-- `mkdir` on a clean path: success leaves the whole path solid; EEXIST changes nothing and means the
whole path was solid already. -/
theorem mkdir_result {fs fs1 : Fs} {D : Path} {cs : List Str} {r : Except Errno Unit} (hD : DestOk fs D)
    (hg : ∀ c ∈ cs, goodName c = true) (hc : CleanFullL fs D cs) (h : fs.mkdir (D ++ cs) = (fs1, r)) :
    (r = .ok () → SolidTo fs1 D cs) ∧ (r = .error .EEXIST → fs1 = fs ∧ SolidTo fs D cs) := by
  unfold Fs.mkdir at h
  cases hr : fs.resolve false (D ++ cs) with
  | error e =>
    rw [hr] at h
    simp only [Prod.mk.injEq] at h
    obtain ⟨rfl, rfl⟩ := h
    refine ⟨(fun e' => by cases e'), fun e' => ?_⟩
    simp only [Except.error.injEq] at e'
    subst e'
    exact absurd hr (resolve_ne_eexist _ _ _)
  | ok p =>
    obtain ⟨rfl, hto⟩ := resolve_clean_dirs hD hg hc.to (Or.inl rfl) hr
    rw [hr] at h
    dsimp only at h
    cases hn : fs.node (D ++ cs) with
    | some x =>
      rw [hn] at h
      simp only [Prod.mk.injEq] at h
      obtain ⟨rfl, rfl⟩ := h
      exact ⟨(fun e' => by cases e'), fun _ => ⟨rfl, SolidTo.of_have hto ⟨x, hn, hc cs (List.prefix_refl _) x hn⟩⟩⟩
    | none =>
      rw [hn] at h
      simp only [Prod.mk.injEq] at h
      obtain ⟨rfl, rfl⟩ := h
      refine ⟨fun _ => ?_, fun e' => by cases e'⟩
      have L : Local .dir fs (fs.createAt (D ++ cs) (.dir (maskMode 0o777 fs.umask + fs.parentSgid (D ++ cs).dropLast)
          fs.euid (fs.newGid (D ++ cs).dropLast) .now)) (D ++ cs) := Local.of_createAt hn rfl
      obtain ⟨y, hy, hyk⟩ := Fs.isDir_iff.1 (isDir_createAt_self (fs := fs) (p := D ++ cs)
        (x := .dir (maskMode 0o777 fs.umask + fs.parentSgid (D ++ cs).dropLast) fs.euid
          (fs.newGid (D ++ cs).dropLast) .now) rfl)
      exact SolidTo.of_have (hto.kept L.kept) ⟨y, hy, by rw [hyk]; decide⟩

/-- `is_dir()` said yes on a clean path: the whole path is solid. -/
theorem statIsDir_solid {fs : Fs} {D : Path} {cs : List Str} (hD : DestOk fs D)
    (hg : ∀ c ∈ cs, goodName c = true) (hc : CleanFullL fs D cs) (h : fs.statIsDir (D ++ cs) = true) :
    SolidTo fs D cs := by
  unfold Fs.statIsDir at h
  cases hr : fs.resolve true (D ++ cs) with
  | error e => rw [hr] at h; cases h
  | ok p =>
    rw [hr] at h
    obtain ⟨rfl, hto⟩ := resolve_clean_dirs hD hg hc.to (Or.inr (hc cs (List.prefix_refl _))) hr
    obtain ⟨x, hx, hk⟩ := Fs.isDir_iff.1 h
    exact SolidTo.of_have hto ⟨x, hx, by rw [hk]; decide⟩

/-- `mkdir` said EEXIST and `is_dir()` said no: the path ends at a non-directory. -/
theorem eexist_not_dir_blocked {fs : Fs} {D : Path} {cs : List Str} (hD : DestOk fs D)
    (hg : ∀ c ∈ cs, goodName c = true) (hc : CleanFullL fs D cs) {fs1 : Fs}
    (hm : fs.mkdir (D ++ cs) = (fs1, .error .EEXIST)) (hs : fs.statIsDir (D ++ cs) = false) :
    Blocked fs D cs := by
  have hsolid := ((mkdir_result hD hg hc hm).2 rfl).2
  refine ⟨cs, List.prefix_refl _, hsolid, ?_⟩
  obtain ⟨x, hx, hxk⟩ := hsolid cs (List.prefix_refl _)
  refine ⟨x, hx, fun hd => ?_⟩
  -- the no-follow resolution succeeded (EEXIST), so the following one does, at the same place
  have hr : fs.resolve false (D ++ cs) = .ok (D ++ cs) := by
    unfold Fs.mkdir at hm
    cases hr : fs.resolve false (D ++ cs) with
    | error e =>
      rw [hr] at hm
      simp only [Prod.mk.injEq, Except.error.injEq] at hm
      rw [hm.2] at hr
      exact absurd hr (resolve_ne_eexist _ _ _)
    | ok p => rw [(resolve_clean_dirs hD hg hc.to (Or.inl rfl) hr).1]
  have hr' : fs.resolve true (D ++ cs) = .ok (D ++ cs) :=
    walk_true_of_false fs _ _ _ _ _ hr (hc cs (List.prefix_refl _))
  unfold Fs.statIsDir at hs
  rw [hr'] at hs
  dsimp only at hs
  rw [Fs.isDir_iff.2 ⟨x, hx, hd⟩] at hs
  cases hs

/-- **What `create_dir_all` leaves behind** on a clean path below the destination: `Ok` — the whole
path exists, without symlinks; EEXIST — the path runs into a non-directory. -/
theorem mkdirAll_result {D : Path} : ∀ (k : Nat) (fs : Fs) (cs : List Str), DestOk fs D →
    (∀ c ∈ cs, goodName c = true) → CleanFullL fs D cs →
    ∀ fs1 r, Fs.mkdirAll k fs (D ++ cs) = (fs1, r) →
      (r = .ok () → SolidTo fs1 D cs) ∧ (r = .error .EEXIST → Blocked fs1 D cs) := by
  intro k
  induction k with
  | zero =>
    intro fs cs _ _ _ fs1 r h
    simp only [Fs.mkdirAll, Prod.mk.injEq] at h
    obtain ⟨_, rfl⟩ := h
    exact ⟨(fun e => by cases e), fun e => by cases e⟩
  | succ k ih =>
    intro fs cs hD hg hc fs1 r h
    unfold Fs.mkdirAll at h
    split at h
    · -- mkdir succeeded
      rename_i fs2 _ heq
      simp only [Prod.mk.injEq] at h
      obtain ⟨rfl, rfl⟩ := h
      exact ⟨fun _ => (mkdir_result hD hg hc heq).1 rfl, fun e => by cases e⟩
    · -- ENOENT: parent first
      rename_i fs2 heq
      split at h
      · simp only [Prod.mk.injEq] at h
        obtain ⟨_, rfl⟩ := h
        exact ⟨(fun e => by cases e), fun e => by cases e⟩
      · rename_i hpne
        have hcs : cs ≠ [] := by
          intro e; subst e
          rw [List.append_nil] at heq
          exact absurd (Fs.mkdir_enoent heq) (resolve_dest_ne_enoent hD)
        rw [dropLast_dest_append hcs] at h
        have hpre : cs.dropLast <+: cs := List.dropLast_prefix cs
        have hg' : ∀ c ∈ cs.dropLast, goodName c = true := fun c h => hg c (List.dropLast_subset cs h)
        have G2 := mkdirAll_grows k fs cs.dropLast hD hg' (hc.prefix hpre)
        have R2 := ih fs cs.dropLast hD hg' (hc.prefix hpre)
        rcases hm : Fs.mkdirAll k fs (D ++ cs.dropLast) with ⟨fs3, r3⟩
        rw [hm] at h G2
        have R2' := R2 fs3 r3 hm
        cases r3 with
        | error e =>
          simp only [Prod.mk.injEq] at h
          obtain ⟨rfl, rfl⟩ := h
          refine ⟨(fun e' => by cases e'), fun e' => ?_⟩
          simp only [Except.error.injEq] at e'
          subst e'
          exact (R2'.2 rfl).mono hpre
        | ok u =>
          dsimp only at h G2
          have hD3 := G2.destOk hD
          have hc3 : CleanFullL fs3 D cs := G2.cleanFullL hc
          split at h
          · rename_i fs4 _ heq4
            simp only [Prod.mk.injEq] at h
            obtain ⟨rfl, rfl⟩ := h
            exact ⟨fun _ => (mkdir_result hD3 hg hc3 heq4).1 rfl, fun e => by cases e⟩
          · rename_i fs4 e4 heq4
            split at h
            · rename_i hst
              simp only [Prod.mk.injEq] at h
              obtain ⟨rfl, rfl⟩ := h
              exact ⟨fun _ => statIsDir_solid hD3 hg hc3 hst, fun e => by cases e⟩
            · rename_i hst
              simp only [Prod.mk.injEq] at h
              obtain ⟨rfl, rfl⟩ := h
              refine ⟨(fun e' => by cases e'), fun e' => ?_⟩
              simp only [Except.error.injEq] at e'
              subst e'
              exact eexist_not_dir_blocked hD3 hg hc3 heq4 (by simpa using hst)
    · -- another error: accept a directory
      rename_i fs2 e hne heq
      split at h
      · rename_i hst
        simp only [Prod.mk.injEq] at h
        obtain ⟨rfl, rfl⟩ := h
        exact ⟨fun _ => statIsDir_solid hD hg hc hst, fun e => by cases e⟩
      · rename_i hst
        simp only [Prod.mk.injEq] at h
        obtain ⟨rfl, rfl⟩ := h
        refine ⟨(fun e' => by cases e'), fun e' => ?_⟩
        simp only [Except.error.injEq] at e'
        subst e'
        exact eexist_not_dir_blocked hD hg hc heq (by simpa using hst)

/-- A successful `restore_dir` is a `create_dir_all` that said `Ok` or EEXIST. -/
theorem restoreDirFs_ok {fs fs1 : Fs} {path : List Str} {u : Unit} (h : restoreDirFs fs path = (fs1, .ok u)) :
    Fs.mkdirAll (path.length + 1) fs path = (fs1, .ok ()) ∨
    Fs.mkdirAll (path.length + 1) fs path = (fs1, .error .EEXIST) := by
  unfold restoreDirFs at h
  split at h
  · rename_i fs2 heq
    simp only [Prod.mk.injEq] at h
    rw [heq, h.1]; exact Or.inr rfl
  · rcases hm : Fs.mkdirAll (path.length + 1) fs path with ⟨fs2, r⟩
    rw [hm] at h
    simp only [Prod.mk.injEq] at h
    obtain ⟨rfl, rfl⟩ := h
    exact Or.inl rfl

/-! ### Deferred metadata on a blocked path: nothing happens -/

theorem resolve_blocked {fs : Fs} {D : Path} {cs trail : List Str} {follow : Bool} (hD : DestOk fs D)
    (hg : ∀ c ∈ cs, goodName c = true) (hb : Blocked fs D cs) (hns : ¬ SolidTo fs D cs) :
    ∀ p, fs.resolve follow (D ++ cs ++ trail) ≠ .ok p := by
  obtain ⟨pre0, hp0, hs0, x, hx, hxk⟩ := hb
  obtain ⟨t, rfl⟩ := hp0
  cases t with
  | nil => rw [List.append_nil] at hns; exact absurd hs0 hns
  | cons c rest =>
    intro p
    unfold Fs.resolve
    have e : D ++ (pre0 ++ c :: rest) ++ trail = (D ++ pre0) ++ c :: (rest ++ trail) := by simp
    rw [e]
    refine walk_blocked fs follow resolveFuel maxSymlinks [] (D ++ pre0) c (rest ++ trail) ?_ ?_ ?_ p
    · intro d hd
      rcases List.mem_append.1 hd with h1 | h1
      · exact hD.good d h1
      · exact hg d (List.mem_append_left _ h1)
    · intro pre hp _
      rw [List.nil_append]
      rcases prefix_append_cases hp with h1 | ⟨q, rfl, h1⟩
      · obtain ⟨y, hy, hk⟩ := Fs.isDir_iff.1 (hD.dirs pre h1)
        exact ⟨y, hy, by rw [hk]; decide⟩
      · exact hs0 q h1
    · intro y hy
      rw [List.nil_append, hx] at hy
      cases hy; exact hxk

/-- If the path does not resolve, the three deferred calls change nothing. -/
theorem applyDeferralFs_unresolved {uidOf gidOf : Str → Option Nat} {fs : Fs} {d : Deferral}
    (h : ∀ follow p, fs.resolve follow d.path ≠ .ok p) : (applyDeferralFs uidOf gidOf fs d).1 = fs := by
  have h1 : ∀ u g, (fs.lchown d.path u g).1 = fs := by
    intro u g
    unfold Fs.lchown
    cases hr : fs.resolve false d.path with
    | error e => rfl
    | ok p => exact absurd hr (h false p)
  have h2 : ∀ m, (fs.chmod d.path m).1 = fs := by
    intro m
    unfold Fs.chmod
    cases hr : fs.resolve true d.path with
    | error e => rfl
    | ok p => exact absurd hr (h true p)
  have h3 : ∀ t, (fs.utimes true d.path t).1 = fs := by
    intro t
    unfold Fs.utimes
    cases hr : fs.resolve true d.path with
    | error e => rfl
    | ok p => exact absurd hr (h true p)
  have e1 : (setOwnerFs uidOf gidOf fs d.path d.node).1 = fs := by rw [setOwnerFs_fst]; exact h1 _ _
  have e2 : (setPermsFs fs d.path d.node).1 = fs := by
    unfold setPermsFs
    cases d.node.unixMode with
    | none => rfl
    | some m =>
      dsimp only
      have := h2 m
      split
      · rename_i heq; rw [heq] at this; exact this
      · rename_i heq; rw [heq] at this; exact this
  unfold applyDeferralFs
  dsimp only
  rw [e1, e2]
  exact h3 _

end Conserve
