import ConserveModel.Proofs.ExactTop
/-
The backup that follows a kill between `mkdir bNNNN` and the completion of the head write: its basis
version is the head-less directory, `Band::open` fails inside the stitching iterator, and the error is
REPORTED (`monitor.error`).  `resume_reports_error`: for every well-formed archive whose newest version
directory has no readable head, the next fault-free backup emits an error event — whatever else it does.
No property statements here.
-/
set_option linter.unusedSimpArgs false
namespace Conserve.Crash
open Conserve Conserve.Exact Conserve.Inv Prog

variable {H : Str → Str} {o : BackupOpts}

/-- Events are only ever added. -/
theorem events_grow {α : Type} (p : Prog α) : ∀ w : World, ∃ new, (p.run w).2.events = new ++ w.events := by
  induction p with
  | ret a => intro w; exact ⟨[], rfl⟩
  | fail e => intro w; exact ⟨[], rfl⟩
  | panic s => intro w; exact ⟨[], rfl⟩
  | emit ev k ih =>
    intro w
    obtain ⟨new, h⟩ := ih { w with events := ev :: w.events }
    exact ⟨new ++ [ev], by simpa using h⟩
  | op o k ih =>
    intro w
    obtain ⟨new, h⟩ := ih (w.exec o).2 (w.exec o).1
    have hev : (w.exec o).1.events = w.events := by
      unfold World.exec
      repeat' (first | rfl | split)
    exact ⟨new, by rw [Prog.run_op, h, hev]⟩

/-- The prelude of `backup` on a well-formed, unlocked archive with a newest version directory `b`,
whatever state that version is in: it returns, having reported exactly the errors the listing of `b` reports. -/
theorem prelude_runs_reporting {t : Store} {b : Nat} (hst : StoreOK H t) (hlock : t.get? .gcLock = none)
    (hwf0 : ArchWF t) (hmax : maxNat? (bandIdsOf t) = some b) :
    ∃ x, RunsAt backupPrelude t (.ok x) (withNewBand t) (((listErrors (withNewBand t) b).map Event.error).reverse) := by
  have hst1 : StoreOK H (withNewBand t) := withNewBand_storeOK hst
  have hframe := withNewBand_frame t
  have hfresh : ∀ k, Key.isUnder (.bandDir (newBandOf t)) k = true → k ≠ .bandHead (newBandOf t) →
      k ≠ .indexDir (newBandOf t) → k ≠ .bandDir (newBandOf t) → (withNewBand t).get? k = none := by
    intro k hk h1 h2 h3
    rw [get?_withNewBand]
    simp only [h1, h2, h3, if_false]
    exact fresh_under_new hst hk
  have hlockr : RunsAt gcIsLocked t (.ok false) t [] := fun w hw => by
    have := gcIsLocked_runs hw.quiet
    rw [hw.store] at this
    simpa [fileAt, hlock] using this
  have hlast : RunsAt lastBandId t (.ok (maxNat? (bandIdsOf t))) t [] := fun w hw => by
    have := lastBandId_runs hw.quiet (by rw [hw.store]; exact hst.root)
    rwa [hw.store] at this
  have hlock2 : RunsAt gcLockListed (withNewBand t) (.ok false) (withNewBand t) [] := fun w hw => by
    have := gcLockListed_runs hw.quiet (by rw [hw.store]; exact hst1.root)
    rw [hw.store] at this
    rwa [lockListedOf_of_get?_none (by rw [get?_withNewBand]; simpa using hlock)] at this
  have hblocks : RunsAt listBlocks (withNewBand t) (.ok (blockNamesOf (withNewBand t))) (withNewBand t) [] :=
    fun w hw => by
      have := listBlocks_runs hw.quiet (by rw [hw.store]; exact hst1.blockRoot)
        (by rw [hw.store]; exact blockSubdirs_are_dirs hst1.uniqueKeys)
      rwa [hw.store] at this
  have hwf1 : ArchWF (withNewBand t) := by
    refine archWF_frame hwf0 hst1 hframe ?_
    have : hunkNumsOf (withNewBand t) (newBandOf t) = [] := by
      apply hunkNumsOf_nil_of_no_hunk
      intro kv hkv n hk
      obtain ⟨k, v⟩ := kv
      simp only at hk
      subst hk
      have := hst1.noDup.get?_of_mem hkv
      rw [hfresh _ (by simp [Key.isUnder, Key.parent]) (by simp) (by simp) (by simp)] at this
      cases this
    simp [ownEntries, this, strictlySorted]
  unfold backupPrelude
  refine ⟨(newBandOf t, blockNamesOf (withNewBand t),
    (listSpec (withNewBand t) b).filter fun e => isPrefixOfImpl [slash] e.apath && !(fun _ => false) e.apath), ?_⟩
  refine RunsAt.bind0 hlockr ?_
  simp only [Bool.false_eq_true, if_false]
  refine RunsAt.bind0 hlast ?_
  refine RunsAt.bind0 (bandCreate_runs hst) ?_
  refine RunsAt.bind0 hlock2 ?_
  simp only [Bool.false_eq_true, if_false]
  refine RunsAt.bind0 hblocks ?_
  simp only [hmax]
  have hle := listEntries_runsAt hwf1 b [slash] (fun _ => false)
  exact RunsAt.bind_r0 hle (RunsAt.ret _ _)

/-- **The resumed backup reports the unreadable head.**  `t`: a well-formed archive without `GC_LOCK` whose
newest version directory `b` has no readable head (no head file, a zero-length head, no index
directory — what a kill inside `Band::create` leaves).  The next fault-free `backup` — any options,
any source — emits the error event `unreadableError t b` (`BandHeadMissing`, or the JSON error of a
zero-length head), whatever else it does. -/
theorem resume_reports_error (src : List SrcEntry) {t : Store} {b : Nat} (hst : StoreOK H t)
    (hlock : t.get? .gcLock = none) (hwf0 : ArchWF t) (hmax : maxNat? (bandIdsOf t) = some b)
    (hbad : bandReadable t b = false) :
    Event.error (unreadableError t b) ∈ ((backup H o src).run (World.clean t)).2.events := by
  obtain ⟨x, hpre⟩ := prelude_runs_reporting hst hlock hwf0 hmax
  obtain ⟨h1, _, h3⟩ := hpre.clean
  have hbmem : b ∈ bandIdsOf t := maxNat?_mem hmax
  have hne : b ≠ newBandOf t := Nat.ne_of_lt (nextBandId_gt _ b hbmem)
  have hsame : BandSame t (withNewBand t) b := bandSame_of_frame (withNewBand_frame t) hne
  have herrs : unreadableError t b ∈ listErrors (withNewBand t) b := by
    unfold listErrors
    simp only [List.mem_append]
    left
    simp [bandErrors, bandReadable_same hsame, hbad, unreadableError_same hsame]
  have hev : Event.error (unreadableError t b) ∈ (backupPrelude.run (World.clean t)).2.events := by
    rw [h3]
    simp only [List.mem_reverse, List.mem_map]
    exact ⟨_, herrs, rfl⟩
  rw [backup_eq, Prog.run_bind_ok h1]
  obtain ⟨new, hnew⟩ := events_grow (backupMain H o src x) (backupPrelude.run (World.clean t)).2
  rw [hnew]
  exact List.mem_append_right _ hev

end Conserve.Crash
