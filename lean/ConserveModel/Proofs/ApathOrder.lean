import ConserveModel.ApathSpec
/-
Helper lemmas: the `Ord for Apath` loop is lexicographic comparison of `keys`.
-/
namespace Conserve
open Std

theorem splitSlash_ne_nil (a : Str) : splitSlash a ≠ [] := by
  induction a with
  | nil => simp [splitSlash]
  | cons c cs ih =>
    unfold splitSlash
    split
    · simp
    · split <;> simp

theorem joinSlash_cons_cons (p q : Str) (ps : List Str) :
    joinSlash (p :: q :: ps) = p ++ slash :: joinSlash (q :: ps) := rfl

theorem joinSlash_splitSlash (a : Str) : joinSlash (splitSlash a) = a := by
  induction a with
  | nil => simp [splitSlash, joinSlash]
  | cons c cs ih =>
    unfold splitSlash
    split
    · rename_i h
      have hne := splitSlash_ne_nil cs
      cases hs : splitSlash cs with
      | nil => exact absurd hs hne
      | cons p ps =>
        rw [hs] at ih
        rw [joinSlash_cons_cons, ih, h]; rfl
    · cases hs : splitSlash cs with
      | nil => exact absurd hs (splitSlash_ne_nil cs)
      | cons p ps =>
        rw [hs] at ih
        simp only
        cases ps with
        | nil => simp [joinSlash] at ih ⊢; exact ih
        | cons q qs =>
          rw [joinSlash_cons_cons] at ih ⊢
          simp [← ih]

theorem splitSlash_injective {a b : Str} (h : splitSlash a = splitSlash b) : a = b := by
  rw [← joinSlash_splitSlash a, ← joinSlash_splitSlash b, h]

theorem compare_cons_same (f : Nat) (x y : Str) :
    compare (f :: x) (f :: y) = compare x y := by
  rw [List.compare_cons_cons]
  simp [ReflOrd.compare_self]

theorem compare_zero_one (x y : Str) : compare (0 :: x) (1 :: y) = .lt := by
  rw [List.compare_cons_cons]
  have : compare (0:Nat) 1 = .lt := by decide
  simp [this]

theorem compare_one_zero (x y : Str) : compare (1 :: x) (0 :: y) = .gt := by
  rw [List.compare_cons_cons]
  have : compare (1:Nat) 0 = .gt := by decide
  simp [this]

theorem cmpLoop_eq_keys (oa ob : Str) (as bs : List Str) :
    cmpLoop oa ob as bs = compare (keysOf oa as) (keysOf ob bs) := by
  induction as generalizing oa ob bs with
  | nil =>
    cases bs with
    | nil =>
      simp only [cmpLoop, keysOf]
      rw [List.compare_cons_cons, compare_cons_same]
      cases compare oa ob <;> simp
    | cons bc bs =>
      simp only [cmpLoop, keysOf]
      rw [List.compare_cons_cons, compare_zero_one]; rfl
  | cons ac as ih =>
    cases bs with
    | nil =>
      simp only [cmpLoop, keysOf]
      rw [List.compare_cons_cons, compare_one_zero]; rfl
    | cons bc bs =>
      simp only [cmpLoop, keysOf]
      rw [List.compare_cons_cons, compare_cons_same, ih]
      cases compare oa ob <;> rfl

theorem keysOf_injective {oa ob : Str} {as bs : List Str}
    (h : keysOf oa as = keysOf ob bs) : oa = ob ∧ as = bs := by
  induction as generalizing oa ob bs with
  | nil =>
    cases bs with
    | nil => simp [keysOf] at h; exact ⟨h, rfl⟩
    | cons b bs => simp [keysOf] at h
  | cons a as ih =>
    cases bs with
    | nil => simp [keysOf] at h
    | cons b bs =>
      simp only [keysOf, List.cons.injEq] at h
      obtain ⟨⟨_, h1⟩, h2⟩ := h
      obtain ⟨h3, h4⟩ := ih h2
      exact ⟨h1, by rw [h3, h4]⟩

theorem keys_injective {a b : Str} (h : keys a = keys b) : a = b := by
  unfold keys at h
  apply splitSlash_injective
  cases ha : splitSlash a with
  | nil => exact absurd ha (splitSlash_ne_nil a)
  | cons oa as =>
    cases hb : splitSlash b with
    | nil => exact absurd hb (splitSlash_ne_nil b)
    | cons ob bs =>
      rw [ha, hb] at h
      obtain ⟨h1, h2⟩ := keysOf_injective h
      rw [h1, h2]

theorem apathCmp_eq_keys (a b : Str) : apathCmp a b = compare (keys a) (keys b) := by
  unfold apathCmp keys
  cases ha : splitSlash a with
  | nil => exact absurd ha (splitSlash_ne_nil a)
  | cons oa as =>
    cases hb : splitSlash b with
    | nil => exact absurd hb (splitSlash_ne_nil b)
    | cons ob bs => exact cmpLoop_eq_keys oa ob as bs

end Conserve
