import ConserveModel.Proofs.ValidateLens
/-
From `Conforms` (Invariants.lean) to "validate reports nothing": what `bandConforms` /
`blocksConform` say, clause by clause, and why the checks of `check_index_hunks`,
`IndexEntry::check` and the block checks accept it.  No property statements.
-/
set_option linter.unusedSimpArgs false
namespace Conserve

/-! ### List facts -/

theorem filterMap_length_eq {α β : Type} {f : α → Option β} {l : List α}
    (h : (l.filterMap f).length = l.length) : ∀ x ∈ l, (f x).isSome = true := by
  induction l with
  | nil => intro x hx; simp at hx
  | cons a l ih =>
    intro x hx
    have hle := List.length_filterMap_le f l
    cases hf : f a with
    | none =>
      simp only [List.filterMap_cons, hf, List.length_cons] at h
      omega
    | some y =>
      simp only [List.filterMap_cons, hf, List.length_cons, Nat.add_right_cancel_iff] at h
      rcases List.mem_cons.mp hx with rfl | hx
      · simp [hf]
      · exact ih h x hx

/-- The decodable content of a hunk file. -/
def selHunk : Option FileVal → Option (List IndexEntry)
  | some (.hunk es) => some es
  | _ => none

theorem selHunk_isSome {v : Option FileVal} (h : (selHunk v).isSome = true) :
    ∃ es, v = some (.hunk es) := by
  unfold selHunk at h
  split at h
  · exact ⟨_, rfl⟩
  · simp at h

/-- What `bandConforms` says about one version, clause by clause. -/
structure BandOK (H : Str → Str) (s : Store) (b : Nat) : Prop where
  range : hunkNumsOf s b = List.range (hunkNumsOf s b).length
  vals : ∀ n ∈ hunkNumsOf s b, (∃ es, s.get? (.hunk b n) = some (.hunk es)) ∨
    (s.get? (.hunk b n) = some .empty ∧ s.get? (.bandTail b) = none ∧ n + 1 = (hunkNumsOf s b).length)
  entries : ∀ n ∈ hunkNumsOf s b, ∀ es, s.get? (.hunk b n) = some (.hunk es) →
    ∀ e ∈ es, entryConforms H s e = true
  nonempty : ∀ n ∈ hunkNumsOf s b, ∀ es, s.get? (.hunk b n) = some (.hunk es) → es ≠ []
  sorted : strictlySorted ((((hunkNumsOf s b).filterMap fun n => selHunk (s.get? (.hunk b n))).flatten).map
    (·.apath)) = true
  tail : s.get? (.bandTail b) = none ∨
    ((s.get? (.bandTail b) = some (.tail (some (hunkNumsOf s b).length)) ∨ s.get? (.bandTail b) = some .empty) ∧
      ∀ n ∈ hunkNumsOf s b, ∃ es, s.get? (.hunk b n) = some (.hunk es))

theorem bandConforms_unfold (H : Str → Str) (s : Store) (b : Nat) :
    bandConforms H s b =
      (let nums := hunkNumsOf s b
       let vals := nums.map fun n => s.get? (.hunk b n)
       let decoded := vals.filterMap selHunk
       let lastIsLeftover := vals.getLast? == some (some .empty)
       let complete := isComplete s b
       nums == List.range nums.length &&
       (decoded.length == vals.length || (!complete && lastIsLeftover && decoded.length + 1 == vals.length)) &&
       decoded.all (fun es => !es.isEmpty) &&
       (decoded.flatten).all (entryConforms H s) &&
       strictlySorted ((decoded.flatten).map (·.apath)) &&
       (match s.get? (.bandTail b) with
        | none => true
        | some (.tail (some n)) => n == nums.length && decoded.length == vals.length
        | some .empty => decoded.length == vals.length
        | some _ => false) &&
       (match s.get? (.bandHead b) with
        | some (.head _ _) => true
        | some .empty => nums.isEmpty && !complete
        | none => nums.isEmpty && !complete
        | some _ => false)) := rfl

theorem bandOK_of_conforms {H : Str → Str} {s : Store} {b : Nat} (h : bandConforms H s b = true) :
    BandOK H s b := by
  rw [bandConforms_unfold] at h
  simp only [Bool.and_eq_true, beq_iff_eq] at h
  obtain ⟨⟨⟨⟨⟨⟨hrange, hlen⟩, hnonempty⟩, hconf⟩, hsorted⟩, htail⟩, _⟩ := h
  rw [List.filterMap_map] at hconf hsorted hnonempty
  have hall : (((hunkNumsOf s b).map fun n => s.get? (.hunk b n)).filterMap selHunk).length =
      ((hunkNumsOf s b).map fun n => s.get? (.hunk b n)).length →
      ∀ n ∈ hunkNumsOf s b, ∃ es, s.get? (.hunk b n) = some (.hunk es) := by
    intro hl n hn
    exact selHunk_isSome (filterMap_length_eq hl _ (List.mem_map.mpr ⟨n, hn, rfl⟩))
  have htail' : s.get? (.bandTail b) = none ∨
      ((s.get? (.bandTail b) = some (.tail (some (hunkNumsOf s b).length)) ∨ s.get? (.bandTail b) = some .empty) ∧
        ∀ n ∈ hunkNumsOf s b, ∃ es, s.get? (.hunk b n) = some (.hunk es)) := by
    cases ht : s.get? (.bandTail b) with
    | none => exact Or.inl rfl
    | some v =>
      rw [ht] at htail
      cases v with
      | tail c =>
        cases c with
        | none => simp at htail
        | some c =>
          simp only [Bool.and_eq_true, beq_iff_eq] at htail
          exact Or.inr ⟨Or.inl (by rw [htail.1]), hall htail.2⟩
      | empty =>
        simp only [beq_iff_eq] at htail
        exact Or.inr ⟨Or.inr rfl, hall htail⟩
      | _ => simp at htail
  refine ⟨hrange, ?_, ?_, ?_, hsorted, htail'⟩
  rotate_left 2
  · intro n hn es hg he
    rw [List.all_eq_true] at hnonempty
    have := hnonempty es (List.mem_filterMap.mpr ⟨n, hn, by simp [hg, selHunk]⟩)
    simp [he] at this
  · simp only [Bool.or_eq_true, beq_iff_eq, Bool.and_eq_true, Bool.not_eq_true'] at hlen
    rcases hlen with hl | ⟨⟨hcomp, hlast⟩, hl⟩
    · intro n hn; exact Or.inl (hall hl n hn)
    · -- the last hunk file is the zero-length leftover; all others decode
      have htn : s.get? (.bandTail b) = none := by
        rcases htail' with h | ⟨h | h, _⟩
        · exact h
        · simp [isComplete, h, FileVal.isDir] at hcomp
        · simp [isComplete, h, FileVal.isDir] at hcomp
      obtain ⟨ys, hys⟩ := List.getLast?_eq_some_iff.mp hlast
      intro n hn
      generalize hm : (hunkNumsOf s b).length = m at hrange hl
      have hm' : m = ys.length + 1 := by
        have := congrArg List.length hys
        simp only [List.length_map, List.length_append, List.length_singleton] at this
        omega
      subst hm'
      rw [hrange, List.range_succ, List.map_append, List.map_singleton] at hys
      have hlen' : ((List.range ys.length).map fun n => s.get? (.hunk b n)).length = ys.length := by simp
      obtain ⟨h1, h2⟩ := List.append_inj hys hlen'
      rw [hrange] at hn
      rw [List.mem_range] at hn
      by_cases hlt : n < ys.length
      · left
        have hl2 : (ys.filterMap selHunk).length = ys.length := by
          rw [hrange, List.range_succ, List.map_append, List.map_singleton, h1] at hl
          simp only [List.singleton_inj] at h2
          rw [h2] at hl
          simp only [List.filterMap_append, List.length_append, List.length_map, List.length_range,
            List.length_singleton] at hl
          simp only [List.filterMap_cons, selHunk, List.filterMap_nil, List.length_nil] at hl
          omega
        have := filterMap_length_eq hl2 (s.get? (.hunk b n))
          (by rw [← h1]; exact List.mem_map.mpr ⟨n, List.mem_range.mpr hlt, rfl⟩)
        exact selHunk_isSome this
      · right
        have : n = ys.length := by omega
        subst this
        simp only [List.singleton_inj] at h2
        exact ⟨h2, htn, rfl⟩
  · intro n hn es hg e he
    rw [List.all_eq_true] at hconf
    apply hconf e
    rw [List.mem_flatten]
    exact ⟨es, List.mem_filterMap.mpr ⟨n, hn, by simp [hg, selHunk]⟩, he⟩

/-! ### Tree shape: who has a directory -/

theorem parent_dir {s : Store} (hd : DirsOk s) {k p : Key} {v : FileVal} (h : s.get? k = some v)
    (hp : k.parent = some p) : s.get? p = some .dir := by
  have := hd.parent_of_get? h
  simpa [Store.parentOk, hp] using this

theorem bandDir_of_head {s : Store} (hd : DirsOk s) {b : Nat} {v : FileVal}
    (h : s.get? (.bandHead b) = some v) : b ∈ bandIdsOf s :=
  mem_bandIdsOf'.mpr (Store.mem_of_get?' (parent_dir hd h rfl))

theorem indexDir_of_hunk {s : Store} (hd : DirsOk s) {b n : Nat} {v : FileVal}
    (h : s.get? (.hunk b n) = some v) : s.get? (.indexDir b) = some .dir :=
  parent_dir hd (parent_dir hd h rfl) rfl

theorem bandDir_of_hunk {s : Store} (hd : DirsOk s) {b n : Nat} {v : FileVal}
    (h : s.get? (.hunk b n) = some v) : b ∈ bandIdsOf s :=
  mem_bandIdsOf'.mpr (Store.mem_of_get?' (parent_dir hd (indexDir_of_hunk hd h) rfl))

theorem mem_chainBelow_present {s : Store} {x : Nat} : ∀ {b : Nat}, x ∈ chainBelow s b → bandPresent s x = true := by
  intro b
  induction b with
  | zero => intro h; simp [chainBelow] at h
  | succ b ih =>
    intro h
    unfold chainBelow at h
    by_cases hp : bandPresent s b = true
    · simp only [hp, if_true, List.mem_cons] at h
      rcases h with rfl | h
      · exact hp
      · by_cases hc : isComplete s b = true
        · simp [hc] at h
        · simp only [hc] at h; exact ih h
    · simp only [hp] at h; exact ih h

theorem mem_chain_bandIds {s : Store} (hd : DirsOk s) {n x : Nat} (hn : n ∈ bandIdsOf s)
    (hx : x ∈ chain s n) : x ∈ bandIdsOf s := by
  unfold chain at hx
  rcases List.mem_cons.mp hx with rfl | hx
  · exact hn
  · by_cases hc : isComplete s n = true
    · simp [hc] at hx
    · simp only [hc] at hx
      have := mem_chainBelow_present hx
      unfold bandPresent at this
      cases hg : s.get? (.bandHead x) with
      | none => simp [hg] at this
      | some v => exact bandDir_of_head hd hg

/-! ### `badEmptyHunk` -/

theorem badEmptyHunk_all_nonEmpty (c : Bool) (l : List (Nat × Bool)) (h : ∀ p ∈ l, p.2 = true) :
    badEmptyHunk c l = false := by
  induction l with
  | nil => rfl
  | cons p l ih =>
    obtain ⟨n, ne⟩ := p
    have hp : ne = true := h (n, ne) (List.mem_cons_self ..)
    subst hp
    cases l with
    | nil => simp [badEmptyHunk]
    | cons q l =>
      have := ih (fun p hp => h p (List.mem_cons_of_mem _ hp))
      simp [badEmptyHunk, this]

theorem badEmptyHunk_open_last (l : List (Nat × Bool)) (x : Nat × Bool) (h : ∀ p ∈ l, p.2 = true) :
    badEmptyHunk false (l ++ [x]) = false := by
  induction l with
  | nil => obtain ⟨n, ne⟩ := x; simp [badEmptyHunk]
  | cons p l ih =>
    obtain ⟨n, ne⟩ := p
    have hp : ne = true := h (n, ne) (List.mem_cons_self ..)
    subst hp
    have := ih (fun p hp => h p (List.mem_cons_of_mem _ hp))
    cases l with
    | nil => simp [badEmptyHunk] at this ⊢
    | cons q l => simp only [List.cons_append] at this ⊢; simp [badEmptyHunk, this]

theorem badEmptyHunk_closed_of_mem {l : List (Nat × Bool)} {p : Nat × Bool} (hp : p ∈ l) (he : p.2 = false) :
    badEmptyHunk true l = true := by
  induction l with
  | nil => simp at hp
  | cons q l ih =>
    obtain ⟨n, ne⟩ := q
    cases l with
    | nil =>
      simp only [List.mem_singleton] at hp
      subst hp
      simp only at he
      simp [badEmptyHunk, he]
    | cons r l =>
      rcases List.mem_cons.mp hp with rfl | hp
      · simp only at he; simp [badEmptyHunk, he]
      · simp [badEmptyHunk, ih hp]

/-! ### One healthy version -/

theorem entryUsable_of_conforms {H : Str → Str} {s : Store} {e : IndexEntry} (hc : entryConforms H s e = true)
    (ht : (entryTimeNs e.mtime e.mtimeNanos).isSome = true)
    (ha : ∀ a ∈ e.addrs, a.start + a.len < 18446744073709551616) : entryUsable e = true := by
  unfold entryConforms at hc
  unfold entryUsable
  simp only [Bool.and_eq_true] at hc ⊢
  obtain ⟨hv, hk⟩ := hc
  have hall : (e.addrs.all fun a => decide (a.start + a.len < 18446744073709551616)) = true := by
    rw [List.all_eq_true]; intro a h; simpa using ha a h
  cases hkind : e.kind with
  | file => rw [hkind] at hk; simp [hv, ht, hall]
  | dir => rw [hkind] at hk; simp [hv, ht, hall]
  | symlink =>
    rw [hkind] at hk
    simp only [Bool.and_eq_true] at hk
    simp [hv, ht, hall, hk.2]
  | unknown => rw [hkind] at hk; simp at hk

section
variable {H : Str → Str} {s : Store}

theorem Good.dirsOk (g : Good H s) : DirsOk s := by
  have := g.tree
  simp only [treeShaped, List.all_eq_true] at this
  exact this

theorem Good.uniqueKeys (g : Good H s) : UniqueKeys s := by
  have := g.nodup
  simp only [keysNodup, decide_eq_true_eq] at this
  exact (uniqueKeys_iff_nodup s).mpr this

theorem Good.bandOK (g : Good H s) {b : Nat} (hb : b ∈ bandIdsOf s) : BandOK H s b := by
  have := g.conforms
  simp only [Conforms, Bool.and_eq_true, List.all_eq_true] at this
  exact bandOK_of_conforms (this.2 b hb)

theorem Good.root (g : Good H s) : s.get? .root = some .dir := by
  have := g.conforms
  simp only [Conforms, Bool.and_eq_true, beq_iff_eq] at this
  exact this.1.1.1.2

theorem Good.blockRoot (g : Good H s) : s.get? .blockRoot = some .dir := by
  have := g.conforms
  simp only [Conforms, Bool.and_eq_true, beq_iff_eq] at this
  exact this.1.1.2

theorem Good.header (g : Good H s) : s.get? .header = some (.header [48, 46, 54]) := by
  have := g.conforms
  simp only [Conforms, Bool.and_eq_true, beq_iff_eq] at this
  exact this.1.1.1.1

/-- A block file is a zero-length leftover or holds the content its name is the hash of. -/
theorem Good.block (g : Good H s) {h : Str} {v : FileVal} (hg : s.get? (.block h) = some v) :
    v = .empty ∨ ∃ c, v = .blockData c ∧ H c = h := by
  have := g.conforms
  simp only [Conforms, Bool.and_eq_true, blocksConform, List.all_eq_true] at this
  have := this.1.2 _ (Store.mem_of_get?' hg)
  cases v <;> simp at this ⊢
  exact this

theorem Good.blockName_len (g : Good H s) {h : Str} {v : FileVal} (hg : s.get? (.block h) = some v) :
    subdirNameChars ≤ h.length := by
  have hp := parent_dir g.dirsOk hg rfl
  have := g.conforms
  simp only [Conforms, Bool.and_eq_true, blocksConform, List.all_eq_true] at this
  have := this.1.2 _ (Store.mem_of_get?' hp)
  simp only [FileVal.isDir, Bool.true_and, beq_iff_eq, List.length_take] at this
  omega

/-- Every hunk file of a healthy version is usable. -/
theorem Good.hunkError_none (g : Good H s) {b k : Nat} (hb : b ∈ bandIdsOf s) (hk : k ∈ hunkNumsOf s b) :
    hunkError s b k = none := by
  have ok := g.bandOK hb
  unfold hunkError
  rcases ok.vals k hk with ⟨es, he⟩ | ⟨he, _, _⟩
  · rw [he]
    have : es.all entryUsable = true := by
      rw [List.all_eq_true]
      intro e hee
      have hr := g.inRange
      simp only [entriesInRange, List.all_eq_true] at hr
      have hr := hr _ (Store.mem_of_get?' he)
      simp only [List.all_eq_true] at hr
      have hr := hr e hee
      simp only [entryInRange, Bool.and_eq_true, List.all_eq_true, decide_eq_true_eq] at hr
      exact entryUsable_of_conforms (ok.entries k hk es he e hee) hr.1 hr.2
    simp [this]
  · rw [he]

theorem Good.usableHunk_eq (g : Good H s) {b k : Nat} (hb : b ∈ bandIdsOf s) (hk : k ∈ hunkNumsOf s b) :
    usableHunk s b k = selHunk (s.get? (.hunk b k)) ∨
      (usableHunk s b k = some [] ∧ selHunk (s.get? (.hunk b k)) = none) := by
  have hne := g.hunkError_none hb hk
  unfold hunkError at hne
  unfold usableHunk
  rcases (g.bandOK hb).vals k hk with ⟨es, he⟩ | ⟨he, _, _⟩
  · rw [he] at hne ⊢
    left
    by_cases hu : es.all entryUsable = true
    · simp [hu, selHunk]
    · simp [hu] at hne
  · rw [he]; right; simp [selHunk]

theorem flatten_filterMap_congr {α β : Type} {f g : α → Option (List β)} {l : List α}
    (h : ∀ x ∈ l, f x = g x ∨ (f x = some [] ∧ g x = none)) :
    (l.filterMap f).flatten = (l.filterMap g).flatten := by
  induction l with
  | nil => rfl
  | cons a l ih =>
    have ih := ih (fun x hx => h x (List.mem_cons_of_mem _ hx))
    rcases h a (List.mem_cons_self ..) with he | ⟨h1, h2⟩
    · simp only [List.filterMap_cons, he]
      cases g a <;> simp [ih]
    · simp [List.filterMap_cons, h1, h2, ih]

theorem Good.ownEntries_sorted (g : Good H s) {b : Nat} (hb : b ∈ bandIdsOf s) :
    strictlySorted ((ownEntries s b).map (·.apath)) = true := by
  unfold ownEntries
  rw [flatten_filterMap_congr (g := fun n => selHunk (s.get? (.hunk b n)))
    (fun k hk => g.usableHunk_eq hb hk)]
  exact (g.bandOK hb).sorted

theorem Good.archWF (g : Good H s) : ArchWF s := by
  refine ⟨g.nodup, g.tree, ?_⟩
  simp only [bandsSorted, List.all_eq_true]
  intro kv hm
  split
  · rename_i b n hk
    obtain ⟨k, v⟩ := kv
    simp only at hk
    subst hk
    exact g.ownEntries_sorted (bandDir_of_hunk g.dirsOk (Store.get?_of_mem_unique g.uniqueKeys hm))
  · rfl

theorem Good.archOK (g : Good H s) : ArchOK s := ⟨g.archWF, g.root, g.blockRoot⟩

/-- `check_index_hunks` accepts a healthy version. -/
theorem Good.indexCheck_none (g : Good H s) {b : Nat} (hb : b ∈ bandIdsOf s) : indexCheckError s b = none := by
  have ok := g.bandOK hb
  have hr : (hunkNumsOf s b != List.range (hunkNumsOf s b).length) = false := by
    simp only [bne_eq_false_iff_eq]; exact ok.range
  have hne : ∀ n, (∃ es, s.get? (.hunk b n) = some (.hunk es)) → hunkNonEmpty s b n = true := by
    rintro n ⟨es, he⟩; simp [hunkNonEmpty, he]
  unfold indexCheckError
  simp only [hr, Bool.false_eq_true, if_false]
  rcases ok.tail with ht | ⟨ht, hall⟩
  · -- no tail: the last hunk may be a zero-length leftover
    have hti : tailInfo s b = (false, none) := by simp [tailInfo, ht]
    rw [hti]
    simp only [countMismatch, Bool.false_eq_true, if_false]
    have : badEmptyHunk false ((hunkNumsOf s b).map fun n => (n, hunkNonEmpty s b n)) = false := by
      generalize hm : (hunkNumsOf s b).length = m
      have hrange := ok.range
      rw [hm] at hrange
      cases m with
      | zero => rw [hrange]; rfl
      | succ m =>
        rw [hrange, List.range_succ, List.map_append, List.map_singleton]
        apply badEmptyHunk_open_last
        intro p hp
        obtain ⟨n, hn, rfl⟩ := List.mem_map.mp hp
        have hn' := List.mem_range.mp hn
        have hmem : n ∈ hunkNumsOf s b := by rw [hrange]; exact List.mem_range.mpr (by omega)
        rcases ok.vals n hmem with hd | ⟨_, _, hl⟩
        · exact hne n hd
        · omega
    simp [this]
  · have hall' : ∀ p ∈ (hunkNumsOf s b).map fun n => (n, hunkNonEmpty s b n), p.2 = true := by
      intro p hp
      obtain ⟨n, hn, rfl⟩ := List.mem_map.mp hp
      exact hne n (hall n hn)
    have hb' := badEmptyHunk_all_nonEmpty (tailInfo s b).1 _ hall'
    rcases ht with ht | ht
    · have hti : (tailInfo s b).2 = some (hunkNumsOf s b).length := by simp [tailInfo, ht]
      simp [hti, countMismatch, hb']
    · have hti : (tailInfo s b).2 = none := by simp [tailInfo, ht]
      simp [hti, countMismatch, hb']

/-- Listing any version of a healthy archive reports nothing. -/
theorem bandPresent_of_readable {s : Store} {b : Nat} (h : bandReadable s b = true) :
    bandPresent s b = true := by
  unfold bandReadable at h
  unfold bandPresent
  cases hg : s.get? (.bandHead b) with
  | none => simp [hg] at h
  | some v => cases v <;> simp [hg, FileVal.isDir] at h ⊢

/-- In a healthy archive no version has lost its head: whatever holds a hunk has a readable head. -/
theorem Good.headLost_false (g : Good H s) (c : Nat) : headLost s c = false := by
  unfold headLost
  cases hg : s.get? (.hunk c 0) with
  | none => simp
  | some v => simp [bandPresent_of_readable (g.heads c (bandDir_of_hunk g.dirsOk hg))]

/-- Listing any version of a healthy archive reports nothing. -/
theorem Good.listErrors_nil (g : Good H s) {b : Nat} (hb : b ∈ bandIdsOf s) : listErrors s b = [] := by
  apply C08.stitch_silent
  · intro x hx
    have hxb := mem_chain_bandIds g.dirsOk hb hx
    exact ⟨g.heads x hxb, g.indexCheck_none hxb, fun k hk => g.hunkError_none hxb hk⟩
  · exact fun c _ => g.headLost_false c

theorem Good.headError_none (g : Good H s) {b : Nat} (hb : b ∈ bandIdsOf s) : headError s b = none := by
  have := ((bandReadable_iff s b).mp (g.heads b hb)).1
  rw [headError_eq] at this
  cases hh : headError s b with
  | none => rfl
  | some e => rw [hh] at this; simp at this

/-- What a listed address resolves to. -/
def Resolves (H : Str → Str) (s : Store) (h : Str) (n : Nat) : Prop :=
  ∃ c, s.get? (.block h) = some (.blockData c) ∧ H c = h ∧ n ≤ c.length

theorem resolves_of_readAddrPure {a : Addr} (h : (readAddrPure H s a).isSome = true) :
    Resolves H s a.hash (a.start + a.len) := by
  unfold readAddrPure blockContent at h
  cases hg : s.get? (.block a.hash) with
  | none => simp [hg] at h
  | some v =>
    cases v with
    | blockData c =>
      by_cases hc : H c = a.hash
      · simp only [hg, hc, if_true, Option.bind_some, sliceOf] at h
        by_cases hl : a.start + a.len ≤ c.length
        · exact ⟨c, hg, hc, hl⟩
        · simp [hl] at h
      · simp [hg, hc] at h
    | _ => simp [hg] at h

/-- Every listed entry of a healthy archive conforms. -/
theorem Good.listed_conforms (g : Good H s) {n : Nat} {e : IndexEntry} (he : e ∈ listSpec s n) :
    entryConforms H s e = true := by
  obtain ⟨b, k, es, hg, _, hee⟩ := C08.listed_is_stored he
  have hb := bandDir_of_hunk g.dirsOk hg
  exact (g.bandOK hb).entries k (hunkNumsOf_of_get? hg rfl) es hg e hee

theorem Good.referenced_resolve (g : Good H s) : ∀ p ∈ referencedOf s, Resolves H s p.1 p.2 := by
  apply referenced_inv (Resolves H s)
  · rintro h a b ⟨c, hg, hc, hl⟩ ⟨c', hg', _, hl'⟩
    rw [hg] at hg'
    cases hg'
    exact ⟨c, hg, hc, Nat.max_le.mpr ⟨hl, hl'⟩⟩
  · intro b _ _ e he hk a ha
    have hc := g.listed_conforms he
    unfold entryConforms at hc
    rw [hk] at hc
    simp only [Bool.and_eq_true, List.all_eq_true] at hc
    exact resolves_of_readAddrPure (hc.2.2 a ha)

theorem Good.resolves_present (g : Good H s) {h : Str} {n : Nat} (hr : Resolves H s h n) :
    h ∈ blockNamesOf s := by
  obtain ⟨c, hg, _, _⟩ := hr
  exact (mem_blockNamesOf g.uniqueKeys g.dirsOk).mpr ⟨⟨_, hg, rfl, rfl⟩, g.blockName_len hg⟩

theorem blockRead_of_resolves {h : Str} {n : Nat} (hr : Resolves H s h n) :
    ∃ c, blockRead H s h = .ok c ∧ n ≤ c.length := by
  obtain ⟨c, hg, hc, hl⟩ := hr
  exact ⟨c, by simp [blockRead, hg, hc], hl⟩

/-- **Healthy ⇒ silent**, on the specification side. -/
theorem Good.validateErrors_nil (g : Good H s) (quick : Bool) : validateErrors H quick s = [] := by
  unfold validateErrors
  have hbands : (bandIdsOf s).flatMap (bandValidateErrors s) = [] := by
    rw [List.flatMap_eq_nil_iff]
    intro b hb
    simp [bandValidateErrors, g.headError_none hb, g.listErrors_nil hb]
  rw [hbands, List.nil_append]
  cases quick with
  | true =>
    simp only [if_true, List.filterMap_eq_nil_iff]
    intro p hp
    have := g.resolves_present (g.referenced_resolve p hp)
    simp [refErrorQuick, this]
  | false =>
    simp only [Bool.false_eq_true, if_false, List.append_eq_nil_iff, List.filterMap_eq_nil_iff]
    constructor
    · intro h hh
      have hh' : h ∈ blockNamesOf s := by simpa [presentSorted, List.mem_mergeSort] using hh
      obtain ⟨⟨v, hg, hnd, hne⟩, _⟩ := (mem_blockNamesOf g.uniqueKeys g.dirsOk).mp hh'
      rcases g.block hg with rfl | ⟨c, rfl, hc⟩
      · simp [FileVal.isEmptyFile] at hne
      · simp [blockReadError, blockRead, hg, hc]
    · intro p hp
      have hr := g.referenced_resolve p hp
      obtain ⟨c, hc, hl⟩ := blockRead_of_resolves hr
      have : ¬ p.2 > c.length := by omega
      simp [refErrorFull, g.resolves_present hr, hc, this]

end

end Conserve
