import ConserveModel.Proofs.FsLink
import ConserveModel.Proofs.ProgLemmas
import ConserveModel.Props.C11Walk
import ConserveModel.Props.C12
/-
The guard of `restore()` (commit 7db24bb): nothing is restored below a symlink restored earlier
in the same listing.  What `restoreEntries` returns therefore satisfies `ConfinableL` whenever
the listing has valid, strictly increasing apaths — for complete and for stitched listings.
-/
namespace Conserve

/-- Every value the program can return satisfies `Q` (in every world, with any faults). -/
inductive Prog.Post {α : Type} (Q : α → Prop) : Prog α → Prop
  | ret {a : α} : Q a → Post Q (.ret a)
  | fail (e : Err) : Post Q (.fail e)
  | panic (s : String) : Post Q (.panic s)
  | emit (ev : Event) {k : Prog α} : Post Q k → Post Q (.emit ev k)
  | op {o : Op} {k : Resp → Prog α} : (∀ r, Post Q (k r)) → Post Q (.op o k)

theorem Prog.Post.bind {α β : Type} {R : α → Prop} {Q : β → Prop} {p : Prog α} {f : α → Prog β}
    (hp : Prog.Post R p) (hf : ∀ a, R a → Prog.Post Q (f a)) : Prog.Post Q (p.bind f) := by
  induction hp with
  | ret ha => exact hf _ ha
  | fail e => exact .fail e
  | panic s => exact .panic s
  | emit ev _ ih => exact .emit ev ih
  | op _ ih => exact .op ih

theorem Prog.Post.trivial {α : Type} (p : Prog α) : Prog.Post (fun _ => True) p := by
  induction p with
  | ret a => exact .ret True.intro
  | fail e => exact .fail e
  | panic s => exact .panic s
  | emit ev k ih => exact .emit ev ih
  | op o k ih => exact .op ih

theorem Prog.Post.mono {α : Type} {Q Q' : α → Prop} {p : Prog α} (h : Prog.Post Q p)
    (hq : ∀ a, Q a → Q' a) : Prog.Post Q' p := by
  induction h with
  | ret ha => exact .ret (hq _ ha)
  | fail e => exact .fail e
  | panic s => exact .panic s
  | emit ev _ ih => exact .emit ev ih
  | op _ ih => exact .op ih

theorem Prog.Post.run {α : Type} {Q : α → Prop} {p : Prog α} (h : Prog.Post Q p) :
    ∀ (w : World) (a : α) (w' : World), p.run w = (.ok a, w') → Q a := by
  induction h with
  | ret ha =>
    intro w a w' hr
    simp only [Prog.run_ret, Prod.mk.injEq, Outcome.ok.injEq] at hr
    rw [← hr.1]; exact ha
  | fail e => intro w a w' hr; simp at hr
  | panic s => intro w a w' hr; simp at hr
  | emit ev _ ih => intro w a w' hr; rw [Prog.run_emit] at hr; exact ih _ a w' hr
  | op _ ih => intro w a w' hr; rw [Prog.run_op] at hr; exact ih _ _ a w' hr

theorem Prog.Post.logError_bind {β : Type} {Q : β → Prop} {e : Err} {f : Unit → Prog β}
    (h : Prog.Post Q (f ())) : Prog.Post Q ((Prog.logError e).bind f) := .emit _ h

/-! ### What the guard guarantees about the returned nodes -/

/-- No node is below one of `syms` or below a symlink node that precedes it. -/
def guardedFrom : List Str → List RNode → Prop
  | _, [] => True
  | syms, n :: rest =>
    belowSymlink syms n.apath = false ∧
      guardedFrom (if n.kind = .symlink then n.apath :: syms else syms) rest

def nodeKey (n : RNode) : Str × Kind := (n.apath, n.kind)
def entryKey (e : IndexEntry) : Str × Kind := (e.apath, e.kind)

/-- The nodes are guarded, and they are (by apath and kind) a sub-list of the listing. -/
def GuardedOut (syms : List Str) (es : List IndexEntry) (nodes : List RNode) : Prop :=
  guardedFrom syms nodes ∧ (nodes.map nodeKey).Sublist (es.map entryKey)

section
variable (H : Str → Str)

theorem restoreEntries_post : ∀ (es : List IndexEntry) (syms : List Str),
    Prog.Post (GuardedOut syms es) (restoreEntries H syms es) := by
  intro es
  induction es with
  | nil => intro syms; exact .ret ⟨True.intro, List.Sublist.slnil⟩
  | cons e es ih =>
    intro syms
    have skip : ∀ nodes, GuardedOut syms es nodes → GuardedOut syms (e :: es) nodes :=
      fun nodes h => ⟨h.1, h.2.cons _⟩
    unfold restoreEntries
    split
    · exact .emit _ ((ih syms).mono skip)
    · rename_i hguard
      have hg : belowSymlink syms e.apath = false := by
        cases h : belowSymlink syms e.apath with
        | false => rfl
        | true => exact absurd h hguard
      -- a node made from `e`, not a symlink, in front of guarded nodes
      have keep : ∀ (n : RNode) (rest : List RNode), n.apath = e.apath → n.kind = e.kind →
          e.kind ≠ .symlink → GuardedOut syms es rest → GuardedOut syms (e :: es) (n :: rest) := by
        intro n rest ha hk hns h
        refine ⟨⟨by rw [ha]; exact hg, ?_⟩, ?_⟩
        · rw [if_neg (by rw [hk]; exact hns)]; exact h.1
        · simp only [List.map_cons]
          have : nodeKey n = entryKey e := by simp [nodeKey, entryKey, ha, hk]
          rw [this]; exact h.2.cons_cons _
      split
      · rename_i hk
        split
        · exact .panic _
        · exact Prog.Post.bind (ih syms) fun rest h =>
            .ret (keep _ rest rfl rfl (by rw [hk]; decide) h)
      · rename_i hk
        refine Prog.Post.bind (Prog.Post.trivial _) ?_
        rintro ⟨bytes, bad⟩ -
        simp only []
        split
        · refine Prog.Post.logError_bind ?_
          exact Prog.Post.bind (ih syms) fun rest h =>
            .ret (keep _ rest rfl rfl (by rw [hk]; decide) h)
        · split
          · exact .panic _
          · exact Prog.Post.bind (ih syms) fun rest h =>
              .ret (keep _ rest rfl rfl (by rw [hk]; decide) h)
      · rename_i hk
        split
        · exact .emit _ ((ih syms).mono skip)
        · split
          · exact .panic _
          · refine Prog.Post.bind (ih (e.apath :: syms)) fun rest h => .ret ?_
            refine ⟨⟨hg, ?_⟩, ?_⟩
            · have : (RNode.ofEntry e).kind = .symlink := hk
              rw [if_pos this]; exact h.1
            · simp only [List.map_cons]
              exact h.2.cons_cons _
      · exact .emit _ ((ih syms).mono skip)

end

/-! ### From the guard to `ConfinableL` -/

/-- A proper ancestor sorts before its descendants. -/
theorem ancestor_lt {cs : List Str} {x : Str} {t : List Str} (h : GoodComps (cs ++ x :: t)) :
    apathCmp (pathOf cs) (pathOf (cs ++ x :: t)) = .lt := by
  by_cases hcs : cs = []
  · subst hcs
    exact C11.root_lt_pathOf h
  · obtain ⟨cs', y, rfl⟩ : ∃ cs' y, cs = cs' ++ [y] :=
      ⟨cs.dropLast, cs.getLast hcs, (List.dropLast_concat_getLast hcs).symm⟩
    have h2 : GoodComps (cs' ++ y :: x :: t) := by simpa using h
    have := apathCmp_child_deeper (cs := cs') (x := y) (y := y) (z := x) (t := t)
      (by
        intro c hc
        apply h2 c
        rcases List.mem_append.1 hc with h' | h'
        · exact List.mem_append_left _ h'
        · exact List.mem_append_right _ (by simpa using Or.inl (List.mem_singleton.1 h')))
      h2
    simpa using this

theorem belowSymlink_of_mem {syms : List Str} {p a : Str} (hp : p ∈ syms) (hv : isValid p = true)
    (ha : isValid a = true) (hroot : components p ≠ []) (hpre : components p <+: components a)
    (hne : components p ≠ components a) : belowSymlink syms a = true := by
  unfold belowSymlink
  refine List.any_eq_true.2 ⟨p, hp, ?_⟩
  have h1 : p ≠ [slash] := fun e => hroot (by rw [e]; rfl)
  have h2 : p ≠ a := fun e => hne (by rw [e])
  have h3 : isPrefixOfImpl p a = true := by
    rw [C12.prefix_iff_ancestor p a hv ha]
    exact List.isPrefixOf_iff_prefix.2 hpre
  simp [h1, h2, h3]

theorem guardedFrom_mono : ∀ (nodes : List RNode) (syms syms' : List Str), (∀ s ∈ syms, s ∈ syms') →
    guardedFrom syms' nodes → guardedFrom syms nodes := by
  intro nodes
  induction nodes with
  | nil => intro _ _ _ _; trivial
  | cons n rest ih =>
    intro syms syms' hsub h
    refine ⟨?_, ih _ _ ?_ h.2⟩
    · cases hb : belowSymlink syms n.apath with
      | false => rfl
      | true =>
        unfold belowSymlink at hb
        obtain ⟨p, hp, hc⟩ := List.any_eq_true.1 hb
        have : belowSymlink syms' n.apath = true := List.any_eq_true.2 ⟨p, hsub p hp, hc⟩
        rw [h.1] at this; cases this
    · intro s hs
      by_cases hk : n.kind = .symlink
      · rw [if_pos hk] at hs ⊢
        rcases List.mem_cons.1 hs with e | hs
        · exact e ▸ List.mem_cons_self
        · exact List.mem_cons_of_mem _ (hsub s hs)
      · rw [if_neg hk] at hs ⊢
        exact hsub s hs

/-- In a guarded list, a later node is never below an earlier symlink node (root apart). -/
theorem guardedFrom_no_later_below : ∀ (nodes : List RNode) (syms : List Str), guardedFrom syms nodes →
    (∀ n ∈ nodes, isValid n.apath = true) →
    nodes.Pairwise fun m n => m.kind = .symlink → comps m ≠ [] → comps m <+: comps n →
      comps m = comps n := by
  intro nodes
  induction nodes with
  | nil => intro _ _ _; exact List.Pairwise.nil
  | cons m rest ih =>
    intro syms h hv
    refine List.pairwise_cons.2 ⟨fun n hn hk hroot hpre => ?_, ih _ h.2 (fun n hn => hv n (List.mem_cons_of_mem _ hn))⟩
    apply Classical.byContradiction
    intro hne
    -- `n` is guarded against `m.apath`
    have h2 := h.2
    rw [if_pos hk] at h2
    have hvn : ∀ n ∈ rest, isValid n.apath = true := fun n hn => hv n (List.mem_cons_of_mem _ hn)
    have : ∀ (l : List RNode) (syms' : List Str), m.apath ∈ syms' → guardedFrom syms' l → n ∈ l →
        belowSymlink [m.apath] n.apath = false := by
      intro l
      induction l with
      | nil => intro _ _ _ hn'; cases hn'
      | cons a l ihl =>
        intro syms' hm hg hn'
        rcases List.mem_cons.1 hn' with e | hn'
        · subst e
          exact (guardedFrom_mono [n] [m.apath] syms' (fun s hs => by
            rw [List.mem_singleton.1 hs]; exact hm) ⟨hg.1, trivial⟩).1
        · refine ihl _ ?_ hg.2 hn'
          by_cases hk' : a.kind = .symlink
          · rw [if_pos hk']; exact List.mem_cons_of_mem _ hm
          · rw [if_neg hk']; exact hm
    have hfalse := this rest _ List.mem_cons_self h2 hn
    have htrue := belowSymlink_of_mem (syms := [m.apath]) List.mem_cons_self (hv m List.mem_cons_self)
      (hvn n hn) hroot hpre hne
    rw [hfalse] at htrue; cases htrue

/-- **Guarded, valid, strictly increasing ⇒ confinable.** -/
theorem confinableL_of_guarded {nodes : List RNode} (hg : guardedFrom [] nodes)
    (hv : ∀ n ∈ nodes, isValid n.apath = true)
    (hs : nodes.Pairwise fun a b => apathCmp a.apath b.apath = .lt) : ConfinableL nodes := by
  have hdist : nodes.Pairwise (fun a b => comps a ≠ comps b) :=
    hs.imp_of_mem fun {a b} ha hb hlt e => by
      have ea := (valid_eq_pathOf (hv a ha)).2
      have eb := (valid_eq_pathOf (hv b hb)).2
      have : a.apath = b.apath := by rw [ea, eb]; unfold comps at e; rw [e]
      rw [this] at hlt
      exact C11.cmp_irrefl _ hlt
  refine ⟨hv, hdist, ?_⟩
  intro m hm n hn hroot hpre hne hk
  -- `m` sorts before `n`, so it comes earlier in the list
  obtain ⟨t, ht⟩ := hpre
  have hlt : apathCmp m.apath n.apath = .lt := by
    obtain ⟨hgm, em⟩ := valid_eq_pathOf (hv m hm)
    obtain ⟨hgn, en⟩ := valid_eq_pathOf (hv n hn)
    cases t with
    | nil => exact absurd (by simpa using ht) hne
    | cons x t =>
      rw [em, en]
      show apathCmp (pathOf (comps m)) (pathOf (comps n)) = .lt
      rw [← ht]
      exact ancestor_lt (by rw [ht]; exact hgn)
  have hlater := guardedFrom_no_later_below nodes [] hg hv
  -- position of m and n
  have key : ∀ (l : List RNode), l.Pairwise (fun a b => apathCmp a.apath b.apath = .lt) →
      l.Pairwise (fun m n => m.kind = .symlink → comps m ≠ [] → comps m <+: comps n → comps m = comps n) →
      m ∈ l → n ∈ l → False := by
    intro l
    induction l with
    | nil => intro _ _ hm'; cases hm'
    | cons a l ih =>
      intro hs' hl' hm' hn'
      obtain ⟨hsa, hsl⟩ := List.pairwise_cons.1 hs'
      obtain ⟨hla, hll⟩ := List.pairwise_cons.1 hl'
      rcases List.mem_cons.1 hm' with em | hm'' <;> rcases List.mem_cons.1 hn' with en | hn''
      · rw [em, en] at hne; exact hne rfl
      · subst em
        exact hne (hla n hn'' hk hroot ⟨t, ht⟩)
      · subst en
        have := hsa m hm''
        exact C11.cmp_irrefl _ (C11.cmp_trans this hlt)
      · exact ih hsl hll hm'' hn''
  exact key nodes hs hlater hm hn

theorem belowSymlink_mono {l l' : List Str} {a : Str} (hsub : ∀ s ∈ l, s ∈ l')
    (h : belowSymlink l' a = false) : belowSymlink l a = false := by
  cases hb : belowSymlink l a with
  | false => rfl
  | true =>
    unfold belowSymlink at hb
    obtain ⟨p, hp, hc⟩ := List.any_eq_true.1 hb
    have : belowSymlink l' a = true := List.any_eq_true.2 ⟨p, hsub p hp, hc⟩
    rw [h] at this; cases this

/-- The guard, position by position: a node is below neither one of the initial `syms` nor a
symlink node that precedes it. -/
theorem guardedFrom_split : ∀ (pre : List RNode) (syms : List Str) (n : RNode) (post : List RNode),
    guardedFrom syms (pre ++ n :: post) →
    ∀ s, (s ∈ syms ∨ ∃ m ∈ pre, m.kind = .symlink ∧ m.apath = s) → belowSymlink [s] n.apath = false := by
  intro pre
  induction pre with
  | nil =>
    intro syms n post h s hs
    rcases hs with hs | ⟨m, hm, _⟩
    · exact belowSymlink_mono (fun x hx => by rw [List.mem_singleton.1 hx]; exact hs) h.1
    · cases hm
  | cons a pre ih =>
    intro syms n post h s hs
    refine ih _ n post h.2 s ?_
    rcases hs with hs | ⟨m, hm, hk, e⟩
    · left
      by_cases hk : a.kind = .symlink
      · rw [if_pos hk]; exact List.mem_cons_of_mem _ hs
      · rw [if_neg hk]; exact hs
    · rcases List.mem_cons.1 hm with rfl | hm
      · left; rw [if_pos hk, ← e]; exact List.mem_cons_self
      · exact Or.inr ⟨m, hm, hk, e⟩

/-- What `restoreEntries` returns for a listing with valid, strictly increasing apaths can be
replayed without leaving the destination. -/
theorem guardedOut_confinableL {es : List IndexEntry} {nodes : List RNode}
    (hv : ∀ e ∈ es, isValid e.apath = true)
    (hs : es.Pairwise fun a b => apathCmp a.apath b.apath = .lt) (h : GuardedOut [] es nodes) :
    ConfinableL nodes := by
  obtain ⟨hg, hsub⟩ := h
  have hv' : ∀ n ∈ nodes, isValid n.apath = true := by
    intro n hn
    have : nodeKey n ∈ es.map entryKey := hsub.subset (List.mem_map.2 ⟨n, hn, rfl⟩)
    obtain ⟨e, he, hk⟩ := List.mem_map.1 this
    have : e.apath = n.apath := congrArg Prod.fst hk
    rw [← this]; exact hv e he
  have hs' : nodes.Pairwise fun a b => apathCmp a.apath b.apath = .lt := by
    have h1 : (es.map entryKey).Pairwise fun a b => apathCmp a.1 b.1 = .lt :=
      List.pairwise_map.2 hs
    have h2 := h1.sublist hsub
    exact List.pairwise_map.1 h2
  exact confinableL_of_guarded hg hv' hs'

end Conserve
