import ConserveModel.Proofs.ProtocolInv4
/-
Invariants of the protocol skeleton, group 5: the backup's own band under the hypothesis of
`c06_partial` (stated on the log so far; every disjunct is closed under taking older logs).
-/
set_option linter.unusedVariables false  -- uniform lemma signatures

namespace Conserve.Proto

/-- One of the four safe orders holds of a log (newest event first). -/
def SafeLog (c : Config) (log : List Ev) : Prop :=
  mkdirBeforeCheck log = true ∨ lockWriteBeforeLockCheck log = true ∨
    (∀ g ∈ c.needed, ¬ garbage c g) ∨ rmBlocksBeforeListBlocks log = true

/-- While the backup handles blocks, what it believes to exist (and needs) does exist. -/
def Snapshot (c : Config) (p : State) : Prop :=
  SafeLog c p.log → p.b.pc = .blocks → ∀ g ∈ p.b.needed, g ∈ p.b.exists_ → g ∈ p.present
/-- Every block the backup's band refers to is present. -/
def NewSafe (c : Config) (p : State) : Prop :=
  SafeLog c p.log → ∀ b ∈ p.bands, isNew p b → ∀ g ∈ b.refs, g ∈ p.present
/-- If gc wrote its lock before the backup looked, the backup refused or gc had finished. -/
def LockedOut (p : State) : Prop :=
  lockWriteBeforeLockCheck p.log = true → p.b.pc ≠ .lockCheck → p.b.pc ≠ .refused → p.g.pc.fin = true

/-- Like `pres_step`, but hypotheses are not used to rewrite one another. -/
syntax "pres_step' " ident : tactic
macro_rules
  | `(tactic| pres_step' $f) => `(tactic|
    (unfold $f
     repeat' split
     all_goals
       ((try simp [isNew, BPc.mkdirDone, BPc.listIdDone, GPc.pending, GPc.pending2, GPc.locked, GPc.fin,
                       newestClosed, *] at *) <;>
        grind [setHead_of_ne, setRefs_of_ne, setComplete_of_ne, setRefs_of_eq, setHead_id, setRefs_id,
               setComplete_id, setHead_refs, setComplete_refs, setHead_complete, setRefs_complete])))

structure Inv5 (c : Config) (p : State) : Prop where
  snapshot : Snapshot c p
  newSafe : NewSafe c p
  lockedOut : LockedOut p

theorem Inv5.start (c : Config) : Inv5 c c.start := by
  constructor <;>
    simp [Config.start, isNew, BPc.mkdirDone, Snapshot, NewSafe, LockedOut]

section
variable {c : Config} {p : State}
attribute [local simp] Ev.isRmBlock

theorem Snapshot.presB (h1 : Inv1 c p) (h2 : Inv2 c p) (h3 : Inv3 c p) (h4 : Inv4 c p) (h : Inv5 c p) :
    Snapshot c (stepB p) := by
  have g1 := h.snapshot
  simp only [Snapshot, SafeLog, garbage] at *
  pres_step stepB

theorem Snapshot.presG_sweep (h1 : Inv1 c p) (h2 : Inv2 c p) (h3 : Inv3 c p) (h4 : Inv4 c p) (h : Inv5 c p)
    (hpc : p.g.pc = .sweep) : Snapshot c (stepG p) := by
  have g1 := h.snapshot
  have g3 := h.lockedOut
  have f6 := h4.checkLemma
  have f7 := h4.windowUnref
  have e7 := h3.unrefOld
  have htk := h1.todoBlocks
  have hsp := h1.sweepPassed
  have hlb := h1.logListBlocks
  have hnd := h1.needed
  simp only [Snapshot, SafeLog, garbage, LockedOut, CheckLemma, WindowUnref, UnrefOld] at *
  unfold stepG
  simp only [hpc]
  repeat' split
  all_goals
    ((try simp [isNew, BPc.mkdirDone, GPc.fin, *] at *) <;> grind)

theorem Snapshot.presG_other (h : Inv5 c p) (hpc : p.g.pc ≠ .sweep) : Snapshot c (stepG p) := by
  have g1 := h.snapshot
  simp only [Snapshot, SafeLog, garbage] at *
  pres_step' stepG

theorem Snapshot.presG (h1 : Inv1 c p) (h2 : Inv2 c p) (h3 : Inv3 c p) (h4 : Inv4 c p) (h : Inv5 c p) :
    Snapshot c (stepG p) := by
  by_cases hpc : p.g.pc = .sweep
  · exact Snapshot.presG_sweep h1 h2 h3 h4 h hpc
  · exact Snapshot.presG_other h hpc

theorem NewSafe.presB (h1 : Inv1 c p) (h2 : Inv2 c p) (h3 : Inv3 c p) (h4 : Inv4 c p) (h : Inv5 c p) :
    NewSafe c (stepB p) := by
  have g2 := h.newSafe
  have g1 := h.snapshot
  have f1 := h4.handled
  have o2 := h2.below
  have hb := @hasBand_iff p.bands p.b.newId
  simp only [NewSafe, SafeLog, garbage, Snapshot, Handled, Below] at *
  pres_step' stepB

theorem NewSafe.presG_sweep (h1 : Inv1 c p) (h2 : Inv2 c p) (h3 : Inv3 c p) (h4 : Inv4 c p) (h : Inv5 c p)
    (hpc : p.g.pc = .sweep) : NewSafe c (stepG p) := by
  have g2 := h.newSafe
  have g3 := h.lockedOut
  have f6 := h4.checkLemma
  have f7 := h4.windowUnref
  have e7 := h3.unrefOld
  have htk := h1.todoBlocks
  have hsp := h1.sweepPassed
  have hlb := h1.logListBlocks
  have hnd := h1.needed
  have o3 := h2.newBand
  simp only [NewSafe, SafeLog, garbage, LockedOut, CheckLemma, WindowUnref, UnrefOld, NewBand] at *
  unfold stepG
  simp only [hpc]
  repeat' split
  all_goals
    ((try simp [isNew, BPc.mkdirDone, GPc.fin, *] at *) <;> grind)

theorem NewSafe.presG_other (h : Inv5 c p) (hpc : p.g.pc ≠ .sweep) : NewSafe c (stepG p) := by
  have g2 := h.newSafe
  simp only [NewSafe, SafeLog, garbage] at *
  pres_step' stepG

theorem NewSafe.presG (h1 : Inv1 c p) (h2 : Inv2 c p) (h3 : Inv3 c p) (h4 : Inv4 c p) (h : Inv5 c p) :
    NewSafe c (stepG p) := by
  by_cases hpc : p.g.pc = .sweep
  · exact NewSafe.presG_sweep h1 h2 h3 h4 h hpc
  · exact NewSafe.presG_other h hpc
theorem LockedOut.presB (h1 : Inv1 c p) (h2 : Inv2 c p) (h3 : Inv3 c p) (h4 : Inv4 c p) (h : Inv5 c p) :
    LockedOut (stepB p) := by
  have g3 := h.lockedOut
  have hlw := h1.logLockWrite
  have hlk := h1.lock
  simp only [LockedOut] at *
  pres_step stepB

theorem LockedOut.presG (h1 : Inv1 c p) (h2 : Inv2 c p) (h3 : Inv3 c p) (h4 : Inv4 c p) (h : Inv5 c p) :
    LockedOut (stepG p) := by
  have g3 := h.lockedOut
  simp only [LockedOut] at *
  pres_step stepG

theorem Inv5.presB (h1 : Inv1 c p) (h2 : Inv2 c p) (h3 : Inv3 c p) (h4 : Inv4 c p) (h : Inv5 c p) :
    Inv5 c (stepB p) :=
  ⟨Snapshot.presB h1 h2 h3 h4 h, NewSafe.presB h1 h2 h3 h4 h, LockedOut.presB h1 h2 h3 h4 h⟩

theorem Inv5.presG (h1 : Inv1 c p) (h2 : Inv2 c p) (h3 : Inv3 c p) (h4 : Inv4 c p) (h : Inv5 c p) :
    Inv5 c (stepG p) :=
  ⟨Snapshot.presG h1 h2 h3 h4 h, NewSafe.presG h1 h2 h3 h4 h, LockedOut.presG h1 h2 h3 h4 h⟩

end

end Conserve.Proto
