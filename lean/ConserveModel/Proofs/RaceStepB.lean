import ConserveModel.Proofs.RaceStable
/-
C06 on the full model — every single storage operation of `delete_bands` preserves the joint
invariant `J`.  No property statements here.
-/
namespace Conserve.Race
open Conserve Prog Conserve.Conf Conserve.Inv

variable {H : Str → Str}

/-! ### `Cross` when only the collector's position changes -/

theorem Cross.gc {β : BSt} {γ γ' : GSt} {s : Store} (h : Cross β γ s)
    (h1 : ∀ m, γ'.chk = some m → γ.chk = some m) (h2 : γ'.preSweep = true → γ.preSweep = true)
    (h3 : γ'.sweeping = true → γ.sweeping = true) : Cross β γ' s :=
  ⟨fun m hm => h.quiet m (h1 m hm), fun n hn hp => h.there n hn (h2 hp), fun hs => h.excl (h3 hs)⟩

theorem Cross.unl (β : BSt) (s : Store) : Cross β .unl s :=
  ⟨fun _ h => (by cases h), fun _ _ h => (by cases h), fun h => (by cases h)⟩

theorem Cross.sweep {β : BSt} {γ : GSt} (s : Store) (hc : β.isCrit = false) (h1 : γ.chk = none)
    (h2 : γ.preSweep = false) : Cross β γ s :=
  ⟨fun m hm => (by rw [h1] at hm; cases hm), fun _ _ hp => (by rw [h2] at hp; cases hp), fun _ => hc⟩

theorem Doomed.lockEq {s s' : Store} {m : Option Nat} (hl : LockEq s s') : Doomed s' m ↔ Doomed s m :=
  ⟨fun h => h.mono fun b hb => (LockEq.isBand hl b).1 hb, fun h => h.mono fun b hb => (LockEq.isBand hl b).2 hb⟩

theorem Cross.lockEq {β : BSt} {γ : GSt} {s s' : Store} (h : Cross β γ s) (hl : LockEq s s') : Cross β γ s' :=
  ⟨fun m hm hd => h.quiet m hm (fun hd' => hd ((Doomed.lockEq hl).2 hd')),
   fun n hn hp => (LockEq.isBand hl n).2 (h.there n hn hp), h.excl⟩

theorem AtLeast.lockEq {s s' : Store} {m : Option Nat} (h : AtLeast m s) (hl : LockEq s s') : AtLeast m s' :=
  h.mono fun b hb => (LockEq.isBand hl b).2 hb

/-! ### Responses -/

theorem onFile_cases {α : Type} (f : Bool → Prog α) (r : Resp) :
    (∃ b, onFile f r = f b) ∨ (∃ e, onFile f r = .fail e) := by
  cases r with
  | stat b ne => exact Or.inl ⟨b, rfl⟩
  | err e => cases e <;> first | exact Or.inl ⟨false, rfl⟩ | exact Or.inr ⟨_, rfl⟩
  | _ => exact Or.inr ⟨_, rfl⟩

theorem onFileOr_cases {α : Type} (d : Bool) (f : Bool → Prog α) (r : Resp) : ∃ b, onFileOr d f r = f b := by
  cases r with
  | stat b ne => exact ⟨b, rfl⟩
  | err e => cases e <;> first | exact ⟨false, rfl⟩ | exact ⟨d, rfl⟩
  | _ => exact ⟨d, rfl⟩

theorem onUnit_cases {α : Type} (k : Prog α) (r : Resp) :
    (r = .unit ∧ onUnit k r = k) ∨ (r ≠ .unit ∧ ∃ e, onUnit k r = .fail e) := by
  cases r <;> first | exact Or.inl ⟨rfl, rfl⟩ | exact Or.inr ⟨by simp, _, rfl⟩

theorem applyOp_removeFile_cases (s : Store) (k : Key) :
    ((applyOp true s (.removeFile k)).1 = s ∧ (applyOp true s (.removeFile k)).2 ≠ .unit) ∨
    (∃ v, s.get? k = some v ∧ v ≠ .dir ∧ (applyOp true s (.removeFile k)).1 = s.erase k ∧
      (applyOp true s (.removeFile k)).2 = .unit) := by
  cases hg : s.get? k with
  | none => simp [applyOp, hg]
  | some v =>
    cases v <;> simp [applyOp, hg]

theorem applyOp_removeDirAll_cases (s : Store) (k : Key) :
    ((applyOp true s (.removeDirAll k)).1 = s ∧ (applyOp true s (.removeDirAll k)).2 = .err .notFound) ∨
    ((applyOp true s (.removeDirAll k)).1 = s.eraseTree k ∧ (applyOp true s (.removeDirAll k)).2 = .unit) := by
  simp only [applyOp]
  split
  · exact Or.inl ⟨rfl, rfl⟩
  · exact Or.inr ⟨rfl, rfl⟩

theorem applyOp_removeFile_lock (s : Store) : LockEq s (applyOp true s (.removeFile .gcLock)).1 := by
  rcases applyOp_removeFile_cases s .gcLock with ⟨h, _⟩ | ⟨_, _, _, h, _⟩
  · rw [h]; exact LockEq.refl s
  · rw [h]; exact LockEq.erase_lock s

theorem strip_ne_emit {α : Type} (p : Prog α) (ev : Event) (k : Prog α) : p.strip ≠ .emit ev k := by
  induction p with
  | emit ev' k' ih => exact ih
  | _ => intro h; cases h

section
variable (o : BackupOpts) (src : List SrcEntry) (D : List Nat) (opts : DeleteOpts)

theorem J.toUnl {s' : Store} {pA : Prog Stats} {β : BSt} {p' : Prog DeleteStats}
    (hpA : β.prog H o src pA) (hbf : BFacts H β s' pA) (hn : NoDupKeys s') (hp : AllOps Unl p') :
    J H o src D opts s' pA p' :=
  ⟨β, .unl, hpA, hp, hbf, trivial, Cross.unl β s', hn⟩

/-- Where the sweep goes on after the blocks removed so far. -/
theorem sweepBlocks_next {s : Store} (U hs : List Str) (errs nb : Nat) (hl : Locked s) (hu : SafeU [] hs s) :
    ∃ γ' : GSt, γ'.prog D opts (wl (sweepBlocks U hs errs nb)).strip ∧ GFacts D γ' s ∧ γ'.chk = none ∧
      γ'.preSweep = false := by
  cases hs with
  | nil =>
    refine ⟨.unl, ?_, trivial, rfl, rfl⟩
    rw [wl_sweepBlocks_nil]
    exact (wl_gcFin_unl _).strip
  | cons h hs =>
    refine ⟨.sweepU U h hs errs nb, ?_, ⟨hl, hu⟩, rfl, rfl⟩
    rw [wl_sweepBlocks_cons]
    rfl

/-- Where the sweep goes on after the bands removed so far. -/
theorem sweepBands_next {s : Store} (U : List Str) (bs : List Nat) (n : Nat) (hl : Locked s) (hu : SafeU bs U s) :
    ∃ γ' : GSt, γ'.prog D opts (wl (sweepBands U bs n)).strip ∧ GFacts D γ' s ∧ γ'.chk = none ∧
      γ'.preSweep = false := by
  cases bs with
  | nil =>
    rw [wl_sweepBands_nil]
    exact sweepBlocks_next D opts U U 0 n hl hu
  | cons b bs =>
    refine ⟨.sweepB U b bs n, ?_, ⟨hl, hu⟩, rfl, rfl⟩
    rw [wl_sweepBands_cons]
    rfl

/-- **Every operation of `delete_bands` preserves `J`.** -/
theorem J.stepB {s : Store} {pA : Prog Stats} {o' : Op} {k : Resp → Prog DeleteStats}
    (h : J H o src D opts s pA (.op o' k)) :
    J H o src D opts (applyOp true s o').1 pA (k (applyOp true s o').2).strip := by
  obtain ⟨β, γ, hpA, hpB, hbf, hgf, hx, hn⟩ := h
  have hn' : NoDupKeys (applyOp true s o').1 := applyOp_noDupKeys true hn o'
  cases γ with
  | b1 =>
    simp only [GSt.prog, gcB1] at hpB
    injection hpB with ho hk
    subst ho hk
    rw [applyOp_metadata_store]
    rcases onFile_cases (fun l => if l = true then gcB2 D opts else gcN D opts) (applyOp true s (.metadata .gcLock)).2
      with ⟨b, hb⟩ | ⟨e, he⟩
    · rw [hb]
      cases b
      · exact ⟨β, .atN, hpA, rfl, hbf, trivial, hx.gc (fun _ h => (by cases h)) (fun _ => rfl) (fun h => (by cases h)), hn⟩
      · exact ⟨β, .b2, hpA, rfl, hbf, trivial, hx.gc (fun _ h => (by cases h)) (fun _ => rfl) (fun h => (by cases h)), hn⟩
    · rw [he]; exact J.toUnl o src D opts hpA hbf hn (.fail _)
  | b2 =>
    simp only [GSt.prog, gcB2] at hpB
    injection hpB with ho hk
    subst ho hk
    have hl := applyOp_removeFile_lock s
    have hbf' := hbf.lock o src hpA hl hn'
    rcases onUnit_cases (gcN D opts) (applyOp true s (.removeFile .gcLock)).2 with ⟨_, hu⟩ | ⟨_, e, he⟩
    · rw [hu]
      exact ⟨β, .atN, hpA, rfl, hbf', trivial,
        (hx.lockEq hl).gc (fun _ h => (by cases h)) (fun _ => rfl) (fun h => (by cases h)), hn'⟩
    · rw [he]; exact J.toUnl o src D opts hpA hbf' hn' (.fail _)
  | atN =>
    simp only [GSt.prog, gcN] at hpB
    injection hpB with ho hk
    subst ho hk
    rw [applyOp_listDir_store]
    generalize hr : (applyOp true s (.listDir .root)).2 = r
    cases r with
    | listing xs =>
      simp only [onIds]
      rw [applyOp_listDir_root_ids hr]
      cases hm : maxNat? (bandIdsOf s) with
      | none =>
        refine ⟨β, .lc none, hpA, rfl, hbf, fun _ h => (by cases h), ⟨?_, ?_, fun h => (by cases h)⟩, hn⟩
        · intro m hm' hd
          cases hm'
          cases ha : β.act with
          | none => rfl
          | some n => exact absurd ⟨n, hx.there n ha rfl, trivial⟩ hd
        · intro n hn' _; exact hx.there n hn' rfl
      | some b =>
        refine ⟨β, .tc b, hpA, rfl, hbf, ?_, hx.gc (fun _ h => (by cases h)) (fun _ => rfl) (fun h => (by cases h)), hn⟩
        simp only [GFacts]
        rw [← hm]
        exact atLeast_max hn
    | err e => exact J.toUnl o src D opts hpA hbf hn (.fail _)
    | val v => exact J.toUnl o src D opts hpA hbf hn (.fail _)
    | stat a b => exact J.toUnl o src D opts hpA hbf hn (.fail _)
    | unit => exact J.toUnl o src D opts hpA hbf hn (.fail _)
  | tc b =>
    simp only [GSt.prog, gcTC] at hpB
    injection hpB with ho hk
    subst ho hk
    rw [applyOp_metadata_store]
    simp only [GFacts] at hgf
    cases hg : s.get? (.bandTail b) with
    | none =>
      have : (applyOp true s (.metadata (.bandTail b))).2 = .err .notFound := by simp [applyOp, hg]
      rw [this]
      exact J.toUnl o src D opts hpA hbf hn (.fail _)
    | some v =>
      have : (applyOp true s (.metadata (.bandTail b))).2 = .stat (!v.isDir) (!v.isDir && !v.isEmptyFile) := by
        simp [applyOp, hg]
      rw [this]
      simp only [onFile]
      split
      · exact J.toUnl o src D opts hpA hbf hn (.fail _)
      · refine ⟨β, .lc (some b), hpA, rfl, hbf, hgf, ⟨?_, fun n hn' _ => hx.there n hn' rfl, fun h => (by cases h)⟩, hn⟩
        intro m hm hd
        cases hm
        cases ha : β.act with
        | none => rfl
        | some n =>
          exfalso
          have hbn : isBand s n := hx.there n ha rfl
          have h1 : ¬ b < n := fun hlt => hd ⟨n, hbn, hlt⟩
          obtain ⟨b', hb', hle⟩ := hgf b rfl
          have h2 : b' ≤ n := top_of_act hbf ha b' hb'
          have hbe : b = n := by omega
          have := tail_none_of_act hbf ha hbn
          rw [← hbe, hg] at this
          cases this
  | lc m =>
    simp only [GSt.prog, gcLC] at hpB
    injection hpB with ho hk
    subst ho hk
    rw [applyOp_metadata_store]
    obtain ⟨b, hb⟩ := onFileOr_cases true (fun l => if l = true then (Prog.fail .gcLockHeld : Prog DeleteStats)
      else gcW D opts m) (applyOp true s (.metadata .gcLock)).2
    rw [hb]
    cases b
    · exact ⟨β, .w m, hpA, rfl, hbf, hgf, hx.gc (fun _ h => h) (fun _ => rfl) (fun h => (by cases h)), hn⟩
    · exact J.toUnl o src D opts hpA hbf hn (.fail _)
  | w m =>
    simp only [GSt.prog, gcW] at hpB
    injection hpB with ho hk
    subst ho hk
    simp only [GFacts] at hgf
    rcases applyOp_write_store true s .gcLock .lock .createNew with ⟨hr, hs⟩ | ⟨⟨e, hr⟩, hs⟩
    · rw [hr, hs]
      rw [hs] at hn'
      have hl : LockEq s (s.put .gcLock .lock) := LockEq.put_lock s _
      have hbf' := hbf.lock o src hpA hl hn'
      have hx' := hx.lockEq hl
      simp only [onUnit]
      have hq : ∃ o1 k1, readAll D = .op o1 k1 := by
        unfold readAll; rw [listBandIds_bind]; exact ⟨_, _, rfl⟩
      obtain ⟨o1, k1, hq1⟩ := hq
      have hstrip : (gcRead D opts m (readAll D)).strip = gcRead D opts m (readAll D) := by
        unfold gcRead; rw [hq1]; rfl
      rw [hstrip]
      refine ⟨β, .read m (readAll D), hpA, ⟨rfl, ⟨o1, k1, hq1⟩, readAll_ro D⟩, hbf', ?_,
        hx'.gc (fun _ h => h) (fun _ => rfl) (fun h => (by cases h)), hn'⟩
      refine ⟨hgf.lockEq hl, Store.get?_put_self _ _ _, fun hd U hU => ?_⟩
      have hact := hx'.quiet m rfl hd
      exact readAll_safe D (ci_of_not_crit hbf' (not_crit_of_act_none hact)) hU
    · rw [hr, hs]
      exact J.toUnl o src D opts hpA hbf hn (.fail _)
  | read m q =>
    obtain ⟨hp, ⟨o1, k1, hq⟩, hro⟩ := hpB
    subst hq
    simp only [gcRead, Prog.op_bind, wl_op] at hp
    injection hp with ho hk
    subst ho hk
    cases hro with
    | op ho1 hk1 =>
    rw [applyOp_readOnly_store ho1]
    simp only [GFacts] at hgf
    obtain ⟨hal, hlk, hsafe⟩ := hgf
    have hsolo : ((Prog.op o' k1).solo s) = ((k1 (applyOp true s o').2).strip.solo s) := by
      rw [Prog.solo_op, applyOp_readOnly_store ho1, Prog.solo_strip]
    rw [wl_bind_strip]
    cases hq' : (k1 (applyOp true s o').2).strip with
    | ret U =>
      simp only
      rw [wl_tailK]
      split
      · exact J.toUnl o src D opts hpA hbf hn (wl_gcFin_unl _).strip
      · refine ⟨β, .atK m U, hpA, rfl, hbf, ⟨hal, hlk, fun hd => hsafe hd U ?_⟩,
          hx.gc (fun _ h => h) (fun _ => rfl) (fun h => (by cases h)), hn⟩
        rw [hsolo, hq']; rfl
    | fail e => exact J.toUnl o src D opts hpA hbf hn (wl_fail_unl e).strip
    | panic msg => exact J.toUnl o src D opts hpA hbf hn (wl_panic_unl msg).strip
    | emit ev k' => exact absurd hq' (strip_ne_emit _ _ _)
    | op o2 k2 =>
      simp only
      refine ⟨β, .read m (.op o2 k2), hpA, ⟨rfl, ⟨o2, k2, rfl⟩, hq' ▸ (hk1 _).strip⟩, hbf,
        ⟨hal, hlk, fun hd U hU => hsafe hd U ?_⟩, hx.gc (fun _ h => h) (fun _ => rfl) (fun h => (by cases h)), hn⟩
      rw [hsolo, hq']; exact hU
  | atK m U =>
    simp only [GSt.prog, gcK] at hpB
    injection hpB with ho hk
    subst ho hk
    rw [applyOp_listDir_store]
    simp only [GFacts] at hgf
    obtain ⟨hal, hlk, hsafe⟩ := hgf
    generalize hr : (applyOp true s (.listDir .root)).2 = r
    cases r with
    | listing xs =>
      simp only [onIds]
      rw [applyOp_listDir_root_ids hr]
      split
      · rename_i heq
        have hm : maxNat? (bandIdsOf s) = m := by simpa using heq
        have hnd : ¬ Doomed s m := hm ▸ not_doomed_of_max hn
        have hc : β.isCrit = false := not_crit_of_act_none (hx.quiet m rfl hnd)
        obtain ⟨γ', hp', hg', h1, h2⟩ := sweepBands_next D opts U D 0 hlk (hsafe hnd)
        exact ⟨β, γ', hpA, hp', hbf, hg', Cross.sweep s hc h1 h2, hn⟩
      · exact J.toUnl o src D opts hpA hbf hn (wl_fail_unl _).strip
    | err e => exact J.toUnl o src D opts hpA hbf hn (wl_fail_unl _).strip
    | val v => exact J.toUnl o src D opts hpA hbf hn (wl_fail_unl _).strip
    | stat a b => exact J.toUnl o src D opts hpA hbf hn (wl_fail_unl _).strip
    | unit => exact J.toUnl o src D opts hpA hbf hn (wl_fail_unl _).strip
  | sweepB U b bs n =>
    simp only [GSt.prog, gcSweepB] at hpB
    injection hpB with ho hk
    subst ho hk
    simp only [GFacts] at hgf
    have hc : β.isCrit = false := hx.excl rfl
    rcases applyOp_removeDirAll_cases s (.bandDir b) with ⟨hs, hr⟩ | ⟨hs, hr⟩
    · rw [hs, hr]
      exact J.toUnl o src D opts hpA hbf hn (wl_fail_unl _).strip
    · rw [hs, hr]
      rw [hs] at hn'
      have hlk : Locked (s.eraseTree (.bandDir b)) := by
        unfold Locked
        rw [eraseTree_get?_other (by simp [Key.isUnder, Key.parent])]
        exact hgf.1
      obtain ⟨γ', hp', hg', h1, h2⟩ := sweepBands_next D opts U bs (n + 1) hlk hgf.2.eraseTree
      exact ⟨β, γ', hpA, hp', hbf.eraseTree hc b, hg', Cross.sweep _ hc h1 h2, hn'⟩
  | sweepU U x xs errs nb =>
    simp only [GSt.prog, gcSweepU] at hpB
    injection hpB with ho hk
    subst ho hk
    simp only [GFacts] at hgf
    have hc : β.isCrit = false := hx.excl rfl
    have hfin : ∀ (e' : Nat) (s' : Store), NoDupKeys s' → BFacts H β s' pA → Locked s' → SafeU [] xs s' →
        J H o src D opts s' pA (wl (sweepBlocks U xs e' nb)).strip := by
      intro e' s' hn1 hb1 hl1 hu1
      obtain ⟨γ', hp', hg', h1, h2⟩ := sweepBlocks_next D opts U xs e' nb hl1 hu1
      exact ⟨β, γ', hpA, hp', hb1, hg', Cross.sweep _ hc h1 h2, hn1⟩
    have hu0 : SafeU [] xs s := hgf.2.mono fun y hy => List.mem_cons_of_mem _ hy
    rcases applyOp_removeFile_cases s (.block x) with ⟨hs, hr⟩ | ⟨v, hv, hnd, hs, hr⟩
    · rw [hs]
      cases hrr : (applyOp true s (.removeFile (.block x))).2 with
      | unit => exact absurd hrr hr
      | err e => exact hfin _ s hn hbf hgf.1 hu0
      | val v => exact hfin _ s hn hbf hgf.1 hu0
      | listing l => exact hfin _ s hn hbf hgf.1 hu0
      | stat a b => exact hfin _ s hn hbf hgf.1 hu0
    · rw [hs, hr]
      rw [hs] at hn'
      have hci : CI H (s.erase (.block x)) := by
        refine (ci_of_not_crit hbf hc).erase_block hv hnd ?_
        intro b hb n es hes e he a ha heq
        exact hgf.2 b hb (by simp) n es hes e he a ha (heq ▸ List.mem_cons_self ..)
      refine hfin _ _ hn' (hbf.eraseBlock hc hci) ?_ ?_
      · unfold Locked; rw [Store.get?_erase_ne _ (by simp)]; exact hgf.1
      · exact hu0.of_same (fun b hb => by rwa [Store.get?_erase_ne _ (by simp)] at hb)
          (fun b n _ => Store.get?_erase_ne _ (by simp))
  | unl =>
    cases hpB with
    | op ho hk =>
    have ho' : o' = .removeFile .gcLock := ho
    subst ho'
    have hl := applyOp_removeFile_lock s
    exact J.toUnl o src D opts hpA (hbf.lock o src hpA hl hn') hn' (hk _).strip

end

end Conserve.Race
