import ConserveModel.Proofs.HistRestore
/-
C02 (history): `Archive::last_complete_band` and `restore(LatestClosed)` as pure functions of any
store that is a map (`lastCompleteP`, `latestP`, `restoreLatestRaw`), and which version is selected:
the first one, from the newest id downwards, whose head opens and which has a tail; ids whose head
file is missing or does not decode are skipped, as are versions without tail; a head that opens but
is refused (unsupported version or flags, or not a file) makes the selection FAIL.
No property statements here.
-/
set_option linter.unusedSimpArgs false
namespace Conserve.Hist
open Conserve Conserve.Exact Prog

variable {H : Str → Str}

/-- The loop of `last_complete_band` over the ids (newest first). -/
def lastCompleteP (s : Store) : List Nat → Outcome (Option Nat)
  | [] => .ok none
  | b :: rest =>
    match headOutcome s b with
    | .err (.bandHeadMissing _) => lastCompleteP s rest
    | .err .json => lastCompleteP s rest
    | .err e => .err e
    | .panic m => .panic m
    | .ok () => if isComplete s b then .ok (some b) else lastCompleteP s rest

/-- The error `list_band_ids` ends with when the archive directory is not a directory. -/
def rootErr (s : Store) : Err := .transport (if s.get? .root = none then .notFound else .other)

/-- `Archive::last_complete_band` on a store. -/
def latestP (s : Store) : Outcome (Option Nat) :=
  if s.get? .root = some .dir then lastCompleteP s (bandIdsOf s).reverse else .err (rootErr s)

theorem lastCompleteBand_go_runs (s : Store) (bs : List Nat) :
    RunsAt (lastCompleteBand.go bs) s (lastCompleteP s bs) s [] := by
  induction bs with
  | nil => exact RunsAt.ret _ _
  | cons b rest ih =>
    intro w hw
    have ho := bandOpen_runs hw.quiet b
    rw [hw.store] at ho
    rw [lastCompleteBand.go]
    simp only [Prog.bind_def, lastCompleteP]
    cases hh : headOutcome s b with
    | ok u =>
      rw [hh] at ho
      refine hw.bind0 (Runs.attempt_ok ho) fun w1 hw1 => ?_
      simp only
      have hcl := bandIsClosed_runs hw1.quiet b
      rw [hw1.store] at hcl
      refine hw1.bind0 hcl fun w2 hw2 => ?_
      by_cases hc : isComplete s b = true
      · simp only [hc, if_true, Prog.pure_def]; exact hw2.ret _
      · have hc' : isComplete s b = false := by simpa using hc
        simp only [hc', Bool.false_eq_true, if_false]; exact ih w2 hw2
    | err e =>
      rw [hh] at ho
      refine hw.bind0 (Runs.attempt_err ho) fun w1 hw1 => ?_
      cases e <;> first | exact ih w1 hw1 | exact hw1.fail _
    | panic m =>
      rw [hh] at ho
      exact Runs.bind_panic (Runs.attempt_panic ho)

theorem lastCompleteBand_runsAt (s : Store) : RunsAt lastCompleteBand s (latestP s) s [] := by
  intro w hw
  unfold lastCompleteBand latestP
  simp only [Prog.bind_def]
  by_cases hr : s.get? .root = some .dir
  · have hids := listBandIds_runs hw.quiet (by rw [hw.store]; exact hr)
    rw [hw.store] at hids
    simp only [hr, if_true]
    exact hw.bind0 hids fun w1 hw1 => lastCompleteBand_go_runs s _ w1 hw1
  · have hids := listBandIds_runs_err hw.quiet (by rw [hw.store]; exact hr)
    rw [hw.store] at hids
    simp only [hr, if_false]
    exact Runs.bind_err hids

/-- What `restore(LatestClosed, "/", nothing excluded)` returns and reports on a store. -/
def restoreLatestRaw (H : Str → Str) (s : Store) : Outcome (List RNode) × List Event :=
  match latestP s with
  | .ok (some b) => restoreRaw H s b
  | .ok none => (.err .noCompleteBands, [])
  | .err e => (.err e, [])
  | .panic m => (.panic m, [])

/-- `restore(LatestClosed, "/", nothing excluded)` on ANY store that is a map. -/
theorem restore_latest_raw_runs {s : Store} (hn : UniqueKeys s) :
    RunsAt (restore H .latestClosed [slash] (fun _ => false)) s (restoreLatestRaw H s).1 s
      (restoreLatestRaw H s).2 := by
  have hl := lastCompleteBand_runsAt s
  unfold restore resolveBandId restoreLatestRaw
  simp only [Prog.bind_def, Prog.inv_bind_assoc]
  cases hp : latestP s with
  | ok r =>
    rw [hp] at hl
    refine RunsAt.bind0 hl ?_
    cases r with
    | some b => simpa using restoreBody_raw_runs (H := H) hn b
    | none => simp only [Prog.fail_bind]; exact RunsAt.fail _ _
  | err e => rw [hp] at hl; exact RunsAt.bind_err hl
  | panic m => rw [hp] at hl; exact RunsAt.bind_panic hl

/-! ### Which version is selected -/

/-- Version id `b` does not stop the search: its head file is missing, or does not decode (zero
length or junk), or it opens but the version has no tail. -/
def Skipped (s : Store) (b : Nat) : Prop :=
  headOutcome s b = .err (.bandHeadMissing b) ∨ headOutcome s b = .err .json ∨
    (headOutcome s b = .ok () ∧ isComplete s b = false)

theorem headOutcome_missing {s : Store} {b b' : Nat} (h : headOutcome s b = .err (.bandHeadMissing b')) :
    b' = b := by
  unfold headOutcome at h
  split at h <;> first | (cases h; rfl) | cases h | skip
  split at h <;> cases h

theorem lastCompleteP_skip {s : Store} {b : Nat} (h : Skipped s b) (rest : List Nat) :
    lastCompleteP s (b :: rest) = lastCompleteP s rest := by
  rcases h with h | h | ⟨h, hc⟩
  · simp only [lastCompleteP, h]
  · simp only [lastCompleteP, h]
  · simp only [lastCompleteP, h, hc, Bool.false_eq_true, if_false]

theorem lastCompleteP_hit {s : Store} {b : Nat} (hh : headOutcome s b = .ok ()) (hc : isComplete s b = true)
    (rest : List Nat) : lastCompleteP s (b :: rest) = .ok (some b) := by
  simp only [lastCompleteP, hh, hc, if_true]

/-- Inversion of one step of the search. -/
theorem lastCompleteP_cons_some {s : Store} {b c : Nat} {rest : List Nat}
    (h : lastCompleteP s (b :: rest) = .ok (some c)) :
    (c = b ∧ headOutcome s b = .ok () ∧ isComplete s b = true) ∨
      (Skipped s b ∧ lastCompleteP s rest = .ok (some c)) := by
  simp only [lastCompleteP] at h
  cases hh : headOutcome s b with
  | ok u =>
    rw [hh] at h
    simp only at h
    by_cases hc : isComplete s b = true
    · simp only [hc, if_true, Outcome.ok.injEq, Option.some.injEq] at h
      exact Or.inl ⟨h.symm, rfl, hc⟩
    · have hc' : isComplete s b = false := by simpa using hc
      simp only [hc', Bool.false_eq_true, if_false] at h
      exact Or.inr ⟨Or.inr (Or.inr ⟨hh, hc'⟩), h⟩
  | err e =>
    rw [hh] at h
    cases e with
    | bandHeadMissing b' =>
      have := headOutcome_missing hh
      subst this
      exact Or.inr ⟨Or.inl hh, h⟩
    | json => exact Or.inr ⟨Or.inr (Or.inl hh), h⟩
    | _ => cases h
  | panic m => rw [hh] at h; cases h

/-- **Sufficient**: in a list of ids in descending order, the search returns `b` if `b` occurs, opens
and has a tail, and every larger id is skipped. -/
theorem lastCompleteP_selects {s : Store} {b : Nat} :
    ∀ {l : List Nat}, l.Pairwise (· ≥ ·) → b ∈ l → headOutcome s b = .ok () → isComplete s b = true →
      (∀ x ∈ l, b < x → Skipped s x) → lastCompleteP s l = .ok (some b) := by
  intro l
  induction l with
  | nil => intro _ hb; cases hb
  | cons x l ih =>
    intro hs hb hh hc hsk
    rw [List.pairwise_cons] at hs
    by_cases hx : x = b
    · subst hx; exact lastCompleteP_hit hh hc l
    · have hbl : b ∈ l := by
        rcases List.mem_cons.mp hb with rfl | h
        · exact absurd rfl hx
        · exact h
      have hge := hs.1 b hbl
      have hlt : b < x := by omega
      rw [lastCompleteP_skip (hsk x (List.mem_cons_self ..) hlt)]
      exact ih hs.2 hbl hh hc (fun y hy => hsk y (List.mem_cons_of_mem _ hy))

/-- **Necessary**: what the search returns occurs in the list, opens, has a tail, and every larger id
of the (descending) list was skipped. -/
theorem lastCompleteP_selected {s : Store} {b : Nat} :
    ∀ {l : List Nat}, l.Pairwise (· ≥ ·) → lastCompleteP s l = .ok (some b) →
      b ∈ l ∧ headOutcome s b = .ok () ∧ isComplete s b = true ∧ ∀ x ∈ l, b < x → Skipped s x := by
  intro l
  induction l with
  | nil => intro _ h; simp [lastCompleteP] at h
  | cons x l ih =>
    intro hs h
    rw [List.pairwise_cons] at hs
    rcases lastCompleteP_cons_some h with ⟨rfl, hh, hc⟩ | ⟨hsk, hrest⟩
    · refine ⟨List.mem_cons_self .., hh, hc, fun y hy hlt => ?_⟩
      rcases List.mem_cons.mp hy with rfl | hy
      · omega
      · have := hs.1 y hy; omega
    · obtain ⟨hm, hh, hc, hall⟩ := ih hs.2 hrest
      refine ⟨List.mem_cons_of_mem _ hm, hh, hc, fun y hy hlt => ?_⟩
      rcases List.mem_cons.mp hy with rfl | hy
      · exact hsk
      · exact hall y hy hlt

theorem bandIdsOf_reverse_sorted (s : Store) : (bandIdsOf s).reverse.Pairwise (· ≥ ·) := by
  rw [List.pairwise_reverse]
  exact (sortNat_sorted _).imp fun h => h

/-- **"Latest complete" selects the newest version that opens and has a tail**, skipping newer ids
whose head is missing or undecodable and newer versions without tail. -/
theorem latestP_eq_some_iff {s : Store} (hroot : s.get? .root = some .dir) (b : Nat) :
    latestP s = .ok (some b) ↔
      b ∈ bandIdsOf s ∧ headOutcome s b = .ok () ∧ isComplete s b = true ∧
        ∀ x ∈ bandIdsOf s, b < x → Skipped s x := by
  simp only [latestP, hroot, if_true]
  constructor
  · intro h
    obtain ⟨h1, h2, h3, h4⟩ := lastCompleteP_selected (bandIdsOf_reverse_sorted s) h
    exact ⟨List.mem_reverse.mp h1, h2, h3, fun x hx => h4 x (List.mem_reverse.mpr hx)⟩
  · rintro ⟨h1, h2, h3, h4⟩
    exact lastCompleteP_selects (bandIdsOf_reverse_sorted s) (List.mem_reverse.mpr h1) h2 h3
      (fun x hx => h4 x (List.mem_reverse.mp hx))

/-- Facts under a version's directory decide `Skipped`. -/
theorem skipped_same {s s' : Store} {b : Nat} (h : BandSame s s' b) : Skipped s' b ↔ Skipped s b := by
  have hh : headOutcome s' b = headOutcome s b := by simp only [headOutcome, h.head]
  simp only [Skipped, hh, isComplete_same h]

end Conserve.Hist
