import ConserveModel.Proofs.ValidateDetect
/-
The index-reading path as it was BEFORE the repair of finding D8, for the refutation
`validate_hunk_damage_refuted_before_repair` (Props/C09.lean):

* `IndexHunkIter::next` swallowed read errors (`Err(_) => continue`, nothing reported), and
* nothing compared the hunk files present with the numbering / the count in the band tail
  (`Band::check_index_hunks` did not exist).

`readHunksSilent` is `readHunks` (IndexRead.lean) without `logError`; `readBandSilent` is `readBand`
without `checkIndexHunks`; the functions above them are verbatim copies that call the silent
variants.  Everything else (`bandOpen`, `hunksAvailable`, `filterEntries`, the block checks) is
the current model.
-/
set_option linter.unusedSimpArgs false
namespace Conserve
open Prog

def readHunksSilent (b : Nat) : List Nat → Option Str → Option Str → Prog (List IndexEntry × Option Str)
  | [], _, last => pure ([], last)
  | n :: rest, after, last => do
    match ← (readHunk b n).attempt with
    | .ok none => pure ([], last)
    | .error _ => readHunksSilent b rest after last        -- `Err(_) => continue`: nobody is told
    | .ok (some es) =>
      match after with
      | some a =>
        if (match es.getLast? with | some (l : IndexEntry) => apathLe l.apath a | none => false) then
          readHunksSilent b rest after last
        else if (match es.head? with | some (f : IndexEntry) => apathCmp f.apath a == Ordering.gt | none => false) then
          let (more, last') ← readHunksSilent b rest none (es.getLast?.map (fun (l : IndexEntry) => l.apath))
          pure (es ++ more, last')
        else
          let part := trimAfter a es
          let last1 := match part.getLast? with | some (l : IndexEntry) => some l.apath | none => last
          let (more, last') ← readHunksSilent b rest after last1
          pure (part ++ more, last')
      | none =>
        if es.isEmpty then readHunksSilent b rest none last
        else
          let (more, last') ← readHunksSilent b rest none (es.getLast?.map (fun (l : IndexEntry) => l.apath))
          pure (es ++ more, last')

def readBandSilent (b : Nat) (last : Option Str) : Prog (List IndexEntry × Option Str) := do
  match ← (bandOpen b).attempt with
  | .error e =>
    logError e
    pure ([], last)
  | .ok () =>
    match ← (hunksAvailable b).attempt with
    | .error e =>
      logError e
      pure ([], last)
    | .ok hunks => readHunksSilent b hunks last last        -- no `check_index_hunks`

def stitchDownSilent : Nat → Option Str → Prog (List IndexEntry)
  | 0, _ => pure []
  | b + 1, last => do
    if ← unwrapOr (bandExists b) false then
      let (es, last') ← readBandSilent b last
      if ← unwrapOr (bandIsClosed b) false then pure es
      else
        let more ← stitchDownSilent b last'
        pure (es ++ more)
    else stitchDownSilent b last

def stitchAllSilent (b : Nat) : Prog (List IndexEntry) := do
  let (es, last) ← readBandSilent b none
  if ← unwrapOr (bandIsClosed b) false then pure es
  else
    let more ← stitchDownSilent b last
    pure (es ++ more)

def listEntriesSilent (b : Nat) (subtree : Str) (excl : Str → Bool) : Prog (List IndexEntry) := do
  filterEntries subtree excl (← stitchAllSilent b)

def validateBandsSilent : List Nat → List (Str × Nat) → Prog (List (Str × Nat))
  | [], m => pure m
  | b :: bs, m => do
    match ← (bandOpen b).attempt with
    | .error e =>
      logError e
      validateBandsSilent bs m
    | .ok () =>
      match ← perform (.listDir (.bandDir b)) with
      | .err e =>
        logError (.transport e)
        validateBandsSilent bs m
      | .listing xs =>
        if !(xs.any fun e => e.key == .bandHead b) then logError (.bandHeadMissing b)
        match ← (bandOpen b).attempt with
        | .error e =>
          logError e
          validateBandsSilent bs m
        | .ok () =>
          let es ← listEntriesSilent b [slash] (fun _ => false)
          validateBandsSilent bs (entryLens m es)
      | _ =>
        logError (.transport .other)
        validateBandsSilent bs m

section
variable (H : Str → Str)

/-- `Archive::validate` over the pre-repair index reader. -/
def validateSilent (quick : Bool) : Prog Unit := do
  match ← perform (.listDir .root) with
  | .err e => .fail (.transport e)
  | _ => pure ()
  let bands ← listBandIds
  let referenced ← validateBandsSilent bands []
  let present ← listBlocks
  validateTail H quick referenced present

/-- The current `validate` has exactly this shape with the current readers (so `validateSilent`
differs from it only in the two places named above). -/
theorem validate_shape (quick : Bool) :
    validate H quick = (do
      match ← perform (.listDir .root) with
      | .err e => .fail (.transport e)
      | _ => pure ()
      let bands ← listBandIds
      let referenced ← validateBands bands []
      let present ← listBlocks
      validateTail H quick referenced present) := rfl

end

/-! ### Running the silent reader in a quiet world -/

theorem readHunksSilent_cons (b n : Nat) (rest : List Nat) (after last : Option Str) :
    readHunksSilent b (n :: rest) after last =
      ((readHunk b n).attempt.bind fun r =>
        match r with
        | .ok none => pure ([], last)
        | .error _ => readHunksSilent b rest after last
        | .ok (some es) =>
          match after with
          | some a =>
            if hunkAllBefore a es then readHunksSilent b rest after last
            else if hunkAllAfter a es then
              (readHunksSilent b rest none (lastApath? es)).bind fun r => pure (es ++ r.1, r.2)
            else
              (readHunksSilent b rest after (lastOr (trimAfter a es) last)).bind fun r =>
                pure (trimAfter a es ++ r.1, r.2)
          | none =>
            if es.isEmpty then readHunksSilent b rest none last
            else (readHunksSilent b rest none (lastApath? es)).bind fun r => pure (es ++ r.1, r.2)) := by
  rfl

/-- The silent reader returns what the current one returns and reports nothing. -/
theorem run_readHunksSilent {s : Store} (b : Nat) (ns : List Nat) :
    ∀ (after last : Option Str) (evs : List Event) (w : World), Quiet s evs w →
    ∃ w', (readHunksSilent b ns after last).run w = (.ok (readHunksP s b ns after last), w') ∧
      Quiet s evs w' := by
  induction ns with
  | nil => intro after last evs w h; exact ⟨w, rfl, h⟩
  | cons n rest ih =>
    intro after last evs w h
    obtain ⟨w1, h1, q1⟩ := run_readHunk h b n
    rw [readHunksSilent_cons]
    simp only [readHunksP, Prog.run_bind, Prog.run_attempt, h1]
    cases hr : readHunkP s b n with
    | error e => simpa [toOutcome] using ih after last evs w1 q1
    | ok o =>
      cases o with
      | none => exact ⟨w1, by simp [toOutcome], q1⟩
      | some es =>
        simp only [toOutcome]
        cases after with
        | none =>
          by_cases hemp : es.isEmpty = true
          · simpa [hemp] using ih none last evs w1 q1
          · obtain ⟨w2, h2, q2⟩ := ih none (lastApath? es) evs w1 q1
            exact ⟨w2, by simp [hemp, Prog.run_bind, h2], q2⟩
        | some a =>
          by_cases hc1 : hunkAllBefore a es = true
          · simpa [hc1] using ih (some a) last evs w1 q1
          · by_cases hc2 : hunkAllAfter a es = true
            · obtain ⟨w2, h2, q2⟩ := ih none (lastApath? es) evs w1 q1
              exact ⟨w2, by simp [hc1, hc2, Prog.run_bind, h2], q2⟩
            · obtain ⟨w2, h2, q2⟩ := ih (some a) (lastOr (trimAfter a es) last) evs w1 q1
              exact ⟨w2, by simp [hc1, hc2, Prog.run_bind, h2], q2⟩

/-- A version whose head opens and whose index lists: the silent reader reports nothing at all. -/
theorem run_readBandSilent {s : Store} {evs : List Event} {w : World} (h : Quiet s evs w) (b : Nat)
    (last : Option Str) {hs : List Nat} (ho : bandOpenP s b = .ok ()) (ha : hunksAvailableP s b = .ok hs) :
    ∃ w', (readBandSilent b last).run w = (.ok (readHunksP s b hs last last), w') ∧ Quiet s evs w' := by
  obtain ⟨w1, h1, q1⟩ := run_bandOpen h b
  obtain ⟨w2, h2, q2⟩ := run_hunksAvailable q1 b
  obtain ⟨w3, h3, q3⟩ := run_readHunksSilent (s := s) b hs last last _ _ q2
  refine ⟨w3, ?_, q3⟩
  simp [readBandSilent, Prog.run_bind, Prog.run_attempt, h1, ho, toOutcome, h2, ha, h3]

/-- A complete version: the listing ends with its own entries. -/
theorem run_stitchAllSilent_closed {s : Store} {evs : List Event} {w : World} (h : Quiet s evs w) (b : Nat)
    {hs : List Nat} (ho : bandOpenP s b = .ok ()) (ha : hunksAvailableP s b = .ok hs)
    (hcl : isFileP s (.bandTail b) = true) :
    ∃ w', (stitchAllSilent b).run w = (.ok (readHunksP s b hs none none).1, w') ∧ Quiet s evs w' := by
  obtain ⟨w1, h1, q1⟩ := run_readBandSilent h b none ho ha
  obtain ⟨w2, h2, q2⟩ := run_unwrapOr_isFile q1 (.bandTail b) false
  refine ⟨w2, ?_, q2⟩
  simp [stitchAllSilent, bandIsClosed, Prog.run_bind, h1, h2, hcl]

/-- `validate_bands` over the silent reader, for an archive with exactly one, complete, version. -/
theorem run_validateBandsSilent_one {s : Store} {evs : List Event} {w : World} (h : Quiet s evs w) (b : Nat)
    {hs : List Nat} (hd : s.get? (.bandDir b) = some .dir)
    (ho : bandOpenP s b = .ok ()) (ha : hunksAvailableP s b = .ok hs)
    (hcl : isFileP s (.bandTail b) = true)
    (hv : ∀ e ∈ (readHunksP s b hs none none).1, isValid e.apath = true) :
    ∃ w', (validateBandsSilent [b] []).run w = (.ok (entryLens [] (readHunksP s b hs none none).1), w') ∧
      Quiet s evs w' := by
  obtain ⟨w1, h1, q1⟩ := run_bandOpen h b
  obtain ⟨w2, he2, q2⟩ := q1.exec_ro (.listDir (.bandDir b)) rfl
  obtain ⟨v, hvh⟩ : ∃ v, s.get? (.bandHead b) = some v := by
    cases hg : s.get? (.bandHead b) with
    | none => simp [bandOpenP, hg] at ho
    | some v => exact ⟨v, rfl⟩
  obtain ⟨w3, h3, q3⟩ := run_bandOpen q2 b
  obtain ⟨w4, h4, q4⟩ := run_stitchAllSilent_closed q3 b ho ha hcl
  refine ⟨w4, ?_, q4⟩
  have hf := run_filterEntries [slash] (fun _ => false) (readHunksP s b hs none none).1 w4
    (fun e he _ => hv e he)
  have hid : ((readHunksP s b hs none none).1.filter fun e => isPrefixOfImpl [slash] e.apath && !false) =
      (readHunksP s b hs none none).1 := by
    apply List.filter_eq_self.mpr
    intro e he
    simp [isPrefix_root (hv e he)]
  rw [hid] at hf
  simp only [validateBandsSilent, Prog.bind_def, Prog.run_bind, Prog.run_attempt, h1, ho, toOutcome,
    perform, Prog.op_bind, Prog.ret_bind, Prog.run_op, he2, quietResp, hd, children_any_head hvh]
  simp [Prog.run_bind, Prog.run_attempt, h3, ho, toOutcome, listEntriesSilent, h4, hf]

section
variable (H : Str → Str)

theorem run_validateSilent_one {s : Store} (quick : Bool) (b : Nat) {hs : List Nat}
    (hn : UniqueKeys s) (hroot : s.get? .root = some .dir) (hbr : s.get? .blockRoot = some .dir)
    (hids : bandIdsOf s = [b]) (ho : bandOpenP s b = .ok ()) (ha : hunksAvailableP s b = .ok hs)
    (hcl : isFileP s (.bandTail b) = true)
    (hv : ∀ e ∈ (readHunksP s b hs none none).1, isValid e.apath = true) :
    ((validateSilent H quick).run (World.clean s)).2.events =
      evsOf (if quick then (entryLens [] (readHunksP s b hs none none).1).filterMap (refErrorQuick s)
        else (presentSorted s).filterMap (blockReadError H s) ++
          (entryLens [] (readHunksP s b hs none none).1).filterMap (refErrorFull H s)) := by
  have h := Quiet.clean s
  obtain ⟨w0, he0, q0⟩ := h.exec_ro (.listDir .root) rfl
  obtain ⟨w1, h1, q1⟩ := run_listBandIds q0 hroot
  have hd : s.get? (.bandDir b) = some .dir :=
    Store.get?_of_mem_unique hn (mem_bandIdsOf'.mp (by rw [hids]; simp))
  obtain ⟨w2, h2, q2⟩ := run_validateBandsSilent_one q1 b hd ho ha hcl hv
  have hc2 : w2.crashAt = none := by
    have e0 : w0.crashAt = none := by
      have := World.exec_crashAt (World.clean s) (.listDir .root); rw [he0] at this; rw [this]; rfl
    have e1 : w1.crashAt = none := by
      have := Prog.run_crashAt listBandIds w0; rw [h1] at this; rw [this, e0]
    have := Prog.run_crashAt (validateBandsSilent [b] []) w1; rw [h2] at this; rw [this, e1]
  obtain ⟨w3, h3, q3⟩ := run_listBlocks q2 hc2 hn hbr
  obtain ⟨w4, h4, q4⟩ := run_validateTail H quick (entryLens [] (readHunksP s b hs none none).1) q3
  have hrun : (validateSilent H quick).run (World.clean s) = (.ok (), w4) := by
    simp only [validateSilent, perform, Prog.bind_def, Prog.op_bind, Prog.ret_bind, Prog.run_op, he0,
      quietResp, hroot, Prog.pure_def, Prog.run_bind, h1, hids, h2, h3]
    exact h4
  rw [hrun, q4.events]
  simp

end

end Conserve
