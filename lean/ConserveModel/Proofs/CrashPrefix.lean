import ConserveModel.Proofs.CleanWorld
/-
A run killed at a crash point is a PREFIX of the uninterrupted run (no injected faults): for a
program made of creating operations, the store the killed run leaves is extended by the store the
uninterrupted run leaves (`crash_prefix`).  So every file the killed run wrote is, unchanged, a file
of the complete run — except a zero-length leftover, which the complete run filled.
No property statements here.
-/
namespace Conserve.Crash
open Conserve Prog

/-- `c` is the fault-free world `w` with a crash point added: same store, same step count. -/
structure Twin (w c : World) : Prop where
  clean : w.Clean
  noFaults : c.faults = []
  alive : c.dead = false
  ecn : c.enforceCreateNew = true
  store : c.store = w.store
  steps : c.steps = w.steps

theorem Twin.start (s : Store) (j : Nat) : Twin (World.clean s) { store := s, crashAt := some j } :=
  ⟨World.clean_Clean s, rfl, rfl, rfl, rfl, rfl⟩

theorem Twin.events {w c : World} (h : Twin w c) (ev : Event) :
    Twin { w with events := ev :: w.events } { c with events := ev :: c.events } :=
  ⟨h.clean, h.noFaults, h.alive, h.ecn, h.store, h.steps⟩

/-- A dead world is frozen. -/
theorem run_dead_store {α : Type} (p : Prog α) : ∀ (w : World), w.dead = true → (p.run w).2.store = w.store := by
  induction p with
  | ret a => intro _ _; rfl
  | fail e => intro _ _; rfl
  | panic s => intro _ _; rfl
  | emit ev k ih => intro w h; exact ih _ h
  | op o k ih =>
    intro w h
    have : w.exec o = (w, .err .other) := by simp [World.exec, h]
    rw [Prog.run_op, this]
    exact ih _ w h

theorem extends_put_empty_put (s : Store) (k : Key) (v : FileVal) : Extends (s.put k .empty) (s.put k v) := by
  intro k' v' h
  rw [Store.get?_put] at h ⊢
  by_cases hk : k' = k
  · simp only [hk, if_true, Option.some.injEq] at h ⊢
    subst h
    right; simp
  · simp only [hk, if_false] at h ⊢
    exact Or.inl h

/-- **A killed run is a prefix of the uninterrupted run.** -/
theorem crash_prefix {α : Type} {p : Prog α} (hp : Prog.AllOps CreateOnly p) :
    ∀ {w c : World}, Twin w c → Extends (p.run c).2.store (p.run w).2.store := by
  induction hp with
  | ret a => intro w c h; simp only [Prog.run_ret]; rw [h.store]; exact Extends.refl _
  | fail e => intro w c h; simp only [Prog.run_fail]; rw [h.store]; exact Extends.refl _
  | panic s => intro w c h; simp only [Prog.run_panic]; rw [h.store]; exact Extends.refl _
  | emit ev _ ih => intro w c h; exact ih (h.events ev)
  | @op o k ho hk ih =>
    intro w c h
    obtain ⟨hwe, hwf, hwc, hwd⟩ := h.clean
    have hffc : c.faultFor o = none := by simp [World.faultFor, h.noFaults]
    have hffw : w.faultFor o = none := by simp [World.faultFor, hwf]
    have hcw : ∀ n, w.crashesAt n = false := by intro n; simp [World.crashesAt, hwc]
    -- what the uninterrupted run does from here extends its store
    have hrest : ∀ (w' : World) (r : Resp), w'.enforceCreateNew = true →
        Extends w'.store ((k r).run w').2.store := fun w' r he => Prog.run_extends (hk r) w' he
    -- the killed world dies here: frozen at `s0 ⊑ ` the uninterrupted run's next store
    have hdie : ∀ (c' : World) (r : Resp), c'.dead = true → Extends c'.store (w.exec o).1.store →
        Extends ((k r).run c').2.store ((k (w.exec o).2).run (w.exec o).1).2.store := by
      intro c' r hd hx
      rw [run_dead_store _ c' hd]
      exact hx.trans (hrest _ _ (by simp [hwe]))
    simp only [Prog.run_op]
    by_cases hm : o.isMutating = true
    · by_cases hc : c.crashesAt c.steps = true
      · -- killed before the operation
        have hce : c.exec o = ({ c with dead := true }, .err .other) := by
          simp [World.exec, h.alive, hffc, hm, hc]
        rw [hce]
        refine hdie _ _ rfl ?_
        show Extends c.store (w.exec o).1.store
        rw [h.store]
        exact World.exec_extends w o hwe ho
      · have hc' : c.crashesAt c.steps = false := by simpa using hc
        cases o with
        | write key v m =>
          have hmode : m = .createNew := ho
          subst hmode
          have hcx := World.exec_write_eq c key v .createNew h.alive hffc hc'
          have hwx := World.exec_write_eq w key v .createNew hwd hffw (hcw _)
          rw [h.ecn.trans hwe.symm, h.store] at hcx
          by_cases hr : (applyOp w.enforceCreateNew w.store (.write key v .createNew)).2 = .unit
          · rw [if_pos hr] at hcx hwx
            rw [if_neg (by rw [hcw]; simp)] at hwx
            by_cases hc1 : c.crashesAt (c.steps + 1) = true
            · -- killed between the two micro-steps of the write
              rw [if_pos hc1] at hcx
              rw [hcx, hwx]
              dsimp only
              have hx : Extends (w.store.put key .empty) (w.store.put key v) := extends_put_empty_put _ _ _
              rw [run_dead_store _ _ rfl]
              have h2 := hrest (w.exec (.write key v .createNew)).1 .unit (by simp [hwe])
              rw [hwx] at h2
              exact hx.trans h2
            · rw [if_neg hc1] at hcx
              rw [hcx, hwx]
              dsimp only
              exact ih _ ⟨⟨hwe, hwf, hwc, hwd⟩, h.noFaults, h.alive, hwe, rfl, by simp [h.steps]⟩
          · rw [if_neg hr] at hcx hwx
            rw [hcx, hwx]
            dsimp only
            exact ih _ ⟨⟨hwe, hwf, hwc, hwd⟩, h.noFaults, h.alive, hwe, rfl, h.steps⟩
        | createDir key =>
          have hc'' : c.crashesAt w.steps = false := h.steps ▸ hc'
          have e1 : c.exec (.createDir key) =
              ({ c with store := (w.exec (.createDir key)).1.store, steps := (w.exec (.createDir key)).1.steps,
                        trace := ⟨.createDir key, (w.exec (.createDir key)).2⟩ :: c.trace },
               (w.exec (.createDir key)).2) := by
            simp [World.exec, h.alive, hffc, Op.isMutating, hc'', h.ecn, h.store, h.steps, hwd, hffw, hcw, hwe]
          rw [e1]
          exact ih _ ⟨World.exec_clean_Clean ⟨hwe, hwf, hwc, hwd⟩ _, h.noFaults, h.alive, h.ecn, rfl, rfl⟩
        | removeFile key => exact absurd ho (by simp [CreateOnly])
        | removeDirAll key => exact absurd ho (by simp [CreateOnly])
        | read key => simp [Op.isMutating] at hm
        | listDir key => simp [Op.isMutating] at hm
        | metadata key => simp [Op.isMutating] at hm
    · have hro : ReadOnly o := by cases o <;> simp_all [Op.isMutating, ReadOnly]
      have e1 : c.exec o = ({ c with trace := ⟨o, (applyOp true w.store o).2⟩ :: c.trace },
          (applyOp true w.store o).2) := by
        simp [World.exec, h.alive, hffc, hm, h.ecn, h.store]
      have e2 : w.exec o = ({ w with trace := ⟨o, (applyOp true w.store o).2⟩ :: w.trace },
          (applyOp true w.store o).2) := by
        simp [World.exec, hwd, hffw, hm, hwe]
      rw [e1, e2]
      exact ih _ ⟨⟨hwe, hwf, hwc, hwd⟩, h.noFaults, h.alive, h.ecn, h.store, h.steps⟩

/-- The form used for `backup`: archive `s`, killed before micro-step `j`, no faults. -/
theorem crash_prefix_clean {α : Type} {p : Prog α} (hp : Prog.AllOps CreateOnly p) (s : Store) (j : Nat) :
    Extends (p.run { store := s, crashAt := some j }).2.store (p.run (World.clean s)).2.store :=
  crash_prefix hp (Twin.start s j)

end Conserve.Crash
