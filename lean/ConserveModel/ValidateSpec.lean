import ConserveModel.StitchSpec
import ConserveModel.Proofs.CleanWorldDel
/-
Specification side for `validate` (property C09): what `Archive::validate` reports on a
fault-free world, as pure functions of the store.  Nothing here mentions programs.

The listing-level parts (`listSpec`, `listErrors`) are those of StitchSpec.lean (C08); the
block names `list_blocks` sees are `blockNamesOf` (Proofs/CleanWorldDel.lean).
-/
namespace Conserve

/-- What `Archive::open` says about the archive header: `none` = it opens. -/
def headerError (s : Store) : Option Err :=
  match s.get? .header with
  | none => some .notAnArchive
  | some .dir => some (.transport .other)
  | some (.header v) => if v = [48, 46, 54] then none else some .unsupportedArchiveVersion
  | some _ => some .json

/-- What `Band::open` says about the head of version `b`: `none` = it opens. -/
def headError (s : Store) (b : Nat) : Option Err :=
  match s.get? (.bandHead b) with
  | none => some (.bandHeadMissing b)                           -- no head file
  | some .dir => some (.transport .other)                       -- the head is a directory
  | some (.head .invalid _) => some (.unsupportedBandVersion b) -- version string that is not a semver
  | some (.head .tooNew _) => some (.unsupportedBandVersion b)  -- written by a newer conserve
  | some (.head _ flags) => if flags.isEmpty then none else some (.unsupportedBandFlags b)
  | some _ => some .json                                        -- empty or undecodable head

/-- The errors `validate_bands` reports for version `b`: the one from `Band::open` if the head
does not open; otherwise whatever listing the whole version (the stitched walk, C08) reports. -/
def bandValidateErrors (s : Store) (b : Nat) : List Err :=
  match headError s b with
  | some e => [e]
  | none => listErrors s b

/-- `merge_block_lens` after version `b`: the file entries of its listing are added to the
(hash, needed length) table; a version that does not open contributes nothing. -/
def bandRefs (s : Store) (m : List (Str × Nat)) (b : Nat) : List (Str × Nat) :=
  match headError s b with
  | some _ => m
  | none => entryLens m (listSpec s b)

/-- `referenced_lens`: every block hash some file entry of some version's listing refers to,
with the largest `start + len` asked of it. -/
def referencedOf (s : Store) : List (Str × Nat) := (bandIdsOf s).foldl (bandRefs s) []

section
variable (H : Str → Str)

/-- `get_async_uncached` on a store: read, decompress, compare the hash with the name. -/
def blockRead (s : Store) (h : Str) : Except Err Str :=
  match s.get? (.block h) with
  | none => .error (.transport .notFound)
  | some .dir => .error (.transport .other)
  | some (.blockData c) => if H c = h then .ok c else .error (.blockCorrupt h)
  | some _ => .error .json

/-- The error `BlockDir::validate` reports for a present block, if any. -/
def blockReadError (s : Store) (h : Str) : Option Err :=
  match blockRead H s h with
  | .ok _ => none
  | .error e => some e

/-- The order in which the model validates the present blocks (the code does it concurrently). -/
def presentSorted (s : Store) : List Str := (blockNamesOf s).mergeSort strLe

/-- Quick validation of one referenced hash: it must be among the non-empty block files. -/
def refErrorQuick (s : Store) (p : Str × Nat) : Option Err :=
  if (blockNamesOf s).contains p.1 then none else some (.blockMissing p.1)

/-- Full validation of one referenced (hash, needed length): the block must be present, must
have decoded and hashed to its name, and must be long enough. -/
def refErrorFull (s : Store) (p : Str × Nat) : Option Err :=
  if (blockNamesOf s).contains p.1 then
    match blockRead H s p.1 with
    | .ok c => if p.2 > c.length then some (.blockTooShort p.1) else none
    | .error _ => some (.blockMissing p.1)
  else some (.blockMissing p.1)

/-- Everything `validate` reports, in order: per version (ascending id) the errors of
`validate_bands`; then, quick: one `blockMissing` per referenced hash that is not a non-empty
block file; full: one error per present block that does not read back (transport error / does not
decompress / hash differs from the name), then `blockTooShort` / `blockMissing` per referenced hash. -/
def validateErrors (quick : Bool) (s : Store) : List Err :=
  (bandIdsOf s).flatMap (bandValidateErrors s) ++
    if quick then (referencedOf s).filterMap (refErrorQuick s)
    else (presentSorted s).filterMap (blockReadError H s) ++ (referencedOf s).filterMap (refErrorFull H s)

end

/-- What `validate` needs in order to run to the end: the store is a function and a tree, each
version's usable hunks are sorted (`ArchWF`, C08), and the archive directory and `d/` exist. -/
structure ArchOK (s : Store) : Prop where
  wf : ArchWF s
  root : s.get? .root = some .dir
  blockRoot : s.get? .blockRoot = some .dir

instance (s : Store) : Decidable (ArchOK s) :=
  if h : ArchWF s ∧ s.get? .root = some .dir ∧ s.get? .blockRoot = some .dir then
    isTrue ⟨h.1, h.2.1, h.2.2⟩
  else isFalse fun w => h ⟨w.wf, w.root, w.blockRoot⟩

/-- Some version's listing has a file entry with an address inside block `h`: restoring that
version reads the block. -/
def Referenced (s : Store) (h : Str) : Prop :=
  ∃ b ∈ bandIdsOf s, ∃ e ∈ listSpec s b, e.kind = .file ∧ ∃ a ∈ e.addrs, a.hash = h

/-! ### "Healthy archive" -/

/-- Every version that has a directory can be read: its head decodes, names a supported format
version and no unknown flags, and its index directory is there ("interrupted-WITH-header": a
version directory whose head was never (completely) written is not covered by C09). -/
def AllHeadsReadable (s : Store) : Prop := ∀ b ∈ bandIdsOf s, bandReadable s b = true

/-- Is the entry's time representable and does no address overflow `u64`? -/
def entryInRange (e : IndexEntry) : Bool :=
  (entryTimeNs e.mtime e.mtimeNanos).isSome &&
  e.addrs.all fun a => a.start + a.len < 18446744073709551616

/-- Stored values are in the range every version of conserve writes: the time of each index
entry is representable and no address overflows `u64`.  (`Conforms` does not say this; it is what
`IndexEntry::check` / `entryUsable` asks beyond `entryConforms`.)  Executable, like `Conforms`. -/
def entriesInRange (s : Store) : Bool :=
  s.all fun kv =>
    match kv.2 with
    | .hunk es => es.all entryInRange
    | _ => true

/-- A healthy archive: it conforms to the documented format (`Conforms`, Invariants.lean — this
allows the leftovers of interrupted writes), the store is a function and a tree, every version
directory has a readable head, and stored values are in range. -/
structure Good (H : Str → Str) (s : Store) : Prop where
  conforms : Conforms H s = true
  nodup : keysNodup s = true
  tree : treeShaped s = true
  heads : AllHeadsReadable s
  inRange : entriesInRange s = true

end Conserve
