import ConserveModel.Prog
/-
Archive-, band-, block-directory- and gc-lock-level operations
(src/archive.rs, src/band.rs, src/blockdir.rs, src/gc_lock.rs, src/jsonio.rs) as programs.
-/
namespace Conserve
open Prog

/-- Insertion sort of naturals (band ids, hunk numbers); duplicates are kept. -/
def sortNat (xs : List Nat) : List Nat := xs.mergeSort (· ≤ ·)

/-- `Transport::is_file`. -/
def isFile (k : Key) : Prog Bool := do
  match ← perform (.metadata k) with
  | .stat f _ => pure f
  | .err .notFound => pure false
  | .err e => .fail (.transport e)
  | _ => .fail (.transport .other)

/-- `Archive::open`: the header must exist, parse, and name version 0.6. -/
def archiveOpen : Prog Unit := do
  match ← perform (.read .header) with
  | .err .notFound => .fail .notAnArchive
  | .err e => .fail (.transport e)
  | .val (.header v) => if v = [48, 46, 54] then pure () else .fail .unsupportedArchiveVersion
  | .val _ => .fail .json
  | _ => .fail (.transport .other)

/-- `Archive::list_band_ids`: directories of the archive root whose name parses as a band id, sorted. -/
def listBandIds : Prog (List Nat) := do
  match ← perform (.listDir .root) with
  | .listing xs =>
    pure <| sortNat <| xs.filterMap fun e =>
      match e.key with
      | .bandDir b => if e.isDir then some b else none
      | _ => none
  | .err e => .fail (.transport e)
  | _ => .fail (.transport .other)

def maxNat? : List Nat → Option Nat
  | [] => none
  | x :: xs => some (xs.foldl max x)

/-- `Archive::last_band_id`. -/
def lastBandId : Prog (Option Nat) := do
  pure (maxNat? (← listBandIds))

/-- `jsonio::read_json` of a band head followed by the checks of `Band::open`. -/
def bandOpen (b : Nat) : Prog Unit := do
  match ← perform (.read (.bandHead b)) with
  | .err .notFound => .fail (.bandHeadMissing b)
  | .err e => .fail (.transport e)
  | .val (.head ver flags) =>
    match ver with
    | .invalid => .fail (.unsupportedBandVersion b)    -- (before the repair: `parse(..).unwrap()` panicked)
    | .tooNew => .fail (.unsupportedBandVersion b)
    | _ => if flags.isEmpty then pure () else .fail (.unsupportedBandFlags b)
  | .val _ => .fail .json
  | _ => .fail (.transport .other)

/-- `Band::is_closed` / `Archive::band_is_closed`. -/
def bandIsClosed (b : Nat) : Prog Bool := isFile (.bandTail b)

/-- `Archive::band_exists`. -/
def bandExists (b : Nat) : Prog Bool := isFile (.bandHead b)

/-- `x.await.unwrap_or(d)`: a conserve error becomes the default. -/
def unwrapOr {α : Type} (p : Prog α) (d : α) : Prog α := do
  match ← p.attempt with
  | .ok a => pure a
  | .error _ => pure d

/-- A unit-returning storage operation with `?`. -/
def performUnit (o : Op) : Prog Unit := do
  match ← perform o with
  | .unit => pure ()
  | .err e => .fail (.transport e)
  | _ => .fail (.transport .other)

/-- `Band::create`: next id after the newest existing directory; directories; head `CreateNew`. -/
def bandCreate : Prog Nat := do
  let b := match ← lastBandId with
    | none => 0
    | some l => l + 1
  performUnit (.createDir (.bandDir b))
  performUnit (.createDir (.indexDir b))
  performUnit (.write (.bandHead b) (.head .ok []) .createNew)
  pure b

/-- `Band::close`. -/
def bandClose (b : Nat) (hunks : Nat) : Prog Unit :=
  performUnit (.write (.bandTail b) (.tail (some hunks)) .createNew)

/-- `Band::delete`. -/
def bandDelete (b : Nat) : Prog Unit := do
  match ← perform (.removeDirAll (.bandDir b)) with
  | .unit => pure ()
  | .err .notFound => .fail (.bandNotFound b)
  | .err e => .fail (.transport e)
  | _ => .fail (.transport .other)

/-- `Archive::last_complete_band`. -/
def lastCompleteBand : Prog (Option Nat) := do
  let ids ← listBandIds
  let rec go : List Nat → Prog (Option Nat)
    | [] => pure none
    | b :: rest => do
      match ← (bandOpen b).attempt with
      | .error (.bandHeadMissing _) => go rest     -- head never (completely) written: not a complete band
      | .error .json => go rest
      | .error e => .fail e
      | .ok () => if ← bandIsClosed b then pure (some b) else go rest
  go ids.reverse

inductive BandSelection
  | latestClosed | latest | specified (b : Nat)
  deriving DecidableEq, Repr, Inhabited

/-- `Archive::resolve_band_id`. -/
def resolveBandId : BandSelection → Prog Nat
  | .latestClosed => do
    match ← lastCompleteBand with
    | some b => pure b
    | none => .fail .noCompleteBands
  | .specified b => pure b
  | .latest => do
    match ← lastBandId with
    | some b => pure b
    | none => .fail .archiveEmpty

/-- `blockdir::list_blocks`: names of the non-empty block files.  The per-subdirectory
listings run concurrently in the code; the model lists them in key order. -/
def listBlocks : Prog (List Str) := do
  match ← perform (.listDir .blockRoot) with
  | .listing xs =>
    let subdirs := xs.filterMap fun e =>
      match e.key with
      | .blockDir p => if e.isDir && p.length == subdirNameChars then some p else none
      | _ => none
    let rec go : List Str → List Str → Prog (List Str)
      | [], acc => pure acc
      | p :: ps, acc => do
        match ← perform (.listDir (.blockDir p)) with
        | .listing ys =>
          let hs := ys.filterMap fun e =>
            match e.key with
            | .block h => if !e.isDir && e.nonEmpty then some h else none
            | _ => none
          go ps (acc ++ hs.filter (fun h => !acc.contains h))
        | .err e => .fail (.listBlocks e)
        | _ => .fail (.listBlocks .other)
    go (subdirs.mergeSort (fun a b => compare a b != .gt)) []
  | .err e => .fail (.transport e)
  | _ => .fail (.transport .other)

/-- `GarbageCollectionLock::is_locked`. -/
def gcIsLocked : Prog Bool := isFile .gcLock

/-- The second look `backup` takes at the lock (src/backup.rs, right after `Band::create`): list the
archive directory; locked iff it has a FILE named `GC_LOCK`. -/
def gcLockListed : Prog Bool := do
  match ← perform (.listDir .root) with
  | .listing xs => pure (xs.any fun e => e.key == .gcLock && !e.isDir)
  | .err e => .fail (.transport e)
  | _ => .fail (.transport .other)

/-- `GarbageCollectionLock::new`; returns the newest band id seen. -/
def gcLockNew : Prog (Option Nat) := do
  let last ← lastBandId
  match last with
  | some b => if !(← bandIsClosed b) then .fail (.deleteWithIncompleteBackup b)
  | none => pure ()
  if ← unwrapOr (isFile .gcLock) true then .fail .gcLockHeld
  performUnit (.write .gcLock .lock .createNew)
  pure last

/-- `GarbageCollectionLock::break_lock`. -/
def gcBreakLock : Prog (Option Nat) := do
  if ← gcIsLocked then performUnit (.removeFile .gcLock)
  gcLockNew

/-- `GarbageCollectionLock::check`. -/
def gcLockCheck (held : Option Nat) : Prog Unit := do
  if (← lastBandId) == held then pure () else .fail .gcLockHeldDuringBackup

/-- `GarbageCollectionLock::release`. -/
def gcLockRelease : Prog Unit := performUnit (.removeFile .gcLock)

/-- What `Drop for GarbageCollectionLock` eventually does when an error path abandons a held
lock: a spawned task removes the file; its error is only printed. -/
def gcLockDrop : Prog Unit := do
  let _ ← perform (.removeFile .gcLock)
  pure ()

end Conserve
