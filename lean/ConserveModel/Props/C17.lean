import ConserveModel.Proofs.PermHashSet
import ConserveModel.Props.C11Walk
/-
C17 — the archive is a pure function of the source and the operation history.

A Lean function is deterministic by construction; the content of the property is INDEPENDENCE
FROM EVERY UNORDERED INPUT the code consumes.  In the model a directory listing is
`Store.children s k`, whose order is the order of the association list `Store`.  So "arbitrary
`list_dir` order" = "arbitrary order of the association list", and the theorems below say: two
stores with the same file at every path (`StoreEquiv`), however their lists are ordered, give
  * the same result, the same events, the same sequence of operations (the whole trace, reads
    included, with responses equal except that listings are permuted),
  * equivalent final stores,
for `backup`, `delete_bands`, `restore`, `validate` and every listing consumer below them — in
EVERY world (any fault list keyed by `OpId`, any crash point), not only the clean one — and hence
for whole histories, starting from two fresh archives.  The source side (`read_dir` order) is
`C11.walk_perm_invariant`; `archive_function_of_tree` combines the two.

Helper lemmas: Proofs/PermStore.lean (stores), PermProg.lean (`ProgEquiv`, `run_equiv`),
PermListing.lean (pure consumers), PermArchive/PermBackup/PermGc.lean (programs).

Not in the model (partial label of the claim): scheduling inside the tokio runtime.  The only
concurrent code on these paths is `list_blocks`' JoinSet, whose result is a set — covered by
`listBlocks_perm_invariant` (result up to `List.Perm`) and by the fact that every user of the
result only tests membership or re-sorts (`contains_eq_of_perm`, `unref_eq_of_perm`).
-/
namespace Conserve.C17
open Conserve

/-! ## 1. Stores up to the order of the association list -/

/-- **Reordering the association list does not change the store.** -/
theorem storeEquiv_of_perm {s t : Store} (h : s.Perm t) (hs : Store.NoDupKeys s) : StoreEquiv s t :=
  StoreEquiv.of_perm h hs

/-- Conversely, equivalent duplicate-free stores are permutations of each other, so
`StoreEquiv` + `Store.NoDupKeys` is exactly "the same store listed in another order". -/
theorem perm_of_storeEquiv {s t : Store} (h : StoreEquiv s t) (hs : Store.NoDupKeys s) (ht : Store.NoDupKeys t) :
    s.Perm t := h.perm hs ht

/-- `Store.NoDupKeys` is preserved by the three store updates. -/
theorem noDupKeys_preserved {s : Store} (h : Store.NoDupKeys s) (k : Key) (v : FileVal) :
    Store.NoDupKeys (s.put k v) ∧ Store.NoDupKeys (s.erase k) ∧ Store.NoDupKeys (s.eraseTree k) :=
  ⟨h.put k v, h.erase k, h.eraseTree k⟩

/-- `StoreEquiv` is preserved by the three store updates. -/
theorem storeEquiv_preserved {s t : Store} (h : StoreEquiv s t) (k : Key) (v : FileVal) :
    StoreEquiv (s.put k v) (t.put k v) ∧ StoreEquiv (s.erase k) (t.erase k) ∧
    StoreEquiv (s.eraseTree k) (t.eraseTree k) :=
  ⟨h.put k v, h.erase k, h.eraseTree k⟩

/-- **Every storage operation respects the equivalence**: equivalent result stores (again
duplicate-free) and responses equal up to the order of a listing — equal outright unless the
operation is `listDir`. -/
theorem applyOp_equiv (e : Bool) {s t : Store} (h : StoreEquiv s t) (hs : Store.NoDupKeys s) (ht : Store.NoDupKeys t)
    (o : Op) :
    StoreEquiv (applyOp e s o).1 (applyOp e t o).1 ∧
    Store.NoDupKeys (applyOp e s o).1 ∧ Store.NoDupKeys (applyOp e t o).1 ∧
    Resp.Equiv (applyOp e s o).2 (applyOp e t o).2 ∧
    (o.verb ≠ .listDir → (applyOp e s o).2 = (applyOp e t o).2) :=
  let h' := Conserve.applyOp_equiv e h hs ht o
  ⟨h'.1, applyOp_noDupKeys e hs o, applyOp_noDupKeys e ht o, h'.2.1, h'.2.2⟩

/-- Removals of two files commute (even as lists). -/
theorem erase_comm (s : Store) (a b : Key) : (s.erase a).erase b = (s.erase b).erase a :=
  Store.erase_comm s a b

/-- **Hash-set iteration order is irrelevant for the final store.**  The real `delete_bands`
iterates a `HashSet` of unreferenced block names in arbitrary order (the model uses name order).
Removing the same set of paths in any two orders from equivalent stores gives equivalent
stores, because removals of distinct paths commute. -/
theorem removals_any_order {s t : Store} (h : StoreEquiv s t) {ks ks' : List Key} (hp : ks.Perm ks') :
    StoreEquiv (s.eraseAll ks) (t.eraseAll ks') := Store.eraseAll_perm h hp

/-! ## 2. Every pure consumer of a listing ignores its order -/

/-- `list_band_ids`: filter/parse the names, then sort. -/
theorem bandIds_of_listing_perm {xs ys : List DirEnt} (h : xs.Perm ys) (f : DirEnt → Option Nat) :
    sortNat (xs.filterMap f) = sortNat (ys.filterMap f) := sortNat_filterMap_eq_of_perm f h

/-- `last_band_id`: the maximum does not depend on the order (even without the sort). -/
theorem maxNat?_perm {xs ys : List Nat} (h : xs.Perm ys) : maxNat? xs = maxNat? ys := maxNat?_eq_of_perm h

/-- `maxNat?` is the greatest element. -/
theorem maxNat?_spec {xs : List Nat} {m : Nat} : maxNat? xs = some m ↔ m ∈ xs ∧ ∀ x ∈ xs, x ≤ m :=
  maxNat?_eq_some

/-- `hunk_lengths`: (hunk number, non-empty) pairs of one index subdirectory, sorted by number.
Needs that the listing is a real one (`GoodListing`: every child once), because the sort key
does not determine the pair. -/
theorem hunkPairs_of_listing_perm {b d : Nat} {xs ys : List DirEnt} (h : xs.Perm ys)
    (hg : GoodListing (.hunkDir b d) xs) (f : DirEnt → Option (Nat × Bool))
    (hf : ∀ e p, f e = some p → ∃ b', e.key = .hunk b' p.1 ∧ p.2 = e.nonEmpty) :
    (xs.filterMap f).mergeSort (fun x y => decide (x.1 ≤ y.1)) =
    (ys.filterMap f).mergeSort (fun x y => decide (x.1 ≤ y.1)) := hunkPairs_eq_of_perm h hg f hf

/-- Listings of a duplicate-free store are good. -/
theorem children_good {s : Store} (hs : Store.NoDupKeys s) (k : Key) : GoodListing k (s.children k) :=
  Store.children_good hs k

/-- `list_blocks`: subdirectories are visited in name order. -/
theorem subdirs_of_listing_perm {xs ys : List DirEnt} (h : xs.Perm ys) (f : DirEnt → Option Str) :
    (xs.filterMap f).mergeSort (fun a b => compare a b != .gt) =
    (ys.filterMap f).mergeSort (fun a b => compare a b != .gt) :=
  mergeSort_compare_eq_of_perm (h.filterMap f)

/-- `list_blocks`: one accumulation step maps permuted inputs to permuted outputs. -/
theorem blocks_step_perm {acc acc' hs hs' : List Str} (ha : acc.Perm acc') (hh : hs.Perm hs') :
    (acc ++ hs.filter (fun h => !acc.contains h)).Perm (acc' ++ hs'.filter (fun h => !acc'.contains h)) :=
  listBlocks_step_perm ha hh

/-- Downstream use 1 of the block set (`BlockDir::contains`, in backup): membership only. -/
theorem contains_eq_of_perm {present present' : List Str} (h : present.Perm present') (x : Str) :
    present.contains x = present'.contains x := h.contains_eq

/-- Downstream use 2 of the block set (`delete_bands`): filter by "unreferenced", then sort. -/
theorem unref_eq_of_perm {present present' : List Str} (h : present.Perm present') (p : Str → Bool) :
    (present.filter p).mergeSort strLe = (present'.filter p).mergeSort strLe :=
  mergeSort_strLe_eq_of_perm (h.filter p)

/-- `Band::validate`: "is BANDHEAD in the listing" is a membership test. -/
theorem any_perm {xs ys : List DirEnt} (h : xs.Perm ys) (p : DirEnt → Bool) : xs.any p = ys.any p :=
  any_eq_of_perm p h

/-! ## 3. Programs: the general invariance theorem -/

/-- What two runs agree on. -/
structure RunAgree {α β : Type} (R : α → β → Prop) (r₁ : Outcome α × World) (r₂ : Outcome β × World) : Prop where
  /-- same error / panic, results related by `R` (`Eq` for everything but `listBlocks`) -/
  outcome : Outcome.Rel R r₁.1 r₂.1
  /-- the final stores have the same file at every path -/
  store : StoreEquiv r₁.2.store r₂.2.store
  nd₁ : Store.NoDupKeys r₁.2.store
  nd₂ : Store.NoDupKeys r₂.2.store
  /-- the same errors reported to the monitor and the same change callbacks, in the same order -/
  events : r₁.2.events = r₂.2.events
  /-- the same number of successful mutating micro-steps; both alive or both dead -/
  steps : r₁.2.steps = r₂.2.steps
  dead : r₁.2.dead = r₂.2.dead
  /-- the same operations in the same order — reads and listings included — with the same
  responses, except that the entries of a listing may be permuted -/
  trace : TraceEquiv r₁.2.trace r₂.2.trace

theorem RunAgree.ops_eq {α β : Type} {R : α → β → Prop} {r₁ : Outcome α × World} {r₂ : Outcome β × World}
    (h : RunAgree R r₁ r₂) : r₁.2.trace.map (·.op) = r₂.2.trace.map (·.op) := h.trace.ops_eq

/-- The sequences of mutating operations, with their responses, are equal. -/
theorem RunAgree.mutating_eq {α β : Type} {R : α → β → Prop} {r₁ : Outcome α × World}
    {r₂ : Outcome β × World} (h : RunAgree R r₁ r₂) :
    r₁.2.trace.filter (fun ev => ev.op.isMutating) = r₂.2.trace.filter (fun ev => ev.op.isMutating) :=
  h.trace.mutating_eq

theorem RunAgree.outcome_eq {α : Type} {r₁ r₂ : Outcome α × World} (h : RunAgree Eq r₁ r₂) : r₁.1 = r₂.1 :=
  h.outcome.eq

/-- **General invariance**: a program that is insensitive to listing order (`ProgEquiv`), run in
two worlds that differ only in the order of the store's association list (and of the listings
already in the trace), behaves the same — for ANY fault list and crash point. -/
theorem run_perm_invariant {α β : Type} {R : α → β → Prop} {p : Prog α} {q : Prog β}
    (hpq : ProgEquiv R p q) {w w' : World} (hw : WEquiv w w') : RunAgree R (p.run w) (q.run w') :=
  let h := run_equiv hpq hw
  ⟨h.1, h.2.store, h.2.nd₁, h.2.nd₂, h.2.events, h.2.steps, h.2.dead, h.2.trace⟩

/-- One step, any world: equivalent worlds after, responses equal up to listing order; and a
listing, when there is one, names every child once (`GoodListing`). -/
theorem exec_perm_invariant {w w' : World} (h : WEquiv w w') (o : Op) :
    WEquiv (w.exec o).1 (w'.exec o).1 ∧ Resp.Equiv (w.exec o).2 (w'.exec o).2 ∧
    (o.verb ≠ .listDir → (w.exec o).2 = (w'.exec o).2) ∧
    (∀ xs, (w.exec o).2 = .listing xs → GoodListing o.key xs) :=
  let h' := exec_equiv h o
  ⟨h'.1, h'.2.1, h'.2.2.1, h'.2.2.2⟩

/-! ### Each listing consumer (any world) -/

/-- `Archive::list_band_ids` (sorts). -/
theorem listBandIds_perm_invariant {w w' : World} (hw : WEquiv w w') :
    RunAgree Eq (listBandIds.run w) (listBandIds.run w') := run_perm_invariant listBandIds_equiv hw

/-- `Archive::last_band_id`. -/
theorem lastBandId_perm_invariant {w w' : World} (hw : WEquiv w w') :
    RunAgree Eq (lastBandId.run w) (lastBandId.run w') := run_perm_invariant lastBandId_equiv hw

/-- `Archive::last_complete_band`. -/
theorem lastCompleteBand_perm_invariant {w w' : World} (hw : WEquiv w w') :
    RunAgree Eq (lastCompleteBand.run w) (lastCompleteBand.run w') :=
  run_perm_invariant lastCompleteBand_equiv hw

/-- `Band::create`: the new id and the three creating operations. -/
theorem bandCreate_perm_invariant {w w' : World} (hw : WEquiv w w') :
    RunAgree Eq (bandCreate.run w) (bandCreate.run w') := run_perm_invariant bandCreate_equiv hw

/-- `IndexRead::hunks_available` (sorts directories and, per directory, hunk numbers). -/
theorem hunksAvailable_perm_invariant (b : Nat) {w w' : World} (hw : WEquiv w w') :
    RunAgree Eq ((hunksAvailable b).run w) ((hunksAvailable b).run w') :=
  run_perm_invariant (hunksAvailable_equiv b) hw

/-- `IndexRead::hunk_lengths` ((number, non-empty) pairs sorted by number: the comparison is not
antisymmetric on pairs, but a real listing names every hunk once — `hunkPairs_eq_of_perm`). -/
theorem hunkLengths_perm_invariant (b : Nat) {w w' : World} (hw : WEquiv w w') :
    RunAgree Eq ((hunkLengths b).run w) ((hunkLengths b).run w') :=
  run_perm_invariant (hunkLengths_equiv b) hw

/-- `Band::check_index_hunks`. -/
theorem checkIndexHunks_perm_invariant (b : Nat) {w w' : World} (hw : WEquiv w w') :
    RunAgree Eq ((checkIndexHunks b).run w) ((checkIndexHunks b).run w') :=
  run_perm_invariant (checkIndexHunks_equiv b) hw

/-- `blockdir::list_blocks`: the same subdirectories are listed in the same (name) order; the
names found are equal as multisets. -/
theorem listBlocks_perm_invariant {w w' : World} (hw : WEquiv w w') :
    RunAgree List.Perm (listBlocks.run w) (listBlocks.run w') := run_perm_invariant listBlocks_equiv hw

/-- The stitched listing of a version (`Stitch`, `iter_entries`). -/
theorem listEntries_perm_invariant (b : Nat) (subtree : Str) (excl : Str → Bool) {w w' : World}
    (hw : WEquiv w w') :
    RunAgree Eq ((listEntries b subtree excl).run w) ((listEntries b subtree excl).run w') :=
  run_perm_invariant (listEntries_equiv b subtree excl) hw

/-- `validate_bands` (`xs.any` on the band directory listing). -/
theorem validateBands_perm_invariant (bs : List Nat) (m : List (Str × Nat)) {w w' : World} (hw : WEquiv w w') :
    RunAgree Eq ((validateBands bs m).run w) ((validateBands bs m).run w') :=
  run_perm_invariant (validateBands_equiv bs m) hw

/-! ## 4. The operations -/

section
variable (H : Str → Str)

/-- **Backup, any world** (every fault list, every crash point). -/
theorem backup_perm_invariant_faults (o : BackupOpts) (src : List SrcEntry) {w w' : World} (hw : WEquiv w w') :
    RunAgree Eq ((backup H o src).run w) ((backup H o src).run w') :=
  run_perm_invariant (backup_equiv H o src) hw

/-- **`backup` does not depend on the order of any directory listing** (clean world): the same
statistics or error, equivalent archives, the same events, the same mutating operations — in
fact the same operations altogether, reads included. -/
theorem backup_perm_invariant (o : BackupOpts) (src : List SrcEntry) {s t : Store}
    (h : StoreEquiv s t) (hs : Store.NoDupKeys s) (ht : Store.NoDupKeys t) :
    let r₁ := (backup H o src).run (World.clean s)
    let r₂ := (backup H o src).run (World.clean t)
    r₁.1 = r₂.1 ∧ StoreEquiv r₁.2.store r₂.2.store ∧ Store.NoDupKeys r₁.2.store ∧ Store.NoDupKeys r₂.2.store ∧
    r₁.2.events = r₂.2.events ∧
    r₁.2.trace.filter (fun ev => ev.op.isMutating) = r₂.2.trace.filter (fun ev => ev.op.isMutating) ∧
    r₁.2.trace.map (·.op) = r₂.2.trace.map (·.op) ∧ TraceEquiv r₁.2.trace r₂.2.trace := by
  intro r₁ r₂
  have a := backup_perm_invariant_faults H o src (WEquiv.clean h hs ht)
  exact ⟨a.outcome_eq, a.store, a.nd₁, a.nd₂, a.events, a.mutating_eq, a.ops_eq, a.trace⟩

/-- **Delete, any world.** -/
theorem delete_perm_invariant_faults (strict : Bool) (D : List Nat) (o : DeleteOpts) {w w' : World}
    (hw : WEquiv w w') :
    RunAgree Eq ((deleteBands strict D o).run w) ((deleteBands strict D o).run w') :=
  run_perm_invariant (deleteBands_equiv strict D o) hw

/-- **`delete_bands` does not depend on the order of any directory listing** (clean world).
The model removes the unreferenced blocks in name order; the real code iterates a `HashSet` in
arbitrary order, which cannot change the final store: removals of distinct paths commute
(`erase_comm`, `removals_any_order`; `delBlocks_any_order` below for the program itself). -/
theorem delete_perm_invariant (strict : Bool) (D : List Nat) (o : DeleteOpts) {s t : Store}
    (h : StoreEquiv s t) (hs : Store.NoDupKeys s) (ht : Store.NoDupKeys t) :
    let r₁ := (deleteBands strict D o).run (World.clean s)
    let r₂ := (deleteBands strict D o).run (World.clean t)
    r₁.1 = r₂.1 ∧ StoreEquiv r₁.2.store r₂.2.store ∧ Store.NoDupKeys r₁.2.store ∧ Store.NoDupKeys r₂.2.store ∧
    r₁.2.events = r₂.2.events ∧
    r₁.2.trace.filter (fun ev => ev.op.isMutating) = r₂.2.trace.filter (fun ev => ev.op.isMutating) ∧
    r₁.2.trace.map (·.op) = r₂.2.trace.map (·.op) ∧ TraceEquiv r₁.2.trace r₂.2.trace := by
  intro r₁ r₂
  have a := delete_perm_invariant_faults strict D o (WEquiv.clean h hs ht)
  exact ⟨a.outcome_eq, a.store, a.nd₁, a.nd₂, a.events, a.mutating_eq, a.ops_eq, a.trace⟩

/-- **The order in which `delete_bands` visits the unreferenced blocks is irrelevant.**  The
real code iterates a `HashSet` (arbitrary order); the model's loop `delBlocks`, started in clean
worlds over equivalent stores with the block names in ANY two orders, ends with equivalent
stores and the same error count.  (In a world with faults the order does matter to WHICH
removal fails, as it does in the real code; the claim is for fault-free runs.) -/
theorem delBlocks_any_order {hs hs' : List Str} (hp : hs.Perm hs') (n : Nat) {w w' : World}
    (hc : w.IsClean) (hc' : w'.IsClean) (h : StoreEquiv w.store w'.store)
    (hn : Store.NoDupKeys w.store) (hn' : Store.NoDupKeys w'.store) :
    let r₁ := (deleteBody.delBlocks hs n).run w
    let r₂ := (deleteBody.delBlocks hs' n).run w'
    r₁.1 = r₂.1 ∧ StoreEquiv r₁.2.store r₂.2.store ∧ Store.NoDupKeys r₁.2.store ∧ Store.NoDupKeys r₂.2.store := by
  intro r₁ r₂
  have a := delBlocks_run_clean hs n hc
  have b := delBlocks_run_clean hs' n hc'
  have c := removeBlocksPure_perm hp h n
  refine ⟨?_, ?_, ?_, ?_⟩
  · show ((deleteBody.delBlocks hs n).run w).1 = ((deleteBody.delBlocks hs' n).run w').1
    rw [a.1, b.1, c.2]
  · show StoreEquiv ((deleteBody.delBlocks hs n).run w).2.store ((deleteBody.delBlocks hs' n).run w').2.store
    rw [a.2.1, b.2.1]; exact c.1
  · show Store.NoDupKeys ((deleteBody.delBlocks hs n).run w).2.store
    rw [a.2.1]; exact removeBlocksPure_nodup hn n hs
  · show Store.NoDupKeys ((deleteBody.delBlocks hs' n).run w').2.store
    rw [b.2.1]; exact removeBlocksPure_nodup hn' n hs'

/-- **Restore, any world.** -/
theorem restore_perm_invariant_faults (sel : BandSelection) (subtree : Str) (excl : Str → Bool)
    {w w' : World} (hw : WEquiv w w') :
    RunAgree Eq ((restore H sel subtree excl).run w) ((restore H sel subtree excl).run w') :=
  run_perm_invariant (restore_equiv H sel subtree excl) hw

/-- **`restore` (and `listEntries`) do not depend on the order of any directory listing**: the
same nodes with the same content and metadata, the same reported problems; the archive is not
modified. -/
theorem restore_perm_invariant (sel : BandSelection) (subtree : Str) (excl : Str → Bool) {s t : Store}
    (h : StoreEquiv s t) (hs : Store.NoDupKeys s) (ht : Store.NoDupKeys t) :
    let r₁ := (restore H sel subtree excl).run (World.clean s)
    let r₂ := (restore H sel subtree excl).run (World.clean t)
    r₁.1 = r₂.1 ∧ StoreEquiv r₁.2.store r₂.2.store ∧ r₁.2.events = r₂.2.events ∧
    r₁.2.trace.map (·.op) = r₂.2.trace.map (·.op) := by
  intro r₁ r₂
  have a := restore_perm_invariant_faults H sel subtree excl (WEquiv.clean h hs ht)
  exact ⟨a.outcome_eq, a.store, a.events, a.ops_eq⟩

/-- **Validate, any world** (reports the same problems). -/
theorem validate_perm_invariant_faults (quick : Bool) {w w' : World} (hw : WEquiv w w') :
    RunAgree Eq ((validate H quick).run w) ((validate H quick).run w') :=
  run_perm_invariant (validate_equiv H quick) hw

/-! ## 5. Histories -/

/-- One step of an operation history. -/
inductive HStep
  | backup (o : BackupOpts) (src : List SrcEntry)
  | delete (D : List Nat) (opts : DeleteOpts)

/-- What the caller of a step observes. -/
inductive HObs
  | backup (r : Outcome Stats) (events : List Event)
  | delete (r : Outcome DeleteStats) (events : List Event)

/-- One step on a store, in a clean world (events newest first, as in `World`). -/
def runStep (strict : Bool) : HStep → Store → Store × HObs
  | .backup o src, s =>
    let r := (backup H o src).run (World.clean s)
    (r.2.store, .backup r.1 r.2.events)
  | .delete D opts, s =>
    let r := (deleteBands strict D opts).run (World.clean s)
    (r.2.store, .delete r.1 r.2.events)

/-- Replay a history: final store and the per-step observations. -/
def runHistoryObs (strict : Bool) : List HStep → Store → Store × List HObs
  | [], s => (s, [])
  | st :: rest, s =>
    let a := runStep H strict st s
    let b := runHistoryObs strict rest a.1
    (b.1, a.2 :: b.2)

/-- Replay a history: the final store. -/
def runHistory (strict : Bool) (h : List HStep) (s : Store) : Store := (runHistoryObs H strict h s).1

theorem runStep_perm_invariant (strict : Bool) (st : HStep) {s t : Store}
    (h : StoreEquiv s t) (hs : Store.NoDupKeys s) (ht : Store.NoDupKeys t) :
    StoreEquiv (runStep H strict st s).1 (runStep H strict st t).1 ∧
    Store.NoDupKeys (runStep H strict st s).1 ∧ Store.NoDupKeys (runStep H strict st t).1 ∧
    (runStep H strict st s).2 = (runStep H strict st t).2 := by
  cases st with
  | backup o src =>
    have a := backup_perm_invariant_faults H o src (WEquiv.clean h hs ht)
    simp only [runStep]
    exact ⟨a.store, a.nd₁, a.nd₂, by rw [a.outcome_eq, a.events]⟩
  | delete D opts =>
    have a := delete_perm_invariant_faults strict D opts (WEquiv.clean h hs ht)
    simp only [runStep]
    exact ⟨a.store, a.nd₁, a.nd₂, by rw [a.outcome_eq, a.events]⟩

/-- **The archive is a function of the history, not of enumeration orders**: replaying a history
of backups and deletes on two stores that hold the same files in different listing orders ends
in stores that hold the same files (and are again duplicate-free), and every step returns the
same result and reports the same events. -/
theorem archive_perm_invariant (strict : Bool) (hist : List HStep) {s t : Store}
    (h : StoreEquiv s t) (hs : Store.NoDupKeys s) (ht : Store.NoDupKeys t) :
    StoreEquiv (runHistory H strict hist s) (runHistory H strict hist t) ∧
    Store.NoDupKeys (runHistory H strict hist s) ∧ Store.NoDupKeys (runHistory H strict hist t) ∧
    (runHistoryObs H strict hist s).2 = (runHistoryObs H strict hist t).2 := by
  unfold runHistory
  induction hist generalizing s t with
  | nil => exact ⟨h, hs, ht, rfl⟩
  | cons st rest ih =>
    have a := runStep_perm_invariant H strict st h hs ht
    have b := ih a.1 a.2.1 a.2.2.1
    simp only [runHistoryObs]
    exact ⟨b.1, b.2.1, b.2.2.1, by rw [a.2.2.2, b.2.2.2]⟩

/-- What `Archive::create` leaves: the directory, `d/`, and the `CONSERVE` header. -/
def emptyArchive : Store := [(.root, .dir), (.blockRoot, .dir), (.header, .header [48, 46, 54])]

theorem emptyArchive_noDup : Store.NoDupKeys emptyArchive := by decide

/-- **Two fresh archives**: however the two fresh archive directories enumerate their entries,
replaying the same history into both gives the same set of files with the same (decoded)
contents, the same results and the same events. -/
theorem fresh_archives_agree (strict : Bool) (hist : List HStep) {s t : Store}
    (hs : s.Perm emptyArchive) (ht : t.Perm emptyArchive) :
    StoreEquiv (runHistory H strict hist s) (runHistory H strict hist t) ∧
    (runHistoryObs H strict hist s).2 = (runHistoryObs H strict hist t).2 := by
  have ns : Store.NoDupKeys s := emptyArchive_noDup.of_perm hs.symm
  have nt : Store.NoDupKeys t := emptyArchive_noDup.of_perm ht.symm
  have e : StoreEquiv s t := StoreEquiv.of_perm (hs.trans ht.symm) ns
  have a := archive_perm_invariant H strict hist e ns nt
  exact ⟨a.1, a.2.2.2⟩

/-! ## 6. The source side: `read_dir` order -/

/-- A history step whose backup source is given as a tree (with an exclusion predicate). -/
inductive TStep
  | backup (o : BackupOpts) (T : Node) (excl : Str → Bool)
  | delete (D : List Nat) (opts : DeleteOpts)

/-- The source walk turns a tree step into a history step. -/
def TStep.toH : TStep → HStep
  | .backup o T excl => .backup o (C11.walk T excl)
  | .delete D opts => .delete D opts

/-- Two steps that differ only in the order in which source directories list their children. -/
inductive TStep.PermEq : TStep → TStep → Prop
  | backup (o : BackupOpts) {T₁ T₂ : Node} (excl : Str → Bool) :
      T₁.WF = true → Node.PermEq T₁ T₂ → TStep.PermEq (.backup o T₁ excl) (.backup o T₂ excl)
  | delete (D : List Nat) (opts : DeleteOpts) : TStep.PermEq (.delete D opts) (.delete D opts)

/-- Two tree histories that agree step by step up to `read_dir` order. -/
inductive HistPermEq : List TStep → List TStep → Prop
  | nil : HistPermEq [] []
  | cons {a b : TStep} {r₁ r₂ : List TStep} : TStep.PermEq a b → HistPermEq r₁ r₂ → HistPermEq (a :: r₁) (b :: r₂)

theorem TStep.PermEq.toH_eq {a b : TStep} (h : TStep.PermEq a b) : a.toH = b.toH := by
  cases h with
  | backup o excl hwf hp => simp only [TStep.toH, C11.walk_perm_invariant _ _ excl hwf hp]
  | delete => rfl

theorem HistPermEq.map_toH_eq {h₁ h₂ : List TStep} (h : HistPermEq h₁ h₂) :
    h₁.map TStep.toH = h₂.map TStep.toH := by
  induction h with
  | nil => rfl
  | cons hab _ ih => simp [hab.toH_eq, ih]

/-- **The archive is a function of the source trees and the history, up to every enumeration
order**: neither the order in which source directories list their children (`read_dir`), nor
the order in which archive directories are listed (`list_dir`), influences the files in the
archive, the results, or the events. -/
theorem archive_function_of_tree (strict : Bool) {h₁ h₂ : List TStep} (hh : HistPermEq h₁ h₂) {s t : Store}
    (h : StoreEquiv s t) (hs : Store.NoDupKeys s) (ht : Store.NoDupKeys t) :
    StoreEquiv (runHistory H strict (h₁.map TStep.toH) s) (runHistory H strict (h₂.map TStep.toH) t) ∧
    (runHistoryObs H strict (h₁.map TStep.toH) s).2 = (runHistoryObs H strict (h₂.map TStep.toH) t).2 := by
  rw [hh.map_toH_eq]
  have a := archive_perm_invariant H strict (h₂.map TStep.toH) h hs ht
  exact ⟨a.1, a.2.2.2⟩

end

/-! ## 7. Non-vacuity -/

/-- Two concrete stores: the same small archive (one version directory, two block
directories), listed in opposite orders. -/
def exA : Store :=
  [(.root, .dir), (.header, .header [48, 46, 54]), (.blockRoot, .dir), (.bandDir 0, .dir), (.bandDir 1, .dir),
   (.blockDir [97, 97, 97], .dir), (.blockDir [98, 98, 98], .dir)]
def exB : Store := exA.reverse

example : Store.NoDupKeys exA := by decide
example : Store.NoDupKeys exB := by decide
example : StoreEquiv exA exB := storeEquiv_of_perm (List.reverse_perm exA).symm (by decide)
/-- The hypothesis is not trivial: the two stores are different lists and really answer
`list_dir` in different orders … -/
example : exA ≠ exB := by decide
example : (applyOp true exA (.listDir .root)).2 ≠ (applyOp true exB (.listDir .root)).2 := by decide
example : (applyOp true exA (.listDir .blockRoot)).2 ≠ (applyOp true exB (.listDir .blockRoot)).2 := by decide
/-- … and still every operation answers the same up to the order of the listing. -/
example : Resp.Equiv (applyOp true exA (.listDir .root)).2 (applyOp true exB (.listDir .root)).2 :=
  (applyOp_equiv true (storeEquiv_of_perm (List.reverse_perm exA).symm (by decide)) (by decide) (by decide)
    (.listDir .root)).2.2.2.1

/-- A consumer that does NOT sort (the seeded mutant "band ids not sorted") is told apart: it is
not insensitive, so the theorems above are not true of arbitrary programs. -/
def listBandIdsUnsorted : Prog (List Nat) := do
  match ← Prog.perform (.listDir .root) with
  | .listing xs =>
    pure <| xs.filterMap fun e =>
      match e.key with
      | .bandDir b => if e.isDir then some b else none
      | _ => none
  | .err e => .fail (.transport e)
  | _ => .fail (.transport .other)

def okVal {α : Type} : Outcome α → Option α
  | .ok a => some a
  | _ => none

example : okVal (listBandIdsUnsorted.run (World.clean exA)).1 = some [0, 1] := by decide
example : okVal (listBandIdsUnsorted.run (World.clean exB)).1 = some [1, 0] := by decide
example : (listBandIds.run (World.clean exA)).1 = (listBandIds.run (World.clean exB)).1 :=
  (listBandIds_perm_invariant (WEquiv.clean (storeEquiv_of_perm (List.reverse_perm exA).symm (by decide))
    (by decide) (by decide))).outcome_eq

/-- The history theorem applies to the two concrete stores and any history. -/
example (H : Str → Str) (hist : List HStep) :
    StoreEquiv (runHistory H true hist exA) (runHistory H true hist exB) :=
  (archive_perm_invariant H true hist (storeEquiv_of_perm (List.reverse_perm exA).symm (by decide))
    (by decide) (by decide)).1

/-- Two fresh archives enumerated in different orders. -/
example (H : Str → Str) (hist : List HStep) :
    StoreEquiv (runHistory H true hist emptyArchive) (runHistory H true hist emptyArchive.reverse) :=
  (fresh_archives_agree H true hist (List.Perm.refl _) (List.reverse_perm _)).1

end Conserve.C17
