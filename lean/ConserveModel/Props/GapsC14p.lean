import ConserveModel.Props.C14p
import ConserveModel.Proofs.GapKindsStep
import ConserveModel.Proofs.GapKindsSmall
import ConserveModel.Proofs.GapKindsHist
/-
Gaps — the "C14p residuals".

`C14p.unchanged_statement_from_ci` derives the first clause of C14 from C13's format invariant `CI`
plus residual hypotheses, among them
* `KindsOK s`     — directories where the layout has directories, files where it has files, and
* `BlocksSmall s` — every block shorter than 2^64 bytes,
which `C14p.produced_store_facts` obtains only for archives PRODUCED by fault-free operations
(`C09p.ProducedOK`: no injected fault, a crash point at most).  This file shows that both are
invariants of `backup` and of `delete_bands` in EVERY world — any fault list, any crash point, dead or
alive, `CreateNew` enforced or not — and hence of every `C13` history (`history_kinds_small`), so they
hold after faulted and crashed histories too, and restates the C14p theorems for the archives such a
history visits without these two hypotheses (`unchanged_statement_after_history`, …).

What is needed, and what is not:
* `KindsOK` needs NOTHING: no format invariant, not even `NoDupKeys` (`Rng.backup_kindsOK` asks for
  it; `erase`/`eraseTree` filter by key only, so it is superfluous), nothing of the source, the
  options, the hash or the world (`history_kinds`).
* `BlocksSmall` needs one thing of every backup step: the contents of the regular files of its source
  listing add up to less than 2^64 bytes — `srcBytes src < u64` (`StepSmall`).  A block is either a
  chunk of one file or the combiner's buffer, a concatenation of (prefixes of) distinct source files;
  since a failed flush puts the buffer back and later small files keep being appended to it, under
  faults only the SUM of the file sizes bounds it, not `maxBlockSize + smallFileCap`.  Nothing else:
  no `entriesInRange` of the store (`Rng.backup_irs` needs it), no representable source times, no
  sortedness, no `C13.HistOK`.  It follows from `SrcInRange` (C09p) and from `SrcGood` (C01a).
* `delete_bands` (either mode) keeps both unconditionally.
Not shown: that the bound is necessary (a witness needs a source file of 2^64 bytes).
-/
namespace Conserve.Gaps
open Conserve Conserve.Inv Conserve.Conf Conserve.Exact Conserve.Rng

variable {H : Str → Str}

/-! ## 1. One operation, every world -/

/-- **`backup_keeps_kinds_small`.**  `backup`, in EVERY world `w` (any faults, any crash point, dead
or alive, `CreateNew` enforced or not), from every store, with every hash, all options and a source
listing whose regular files hold fewer than 2^64 bytes in total: if directories are where the layout
has directories and every block is shorter than 2^64 bytes before, so after — however the run ended. -/
theorem backup_keeps_kinds_small (H : Str → Str) (o : BackupOpts) (src : List SrcEntry) (w : World)
    (hbytes : srcBytes src < u64) (hk : KindsOK w.store) (hb : BlocksSmall w.store) :
    KindsOK ((backup H o src).run w).2.store ∧ BlocksSmall ((backup H o src).run w).2.store :=
  ⟨Kinds.backup_kindsOK H o src w hk, Kinds.backup_small H o hbytes w hb⟩

/-- **`delete_keeps_kinds_small`.**  `delete_bands` (strict or not), in EVERY world, from every store:
`KindsOK` and `BlocksSmall` survive, each on its own. -/
theorem delete_keeps_kinds_small (strict : Bool) (D : List Nat) (opts : DeleteOpts) (w : World) :
    (KindsOK w.store → KindsOK ((deleteBands strict D opts).run w).2.store) ∧
    (BlocksSmall w.store → BlocksSmall ((deleteBands strict D opts).run w).2.store) :=
  ⟨Kinds.delete_kindsOK strict D opts w, Kinds.delete_small strict D opts w⟩

/-! ## 2. Histories -/

/-- What `BlocksSmall` needs of one step of a `C13` history: a backup's source listing holds fewer
than 2^64 bytes of file content in total; nothing of a delete.  The step's world is unconstrained. -/
def StepSmall : C13.Step → Prop
  | .backup _ src _ => srcBytes src < u64
  | .delete _ _ _ => True

/-- Every step of the history satisfies the size bound. -/
def HistSmall (hist : List C13.Step) : Prop := ∀ st ∈ hist, StepSmall st

/-- C09p's in-range condition on a step (`SrcInRange`: representable times and the size bound)
implies the size bound. -/
theorem StepSmall.of_inRange {st : C13.Step} (h : C09p.StepInRange st) : StepSmall st := by
  cases st with
  | backup o src w => exact h.bytes
  | delete D opts w => trivial

/-- A source that is `SrcGood` (C01a) satisfies the size bound. -/
theorem srcBytes_of_srcGood {src : List SrcEntry} (h : SrcGood src) : srcBytes src < u64 :=
  (C09p.srcInRange_of_srcGood h).bytes

/-- One step of a history, in its own arbitrary world, keeps `KindsOK` — no condition at all. -/
theorem step_kinds (st : C13.Step) (s : Store) (hk : KindsOK s) : KindsOK (st.run H s) := by
  cases st with
  | backup o src w => exact Kinds.backup_kindsOK H o src { w with store := s } hk
  | delete D opts w => exact Kinds.delete_kindsOK true D opts { w with store := s } hk

/-- One step of a history, in its own arbitrary world, keeps `BlocksSmall` under the size bound. -/
theorem step_small (st : C13.Step) (s : Store) (hst : StepSmall st) (hb : BlocksSmall s) :
    BlocksSmall (st.run H s) := by
  cases st with
  | backup o src w => exact Kinds.backup_small H o hst { w with store := s } hb
  | delete D opts w => exact Kinds.delete_small true D opts { w with store := s } hb

/-- **`history_kinds`.**  Over ANY `C13` history — backup attempts and deletes, each with arbitrary
options in an arbitrary world, with arbitrary source listings — every archive visited has directories
where the layout has directories and files where it has files, if the first one does.  No hypothesis
on the history, the hash or the starting archive besides `KindsOK` itself. -/
theorem history_kinds (hist : List C13.Step) (s : Store) (hk : KindsOK s) :
    ∀ s' ∈ C13.states H hist s, KindsOK s' :=
  Kinds.states_inv (A := fun _ => True) (fun st s _ h => step_kinds st s h) hist (fun _ _ => trivial) s hk

/-- **`history_kinds_small`.**  Over any `C13` history each of whose backup steps has a source with
fewer than 2^64 bytes of file content (`HistSmall`), every step running in an ARBITRARY world (any
faults, any crash point, dead or alive, `CreateNew` enforced or not): every archive visited — after
every step, completed, failed or interrupted — satisfies `KindsOK` and `BlocksSmall`, if the first
one does.  `C13.HistOK` (sorted sources, `CreateNew` enforced) is NOT needed, nor is any format
invariant of the starting archive. -/
theorem history_kinds_small (hist : List C13.Step) (hsm : HistSmall hist) (s : Store)
    (hk : KindsOK s) (hb : BlocksSmall s) :
    ∀ s' ∈ C13.states H hist s, KindsOK s' ∧ BlocksSmall s' :=
  Kinds.states_inv (I := fun s => KindsOK s ∧ BlocksSmall s) (A := StepSmall)
    (fun st s hst h => ⟨step_kinds st s h.1, step_small st s hst h.2⟩) hist hsm s ⟨hk, hb⟩

/-- The same in the shape of `C13.history_conforms`, with `C13.HistOK` among the hypotheses (it is
not used). -/
theorem history_kinds_small_of_histOK (hist : List C13.Step) (_hok : C13.HistOK hist)
    (hsm : HistSmall hist) (s : Store) (hk : KindsOK s) (hb : BlocksSmall s) :
    ∀ s' ∈ C13.states H hist s, KindsOK s' ∧ BlocksSmall s' :=
  history_kinds_small hist hsm s hk hb

/-- The empty archive of C13 has directories where directories belong and no block. -/
theorem emptyArchive_kinds_small : KindsOK C13.emptyArchive ∧ BlocksSmall C13.emptyArchive :=
  ⟨C14p.initArchive_kindsOK, C14p.initArchive_small⟩

/-- **`reachable_kinds_small`.**  Every archive reachable from the empty one by a history with the
size bound — in arbitrary worlds — satisfies `KindsOK` and `BlocksSmall`. -/
theorem reachable_kinds_small (hist : List C13.Step) (hsm : HistSmall hist) :
    ∀ s' ∈ C13.states H hist C13.emptyArchive, KindsOK s' ∧ BlocksSmall s' :=
  history_kinds_small hist hsm _ emptyArchive_kinds_small.1 emptyArchive_kinds_small.2

/-- **`history_ci`.**  C13's invariant over a history (`C13.history_conforms` states the `Conforms`
part only): every archive an admissible history visits from an archive satisfying `CI` satisfies
`CI` — conforming, every key's parent a directory, no key twice. -/
theorem history_ci (hinj : Function.Injective H) (hlen : HashLen H) (hist : List C13.Step)
    (hok : C13.HistOK hist) (s : Store) (hci : CI H s) : ∀ s' ∈ C13.states H hist s, CI H s' :=
  Kinds.states_inv (I := CI H) (A := C13.Step.OK) (fun st s h hci => C13.step_ci hinj hlen st s h hci)
    hist hok s hci

/-- **`history_storeOK`.**  C01a's store hypothesis `StoreOK` (a map and a tree, kinds, `d/`, block
names, block lengths) holds of every archive an admissible history with the size bound visits —
faults, crashes and all — from an archive with `CI`, `KindsOK` and `BlocksSmall`. -/
theorem history_storeOK (hinj : Function.Injective H) (hlen : HashLen H) (hist : List C13.Step)
    (hok : C13.HistOK hist) (hsm : HistSmall hist) (s : Store) (hci : CI H s) (hk : KindsOK s)
    (hb : BlocksSmall s) : ∀ s' ∈ C13.states H hist s, StoreOK H s' := fun s' hs' =>
  let ⟨hk', hb'⟩ := history_kinds_small hist hsm s hk hb s' hs'
  storeOK_of_ci (history_ci hinj hlen hist hok s hci s' hs') hk' hb'

/-- **`history_in_range`** (the third store-only residual, for completeness; C09p proves it inside
`silent_on_reachable`): `entriesInRange` — representable times, no address overflow — holds of every
archive a history visits whose backup steps have in-range sources (`C09p.StepInRange`), in arbitrary
worlds, if it holds of the first. -/
theorem history_in_range (hist : List C13.Step) (hrng : ∀ st ∈ hist, C09p.StepInRange st) (s : Store)
    (hr : entriesInRange s = true) : ∀ s' ∈ C13.states H hist s, entriesInRange s' = true :=
  Kinds.states_inv (I := fun s => entriesInRange s = true) (A := C09p.StepInRange)
    (fun st s h hr => C09p.step_inRange st s h hr) hist hrng s hr

/-! ## 3. The C14p theorems after a history -/

/-- **`archive_good_after_history`.**  C01a's hypothesis on the archive, for an archive `s` visited by
an admissible history with the size bound (arbitrary worlds) from an archive `s0` with `CI`, `KindsOK`
and `BlocksSmall`: what remains to assume of `s` is what a faulted or killed step CAN destroy or
what the store does not determine — readable heads, values in range, no `GC_LOCK`, the tool's
heuristic. -/
theorem archive_good_after_history (hinj : Function.Injective H) (hlen : HashLen H)
    (hist : List C13.Step) (hok : C13.HistOK hist) (hsm : HistSmall hist) (s0 : Store) (hci : CI H s0)
    (hk : KindsOK s0) (hb : BlocksSmall s0) {s : Store} (hs : s ∈ C13.states H hist s0)
    {src : List SrcEntry} (hheads : AllHeadsReadable s) (hrange : entriesInRange s = true)
    (hlock : s.get? .gcLock = none) (hheur : HeuristicSoundStore H src s) : ArchiveGood H src s :=
  let ⟨hk', hb'⟩ := history_kinds_small hist hsm s0 hk hb s hs
  archiveGood_of_ci (history_ci hinj hlen hist hok s0 hci s hs) hheads hrange hk' hb' hlock hheur

/-- **`unchanged_statement_after_history`.**  `C14p.unchanged_statement_from_ci` without the residual
hypotheses `KindsOK s` and `BlocksSmall s` (and with `CI H s` derived too): let `s` be ANY archive
visited by a history of backup attempts and deletes — each step with arbitrary options in an
arbitrary world that enforces `CreateNew` (injected faults, a crash point, dead or alive), sorted
valid sources holding fewer than 2^64 bytes — from an archive `s0` with `CI`, `KindsOK`, `BlocksSmall`
(e.g. the empty one).  If every version directory of `s` has a readable head, stored values are in
range, there is no `GC_LOCK`, the tool's heuristic is sound for `src`, `basis` is the listing of the
newest version and `src` matches it entry by entry with every file heuristically unchanged, then the
fault-free backup of `src` into `s` issues no `write` to any block file. -/
theorem unchanged_statement_after_history (hinj : Function.Injective H) (hlen : HashLen H)
    (hist : List C13.Step) (hok : C13.HistOK hist) (hsm : HistSmall hist) (s0 : Store) (hci : CI H s0)
    (hk : KindsOK s0) (hb : BlocksSmall s0) (s : Store) (hs : s ∈ C13.states H hist s0)
    (o : BackupOpts) (src : List SrcEntry) (basis : List IndexEntry) (b : Nat)
    (ho : 0 < o.maxBlockSize) (hsrc : SrcGood src)
    (hheads : AllHeadsReadable s) (hrange : entriesInRange s = true)
    (hlock : s.get? .gcLock = none) (hheur : HeuristicSoundStore H src s)
    (hmax : maxNat? (bandIdsOf s) = some b)
    (hlist : ((listVersion (.specified b) [slash] (fun _ => false)).run (World.clean s)).1 = .ok basis)
    (hzip : basis.length = src.length ∧ ∀ p ∈ basis.zip src,
        p.1.apath = p.2.apath ∧ p.1.kind = p.2.kind ∧
        (p.2.kind = .file → heuristicallyUnchanged p.2 p.1 = some true)) :
    let r := (backup H o src).run (World.clean s)
    ∀ ev ∈ r.2.trace, ∀ h v m, ev.op ≠ .write (.block h) v m :=
  let ⟨hk', hb'⟩ := history_kinds_small hist hsm s0 hk hb s hs
  C14p.unchanged_statement_from_ci hinj hlen s o src basis b ho hsrc
    (history_ci hinj hlen hist hok s0 hci s hs) hheads hrange hk' hb' hlock hheur hmax hlist hzip

/-- **`unchanged_statement_reachable`.**  The same from the empty archive, with `entriesInRange`
derived as well (the steps' sources in range, `C09p.StepInRange`, which contains the size bound):
left to assume of the visited archive are readable heads, no `GC_LOCK`, and the tool's heuristic. -/
theorem unchanged_statement_reachable (hinj : Function.Injective H) (hlen : HashLen H)
    (hist : List C13.Step) (hok : C13.HistOK hist) (hrng : ∀ st ∈ hist, C09p.StepInRange st)
    (s : Store) (hs : s ∈ C13.states H hist C13.emptyArchive)
    (o : BackupOpts) (src : List SrcEntry) (basis : List IndexEntry) (b : Nat)
    (ho : 0 < o.maxBlockSize) (hsrc : SrcGood src) (hheads : AllHeadsReadable s)
    (hlock : s.get? .gcLock = none) (hheur : HeuristicSoundStore H src s)
    (hmax : maxNat? (bandIdsOf s) = some b)
    (hlist : ((listVersion (.specified b) [slash] (fun _ => false)).run (World.clean s)).1 = .ok basis)
    (hzip : basis.length = src.length ∧ ∀ p ∈ basis.zip src,
        p.1.apath = p.2.apath ∧ p.1.kind = p.2.kind ∧
        (p.2.kind = .file → heuristicallyUnchanged p.2 p.1 = some true)) :
    let r := (backup H o src).run (World.clean s)
    ∀ ev ∈ r.2.trace, ∀ h v m, ev.op ≠ .write (.block h) v m :=
  unchanged_statement_after_history hinj hlen hist hok (fun st h => StepSmall.of_inRange (hrng st h))
    C13.emptyArchive C13.emptyArchive_ci emptyArchive_kinds_small.1 emptyArchive_kinds_small.2 s hs
    o src basis b ho hsrc hheads
    (history_in_range hist hrng C13.emptyArchive (by decide) s hs) hlock hheur hmax hlist hzip

/-- **`unchanged_backup_after_history`.**  Both conclusions of `C14p.unchanged_backup_from_ci` for an
archive visited by a history, without `KindsOK`/`BlocksSmall`/`CI` of it: no block write, and the new
version lists the same paths with, for every file, exactly the basis entry's addresses. -/
theorem unchanged_backup_after_history (hinj : Function.Injective H) (hlen : HashLen H)
    (hist : List C13.Step) (hok : C13.HistOK hist) (hsm : HistSmall hist) (s0 : Store) (hci : CI H s0)
    (hk : KindsOK s0) (hb : BlocksSmall s0) (s : Store) (hs : s ∈ C13.states H hist s0)
    (o : BackupOpts) (src : List SrcEntry) (ho : 0 < o.maxBlockSize) (hsrc : SrcGood src)
    (hheads : AllHeadsReadable s) (hrange : entriesInRange s = true)
    (hlock : s.get? .gcLock = none) (hheur : HeuristicSoundStore H src s)
    (hun : Paired (fun be sf => be.apath = sf.apath ∧
      (sf.kind = .file → heuristicallyUnchanged sf be = some true)) (basisListing s) src) :
    let r := (backup H o src).run (World.clean s)
    (∀ ev ∈ r.2.trace, ∀ h v m, ev.op ≠ .write (.block h) v m) ∧
    Paired (fun be e => e.apath = be.apath ∧ (e.kind = .file → e.addrs = be.addrs))
      (basisListing s) (listSpec r.2.store (newBandOf s)) :=
  let ⟨hk', hb'⟩ := history_kinds_small hist hsm s0 hk hb s hs
  C14p.unchanged_backup_from_ci hinj hlen s o src ho hsrc
    (history_ci hinj hlen hist hok s0 hci s hs) hheads hrange hk' hb' hlock hheur hun

/-! ## Non-vacuity -/

namespace Example

/-- The source of `C04.Example` (`/`, `/a`, `/b`: five bytes of file content) is within the bound. -/
theorem source_small : srcBytes C04.Example.source < u64 := C09p.Example.source_inRange.bytes

/-- `backup_keeps_kinds_small` applies to the faulty, killed world of `C13.Example` (two injected
faults and a crash point, on the empty archive) … -/
example :
    KindsOK ((backup C13.Example.exH C04.Example.opts C04.Example.source).run C13.Example.world).2.store ∧
    BlocksSmall ((backup C13.Example.exH C04.Example.opts C04.Example.source).run C13.Example.world).2.store :=
  backup_keeps_kinds_small _ _ _ C13.Example.world source_small
    emptyArchive_kinds_small.1 emptyArchive_kinds_small.2

/-- `C13.Example.archive2` (one complete version holding `/a` in one block) has directories where
directories belong … -/
theorem archive2_kinds : KindsOK C13.Example.archive2 := by
  intro k v h
  have := Store.mem_of_get?' h
  simp only [C13.Example.archive2, List.mem_cons, Prod.mk.injEq, List.not_mem_nil, or_false] at this
  rcases this with ⟨rfl, rfl⟩ | ⟨rfl, rfl⟩ | ⟨rfl, rfl⟩ | ⟨rfl, rfl⟩ | ⟨rfl, rfl⟩ | ⟨rfl, rfl⟩ | ⟨rfl, rfl⟩ |
    ⟨rfl, rfl⟩ | ⟨rfl, rfl⟩ | ⟨rfl, rfl⟩ | ⟨rfl, rfl⟩ <;> rfl

/-- … and a two-byte block. -/
theorem archive2_small : BlocksSmall C13.Example.archive2 := by
  intro h c hg
  have := Store.mem_of_get?' hg
  simp only [C13.Example.archive2, List.mem_cons, Prod.mk.injEq, List.not_mem_nil, or_false,
    reduceCtorEq, false_and, false_or, or_false, Key.block.injEq, FileVal.blockData.injEq] at this
  rw [this.2]; decide

/-- … and to a world on `archive2` that does NOT enforce `CreateNew`, with an unsorted source (`/b`
before `/a`) and a crash point, where `C13`'s theorems do not apply. -/
example :
    let w : World := { store := C13.Example.archive2, enforceCreateNew := false, crashAt := some 5 }
    let src := [C04.Example.fb, C04.Example.fa]
    KindsOK ((backup id {} src).run w).2.store ∧ BlocksSmall ((backup id {} src).run w).2.store :=
  backup_keeps_kinds_small _ _ _ _ (by decide) archive2_kinds archive2_small

/-- A world on `archive2` with an injected fault and a crash point. -/
def delWorld : World :=
  { store := C13.Example.archive2,
    faults := [{ at_ := { verb := .removeFile, key := .block [0, 0, 0, 1, 2], nth := 0 }, kind := .other }],
    crashAt := some 2 }

/-- `delete_keeps_kinds_small`: deleting the only version of `archive2` in that world. -/
example : KindsOK ((deleteBands true [0] {}).run delWorld).2.store ∧
    BlocksSmall ((deleteBands true [0] {}).run delWorld).2.store :=
  ⟨(delete_keeps_kinds_small true [0] {} delWorld).1 archive2_kinds,
   (delete_keeps_kinds_small true [0] {} delWorld).2 archive2_small⟩

/-- The two-step history of `C13.Example` — a faulty, killed backup, then a delete — satisfies the
size bound … -/
theorem hist_small : HistSmall [.backup C04.Example.opts C04.Example.source C13.Example.world,
    .delete [0] {} (World.clean [])] := by
  intro st hst
  simp only [List.mem_cons, List.not_mem_nil, or_false] at hst
  rcases hst with rfl | rfl
  · exact source_small
  · trivial

/-- … so every archive it visits from the empty one has `KindsOK` and `BlocksSmall`. -/
example : ∀ s' ∈ C13.states C13.Example.exH [.backup C04.Example.opts C04.Example.source C13.Example.world,
      .delete [0] {} (World.clean [])] C13.emptyArchive, KindsOK s' ∧ BlocksSmall s' :=
  reachable_kinds_small _ hist_small

/-- `history_kinds` needs nothing of the history. -/
example (hist : List C13.Step) : ∀ s' ∈ C13.states id hist C13.emptyArchive, KindsOK s' :=
  history_kinds hist _ emptyArchive_kinds_small.1

/-- The one-step history "back up `C01a.Example.source` into the empty archive, fault-free". -/
def hist1 : List C13.Step := [.backup C01a.Example.opts C01a.Example.source (World.clean [])]

/-- The archive it leaves. -/
def s1 : Store := ((backup C01a.Example.exH C01a.Example.opts C01a.Example.source).run
  (World.clean C01a.Example.archive)).2.store

theorem s1_visited : s1 ∈ C13.states C01a.Example.exH hist1 C13.emptyArchive := by
  simp only [hist1, C13.states, List.mem_cons, List.not_mem_nil, or_false]
  exact Or.inr rfl

theorem hist1_ok : C13.HistOK hist1 := by
  intro st hst
  simp only [hist1, List.mem_cons, List.not_mem_nil, or_false] at hst
  subst hst
  refine ⟨⟨C01a.Example.source_good.sorted, ?_⟩, rfl⟩
  intro e he
  refine ⟨C01a.Example.source_good.valid e he, ?_, C01a.Example.source_good.kinds e he⟩
  simp only [C01a.Example.source, List.mem_cons, List.not_mem_nil, or_false] at he
  rcases he with rfl | rfl | rfl | rfl | rfl | rfl <;> decide

theorem hist1_small : HistSmall hist1 := by
  intro st hst
  simp only [hist1, List.mem_cons, List.not_mem_nil, or_false] at hst
  subst hst
  exact srcBytes_of_srcGood C01a.Example.source_good

/-- The archive the first backup leaves is `ArchiveGood` for the same source (C01a). -/
theorem s1_good : ArchiveGood C01a.Example.exH C01a.Example.source s1 :=
  C01a.backup_keeps_archive_good_same _ C01a.Example.exH_inj C01a.Example.exH_len _ _ _ (by decide)
    C01a.Example.source_good
    (ArchiveGood.of_noBands C01a.Example.archive_ok C01a.Example.archive_noBands C01a.Example.archive_noLock _)

/-- **All hypotheses of `unchanged_backup_after_history` hold** of the archive `s1` this history
visits and the same source again: the second backup writes no block and records the basis addresses. -/
example :
    let r := (backup C01a.Example.exH {} C01a.Example.source).run (World.clean s1)
    (∀ ev ∈ r.2.trace, ∀ h v m, ev.op ≠ .write (.block h) v m) ∧
    Paired (fun be e => e.apath = be.apath ∧ (e.kind = .file → e.addrs = be.addrs))
      (basisListing s1) (listSpec r.2.store (newBandOf s1)) := by
  have hg0 : ArchiveGood C01a.Example.exH C01a.Example.source C01a.Example.archive :=
    ArchiveGood.of_noBands C01a.Example.archive_ok C01a.Example.archive_noBands C01a.Example.archive_noLock _
  obtain ⟨s', hss, stats, evs, h⟩ := backup_summary (o := C01a.Example.opts) C01a.Example.exH_inj
    C01a.Example.exH_len (by decide) C01a.Example.source_good hg0
  obtain ⟨_, h2, _⟩ := h.runs.clean
  have hp : Paired (fun be sf => be.apath = sf.apath ∧
      (sf.kind = .file → heuristicallyUnchanged sf be = some true)) (basisListing s1) C01a.Example.source := by
    show Paired _ (basisListing ((backup C01a.Example.exH C01a.Example.opts C01a.Example.source).run
      (World.clean C01a.Example.archive)).2.store) _
    rw [h2]; exact h.unchanged_pair C01a.Example.source_good hg0.st
  exact unchanged_backup_after_history C01a.Example.exH_inj C01a.Example.exH_len hist1 hist1_ok hist1_small
    C13.emptyArchive C13.emptyArchive_ci emptyArchive_kinds_small.1 emptyArchive_kinds_small.2 s1 s1_visited
    {} C01a.Example.source (by decide) C01a.Example.source_good
    (fun b hb => (s1_good.bands b hb).1)
    (history_in_range hist1 (by
        intro st hst
        simp only [hist1, List.mem_cons, List.not_mem_nil, or_false] at hst
        subst hst
        exact C09p.srcInRange_of_srcGood C01a.Example.source_good)
      C13.emptyArchive (by decide) s1 s1_visited)
    s1_good.noLock s1_good.heuristic hp

end Example

end Conserve.Gaps

#print axioms Conserve.Gaps.backup_keeps_kinds_small
#print axioms Conserve.Gaps.delete_keeps_kinds_small
#print axioms Conserve.Gaps.history_kinds
#print axioms Conserve.Gaps.history_kinds_small
#print axioms Conserve.Gaps.reachable_kinds_small
#print axioms Conserve.Gaps.history_ci
#print axioms Conserve.Gaps.history_storeOK
#print axioms Conserve.Gaps.history_in_range
#print axioms Conserve.Gaps.archive_good_after_history
#print axioms Conserve.Gaps.unchanged_statement_after_history
#print axioms Conserve.Gaps.unchanged_statement_reachable
#print axioms Conserve.Gaps.unchanged_backup_after_history
