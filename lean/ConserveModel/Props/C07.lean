import ConserveModel.Proofs.FrameBand
import ConserveModel.Proofs.FrameConc
import ConserveModel.Proofs.FrameDelete
/-
C07 — Archive files are write-once.

"Archive files are write-once: backup never alters or removes existing files.  Across any
history, a backup (complete, interrupted or resumed) only adds files: every file that existed in
the archive beforehand still exists afterwards with identical bytes, no path is written twice (a
zero-length leftover of a killed write may be completed), and a new version always gets an id
above every existing one.  Only an explicit delete or gc removes files, and then only the
requested versions' directories, unreferenced blocks and its own lock file.  This also holds when
two backups race: the loser fails rather than writing into the winner's version."

All "backup" theorems quantify over EVERY world `w` with `w.enforceCreateNew = true`: any list of
injected faults, any crash point (`crashAt`, so every interrupted run), dead or alive, any starting
store (so also a store left behind by an interrupted run: "resumed"), any options and source
listing.  `enforceCreateNew = true` is the transport as repaired (D4): a `CreateNew` write onto an
existing non-empty file is refused.  `two_backups_refuted_without_enforce` documents what went
wrong before the repair.

Proof route: `backup` is built only from `BackupOp`s (reads, `createDir`, `CreateNew` writes of
non-empty values; Proofs/FrameOps.lean), each of which extends the store in every world
(`World.exec_extends`, Proofs/FrameStep.lean).

Open item (stated, proved in part): the second half of `delete_removes_only` — that the removed
blocks are exactly those no kept version references — needs the functional specification of
`referencedBlocks` on a clean world (the `delete_exact` development).  Here:
`delete_removes_unreferenced_partial` (the blocks removed are among those *listed as present* and
*not in the list `referencedBlocks` returned*, in every world).
-/
namespace Conserve.C07
open Conserve Prog

section
variable (H : Str → Str)

/-! ### 1. Backup only adds -/

/-- The single step behind everything: in every world honouring `CreateNew` (faults, crash point
between the two halves of a write, dead …) one `CreateOnly` operation leaves a store that extends
the old one.  (The micro-step that creates an empty file lands on an absent key or on a zero-length
file; a `CreateNew` write onto a non-empty file is refused with `alreadyExists`.) -/
theorem step_extends (w : World) (o : Op) (he : w.enforceCreateNew = true) (ho : CreateOnly o) :
    Extends w.store (w.exec o).1.store :=
  World.exec_extends w o he ho

/-- Any program built from `CreateOnly` operations extends the store, in every such world. -/
theorem createOnly_prog_extends {α : Type} (p : Prog α) (hp : AllOps CreateOnly p) (w : World)
    (he : w.enforceCreateNew = true) : Extends w.store (p.run w).2.store :=
  Prog.run_extends hp w he

/-- **C07, main clause.**  In every world that honours `CreateNew` — any faults, any crash point,
dead or alive — the store after `backup` extends the store before: every directory and every
non-empty file is still there with the same value; a zero-length file (leftover of a killed write)
is still there, possibly completed. -/
theorem backup_extends (o : BackupOpts) (src : List SrcEntry) (w : World) (he : w.enforceCreateNew = true) :
    Extends w.store ((backup H o src).run w).2.store :=
  Prog.run_extends (backup_createOnly H o src) w he

/-- The same for opening the archive and then backing up (what the command does). -/
theorem open_backup_extends (o : BackupOpts) (src : List SrcEntry) (w : World) (he : w.enforceCreateNew = true) :
    Extends w.store ((archiveOpen >>= fun _ => backup H o src).run w).2.store :=
  Prog.run_extends (open_backup_bk H o src).bk_co w he

/-- In the property's words, first half: every non-empty file (and every directory) that existed
beforehand exists afterwards with identical content. -/
theorem backup_keeps_files (o : BackupOpts) (src : List SrcEntry) (w : World) (he : w.enforceCreateNew = true)
    (k : Key) (v : FileVal) (hv : w.store.get? k = some v) (hne : v ≠ .empty) :
    ((backup H o src).run w).2.store.get? k = some v :=
  (backup_extends H o src w he).keeps hv hne

/-- Second half: nothing disappears — a zero-length file may only stay or become something else. -/
theorem backup_removes_nothing (o : BackupOpts) (src : List SrcEntry) (w : World) (he : w.enforceCreateNew = true)
    (k : Key) (hk : (w.store.get? k).isSome = true) :
    (((backup H o src).run w).2.store.get? k).isSome = true := by
  obtain ⟨v, hv⟩ := Option.isSome_iff_exists.mp hk
  exact (backup_extends H o src w he).present hv

/-- One backup attempt of a history: options, source, injected faults, crash point. -/
structure Attempt where
  opts : BackupOpts
  src : List SrcEntry
  faults : List Fault := []
  crashAt : Option Nat := none

/-- A history of backups (complete, failed, interrupted, resumed …), each starting from the
store the previous one left. -/
def runHistory : List Attempt → Store → Store
  | [], s => s
  | a :: rest, s =>
    runHistory rest ((backup H a.opts a.src).run { store := s, faults := a.faults, crashAt := a.crashAt }).2.store

/-- **Across any history** of backups the archive only grows. -/
theorem history_extends (hist : List Attempt) (s : Store) : Extends s (runHistory H hist s) := by
  induction hist generalizing s with
  | nil => exact Extends.refl _
  | cons a rest ih =>
    unfold runHistory
    exact (backup_extends H a.opts a.src { store := s, faults := a.faults, crashAt := a.crashAt } rfl).trans (ih _)

/-! ### 2. Backup issues no removal and no overwriting write -/

/-- In EVERY world (whether or not `CreateNew` is honoured): the operations a run of `backup`
adds to the trace contain no `removeFile` / `removeDirAll`, and every write is `CreateNew`. -/
theorem backup_no_remove_ops (o : BackupOpts) (src : List SrcEntry) (w : World) :
    ∃ new, ((backup H o src).run w).2.trace = new ++ w.trace ∧
      (∀ ev ∈ new, ev.op.isRemove = false) ∧
      (∀ ev ∈ new, ∀ k v m, ev.op = .write k v m → m = .createNew ∧ v ≠ .empty) := by
  obtain ⟨new, ht, hP⟩ := Prog.run_trace_ops (backup_bk H o src) w
  refine ⟨new, ht, fun ev hev => (hP ev hev).createOnly.not_remove, ?_⟩
  intro ev hev k v m hop
  have := hP ev hev
  rw [hop] at this
  exact this

/-- The same as a statement about the program text: every operation node of `backup`, on every
branch, is a read, a `createDir`, or a `CreateNew` write. -/
theorem backup_ops_createOnly (o : BackupOpts) (src : List SrcEntry) : AllOps CreateOnly (backup H o src) :=
  backup_createOnly H o src

/-! ### 3. The new version's id is above every existing one -/

/-- Program text, any world: `bandCreate` lists the root first; whatever comes back (`r`), every
operation that then creates a band directory / index directory / head for an id `b` has
`r = listing xs` and `b = nextBandId` of the ids listed — so `b` is above every listed id. -/
theorem new_band_id_above :
    ∃ k, bandCreate = .op (.listDir .root) k ∧
      ∀ r, AllOps (fun o => ∀ b, o.createsBand b →
        ∃ xs, r = .listing xs ∧ ∀ b' ∈ listingBandIds xs, b' < b) (k r) := by
  obtain ⟨k, hk, h⟩ := bandCreate_shape
  refine ⟨k, hk, fun r => (h r).mono ?_⟩
  intro o ho b hb
  obtain ⟨xs, hr, rfl⟩ := ho b hb
  exact ⟨xs, hr, nextBandId_gt _⟩

/-- The same about runs, any world: if the trace of `bandCreate` gains `createDir (bandDir b)`,
it also gained a root listing `xs`, and `b` is greater than every band id in `xs`. -/
theorem new_band_id_above_trace (w : World) :
    ∃ new, (bandCreate.run w).2.trace = new ++ w.trace ∧
      ∀ ev ∈ new, ∀ b, ev.op = .createDir (.bandDir b) →
        ∃ xs, (⟨.listDir .root, .listing xs⟩ : TraceEv) ∈ new ∧ ∀ b' ∈ listingBandIds xs, b' < b := by
  obtain ⟨new, ht, h⟩ := bandCreate_newIdTrace w
  refine ⟨new, ht, ?_⟩
  intro ev hev b hop
  obtain ⟨xs, hx, rfl⟩ := h ev hev b (.inl hop)
  exact ⟨xs, hx, nextBandId_gt _⟩

/-- On a clean world: the id `bandCreate` returns is 0 for an archive without versions and
`max + 1` otherwise, hence above every existing band id. -/
theorem new_band_id_above_clean (s : Store) (b : Nat) (h : (bandCreate.run (World.clean s)).1 = .ok b) :
    b = (match maxNat? (bandIdsOf s) with | none => 0 | some l => l + 1) ∧ ∀ b' ∈ bandIdsOf s, b' < b := by
  obtain ⟨_, hb⟩ := bandCreate_run_clean (World.clean_Clean s) h
  simp only [World.clean_store] at hb
  exact ⟨hb, hb ▸ nextBandId_gt _⟩

/-- **A new version always gets an id above every existing one**: in every world honouring
`CreateNew` (faults, crash points …), on a store with distinct keys, every band-creating operation a
run of `backup` records is for an id above all band ids the archive had at the start. -/
theorem backup_new_band_id_above (o : BackupOpts) (src : List SrcEntry) (w : World)
    (he : w.enforceCreateNew = true) (hs : w.store.NoDupKeys) :
    ∃ new, ((backup H o src).run w).2.trace = new ++ w.trace ∧
      ∀ ev ∈ new, ∀ b, ev.op.createsBand b → ∀ b' ∈ bandIdsOf w.store, b' < b :=
  backup_newId_above_existing H o src w he hs

/-! ### 4. No path is written twice (C07 / C14) -/

/-- One step, every world honouring `CreateNew`: a `CreateNew` write that reports success found
the key absent or holding a zero-length file. -/
theorem successful_write_was_absent_or_empty (w : World) (k : Key) (v : FileVal)
    (he : w.enforceCreateNew = true) (h : (w.exec (.write k v .createNew)).2 = .unit) :
    w.store.get? k = none ∨ w.store.get? k = some .empty :=
  World.exec_createNew_pre w k v he h

/-- **No path is written twice.**  In every world honouring `CreateNew`, among the events a run
of `backup` records: every write is `CreateNew` of a non-empty value; every key with a successful
write holds a non-empty file at the end; and no two successful writes go to the same key (the
second would have been refused). -/
theorem no_path_written_twice (o : BackupOpts) (src : List SrcEntry) (w : World) (he : w.enforceCreateNew = true) :
    ∃ new, ((backup H o src).run w).2.trace = new ++ w.trace ∧
      (∀ ev ∈ new, BackupOp ev.op) ∧
      (∀ ev ∈ new, ∀ k, ev.succWrite = some k → NonEmptyAt ((backup H o src).run w).2.store k) ∧
      new.Pairwise (fun e1 e2 => ∀ k, e1.succWrite = some k → e2.succWrite ≠ some k) := by
  obtain ⟨new, ht, hw⟩ := WInv.run (backup_bk H o src) (w := w) (t0 := w.trace) (new := []) (T := []) he rfl
    (WInv.nil _)
  rw [List.append_nil] at hw
  exact ⟨new, ht, hw.1, hw.2.1, hw.2.2⟩

/-- Consequence in terms of keys: the successful writes recorded by one run of `backup` go to
pairwise distinct keys. -/
theorem written_keys_distinct (o : BackupOpts) (src : List SrcEntry) (w : World) (he : w.enforceCreateNew = true) :
    ∃ new, ((backup H o src).run w).2.trace = new ++ w.trace ∧
      (new.filterMap TraceEv.succWrite).Nodup := by
  obtain ⟨new, ht, -, -, hp⟩ := no_path_written_twice H o src w he
  refine ⟨new, ht, ?_⟩
  clear ht
  induction new with
  | nil => exact List.nodup_nil
  | cons e rest ih =>
    rw [List.pairwise_cons] at hp
    cases hk : e.succWrite with
    | none => simpa [List.filterMap_cons, hk] using ih hp.2
    | some k =>
      simp only [List.filterMap_cons, hk, List.nodup_cons]
      refine ⟨?_, ih hp.2⟩
      intro hmem
      obtain ⟨e', he', hk'⟩ := List.mem_filterMap.mp hmem
      exact hp.1 e' he' k hk hk'

end

/-! ### 5. Delete removes only what it was asked to -/

/-- Program text, hence ANY world: every operation `deleteBands strict D opts` can issue is a read,
a `createDir`, a `CreateNew` write, or one of exactly three removals: `removeDirAll (bandDir b)`
with `b ∈ D`, `removeFile (block h)`, `removeFile gcLock`. -/
theorem delete_removes_only (strict : Bool) (D : List Nat) (opts : DeleteOpts) :
    AllOps (DeleteOp D) (deleteBands strict D opts) :=
  deleteBands_del strict opts

/-- The same about runs, any world: every removal recorded is of a requested version's
directory, a block file, or the gc lock; nothing is overwritten. -/
theorem delete_removes_only_trace (strict : Bool) (D : List Nat) (opts : DeleteOpts) (w : World) :
    ∃ new, ((deleteBands strict D opts).run w).2.trace = new ++ w.trace ∧
      (∀ ev ∈ new, ∀ k, ev.op = .removeDirAll k → ∃ b, b ∈ D ∧ k = .bandDir b) ∧
      (∀ ev ∈ new, ∀ k, ev.op = .removeFile k → k = .gcLock ∨ ∃ h, k = .block h) ∧
      (∀ ev ∈ new, ∀ k v m, ev.op = .write k v m → m = .createNew) := by
  obtain ⟨new, ht, hP⟩ := Prog.run_trace_ops (delete_removes_only strict D opts) w
  refine ⟨new, ht, ?_, ?_, ?_⟩
  · intro ev hev k hop
    have := hP ev hev
    rw [hop] at this
    exact this
  · intro ev hev k hop
    have := hP ev hev
    rw [hop] at this
    rcases this with h | ⟨h, hk, _⟩
    · exact .inl h
    · exact .inr ⟨h, hk⟩
  · intro ev hev k v m hop
    have := hP ev hev
    rw [hop] at this
    exact this

/-- Full second half of the clause (NOT proved here): on a clean, tree-shaped store, with the
repaired (`strict`) reference scan, no block removed by `deleteBands` is referenced by a hunk of
a version that is kept.  (C07 needs only this inclusion; that every unreferenced block IS removed
belongs to the gc property.) -/
def delete_removes_unreferenced_Statement : Prop :=
  ∀ (D : List Nat) (opts : DeleteOpts) (s : Store),
    s.NoDupKeys → (∀ k v, s.get? k = some v → s.parentOk k = true) →
    ∀ ev ∈ ((deleteBands true D opts).run (World.clean s)).2.trace, ∀ h, ev.op = .removeFile (.block h) →
      ∀ b ∈ bandIdsOf s, b ∉ D → ∀ n es, hunkAt s b n = some es → ∀ e ∈ es, ∀ a ∈ e.addrs, a.hash ≠ h

/-- What is proved of it, for any world and either scan: `deleteBody` lists the versions, lets
`referencedBlocks` collect `referenced` for the kept ones, lets `listBlocks` list `present`, and
everything after that removes only blocks `h ∈ present` with `h ∉ referenced` (plus the
requested directories and the lock).  Missing for the full statement: the clean-world
specification of `referencedBlocks`/`listBlocks` (the `delete_exact` development). -/
theorem delete_removes_unreferenced_partial (strict : Bool) (D : List Nat) (opts : DeleteOpts) (held : Option Nat) :
    ∃ tail : List Str → List Str → Prog DeleteStats,
      deleteBody strict D opts held = (listBandIds.bind fun all =>
        (referencedBlocks strict (all.filter fun b => !D.contains b)).bind fun referenced =>
          listBlocks.bind fun present => tail referenced present) ∧
      ∀ referenced present,
        AllOps (DeleteOpQ D (fun h => h ∈ present ∧ h ∉ referenced)) (tail referenced present) :=
  deleteBody_decomp strict D opts held

/-! ### 6. Two backups racing -/

section
variable {α β : Type}

/-- **Shared-store frame theorem.**  Two actors whose programs issue only `CreateOnly` operations
(e.g. two backups), any schedule: the final store extends the initial one. -/
theorem two_backups_extend (sched : List Bool) (s : Store) (pa : Prog α) (pb : Prog β)
    (ha : AllOps CreateOnly pa) (hb : AllOps CreateOnly pb) :
    Extends s (runSched true sched s (Actor.start pa) (Actor.start pb)).1 :=
  runSched_extends sched s _ _ (Actor.start_allOps ha) (Actor.start_allOps hb)

/-- **The loser fails.**  Two actors running programs made of `BackupOp`s in which a failed head
write leads straight to `fail` (`HeadGuard`; `backup` is one, see `two_backups_loser_fails`), any
schedule, `CreateNew` honoured.  Then
1. if both record a write of `bandHead n` (any `n`), at most one of the two got `unit`;
   more generally no key gets a successful write from both;
2. for each actor, a recorded head write that did not succeed is the LAST operation it performs
   (no further operation, mutating or not), and the actor has ended with a conserve error. -/
theorem two_actors_loser_fails (sched : List Bool) (s : Store) (pa : Prog α) (pb : Prog β)
    (ha : AllOps BackupOp pa) (hb : AllOps BackupOp pb) (hga : HeadGuard pa) (hgb : HeadGuard pb) :
    let r := runSched true sched s (Actor.start pa) (Actor.start pb)
    (∀ ea ∈ r.2.1.trace, ∀ eb ∈ r.2.2.trace, ∀ k, ea.succWrite = some k → eb.succWrite ≠ some k) ∧
    (∀ ea ∈ r.2.1.trace, ∀ eb ∈ r.2.2.trace, ∀ n va ma vb mb,
        ea.op = .write (.bandHead n) va ma → eb.op = .write (.bandHead n) vb mb →
        ¬ (ea.resp = .unit ∧ eb.resp = .unit)) ∧
    (∀ ev ∈ r.2.1.trace, FailedHead ev → (∃ rest, r.2.1.trace = ev :: rest) ∧ ∃ e, r.2.1.prog = .fail e) ∧
    (∀ ev ∈ r.2.2.trace, FailedHead ev → (∃ rest, r.2.2.trace = ev :: rest) ∧ ∃ e, r.2.2.prog = .fail e) := by
  intro r
  have hw := runSched_winv sched s (Actor.start pa) (Actor.start pb)
    (Actor.start_allOps ha) (Actor.start_allOps hb) (WInv.nil _)
  have hcross : ∀ ea ∈ r.2.1.trace, ∀ eb ∈ r.2.2.trace, ∀ k, ea.succWrite = some k → eb.succWrite ≠ some k :=
    fun ea hea eb heb => (List.pairwise_append.mp hw.2.2).2.2 ea hea eb heb
  obtain ⟨hoa, hob⟩ := runSched_headOk true sched s (Actor.start pa) (Actor.start pb)
    (Actor.start_headOk hga) (Actor.start_headOk hgb)
  refine ⟨hcross, ?_, fun ev hev hf => hoa.2.of_mem hev hf, fun ev hev hf => hob.2.of_mem hev hf⟩
  intro ea hea eb heb n va ma vb mb hopa hopb ⟨hra, hrb⟩
  refine hcross ea hea eb heb (.bandHead n) ?_ ?_
  · unfold TraceEv.succWrite; rw [hopa, hra]
  · unfold TraceEv.succWrite; rw [hopb, hrb]

/-- `two_actors_loser_fails` for two real backups (any options, any sources). -/
theorem two_backups_loser_fails (H : Str → Str) (sched : List Bool) (s : Store)
    (oa ob : BackupOpts) (srca srcb : List SrcEntry) :
    let r := runSched true sched s (Actor.start (backup H oa srca)) (Actor.start (backup H ob srcb))
    Extends s r.1 ∧
    (∀ ea ∈ r.2.1.trace, ∀ eb ∈ r.2.2.trace, ∀ n va ma vb mb,
        ea.op = .write (.bandHead n) va ma → eb.op = .write (.bandHead n) vb mb →
        ¬ (ea.resp = .unit ∧ eb.resp = .unit)) ∧
    (∀ ev ∈ r.2.1.trace, FailedHead ev → (∃ rest, r.2.1.trace = ev :: rest) ∧ ∃ e, r.2.1.prog = .fail e) ∧
    (∀ ev ∈ r.2.2.trace, FailedHead ev → (∃ rest, r.2.2.trace = ev :: rest) ∧ ∃ e, r.2.2.prog = .fail e) := by
  intro r
  have h := two_actors_loser_fails sched s _ _ (backup_bk H oa srca) (backup_bk H ob srcb)
    (backup_headGuard H oa srca) (backup_headGuard H ob srcb)
  exact ⟨two_backups_extend sched s _ _ (backup_createOnly H oa srca) (backup_createOnly H ob srcb),
    h.2.1, h.2.2.1, h.2.2.2⟩

/-- The shape named in the plan: `bandCreate` followed by anything built from writer operations
(no second head write) satisfies the hypotheses of `two_actors_loser_fails`. -/
theorem bandCreate_then_ok {γ : Type} (f : Nat → Prog γ) (hf : ∀ b, AllOps WriterOp (f b)) :
    AllOps BackupOp (bandCreate.bind f) ∧ HeadGuard (bandCreate.bind f) :=
  ⟨AllOps.bind bandCreate_bk fun b => (hf b).wr_bk,
   HeadGuard.bind bandCreate_headGuard fun b => HeadGuard.of_writerOp (hf b)⟩

/-- Program text: in `backup`, after the write of a band head every response but success leads
directly to `fail` — no further operation. -/
theorem backup_aborts_on_failed_head (H : Str → Str) (o : BackupOpts) (src : List SrcEntry) :
    HeadGuard (backup H o src) := backup_headGuard H o src

end

/-! ### Concrete instances (non-vacuity) and the defect before the repair -/

/-- An archive directory with nothing in it. -/
def s0 : Store := [(.root, .dir)]

/-- Did this event record a successful `CreateNew` write of the head of band `n`? -/
def okHead (n : Nat) (ev : TraceEv) : Bool :=
  ev.op == .write (.bandHead n) (.head .ok []) .createNew && ev.resp == .unit

/-- Did this event record a refused write of the head of band `n`? -/
def refusedHead (n : Nat) (ev : TraceEv) : Bool :=
  ev.op == .write (.bandHead n) (.head .ok []) .createNew && ev.resp == .err .alreadyExists

/-- **Refuted without enforcement (D4, before the repair of the local transport).**  Two
`bandCreate`s on an empty archive, both list the root before either creates anything: with
`CreateNew` not honoured BOTH head writes for band 0 succeed — the second overwrites the first. -/
theorem two_backups_refuted_without_enforce :
    let r := runSched false [false, true] s0 (Actor.start bandCreate) (Actor.start bandCreate)
    r.2.1.trace.any (okHead 0) = true ∧ r.2.2.trace.any (okHead 0) = true := by
  simp (config := { decide := true }) [runSched, Actor.start, Actor.settle, Actor.step, Actor.finish, bandCreate,
    lastBandId, listBandIds, performUnit, Prog.perform, s0, applyOp, Store.get?, Store.children, Key.parent,
    sortNat, maxNat?, World.exec, World.faultFor, Store.put, Store.erase, okHead, World.occurrences, List.lookup,
    FileVal.isEmptyFile]

/-- The same race with `CreateNew` honoured: the first head write succeeds, the second is refused
with `alreadyExists` (so the hypotheses of `two_actors_loser_fails` are met non-trivially). -/
example :
    let r := runSched true [false, true] s0 (Actor.start bandCreate) (Actor.start bandCreate)
    r.2.1.trace.any (okHead 0) = true ∧ r.2.2.trace.any (refusedHead 0) = true ∧
    r.2.2.trace.any (okHead 0) = false := by
  simp (config := { decide := true }) [runSched, Actor.start, Actor.settle, Actor.step, Actor.finish, bandCreate,
    lastBandId, listBandIds, performUnit, Prog.perform, s0, applyOp, Store.get?, Store.children, Key.parent,
    sortNat, maxNat?, World.exec, World.faultFor, Store.put, Store.erase, okHead, refusedHead, World.occurrences,
    List.lookup, FileVal.isEmptyFile]

/-- Hypotheses are satisfiable: a clean world honours `CreateNew`, `s0` has distinct keys. -/
example : (World.clean s0).enforceCreateNew = true := rfl
example : s0.NoDupKeys := by simp [s0, Store.NoDupKeys]
example : ∃ w : World, w.enforceCreateNew = true ∧ w.faults ≠ [] ∧ w.crashAt = some 3 ∧ w.store.NoDupKeys :=
  ⟨{ store := s0, faults := [⟨⟨.write, .bandHead 0, 0⟩, .other⟩], crashAt := some 3 }, rfl, by simp, rfl,
    by simp [s0, Store.NoDupKeys]⟩

/-- `Extends` is not trivial: a store that lost a non-empty file does not extend the old one. -/
example : ¬ Extends [(.root, .dir), (.header, .header [48, 46, 54])] [(.root, .dir)] := by
  intro h
  have := h .header (.header [48, 46, 54]) (by decide)
  rcases this with h | ⟨h, _⟩
  · exact absurd h (by decide)
  · exact absurd h (by decide)

/-- … nor one whose file changed; but completing a zero-length leftover is allowed. -/
example : ¬ Extends [(.gcLock, .lock)] [(.gcLock, .junk 0)] := by
  intro h
  rcases h .gcLock .lock (by decide) with h | ⟨h, _⟩
  · exact absurd h (by decide)
  · exact absurd h (by decide)

example : Extends [(.gcLock, .empty)] [(.gcLock, .lock)] := by
  intro k v hv
  by_cases hk : k = .gcLock
  · subst hk
    have : v = .empty := by
      have : Store.get? [(Key.gcLock, FileVal.empty)] .gcLock = some .empty := by decide
      rw [this] at hv; cases hv; rfl
    exact .inr ⟨this, by decide⟩
  · have : Store.get? [(Key.gcLock, FileVal.empty)] k = none := by
      have : (k == Key.gcLock) = false := by simpa using hk
      simp [Store.get?, List.lookup_cons, this]
    rw [this] at hv; cases hv

/-- `bandCreate` on the empty archive returns id 0 (so `new_band_id_above_clean` is not vacuous). -/
example : ∃ b, (bandCreate.run (World.clean s0)).1 = .ok b := by
  refine ⟨0, ?_⟩
  simp (config := { decide := true }) [bandCreate, lastBandId, listBandIds, performUnit, Prog.perform, s0, applyOp,
    Store.get?, Store.children, Key.parent, sortNat, maxNat?, World.exec, World.faultFor, World.clean, Store.put,
    Store.erase, World.occurrences, List.lookup, FileVal.isEmptyFile, beq_false_of_ne]

end Conserve.C07
