import ConserveModel.Proofs.ProducedArchive
import ConserveModel.Proofs.ProducedLock
/-
C14, first clause, from the format invariant.

`C14.UnchangedStatement` ("a backup of a tree whose files are all heuristically unchanged w.r.t. the
latest version writes no data block") is stated there with the single hypothesis `Conforms H s`;
`C01a.unchanged_statement_partial` proves it under `ArchiveGood H src s` + `SrcGood src`.  This file
bridges the two as far as the invariant goes.  `UnchangedStatement` itself is left untouched.

FROM C13's invariant `CI H s = Conforms ∧ DirsOk ∧ NoDupKeys` (`Rng.archiveGood_of_ci` and the lemmas
before it): the store is a map and a tree; `d/` and the archive directory exist; every block file is
named by the hash of its content (or is a zero-length leftover); no index entry refers to a missing,
corrupt or too-short block (`Conforms`: every address lies inside its block); and, once every version
directory has a readable head and stored values are in range, every version lists without complaint
(`BandGood`: consecutive hunk numbers, the tail's count, every hunk usable) with strictly increasing
usable hunks.

NOT from `CI` (each is a hypothesis of `unchanged_statement_from_ci`):
* `AllHeadsReadable s` — `Conforms` allows a version directory without (complete) head or without
  `i/`, the leftover of a backup killed before its head write ("head-less newest directory");
* `entriesInRange s` — `Conforms` does not bound times or addresses;
* `KindsOK s` — `Conforms` does not look at `bNNNN/i`, nor at a directory sitting at a hunk's path;
* `BlocksSmall s` — block lengths below 2^64;
* `s.get? .gcLock = none` — the lock file is invisible to the format;
* `HeuristicSoundStore H src s` — the tool's own "same kind, mtime and size ⇒ same content"
  assumption, a fact about the SOURCE, not about the archive;
* `SrcGood src`, `0 < o.maxBlockSize`, `H` injective with names of at least three characters: as in
  C01a (a source matching a conforming listing path by path need not have `st_size` equal to what
  reading returns, nor symlink targets, nor representable directory times).
For archives PRODUCED by fault-free operations the first five follow too (`produced_store_facts`,
`produced_lock_free`, `C09p.producedH_heads`, `C09p.producedOK_inv`), leaving the tool's heuristic and
the source: `unchanged_statement_produced`.

Which of these does the STATEMENT need, as opposed to the proof (which goes through C01a's complete
description of the run)?  With a `GC_LOCK` present the backup refuses at once
(`backup_refuses_when_locked`): it writes no block — the first clause holds trivially — but it makes
no version either, so the second conclusion of `unchanged_backup_from_ci` ("the new version records
the basis addresses") does need the lock to be absent.  The others are not known to be necessary for
the bare "no block write"; they are what the end-to-end proof uses.
-/
namespace Conserve.C14p
open Conserve Conserve.Inv Conserve.Conf Conserve.Exact Conserve.Rng

variable {H : Str → Str}

/-! ## 1. `ArchiveGood` from the invariant -/

/-- **`archive_good_from_invariant`.**  C01a's hypothesis on the archive follows from C13's
invariant plus the six residual hypotheses listed in the file header. -/
theorem archive_good_from_invariant {s : Store} {src : List SrcEntry} (hci : CI H s)
    (hheads : AllHeadsReadable s) (hrange : entriesInRange s = true) (hkinds : KindsOK s)
    (hsmall : BlocksSmall s) (hlock : s.get? .gcLock = none) (hheur : HeuristicSoundStore H src s) :
    ArchiveGood H src s := archiveGood_of_ci hci hheads hrange hkinds hsmall hlock hheur

/-- From `CI` alone: no dangling reference. -/
theorem no_dangling_from_invariant {s : Store} (hci : CI H s) : NoDangling H s := ci_noDangling hci

/-- From `CI`, readable heads and values in range: every version directory holds a version that
lists without complaint — complete ones and interrupted-with-head ones alike. -/
theorem bands_good_from_invariant {s : Store} (hci : CI H s) (hheads : AllHeadsReadable s)
    (hrange : entriesInRange s = true) : ∀ b ∈ bandIdsOf s, BandGood s b :=
  fun _ hb => bandGood_of_good (C09p.good_of_ci hci hheads hrange) hb

/-- … and in every version the entries of the usable hunks are strictly increasing. -/
theorem sorted_from_invariant {s : Store} (hci : CI H s) (hheads : AllHeadsReadable s)
    (hrange : entriesInRange s = true) :
    ∀ b n v, s.get? (.hunk b n) = some v → strictlySorted ((ownEntries s b).map (·.apath)) = true :=
  fun _ _ _ hg => (C09p.good_of_ci hci hheads hrange).archWF.sorted_of_get? hg

/-! ## 2. The first clause of C14 -/

/-- **`unchanged_statement_from_ci`.**  `C14.UnchangedStatement` with C13's invariant `CI H s` in
place of `Conforms H s = true`, plus exactly the residual hypotheses of the file header (and without
needing the newest version to be complete): for every option triple, if `basis` is the listing of
the newest version `b` and the source matches it entry by entry — same path, same kind, every file
heuristically unchanged — then the backup, in the fault-free world, issues no `write` to any block
file at all. -/
theorem unchanged_statement_from_ci (hinj : Function.Injective H) (hlen : HashLen H)
    (s : Store) (o : BackupOpts) (src : List SrcEntry) (basis : List IndexEntry) (b : Nat)
    (ho : 0 < o.maxBlockSize) (hsrc : SrcGood src)
    (hci : CI H s) (hheads : AllHeadsReadable s) (hrange : entriesInRange s = true) (hkinds : KindsOK s)
    (hsmall : BlocksSmall s) (hlock : s.get? .gcLock = none) (hheur : HeuristicSoundStore H src s)
    (hmax : maxNat? (bandIdsOf s) = some b)
    (hlist : ((listVersion (.specified b) [slash] (fun _ => false)).run (World.clean s)).1 = .ok basis)
    (hzip : basis.length = src.length ∧ ∀ p ∈ basis.zip src,
        p.1.apath = p.2.apath ∧ p.1.kind = p.2.kind ∧
        (p.2.kind = .file → heuristicallyUnchanged p.2 p.1 = some true)) :
    let r := (backup H o src).run (World.clean s)
    ∀ ev ∈ r.2.trace, ∀ h v m, ev.op ≠ .write (.block h) v m :=
  C01a.unchanged_statement_partial H hinj hlen s o src basis b ho hsrc
    (archiveGood_of_ci hci hheads hrange hkinds hsmall hlock hheur) hmax hlist hzip

/-- The statement in the form of `C14.UnchangedStatement`, for comparison: the same quantifiers and
conclusion, `CI` and the residual hypotheses where that has `Conforms`. -/
def UnchangedFromInvariantStatement (H : Str → Str) : Prop :=
  ∀ (s : Store) (o : BackupOpts) (src : List SrcEntry) (basis : List IndexEntry) (b : Nat),
    0 < o.maxBlockSize → SrcGood src → CI H s → AllHeadsReadable s → entriesInRange s = true → KindsOK s →
    BlocksSmall s → s.get? .gcLock = none → HeuristicSoundStore H src s →
    maxNat? (bandIdsOf s) = some b →
    ((listVersion (.specified b) [slash] (fun _ => false)).run (World.clean s)).1 = .ok basis →
    (basis.length = src.length ∧ ∀ p ∈ basis.zip src,
        p.1.apath = p.2.apath ∧ p.1.kind = p.2.kind ∧
        (p.2.kind = .file → heuristicallyUnchanged p.2 p.1 = some true)) →
    let r := (backup H o src).run (World.clean s)
    (∀ ev ∈ r.2.trace, ∀ h v m, ev.op ≠ .write (.block h) v m)

/-- `UnchangedFromInvariantStatement` holds for every injective hash with names of at least three characters. -/
theorem unchanged_from_invariant (hinj : Function.Injective H) (hlen : HashLen H) :
    UnchangedFromInvariantStatement H :=
  fun s o src basis b ho hsrc hci hh hr hk hsm hl hheur hmax hlist hzip =>
    unchanged_statement_from_ci hinj hlen s o src basis b ho hsrc hci hh hr hk hsm hl hheur hmax hlist hzip

/-- **`unchanged_backup_from_ci`.**  Both conclusions of `C01a.unchanged_backup_writes_no_block`
from the invariant: no block write, and the new version lists the same paths with, for every file,
exactly the basis entry's addresses. -/
theorem unchanged_backup_from_ci (hinj : Function.Injective H) (hlen : HashLen H)
    (s : Store) (o : BackupOpts) (src : List SrcEntry) (ho : 0 < o.maxBlockSize) (hsrc : SrcGood src)
    (hci : CI H s) (hheads : AllHeadsReadable s) (hrange : entriesInRange s = true) (hkinds : KindsOK s)
    (hsmall : BlocksSmall s) (hlock : s.get? .gcLock = none) (hheur : HeuristicSoundStore H src s)
    (hun : Paired (fun be sf => be.apath = sf.apath ∧
      (sf.kind = .file → heuristicallyUnchanged sf be = some true)) (basisListing s) src) :
    let r := (backup H o src).run (World.clean s)
    (∀ ev ∈ r.2.trace, ∀ h v m, ev.op ≠ .write (.block h) v m) ∧
    Paired (fun be e => e.apath = be.apath ∧ (e.kind = .file → e.addrs = be.addrs))
      (basisListing s) (listSpec r.2.store (newBandOf s)) :=
  C01a.unchanged_backup_writes_no_block H hinj hlen s o src ho hsrc
    (archiveGood_of_ci hci hheads hrange hkinds hsmall hlock hheur) hun

/-! ## 3. Produced archives -/

/-- The empty archive: directories where directories belong. -/
theorem initArchive_kindsOK : KindsOK C09.initArchive := by
  intro k v h
  have := Store.mem_of_get?' h
  simp only [C09.initArchive, List.mem_cons, Prod.mk.injEq, List.not_mem_nil, or_false] at this
  rcases this with ⟨rfl, rfl⟩ | ⟨rfl, rfl⟩ | ⟨rfl, rfl⟩ <;> rfl

/-- The empty archive has no block. -/
theorem initArchive_small : BlocksSmall C09.initArchive := by
  intro h c hg
  have := Store.mem_of_get?' hg
  simp [C09.initArchive] at this

/-- **`produced_store_facts`.**  On every archive produced by fault-free operations (backups
completed or interrupted at any micro-step, with a sorted, in-range source; deletes / gc): directories
are where the layout has directories, files where it has files, and every block is shorter than
2^64 bytes. -/
theorem produced_store_facts (hinj : Function.Injective H) (hlen : HashLen H) {s : Store}
    (h : C09p.ProducedOK H s) : KindsOK s ∧ BlocksSmall s := by
  induction h with
  | init => exact ⟨initArchive_kindsOK, initArchive_small⟩
  | backup o src c _ hrng hp ih =>
    obtain ⟨hci, hr⟩ := C09p.producedOK_inv hinj hlen hp
    exact ⟨backup_kindsOK H o src _ hci.nodup ih.1, (backup_irs H o hrng _ ⟨hr, ih.2⟩).2⟩
  | delete D o hp ih =>
    obtain ⟨hci, hr⟩ := C09p.producedOK_inv hinj hlen hp
    exact ⟨delete_kindsOK true D o _ hci.nodup ih.1, (delete_irs true D o _ ⟨hr, ih.2⟩).2⟩

/-- **`produced_lock_free`.**  No archive produced by fault-free operations has a `GC_LOCK` lying
around: `backup` never touches the lock file (in any world), and `delete_bands` in the fault-free
world releases the lock it took — on success, on the error path and on unwinding. -/
theorem produced_lock_free (hinj : Function.Injective H) (hlen : HashLen H) {s : Store}
    (h : C09p.ProducedOK H s) : s.get? .gcLock = none := by
  induction h with
  | init => decide
  | backup o src c _ _ _ ih => rw [backup_lock_same]; exact ih
  | delete D o hp ih =>
    exact delete_lockFree true D o _ (ci_root (C09p.producedOK_inv hinj hlen hp).1) ih

/-- **`archive_good_produced`.**  An archive produced by backups that complete or are killed after
their head write, and deletes / gc, is `ArchiveGood` for every source for which the tool's assumption
holds. -/
theorem archive_good_produced (hinj : Function.Injective H) (hlen : HashLen H) {s : Store}
    (h : C09p.ProducedH H s) {src : List SrcEntry} (hheur : HeuristicSoundStore H src s) :
    ArchiveGood H src s :=
  let ⟨hci, hr⟩ := C09p.producedOK_inv hinj hlen h.ok
  let ⟨hk, hsm⟩ := produced_store_facts hinj hlen h.ok
  archiveGood_of_ci hci (C09p.producedH_heads hinj hlen h) hr hk hsm (produced_lock_free hinj hlen h.ok) hheur

/-- **`unchanged_statement_produced`.**  The first clause of C14 on produced archives: what is left
to assume is the source — `SrcGood` and the tool's heuristic. -/
theorem unchanged_statement_produced (hinj : Function.Injective H) (hlen : HashLen H)
    (s : Store) (hp : C09p.ProducedH H s) (o : BackupOpts) (src : List SrcEntry) (basis : List IndexEntry) (b : Nat)
    (ho : 0 < o.maxBlockSize) (hsrc : SrcGood src) (hheur : HeuristicSoundStore H src s)
    (hmax : maxNat? (bandIdsOf s) = some b)
    (hlist : ((listVersion (.specified b) [slash] (fun _ => false)).run (World.clean s)).1 = .ok basis)
    (hzip : basis.length = src.length ∧ ∀ p ∈ basis.zip src,
        p.1.apath = p.2.apath ∧ p.1.kind = p.2.kind ∧
        (p.2.kind = .file → heuristicallyUnchanged p.2 p.1 = some true)) :
    let r := (backup H o src).run (World.clean s)
    ∀ ev ∈ r.2.trace, ∀ h v m, ev.op ≠ .write (.block h) v m :=
  C01a.unchanged_statement_partial H hinj hlen s o src basis b ho hsrc
    (archive_good_produced hinj hlen hp hheur) hmax hlist hzip

/-- Both conclusions on produced archives: no block write, and the new version records, for every
file, exactly the basis entry's addresses. -/
theorem unchanged_backup_produced (hinj : Function.Injective H) (hlen : HashLen H)
    (s : Store) (hp : C09p.ProducedH H s) (o : BackupOpts) (src : List SrcEntry) (ho : 0 < o.maxBlockSize)
    (hsrc : SrcGood src) (hheur : HeuristicSoundStore H src s)
    (hun : Paired (fun be sf => be.apath = sf.apath ∧
      (sf.kind = .file → heuristicallyUnchanged sf be = some true)) (basisListing s) src) :
    let r := (backup H o src).run (World.clean s)
    (∀ ev ∈ r.2.trace, ∀ h v m, ev.op ≠ .write (.block h) v m) ∧
    Paired (fun be e => e.apath = be.apath ∧ (e.kind = .file → e.addrs = be.addrs))
      (basisListing s) (listSpec r.2.store (newBandOf s)) :=
  C01a.unchanged_backup_writes_no_block H hinj hlen s o src ho hsrc
    (archive_good_produced hinj hlen hp hheur) hun

/-- The C01 (a) end-to-end theorem on produced archives: a fault-free backup of a good source into
an archive produced by fault-free operations completes without error, and restoring the new version
yields exactly the source. -/
theorem backup_restore_exact_produced (hinj : Function.Injective H) (hlen : HashLen H)
    (s : Store) (hp : C09p.ProducedH H s) (o : BackupOpts) (src : List SrcEntry) (ho : 0 < o.maxBlockSize)
    (hsrc : SrcGood src) (hheur : HeuristicSoundStore H src s) :
    C01a.Exact H o src s ((backup H o src).run (World.clean s)) :=
  C01a.backup_restore_exact H hinj hlen s o src ho hsrc (archive_good_produced hinj hlen hp hheur)

/-! ## 4. The lock -/

/-- **`backup_refuses_when_locked`.**  With a `GC_LOCK` file present the backup fails at once with
`gcLockHeld` and touches nothing: no block is written (the first clause of C14 holds trivially) but
no version is made either — so "no `GC_LOCK`" is needed for the second conclusion of
`unchanged_backup_from_ci`, and is not a consequence of `CI` (`locked_conforms`). -/
theorem backup_refuses_when_locked (H : Str → Str) (o : BackupOpts) (src : List SrcEntry) (s : Store)
    {v : FileVal} (hl : s.get? .gcLock = some v) (hv : v.isDir = false) :
    ((backup H o src).run (World.clean s)).1 = .err .gcLockHeld ∧
    ((backup H o src).run (World.clean s)).2.store = s := by
  have hr : ((World.clean s).exec (.metadata .gcLock)).2 = .stat true (!v.isEmptyFile) := by
    rw [World.exec_clean_resp (World.clean_Clean s)]
    simp [applyOp, hl, hv]
  have hs : ((World.clean s).exec (.metadata .gcLock)).1.store = s := by
    rw [World.exec_clean_store (World.clean_Clean s)]
    simp [applyOp, hl]
  rw [backup_eq]
  unfold backupPrelude gcIsLocked isFile Prog.perform
  simp only [Prog.bind_def, Prog.op_bind, Prog.ret_bind, Prog.run_op, hr, Prog.pure_def, if_true,
    Prog.fail_bind, Prog.run_fail]
  exact ⟨trivial, hs⟩

/-- The empty archive with a `GC_LOCK` lying around. -/
def lockedArchive : Store := C09.initArchive ++ [(Key.gcLock, FileVal.lock)]

/-- A lock file does not disturb the format invariant: `lockedArchive` satisfies `CI` (so `CI` cannot
imply the lock's absence). -/
theorem locked_conforms : CI H lockedArchive ∧ lockedArchive.get? .gcLock = some .lock := by
  refine ⟨⟨?_, by decide, by unfold NoDupKeys lockedArchive C09.initArchive; decide⟩, by decide⟩
  have hb : bandIdsOf lockedArchive = [] := by
    simp [bandIdsOf, lockedArchive, C09.initArchive, sortNat]
  have h1 : lockedArchive.get? .header = some (.header [48, 46, 54]) := by decide
  have h2 : lockedArchive.get? .root = some .dir := by decide
  have h3 : lockedArchive.get? .blockRoot = some .dir := by decide
  unfold Conforms
  rw [hb, h1, h2, h3]
  simp [lockedArchive, C09.initArchive, blocksConform]

/-- The empty archive has no hunk. -/
theorem initArchive_noHunk (b n : Nat) : hunkAt C09.initArchive b n = none := by
  have hn : C09.initArchive.get? (.hunk b n) = none := by
    cases hg : C09.initArchive.get? (.hunk b n) with
    | none => rfl
    | some v =>
      have := Store.mem_of_get?' hg
      simp [C09.initArchive] at this
  simp [hunkAt, hn]

/-! ## Non-vacuity -/

namespace Example

/-- The hypotheses of `archive_good_from_invariant` hold of the empty archive, for any source … -/
example (src : List SrcEntry) : ArchiveGood C13.Example.exH src C09.initArchive :=
  archive_good_from_invariant C13.emptyArchive_ci (fun b hb => by simp [bandIdsOf, C09.initArchive, sortNat] at hb)
    (by decide) initArchive_kindsOK initArchive_small (by decide)
    (fun b n es h => by rw [initArchive_noHunk] at h; cases h)

/-- … and of every archive the histories of `C09p.Example` produce, as far as the invariant goes:
`s2` (a complete version and one interrupted after its head write) has readable heads, values in
range, directories where directories belong and small blocks. -/
example : AllHeadsReadable C09p.Example.s2 ∧ entriesInRange C09p.Example.s2 = true ∧
    KindsOK C09p.Example.s2 ∧ BlocksSmall C09p.Example.s2 :=
  ⟨C09p.producedH_heads C13.Example.exH_inj C13.Example.exH_len C09p.Example.s2_produced,
   (C09p.producedOK_inv C13.Example.exH_inj C13.Example.exH_len C09p.Example.s2_produced.ok).2,
   produced_store_facts C13.Example.exH_inj C13.Example.exH_len C09p.Example.s2_produced.ok⟩

/-- The refusal: the empty archive with a lock file. -/
example : ((backup id {} []).run (World.clean lockedArchive)).1 = .err .gcLockHeld :=
  (backup_refuses_when_locked id {} [] lockedArchive (v := .lock) (by decide) rfl).1

end Example

end Conserve.C14p
