import ConserveModel.Proofs.ApathOrder
/-
C11 — Paths have one total order, shared by the source walk and every index.

Property theorems only (helper lemmas live in Proofs/).
The walk-order theorems (`walk_sorted`, `walk_deque_eq_rec`) are in Props/C11Walk.lean.
-/
namespace Conserve.C11
open Conserve Std

/-- The comparison loop of the code is lexicographic comparison of the sort keys
`[(1,c₀),…,(1,cₙ₋₁),(0,cₙ)]`, for ALL byte strings (valid paths or not). -/
theorem cmp_eq_keys (a b : Str) : apathCmp a b = compare (keys a) (keys b) :=
  apathCmp_eq_keys a b

/-- Equal paths, and only equal paths, compare equal. -/
theorem cmp_eq_iff (a b : Str) : apathCmp a b = .eq ↔ a = b := by
  rw [cmp_eq_keys]
  constructor
  · intro h; exact keys_injective (LawfulEqOrd.eq_of_compare h)
  · intro h; rw [h]; exact ReflOrd.compare_self

/-- Antisymmetry and totality in one: swapping the arguments swaps the answer. -/
theorem cmp_swap (a b : Str) : apathCmp a b = (apathCmp b a).swap := by
  rw [cmp_eq_keys, cmp_eq_keys]; exact OrientedOrd.eq_swap

theorem cmp_total (a b : Str) (h : a ≠ b) : apathCmp a b = .lt ∨ apathCmp b a = .lt := by
  have h1 := cmp_swap a b
  have h2 : apathCmp b a ≠ .eq := fun e => h ((cmp_eq_iff b a).1 e).symm
  cases hb : apathCmp b a <;> simp_all

theorem cmp_trans {a b c : Str} (h1 : apathCmp a b = .lt) (h2 : apathCmp b c = .lt) :
    apathCmp a c = .lt := by
  rw [cmp_eq_keys] at *; exact TransCmp.lt_trans h1 h2

theorem cmp_irrefl (a : Str) : apathCmp a a ≠ .lt := by
  rw [(cmp_eq_iff a a).2 rfl]; decide

theorem keysOf_eq_doc (o o' : Str) (cs cs' : List Str) :
    compare (keysOf o cs) (keysOf o' cs') =
      (compare (o :: cs).dropLast (o' :: cs').dropLast).then
        (compare (o :: cs).getLast? (o' :: cs').getLast?) := by
  induction cs generalizing o o' cs' with
  | nil =>
    cases cs' with
    | nil =>
      simp only [keysOf, List.dropLast_singleton, List.getLast?_singleton]
      rw [List.compare_cons_cons, compare_cons_same]
      have : compare ([] : List Str) [] = .eq := ReflOrd.compare_self
      rw [this]
      have h2 : compare (some o) (some o') = compare o o' := rfl
      rw [h2]; cases compare o o' <;> rfl
    | cons c' t' =>
      simp only [keysOf, List.dropLast_singleton, List.dropLast_cons_cons]
      rw [List.compare_cons_cons, compare_zero_one, List.compare_nil_cons]; rfl
  | cons c t ih =>
    cases cs' with
    | nil =>
      simp only [keysOf, List.dropLast_singleton, List.dropLast_cons_cons]
      rw [List.compare_cons_cons, compare_one_zero, List.compare_cons_nil]; rfl
    | cons c' t' =>
      simp only [keysOf, List.dropLast_cons_cons, List.getLast?_cons_cons]
      rw [List.compare_cons_cons, compare_cons_same, List.compare_cons_cons, ih,
        Ordering.then_assoc]

/-- The code's order is the documented one: directory parts first (component-wise,
byte-wise), final names only between paths of the same directory. -/
theorem cmp_eq_doc (a b : Str) : apathCmp a b = docCmp a b := by
  rw [cmp_eq_keys]
  unfold keys docCmp
  cases ha : splitSlash a with
  | nil => exact absurd ha (splitSlash_ne_nil a)
  | cons oa as =>
    cases hb : splitSlash b with
    | nil => exact absurd hb (splitSlash_ne_nil b)
    | cons ob bs =>
      simp only []
      rw [keysOf_eq_doc]
      cases compare (oa :: as).dropLast (ob :: bs).dropLast <;> rfl

/-- Well-formedness is exactly the documented rule. -/
theorem valid_iff_spec (a : Str) :
    isValid a = true ↔
      a.head? = some slash ∧
        (a = [slash] ∨ ∀ c ∈ components a,
            c ≠ [] ∧ c ≠ [dot] ∧ c ≠ [dot, dot] ∧ 0 ∉ c) := by
  cases a with
  | nil => simp [isValid]
  | cons c rest =>
    unfold isValid components
    by_cases hc : c = slash
    · subst hc
      cases rest with
      | nil => simp
      | cons r rs =>
        simp only [ne_eq, not_true_eq_false, ↓reduceIte, List.isEmpty_cons, Bool.false_eq_true,
          List.all_eq_true, Bool.not_eq_eq_eq_not, Bool.not_true, Bool.or_eq_false_iff,
          List.isEmpty_eq_false_iff, beq_eq_false_iff_ne, List.contains_eq_mem,
          decide_eq_false_iff_not, List.head?_cons, List.cons.injEq, reduceCtorEq, and_false,
          false_or, true_and]
        constructor
        · intro h p hp
          have := h p hp
          exact ⟨this.1.1.1, this.1.1.2, this.1.2, this.2⟩
        · intro h p hp
          have := h p hp
          exact ⟨⟨⟨this.1, this.2.1⟩, this.2.2.1⟩, this.2.2.2⟩
    · simp [hc]

-- Non-vacuity: concrete paths meeting the hypotheses / exhibiting the cases.
example : apathCmp [47, 122, 122] [47, 97, 97, 47, 98] = .lt := by decide   -- "/zz" < "/aa/b"
example : isValid [47, 97, 47, 98] = true := by decide
example : isValid [47, 97, 47, 47, 98] = false := by decide

end Conserve.C11
