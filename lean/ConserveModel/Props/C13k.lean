import ConserveModel.Proofs.JsonStoreBytes
import ConserveModel.Proofs.JsonStoreWalk
/-
C13 k — the bridge between the archive model and the bytes of the JSON layer.

`ConserveModel/Json.lean` + `Props/C13j.lean` model the bytes of index hunks, band heads and band
tails and prove `parseHunk (renderHunk es) = some es` for every entry list that is `WfEntries`
(values the Rust types can hold).  The archive model (`Store.lean`) keeps these files as abstract
values (`FileVal.hunk es`, `.head ver flags`, `.tail hunkCount`).  This file connects the two: the
values the model's BACKUP writes — in every world — are well-formed, so the abstract store loses
nothing with respect to the JSON bytes (Snappy aside).

Hypotheses, all of them facts about Rust types or physical limits (`Conserve.JStore`,
Proofs/JsonStoreBackup.lean):

* `HashHex H` — the block hash as a file name is 128 lower-case hex digits.  The model's own
  BLAKE2b-512 (`blake2bHex`, what the driver instantiates `H` with) is proved to be `HashHex`
  (`blake2bHex_hashHex`).  NOT assumed: injectivity of `H` (C13 assumes it; no `HashHex` function can
  be injective, the codomain is finite).
* `SrcJsonGood src` — per entry (`SrcEntryJsonGood`): apath, user, group, symlink target are valid
  UTF-8 (they are Rust `String`s: src/source.rs `to_str`/`into_string`, src/owner/unix.rs `to_str`);
  `unix_mode < 2^32` (`UnixMode(Option<u32>)`, in fact masked with 0o7777); the whole seconds of the
  mtime fit an `i64` (`-2^63·10^9 ≤ mtimeNs < 2^63·10^9`; jiff's `Timestamp`, which `source::Entry`
  holds, is far inside).  Per listing: the contents of the regular files add up to less than 2^64
  bytes (`bytes`: the combiner's buffer is a concatenation of small files with `u64` offsets, and
  after a failed flush — faults! — the buffer is put back and keeps growing, so the bound must be on
  the sum, not on `max_block_size`), and fewer than 2^64 entries (`count`: every hunk holds at least
  one entry and the tail records the number of hunks as a `u64`).
* NOT assumed: anything about options, worlds (faults, crash points, `enforceCreateNew`), sortedness or
  validity of the source paths, the basis version, `NoDupKeys`, `Conforms`.

The invariant is `StoreJsonGood s` (`storeJsonGood_iff`): every hunk value in the store is
`WfEntries`, every head's flags are UTF-8 strings, every tail's hunk count is a `u64`.  Entries that
a backup copies from the basis version are well-formed BECAUSE the store they were read from is
`StoreJsonGood` — which is why the statement is an invariant and not a fact about one run.

Theorems: `backup_writes_wf` (every value a backup writes, in every world, is well-formed: the trace),
`backup_storeJsonGood_all_worlds`, `delete_storeJsonGood`, `history_storeJsonGood`,
`reachable_storeJsonGood`(`_blake2b`) (the invariant, one step and over histories);
`walk_srcJsonGood`, `backup_tree_storeJsonGood` (from the source TREE: the walk of C11 of a tree with
UTF-8 names … is `SrcJsonGood`); `decode_encode`, `decode_encode_reachable`,
`hunk_round_trip_reachable`, `hunk_bytes_injective_reachable`, `encode_injective_reachable` (the
bytes view); `hashHex_not_injective`, `srcJsonGood_needed_*` (about the hypotheses).

What the abstract store drops of a head or tail — `start_time`, `end_time`, the text of
`band_format_version` (the class `VerClass` is kept) — is a parameter (`Dropped`) of `encodeFile`,
universally quantified in the theorems; `decodeFile` takes the classification of version strings
(a semver comparison, not modelled) as a parameter `cls`.
-/
namespace Conserve.C13k
open Conserve Conserve.Json Conserve.JStore

/-! ### 0. What the invariant says -/

/-- `StoreJsonGood`, clause by clause. -/
theorem storeJsonGood_iff (s : Store) :
    StoreJsonGood s ↔
      (∀ k es, (k, FileVal.hunk es) ∈ s → WfEntries es) ∧
      (∀ k c fl, (k, FileVal.head c fl) ∈ s → ∀ f ∈ fl, validUtf8 f = true) ∧
      (∀ k n, (k, FileVal.tail (some n)) ∈ s → n < 18446744073709551616) := by
  constructor
  · intro h
    exact ⟨fun k es hm => h _ hm, fun k c fl hm => h _ hm, fun k n hm => h _ hm⟩
  · rintro ⟨h1, h2, h3⟩ ⟨k, v⟩ hm
    cases v with
    | hunk es => exact h1 k es hm
    | head c fl => exact h2 k c fl hm
    | tail n =>
      cases n with
      | none => trivial
      | some n => exact h3 k n hm
    | _ => trivial

/-- Reading a hunk of a `StoreJsonGood` store gives well-formed entries. -/
theorem get_hunk_wf {s : Store} (h : StoreJsonGood s) {k : Key} {es : List IndexEntry}
    (hg : s.get? k = some (.hunk es)) : WfEntries es := h.get hg

/-! ### 1. What backup writes is well-formed -/

/-- **`backup_writes_wf`.**  For every hash whose names are 128 lower-case hex digits, ALL options,
every `SrcJsonGood` source listing, and EVERY world — any injected faults, any crash point, dead or
alive, `CreateNew` enforced or not — whose archive is `StoreJsonGood`: every operation the backup
attempts (the trace records each operation that was answered) that writes a file writes a
`FileJsonGood` value.  In particular every `FileVal.hunk es` it writes satisfies `WfEntries es`, the
head's flags are UTF-8 and the tail's hunk count is a `u64`. -/
theorem backup_writes_wf {H : Str → Str} (hH : HashHex H) (o : BackupOpts) {src : List SrcEntry}
    (hsrc : SrcJsonGood src) (w : World) (hs : StoreJsonGood w.store) :
    ∃ new, ((backup H o src).run w).2.trace = new ++ w.trace ∧
      ∀ ev ∈ new, ∀ k v m, ev.op = .write k v m → FileJsonGood v :=
  (backup_winv hH o hsrc w hs).2

/-- The hunk case of `backup_writes_wf`, spelled out. -/
theorem backup_writes_wf_hunks {H : Str → Str} (hH : HashHex H) (o : BackupOpts) {src : List SrcEntry}
    (hsrc : SrcJsonGood src) (w : World) (hs : StoreJsonGood w.store) :
    ∃ new, ((backup H o src).run w).2.trace = new ++ w.trace ∧
      ∀ ev ∈ new, ∀ k es m, ev.op = .write k (.hunk es) m → WfEntries es := by
  obtain ⟨new, hn, hP⟩ := backup_writes_wf hH o hsrc w hs
  exact ⟨new, hn, fun ev hev k es m ho => hP ev hev k _ m ho⟩

/-- **`backup_storeJsonGood_all_worlds`.**  `StoreJsonGood` is preserved by `backup` in every
world: whatever was written, however the run ended (a write killed half-way leaves a zero-length
file, which carries no JSON). -/
theorem backup_storeJsonGood_all_worlds {H : Str → Str} (hH : HashHex H) (o : BackupOpts)
    {src : List SrcEntry} (hsrc : SrcJsonGood src) (w : World) (hs : StoreJsonGood w.store) :
    StoreJsonGood ((backup H o src).run w).2.store :=
  backup_sj hH o hsrc w hs

/-- **`delete_storeJsonGood`.**  `delete_bands` (either mode) writes nothing but the lock file, in
every world; it keeps `StoreJsonGood` unconditionally. -/
theorem delete_storeJsonGood (strict : Bool) (D : List Nat) (opts : DeleteOpts) (w : World)
    (hs : StoreJsonGood w.store) : StoreJsonGood ((deleteBands strict D opts).run w).2.store :=
  delete_sj strict D opts w hs

/-- A history (the type of `C13`: backups and deletes, each in a world of its own) is admissible
when every backup's source listing is `SrcJsonGood`.  Nothing is asked of options, worlds, deletes. -/
def HistJsonOK (hist : List C13.Step) : Prop := ∀ st ∈ hist, StepJ st

/-- **`history_storeJsonGood`.**  Over any admissible history, from any `StoreJsonGood` archive,
every archive visited — after every step, complete or interrupted — is `StoreJsonGood`. -/
theorem history_storeJsonGood {H : Str → Str} (hH : HashHex H) (hist : List C13.Step)
    (hok : HistJsonOK hist) (s : Store) (hs : StoreJsonGood s) :
    ∀ s' ∈ C13.states H hist s, StoreJsonGood s' :=
  states_sj hH hist hok s hs

/-- **`reachable_storeJsonGood`.**  Every archive reachable from the empty one (`Archive::create`)
by an admissible history is `StoreJsonGood`. -/
theorem reachable_storeJsonGood {H : Str → Str} (hH : HashHex H) (hist : List C13.Step)
    (hok : HistJsonOK hist) : ∀ s' ∈ C13.states H hist C13.emptyArchive, StoreJsonGood s' :=
  history_storeJsonGood hH hist hok _ emptyArchive_sj

/-- With the model's own BLAKE2b-512 as the hash — no hypothesis on the hash left. -/
theorem reachable_storeJsonGood_blake2b (hist : List C13.Step) (hok : HistJsonOK hist) :
    ∀ s' ∈ C13.states blake2bHex hist C13.emptyArchive, StoreJsonGood s' :=
  reachable_storeJsonGood blake2bHex_hashHex hist hok

/-! ### 1b. From the source tree -/

/-- **The source walk of a good tree is `SrcJsonGood`.**  For every source tree (any depth, width,
`read_dir` order; `Node.WF` is not needed) whose names, symlink targets and owner names are UTF-8,
whose modes are `u32`s and whose times have `i64` seconds (`Node.JGood`), which holds less than 2^64
bytes in regular files and has fewer than 2^64 nodes, and every exclusion predicate, the listing the
walk (C11: the iterator of src/source.rs) hands to `backup` is `SrcJsonGood`. -/
theorem walk_srcJsonGood (T : Node) (excl : Str → Bool) (hg : T.JGood) (hb : T.bytes < 18446744073709551616)
    (hc : T.size < 18446744073709551616) : SrcJsonGood (C11.walk T excl) :=
  JStore.walk_srcJsonGood T excl hg hb hc

/-- End to end: backing up ANY good source tree with any options and exclusions, in any world, keeps
the archive `StoreJsonGood` and writes only well-formed values. -/
theorem backup_tree_storeJsonGood {H : Str → Str} (hH : HashHex H) (o : BackupOpts) (T : Node)
    (excl : Str → Bool) (hg : T.JGood) (hb : T.bytes < 18446744073709551616)
    (hc : T.size < 18446744073709551616) (w : World) (hs : StoreJsonGood w.store) :
    StoreJsonGood ((backup H o (C11.walk T excl)).run w).2.store ∧
    ∃ new, ((backup H o (C11.walk T excl)).run w).2.trace = new ++ w.trace ∧
      ∀ ev ∈ new, ∀ k v m, ev.op = .write k v m → FileJsonGood v :=
  ⟨backup_storeJsonGood_all_worlds hH o (walk_srcJsonGood T excl hg hb hc) w hs,
   backup_writes_wf hH o (walk_srcJsonGood T excl hg hb hc) w hs⟩

/-! ### 2. The bytes view -/

/-- **Round trip for any well-formed JSON-carried value**: for every `FileJsonGood` hunk, head or
tail value, every choice of what the abstraction dropped (`d.wf`: the time an `i64`, the version a
UTF-8 string — and, for a head, a version of the class the value records), the bytes `encodeFile`
produces are read back by `decodeFile` as exactly the value. -/
theorem decode_encode (cls : Option Str → VerClass) (d : Dropped) (hd : d.wf) {v : FileVal}
    (hv : FileJsonGood v) {jk : JsonKind} (hk : jsonKindOfVal v = some jk)
    (hcls : ∀ c fl, v = .head c fl → cls d.version = c) :
    ∃ b, encodeFile d v = some b ∧ decodeFile cls jk b = some v :=
  decode_encode_val cls d hd hv hk hcls

/-- **`decode_encode_reachable`.**  In every archive reachable from the empty one by an admissible
history, for every JSON-carried file `k ↦ v`: the layout puts it where a reader expects its kind
(`jsonKindOfKey k`: hunk files hold hunks, `BANDHEAD` a head, `BANDTAIL` a tail), and its bytes —
whatever times and version text the abstraction dropped — decode, by the parser the PATH selects,
to exactly the abstract value.  The abstract store loses nothing w.r.t. the JSON bytes. -/
theorem decode_encode_reachable {H : Str → Str} (hH : HashHex H) (hist : List C13.Step)
    (hok : HistJsonOK hist) (cls : Option Str → VerClass) :
    ∀ s' ∈ C13.states H hist C13.emptyArchive, ∀ k v jk, s'.get? k = some v → jsonKindOfVal v = some jk →
      jsonKindOfKey k = some jk ∧
      ∀ d : Dropped, d.wf → (∀ c fl, v = .head c fl → cls d.version = c) →
        ∃ b, encodeFile d v = some b ∧ decodeFile cls jk b = some v := by
  intro s' hs' k v jk hg hjk
  have hsj := reachable_storeJsonGood hH hist hok s' hs'
  have hpl := states_placed (H := H) hist _ emptyArchive_placed s' hs'
  exact ⟨hpl.get hg jk hjk, fun d hd hcls => decode_encode cls d hd (hsj.get hg) hjk hcls⟩

/-- The hunk case, in the words of C13 j: every index hunk of a reachable archive is read back from
its rendered bytes as exactly its abstract value. -/
theorem hunk_round_trip_reachable {H : Str → Str} (hH : HashHex H) (hist : List C13.Step)
    (hok : HistJsonOK hist) :
    ∀ s' ∈ C13.states H hist C13.emptyArchive, ∀ k es, s'.get? k = some (.hunk es) →
      parseHunk (renderHunk es) = some es := by
  intro s' hs' k es hg
  exact C13j.parse_render_hunk es (get_hunk_wf (reachable_storeJsonGood hH hist hok s' hs') hg)

/-- **No two hunk values share bytes**: hunks of reachable archives (of the same or of different
histories, at the same or at different paths) with the same rendered bytes are the same value. -/
theorem hunk_bytes_injective_reachable {H : Str → Str} (hH : HashHex H)
    (hist₁ hist₂ : List C13.Step) (hok₁ : HistJsonOK hist₁) (hok₂ : HistJsonOK hist₂)
    {s₁ s₂ : Store} (hs₁ : s₁ ∈ C13.states H hist₁ C13.emptyArchive)
    (hs₂ : s₂ ∈ C13.states H hist₂ C13.emptyArchive) {k₁ k₂ : Key} {es₁ es₂ : List IndexEntry}
    (hg₁ : s₁.get? k₁ = some (.hunk es₁)) (hg₂ : s₂.get? k₂ = some (.hunk es₂))
    (hb : renderHunk es₁ = renderHunk es₂) : es₁ = es₂ :=
  C13j.render_injective es₁ es₂
    (get_hunk_wf (reachable_storeJsonGood hH hist₁ hok₁ s₁ hs₁) hg₁)
    (get_hunk_wf (reachable_storeJsonGood hH hist₂ hok₂ s₂ hs₂) hg₂) hb

/-- The same for all three kinds: two JSON-carried values of reachable archives, of the same kind,
whose bytes agree (under whatever was dropped, classified consistently) are equal. -/
theorem encode_injective_reachable {H : Str → Str} (hH : HashHex H)
    (hist₁ hist₂ : List C13.Step) (hok₁ : HistJsonOK hist₁) (hok₂ : HistJsonOK hist₂)
    (cls : Option Str → VerClass)
    {s₁ s₂ : Store} (hs₁ : s₁ ∈ C13.states H hist₁ C13.emptyArchive)
    (hs₂ : s₂ ∈ C13.states H hist₂ C13.emptyArchive) {k₁ k₂ : Key} {v₁ v₂ : FileVal} {jk : JsonKind}
    (hg₁ : s₁.get? k₁ = some v₁) (hg₂ : s₂.get? k₂ = some v₂)
    (hk₁ : jsonKindOfVal v₁ = some jk) (hk₂ : jsonKindOfVal v₂ = some jk)
    (d₁ d₂ : Dropped) (hd₁ : d₁.wf) (hd₂ : d₂.wf)
    (hc₁ : ∀ c fl, v₁ = .head c fl → cls d₁.version = c) (hc₂ : ∀ c fl, v₂ = .head c fl → cls d₂.version = c)
    (hb : encodeFile d₁ v₁ = encodeFile d₂ v₂) : v₁ = v₂ := by
  obtain ⟨b₁, he₁, hd1⟩ := (decode_encode_reachable hH hist₁ hok₁ cls s₁ hs₁ k₁ v₁ jk hg₁ hk₁).2 d₁ hd₁ hc₁
  obtain ⟨b₂, he₂, hd2⟩ := (decode_encode_reachable hH hist₂ hok₂ cls s₂ hs₂ k₂ v₂ jk hg₂ hk₂).2 d₂ hd₂ hc₂
  rw [hb, he₂] at he₁
  cases he₁
  rw [hd1] at hd2
  exact Option.some.inj hd2

/-! ### 3. The hypotheses are needed (at the level of one entry); `HashHex` against injectivity -/

/-- **No `HashHex` function is injective** (pigeonhole: there are finitely many names of 128 hex
digits and infinitely many contents).  C13 (`backup_conforms_all_worlds`, `history_conforms`), C03,
C04 … assume `Function.Injective H`, the idealisation "no collisions"; that hypothesis and `HashHex`
cannot be made about the same `H`, so the theorems of this file deliberately do NOT assume
injectivity, and a conjunction of `C13.history_conforms` with `reachable_storeJsonGood` for one `H`
would be vacuous. -/
theorem hashHex_not_injective {H : Str → Str} (hH : HashHex H) : ¬ Function.Injective H :=
  JStore.hashHex_not_injective hH

/-- `IndexEntry::metadata_from` as the model has it (total, after the repair of D3). -/
abbrev metaOf := Conserve.Inv.metaOf

/-- Without UTF-8 in the source path the entry the backup records is not one the reader accepts.
(The real walk cannot produce it: a name that is not UTF-8 is skipped with an error, src/source.rs.) -/
theorem srcJsonGood_needed_utf8 :
    wfEntry (metaOf {} { apath := [47, 255], kind := .dir, mtimeNs := 0, unixMode := 493, user := none,
                         group := none }) = false := by decide

/-- Whole seconds beyond `i64` (2^63 s): not an entry the reader accepts.  (jiff's `Timestamp` cannot
hold it; `entry_from_fs_metadata` panics on the conversion before the backup sees it.) -/
theorem srcJsonGood_needed_mtime :
    wfEntry (metaOf {} { apath := [47], kind := .dir, mtimeNs := 9223372036854775808000000000, unixMode := 493,
                         user := none, group := none }) = false := by decide

/-- A mode beyond `u32`.  (`UnixMode::from` masks with 0o7777.) -/
theorem srcJsonGood_needed_mode :
    wfEntry (metaOf {} { apath := [47], kind := .dir, mtimeNs := 0, unixMode := 4294967296, user := none,
                         group := none }) = false := by decide

/-- The owner is only looked at when it is recorded: with `owner := false` any bytes do. -/
example : wfEntry (metaOf { owner := false }
    { apath := [47], kind := .dir, mtimeNs := 0, unixMode := 493, user := some [255], group := some [255] }) = true := by
  decide

/-! ### 4. Non-vacuity -/

namespace Example

/-- `/` (a directory owned by `r`), `/l` (a symlink to `é/"`), `/é` (a two-byte file last modified
1.5 s BEFORE the epoch).  -/
def src : List SrcEntry :=
  [ { apath := [47], kind := .dir, mtimeNs := 1700000000000000000, unixMode := 493, user := some [114], group := none },
    { apath := [47, 108], kind := .symlink, mtimeNs := 0, unixMode := 511, user := none, group := none,
      target := some [195, 169, 47, 34] },
    { apath := [47, 195, 169], kind := .file, mtimeNs := -1500000000, unixMode := 420, user := none, group := none,
      size := 2, content := [1, 2] } ]

theorem src_good : SrcJsonGood src := by
  refine ⟨?_, by decide, by decide⟩
  intro sf hsf
  simp only [src, List.mem_cons, List.not_mem_nil, or_false] at hsf
  rcases hsf with rfl | rfl | rfl <;> constructor <;> decide

/-- What the backup records for `/é`: seconds rounded DOWN to -2, half a second of nanoseconds. -/
example : metaOf {} { apath := [47, 195, 169], kind := .file, mtimeNs := -1500000000, unixMode := 420, user := none,
                      group := none, size := 2, content := [1, 2] } =
    { apath := [47, 195, 169], kind := .file, mtime := -2, mtimeNanos := 500000000, unixMode := some 420,
      user := none, group := none, addrs := [], target := none } := by decide

/-- A `HashHex` function that is not a hash: the name `000…0` for every content. -/
def zeroH : Str → Str := fun _ => List.replicate 128 48

set_option maxRecDepth 8192 in
theorem zeroH_hashHex : HashHex zeroH := fun _ => by show wfHash (List.replicate 128 48) = true; decide

/-- The real one. -/
example : HashHex blake2bHex := blake2bHex_hashHex

/-- The empty archive, two injected faults and a crash point. -/
def world : World :=
  { store := C13.emptyArchive,
    faults := [{ at_ := { verb := .write, key := .hunk 0 0, nth := 0 }, kind := .other },
               { at_ := { verb := .createDir, key := .blockDir [48, 48, 48], nth := 0 }, kind := .permissionDenied }],
    crashAt := some 7 }

/-- The faulty, killed first backup — with BLAKE2b — leaves a `StoreJsonGood` archive, and wrote only
well-formed values. -/
example : StoreJsonGood ((backup blake2bHex {} src).run world).2.store :=
  backup_storeJsonGood_all_worlds blake2bHex_hashHex {} src_good world emptyArchive_sj

example : ∃ new, ((backup blake2bHex {} src).run world).2.trace = new ++ world.trace ∧
    ∀ ev ∈ new, ∀ k es m, ev.op = .write k (.hunk es) m → WfEntries es :=
  backup_writes_wf_hunks blake2bHex_hashHex {} src_good world emptyArchive_sj

/-- Options at their extremes: block size 0, a flush after every entry, no owners. -/
example : StoreJsonGood ((backup zeroH { maxEntriesPerHunk := 0, maxBlockSize := 0, smallFileCap := 0, owner := false }
    src).run world).2.store :=
  backup_storeJsonGood_all_worlds zeroH_hashHex _ src_good world emptyArchive_sj

/-- An archive with one complete version, so that there IS a basis whose addresses get reused:
`/é` as recorded above, in one block. -/
def eFile : IndexEntry :=
  { apath := [47, 195, 169], kind := .file, mtime := -2, mtimeNanos := 500000000, unixMode := some 420,
    user := none, group := none, addrs := [{ hash := zeroH [], start := 0, len := 2 }], target := none }

def archive2 : Store :=
  [(.root, .dir), (.header, .header [48, 46, 54]), (.blockRoot, .dir),
   (.blockDir [48, 48, 48], .dir), (.block (zeroH []), .blockData [1, 2]),
   (.bandDir 0, .dir), (.bandHead 0, .head .ok []), (.indexDir 0, .dir), (.hunkDir 0 0, .dir),
   (.hunk 0 0, .hunk [eFile]), (.bandTail 0, .tail (some 1))]

set_option maxRecDepth 8192 in
theorem archive2_good : StoreJsonGood archive2 := by
  rw [storeJsonGood_iff]
  refine ⟨?_, ?_, ?_⟩
  · intro k es hm
    simp only [archive2, List.mem_cons, List.not_mem_nil, or_false, Prod.mk.injEq, reduceCtorEq, and_false,
      false_or, or_false, FileVal.hunk.injEq] at hm
    obtain ⟨_, rfl⟩ := hm
    decide
  · intro k c fl hm
    simp only [archive2, List.mem_cons, List.not_mem_nil, or_false, Prod.mk.injEq, reduceCtorEq, and_false,
      false_or, or_false, FileVal.head.injEq] at hm
    obtain ⟨_, _, rfl⟩ := hm
    intro f hf; cases hf
  · intro k n hm
    simp only [archive2, List.mem_cons, List.not_mem_nil, or_false, Prod.mk.injEq, reduceCtorEq, and_false,
      false_or, or_false, FileVal.tail.injEq, Option.some.injEq] at hm
    obtain ⟨_, rfl⟩ := hm
    decide

/-- The source file `/é` is heuristically unchanged against that basis entry: its addresses are reused. -/
example : heuristicallyUnchanged
    { apath := [47, 195, 169], kind := .file, mtimeNs := -1500000000, unixMode := 420, user := none, group := none,
      size := 2, content := [1, 2] } eFile = some true := by decide

/-- A second, faulty and killed, backup on the archive with a basis. -/
example : StoreJsonGood ((backup zeroH {} src).run
    { store := archive2, faults := [{ at_ := { verb := .read, key := .hunk 0 0, nth := 0 }, kind := .other }],
      crashAt := some 5, enforceCreateNew := false }).2.store :=
  backup_storeJsonGood_all_worlds zeroH_hashHex _ src_good _ archive2_good

/-- A three-step history from the empty archive: a faulty, killed backup, a clean one, a delete. -/
def hist : List C13.Step :=
  [.backup {} src world, .backup { maxEntriesPerHunk := 1 } src (World.clean []), .delete [0] {} (World.clean [])]

theorem hist_ok : HistJsonOK hist := by
  intro st hst
  simp only [hist, List.mem_cons, List.not_mem_nil, or_false] at hst
  rcases hst with rfl | rfl | rfl
  · exact src_good
  · exact src_good
  · trivial

example : ∀ s' ∈ C13.states blake2bHex hist C13.emptyArchive, StoreJsonGood s' :=
  reachable_storeJsonGood_blake2b hist hist_ok

example : ∀ s' ∈ C13.states blake2bHex hist C13.emptyArchive, ∀ k es, s'.get? k = some (.hunk es) →
    parseHunk (renderHunk es) = some es :=
  hunk_round_trip_reachable blake2bHex_hashHex hist hist_ok

/-- A source tree: `/é` (a two-byte file, 1.5 s before the epoch), `/l → é/"`, `/d/x` (empty file). -/
def tree : Node :=
  .dir { mtimeNs := 1700000000000000000, unixMode := 493, user := some [114] }
    (.cons [195, 169] (.file { mtimeNs := -1500000000, unixMode := 420 } 2 [1, 2])
    (.cons [108] (.symlink { unixMode := 511 } [195, 169, 47, 34])
    (.cons [100] (.dir { unixMode := 493, group := some [119] } (.cons [120] (.file { unixMode := 384 } 0 []) .nil))
    .nil)))

theorem tree_good : tree.JGood := by
  simp only [tree, Node.JGood, Forest.JGood]
  exact ⟨.of_decide _ (by decide), by decide, .of_decide _ (by decide), by decide,
    ⟨.of_decide _ (by decide), by decide⟩, by decide,
    ⟨.of_decide _ (by decide), by decide, .of_decide _ (by decide), trivial⟩, trivial⟩

example : SrcJsonGood (C11.walk tree fun p => p == [47, 108]) :=
  walk_srcJsonGood tree _ tree_good (by decide) (by decide)

example : StoreJsonGood ((backup blake2bHex {} (C11.walk tree fun _ => false)).run world).2.store :=
  (backup_tree_storeJsonGood blake2bHex_hashHex {} tree _ tree_good (by decide) (by decide) world emptyArchive_sj).1

/-- `Dropped.wf` is satisfiable, and the classification hypothesis too (`cls` = "a version is ok"). -/
example : ({ time := 1700000000, version := some [48, 46, 54, 46, 51] } : Dropped).wf := by
  refine ⟨by decide, by decide, by decide⟩

set_option maxRecDepth 8192 in
/-- The bytes of the three JSON-carried files of `archive2` decode to their abstract values. -/
example : ∀ kv ∈ archive2, ∀ jk, jsonKindOfVal kv.2 = some jk →
    ∃ b, encodeFile { time := 1700000000, version := some [48, 46, 54, 46, 51] } kv.2 = some b ∧
      decodeFile (fun v => if v.isSome then .ok else .absent) jk b = some kv.2 := by
  intro kv hkv jk hjk
  refine decode_encode _ _ ⟨by decide, by decide, by decide⟩ (archive2_good kv hkv) hjk ?_
  intro c fl hv
  simp only [archive2, List.mem_cons, List.not_mem_nil, or_false] at hkv
  rcases hkv with rfl | rfl | rfl | rfl | rfl | rfl | rfl | rfl | rfl | rfl | rfl <;> cases hv
  rfl

end Example

end Conserve.C13k
