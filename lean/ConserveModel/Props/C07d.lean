import ConserveModel.Props.C07
import ConserveModel.Props.C05
import ConserveModel.Proofs.TraceNew
/-
C07d — the second half of C07's delete clause: "only an explicit delete or gc removes files, and
then only the requested versions' directories, UNREFERENCED blocks and its own lock file".

`C07.delete_removes_unreferenced_Statement` (Props/C07.lean) is proved here, as a corollary of a
stronger theorem about EVERY world (`delete_removes_unreferenced_any_world`): with the strict
reference scan (the code after the repair of D6), whatever faults are injected and wherever the run
is killed, no `removeFile d/xxx/<h>` is even ISSUED for a hash `h` that a decodable hunk of a band
outside `D` names.  (The statement is about the operations in the trace, successful or not.)

Proof route: `deleteBands = acquire ; attemptAll (listBandIds ; referencedBlocks keep ; listBlocks ;
tail) ; release`.  Everything before `tail` is read-only or touches only `GC_LOCK`
(`touches_acquire`), so the store `referencedBlocks` scans is the initial one off `GC_LOCK`;
`referencedBlocks_sound` (Proofs/DeleteSafe.lean) says the returned list contains every hash a
decodable hunk of a kept band names; `deleteBody_decomp` (Proofs/FrameDelete.lean) says the tail
removes only blocks outside that list.

Hypotheses actually used: only `HunkTreeOk s` — every hunk FILE sits in a subdirectory that is a
directory, inside a band directory that is a directory (a consequence of "every stored key's parent
is a directory").  `NoDupKeys` is not needed at all (kept in the `Statement` because it is stated
there); `b ∈ bandIdsOf s` is not needed either (a hunk file under a band implies its directory).
-/
namespace Conserve.C07d
open Conserve Prog

/-- The events of interest: a `removeFile` of a block file whose hash a kept band names. -/
def RemovesReferenced (s : Store) (D : List Nat) (ev : TraceEv) : Prop :=
  ∃ h, ev.op = .removeFile (.block h) ∧ referencedOutside s D h

theorem deleteOpQ_false_block {D : List Nat} {o : Op} (ho : DeleteOpQ D (fun _ => False) o) (h : Str) :
    o ≠ .removeFile (.block h) := by
  rintro rfl
  rcases ho with h1 | ⟨_, _, hf⟩
  · cases h1
  · exact hf

theorem acquire_del (D : List Nat) (Q : Str → Prop) (o : DeleteOpts) : AllOps (DeleteOpQ D Q) (acquire o) := by
  unfold acquire
  split
  · exact gcBreakLock_del
  · exact gcLockNew_bk.bk_del

theorem withLock_tail_del (D : List Nat) (Q : Str → Prop) (r : Outcome DeleteStats) :
    AllOps (DeleteOpQ D Q) (match r with
      | .ok st => (.ret st : Prog DeleteStats)
      | .err e => gcLockReleaseOnError.bind fun _ => .fail e
      | .panic site => gcLockDrop.bind fun _ => .panic site) := by
  cases r with
  | ok st => exact .ret _
  | err e => exact AllOps.bind gcLockReleaseOnError_del fun _ => .fail _
  | panic site => exact AllOps.bind gcLockDrop_del fun _ => .panic _

theorem ro_not_remove {ev : TraceEv} (h : ev.op.isMutating = false) (k : Key) : ev.op ≠ .removeFile k := by
  intro e; rw [e] at h; cases h

/-- `deleteBody` in any world whose store is `HunkTreeOk`: no removal of a referenced block is issued. -/
theorem deleteBody_no_referenced_removal (D : List Nat) (o : DeleteOpts) (held : Option Nat) (w : World)
    (hok : HunkTreeOk w.store) :
    NewEvs (fun ev => ¬ RemovesReferenced w.store D ev) (deleteBody true D o held) w := by
  obtain ⟨tail, heq, hops⟩ := deleteBody_decomp true D o held
  rw [heq]
  have hro : ∀ ev : TraceEv, ev.op.isMutating = false → ¬ RemovesReferenced w.store D ev :=
    fun ev h ⟨x, hx, _⟩ => ro_not_remove h _ hx
  refine NewEvs.bind (NewEvs.of_readOnly readOnly_listBandIds hro w) fun all w1 h1 => ?_
  have hall : all = bandIdsOf w.store := listBandIds_sound (by rw [h1])
  have e1 : w1.store = w.store := by
    have := readOnly_listBandIds.store_eq w; rw [h1] at this; exact this
  refine NewEvs.bind (NewEvs.of_readOnly (readOnly_referencedBlocks true _) hro w1) fun refs w2 h2 => ?_
  refine NewEvs.bind (NewEvs.of_readOnly readOnly_listBlocks hro w2) fun present w3 _ => ?_
  refine NewEvs.of_allOps (hops refs present) ?_ w3
  rintro ev hev ⟨x, hx, href⟩
  rw [hx] at hev
  rcases hev with hl | ⟨x', hx', _, hnot⟩
  · cases hl
  · cases hx'
    apply hnot
    obtain ⟨b, hbD, n, es, hes, e, he, a, ha, rfl⟩ := href
    have hv : ∃ v, w.store.get? (.hunk b n) = some v := by
      simp only [hunkAt] at hes
      cases hg : w.store.get? (.hunk b n) with
      | none => simp [hg] at hes
      | some v => exact ⟨v, rfl⟩
    obtain ⟨v, hv⟩ := hv
    refine referencedBlocks_sound _ w1 refs (by rw [h2]) b ?_ ?_ n es (by rw [e1]; exact hes) e he a ha
    · rw [List.mem_filter, hall]
      exact ⟨mem_bandIdsOf'.2 (Store.mem_of_get?' (hok b n v hv).2), by simpa using hbD⟩
    · intro n' v' hv'
      rw [e1] at hv' ⊢
      exact (hok b n' v' hv').1

/-- **Delete never asks for the removal of a referenced block — in any world.**  Strict reference
scan.  For every world `w` (any injected faults, any crash point, dead or alive) whose store has its
hunk files in real directories, among the operations a run of `delete_bands D` appends to the trace
there is no `removeFile` of a block whose hash is named by an entry of a decodable hunk of a band
outside `D`. -/
theorem delete_removes_unreferenced_any_world (D : List Nat) (o : DeleteOpts) (w : World)
    (hok : HunkTreeOk w.store) :
    NewEvs (fun ev => ¬ RemovesReferenced w.store D ev) (deleteBands true D o) w := by
  rw [deleteBands_eq]
  have hdel : ∀ ev : TraceEv, DeleteOpQ D (fun _ => False) ev.op → ¬ RemovesReferenced w.store D ev :=
    fun ev h ⟨x, hx, _⟩ => deleteOpQ_false_block h x hx
  refine NewEvs.bind (NewEvs.of_allOps (acquire_del D _ o) hdel w) fun held w1 h1 => ?_
  have hacq : ∀ k, k ≠ .gcLock → w1.store.get? k = w.store.get? k := by
    intro k hk
    have := (touches_acquire (fun k => k = .gcLock) rfl o).frame w k hk
    rw [h1] at this; exact this
  have hok' : HunkTreeOk w1.store := by
    intro b n v hv
    rw [hacq _ (by simp)] at hv
    rw [hacq _ (by simp), hacq _ (by simp)]
    exact hok b n v hv
  have href : ∀ h, referencedOutside w.store D h → referencedOutside w1.store D h := by
    rintro h ⟨b, hbD, n, es, hes, rest⟩
    refine ⟨b, hbD, n, es, ?_, rest⟩
    simp only [hunkAt, hacq _ (show ¬ (Key.hunk b n = Key.gcLock) by simp)]
    exact hes
  simp only [withLock]
  refine NewEvs.bind (NewEvs.attemptAll ?_) fun r w2 _ => NewEvs.of_allOps (withLock_tail_del D _ r) hdel w2
  refine (deleteBody_no_referenced_removal D o held w1 hok').mono ?_
  rintro ev hn ⟨x, hx, hr⟩
  exact hn ⟨x, hx, href x hr⟩

/-- The same with the trace spelled out. -/
theorem delete_removes_unreferenced_trace (D : List Nat) (o : DeleteOpts) (w : World)
    (hok : HunkTreeOk w.store) :
    ∃ new, ((deleteBands true D o).run w).2.trace = new ++ w.trace ∧
      ∀ ev ∈ new, ∀ h, ev.op = .removeFile (.block h) →
        ∀ b, b ∉ D → ∀ n es, hunkAt w.store b n = some es → ∀ e ∈ es, ∀ a ∈ e.addrs, a.hash ≠ h := by
  obtain ⟨new, ht, hn⟩ := delete_removes_unreferenced_any_world D o w hok
  refine ⟨new, ht, ?_⟩
  intro ev hev h hop b hb n es hes e he a ha heq
  exact hn ev hev ⟨h, hop, b, hb, n, es, hes, e, he, a, ha, heq⟩

/-- "Every stored key's parent is a directory" (as hypothesised in the C07 statement) gives `DirsOk`. -/
theorem dirsOk_of_parentOk {s : Store} (hs : s.NoDupKeys)
    (hp : ∀ k v, s.get? k = some v → s.parentOk k = true) : DirsOk s := by
  rintro ⟨k, v⟩ hkv
  exact hp k v (Store.get?_of_mem hs hkv)

/-- **`C07.delete_removes_unreferenced_Statement` holds**, as stated: on a clean world over a store
with distinct keys in which every stored key's parent is a directory, with the strict reference
scan, no block whose removal `delete_bands D` issues is referenced by a hunk of a band that is kept
(a band directory of `s` not in `D`).  No further hypothesis is needed: the statement is true as
written (and `NoDupKeys`, `b ∈ bandIdsOf s` and the cleanliness of the world are not used beyond
deriving `HunkTreeOk` and `trace = []`). -/
theorem delete_removes_unreferenced : C07.delete_removes_unreferenced_Statement := by
  intro D opts s hs hp ev hev h hop b _ hbD n es hes e he a ha
  have hok : HunkTreeOk s := (dirsOk_of_parentOk hs hp).hunkTreeOk
  have := (delete_removes_unreferenced_any_world D opts (World.clean s) hok).all rfl ev hev
  intro heq
  exact this ⟨h, hop, b, hbD, n, es, hes, e, he, a, ha, heq⟩

/-- Together with `C07.delete_removes_only_trace`: the complete clause about runs, for every world
with a `HunkTreeOk` store: every removal recorded is `removeDirAll` of a requested version's
directory, `removeFile` of the gc lock, or `removeFile` of a block that no kept band references; no
write overwrites. -/
theorem delete_removes_only_full (D : List Nat) (o : DeleteOpts) (w : World) (hok : HunkTreeOk w.store) :
    ∃ new, ((deleteBands true D o).run w).2.trace = new ++ w.trace ∧
      (∀ ev ∈ new, ∀ k, ev.op = .removeDirAll k → ∃ b, b ∈ D ∧ k = .bandDir b) ∧
      (∀ ev ∈ new, ∀ k, ev.op = .removeFile k →
        k = .gcLock ∨ ∃ h, k = .block h ∧ ¬ referencedOutside w.store D h) ∧
      (∀ ev ∈ new, ∀ k v m, ev.op = .write k v m → m = .createNew) := by
  obtain ⟨new, ht, h1, h2, h3⟩ := C07.delete_removes_only_trace true D o w
  obtain ⟨new', ht', hn⟩ := delete_removes_unreferenced_any_world D o w hok
  have : new' = new := List.append_cancel_right (ht'.symm.trans ht)
  subst this
  refine ⟨new', ht, h1, ?_, h3⟩
  intro ev hev k hop
  rcases h2 ev hev k hop with hl | ⟨h, rfl⟩
  · exact .inl hl
  · exact .inr ⟨h, rfl, fun hr => hn ev hev ⟨h, hop, hr⟩⟩

/-! ### Non-vacuity -/

/-- The hypotheses of the statement hold for the two-version example archive of C05 … -/
example : C05.exStore.NoDupKeys ∧ (∀ k v, C05.exStore.get? k = some v → C05.exStore.parentOk k = true) := by
  refine ⟨by show (C05.exStore.map Prod.fst).Nodup; decide, ?_⟩
  intro k v hv
  exact C05.ex_dirsOk (k, v) (Store.mem_of_get?' hv)

/-- … and the conclusion is not about an empty set of events: deleting version 0 there does issue a
block removal (of the garbage block `ccc3`), and version 1, which is kept, names blocks. -/
example : ((deleteBands true [0] {}).run (World.clean C05.exStore)).2.store.get? (.block C05.hG) = none ∧
    C05.exStore.get? (.block C05.hG) ≠ none ∧
    referencedOutside C05.exStore [0] C05.hB := by
  obtain ⟨_, h2, _⟩ := C05.delete_exact_store C05.exStore [0] {} C05.ex_archOK0 C05.ex_lockFree C05.ex_newest rfl
    (by decide) (by rw [C05.ex_bands]; decide)
  refine ⟨?_, by decide, ?_⟩
  · rw [h2, get?_deleted_block, C05.ex_unref0]; simp
  · exact ⟨1, by decide, 0, _, rfl, C05.fileEntry [47, 98] [⟨C05.hB, 0, 2⟩], by simp,
      ⟨C05.hB, 0, 2⟩, by simp [C05.fileEntry], rfl⟩

/-- A world with a fault and a crash point also satisfies the hypothesis of the any-world theorem. -/
example : ∃ w : World, w.faults ≠ [] ∧ w.crashAt = some 2 ∧ HunkTreeOk w.store :=
  ⟨{ store := C05.exStore, faults := [⟨⟨.read, .hunk 1 0, 0⟩, .other⟩], crashAt := some 2 }, by simp, rfl,
    C05.ex_dirsOk.hunkTreeOk⟩

end Conserve.C07d
