import ConserveModel.Proofs.NoPanicUnchecked
import ConserveModel.Proofs.NoPanicContain
import ConserveModel.Proofs.NoPanicRestoreRun
import ConserveModel.Props.C08
/-
C10 — Damage to one stored file is contained and never crashes the tool.

"After any single stored file other than the archive header is deleted, truncated, overwritten
with garbage or has a bit flipped, every read operation (list versions, list, restore of each
version, validate) and a new backup terminate without crashing or hanging.  In every version that
still opens, each file whose index hunk and blocks are untouched restores exactly, and each file
whose hunk or block has become missing or undecodable is reported as an error rather than silently
dropped or altered.  When the damage was a deleted or emptied file, a new backup of the source
completes and restores exactly."

In the model every Rust `unwrap` / `expect` / `assert!` / index that stored data can reach is an
explicit `Prog.panic site` leaf.  What is proved here:

§1–§3  NO PANIC, at full strength and more: not "after single-file damage of a good archive" but
  from EVERY store whatsoever (any number of files damaged in any way, header included), in EVERY
  world (any injected transport faults, any crash point, the dead world), for list-versions, list
  (all selections, subtrees, exclusions), restore, validate (full and quick), backup (any source,
  any options) and delete/gc (strict = the repaired code).  The proofs establish the stronger,
  purely syntactic `Safe`: no `panic` leaf is reachable under ANY sequence of storage responses.
  The reason is one invariant: `IndexRead::read_hunk` returns only entries that pass
  `IndexEntry::check` (`readHunk_usable`), so everything downstream — the exclusion filter's
  `assert!(is_valid)`, `IndexEntry::mtime()` in restore and in `content_heuristically_unchanged`
  on the BASIS entry during backup — only ever sees usable entries.
§4  The repairs were needed: with the reader as it was (`readHunkUnchecked`), one odd entry panics
  the listing (`entry_check_needed_apath`) and restore (`entry_check_needed_mtime`); the non-strict
  `delete_bands` panics on an unlistable index (`delete_nonstrict_can_panic`).
§5  NO HANG: every operation is a total Lean function interpreted over a finite tree; that Lean
  accepts the definitions is the termination proof (`c10_total` records it).
§6  CONTAINMENT at the listing level, in terms of the C08 rule (`listSpec`, `listErrors`):
  damage outside a version's directory changes nothing the rule reads of it; the listing of
  version `n` depends only on versions `≤ n`; file content (`readBack`) depends only on the blocks
  it names; and the loss of an index hunk of a complete version is always REPORTED
  (`lost_hunk_reported`), while the entries of its other hunks are listed unmodified
  (`lost_hunk_rest_listed`).  `ArchWF` survives such damage (`archWF_lost_hunk`), so C08's
  `stitch_eq_spec` applies to the damaged store (`lost_hunk_reported_run`).
§6b RESTORE-level containment in the fault-free world: `restore_spec` (restore = a pure function
  of the store), `restore_file_exact_or_reported` (a file is restored with exactly its content, or
  left incomplete AND reported), `restore_block_damage_contained`, `restore_lost_hunk_contained`.
§7  The sentence formalised in full (`C10Statement`).  Read literally it is FALSE
  (`c10_statement_refuted`): in a version without tail the loss of the last hunk cannot be told from
  an interrupted backup and is silent.  `C10StatementComplete` restricts the "reported" clause to
  versions with a tail; `c10_partial` says what is proved of it and names the gap: the restore-level
  half of the containment sentence (a damaged BLOCK is reported by restore and the other files
  restore exactly) is proved in §6b under `ArchWF` + "nothing listed below a symlink"; deriving those
  from `Conforms`, the remaining damage classes (tail, other versions) and "a new backup after a
  delete/empty restores exactly" (C01/C04 territory) are open.
-/
namespace Conserve.C10
open Conserve Prog Conserve.NP

/-! ## 1. The predicate -/

/-- `NoPanic p` (Proofs/NoPanicLogic.lean), spelled out: in no world does `p` end in a panic. -/
theorem noPanic_def {α : Type} (p : Prog α) :
    NoPanic p ↔ ∀ w : World, ∀ site, (p.run w).1 ≠ .panic site := Iff.rfl

/-- Equivalently: the outcome is always a value or a conserve `Error`. -/
theorem noPanic_iff_ok_or_err {α : Type} (p : Prog α) :
    NoPanic p ↔ ∀ w : World, (∃ a, (p.run w).1 = .ok a) ∨ (∃ e, (p.run w).1 = .err e) :=
  noPanic_iff p

/-- `Ensures Q p`: in every world `p` returns a value satisfying `Q`, or fails with an error. -/
theorem ensures_def {α : Type} (Q : α → Prop) (p : Prog α) :
    Ensures Q p ↔ ∀ w : World, match (p.run w).1 with
      | .ok a => Q a
      | .err _ => True
      | .panic _ => False := Iff.rfl

/-- The syntactic judgement used in the proofs is stronger than both: it does not even assume
that the responses come from a store. -/
theorem safe_ensures {α : Type} {Q : α → Prop} {p : Prog α} (h : Safe Q p) : Ensures Q p ∧ NoPanic p :=
  ⟨h.ensures, h.noPanic⟩

/-! ## 2. Everything the index reader returns passed `IndexEntry::check` -/

/-- **readHunk_usable.**  In every world, from every store: if `read_hunk` returns entries, every
one of them passed `IndexEntry::check` (valid path, representable time, known kind, symlink with
target, no address overflow). -/
theorem readHunk_usable (b n : Nat) :
    Ensures (fun r => ∀ es, r = some es → es.all entryUsable = true) (readHunk b n) :=
  ((readHunk_safe b n).mono fun _ h es he => (allUsable_iff es).mp (h es he)).ensures

/-- Through the hunk iterator with its skip-ahead and trimming … -/
theorem readHunks_usable (b : Nat) (ns : List Nat) (after last : Option Str) :
    Ensures (fun r => AllUsable r.1) (readHunks b ns after last) := (readHunks_safe b ns after last).ensures

/-- … one version … -/
theorem readBand_usable (b : Nat) (last : Option Str) :
    Ensures (fun r => AllUsable r.1) (readBand b last) := (readBand_safe b last).ensures

/-- … the walk down through earlier versions … -/
theorem stitchDown_usable (b : Nat) (last : Option Str) : Ensures AllUsable (stitchDown b last) :=
  (stitchDown_safe b last).ensures

/-- **stitchAll_usable.**  Every entry the stitched reader yields, for any version id, in any
world, from any store, passed `IndexEntry::check`. -/
theorem stitchAll_usable (b : Nat) : Ensures AllUsable (stitchAll b) := (stitchAll_safe b).ensures

/-- What "usable" buys: the path is valid and the time is representable. -/
theorem usable_gives {e : IndexEntry} (h : entryUsable e = true) :
    isValid e.apath = true ∧ ∃ t, entryTimeNs e.mtime e.mtimeNanos = some t :=
  ⟨usable_valid h, usable_time h⟩

/-! ## 3. No operation panics -/

/-- **filterEntries_noPanic.**  On usable entries the exclusion filter — whose only panic is
`Exclude::matches`' `assert!(is_valid)` — never panics, and what it returns is usable again and
taken from its input. -/
theorem filterEntries_noPanic (subtree : Str) (excl : Str → Bool) (es : List IndexEntry)
    (hes : AllUsable es) :
    Ensures (fun r => AllUsable r ∧ ∀ e ∈ r, e ∈ es) (filterEntries subtree excl es) :=
  (filterEntries_safe subtree excl es hes).ensures

/-- A listing consists of usable entries only. -/
theorem listEntries_usable (b : Nat) (subtree : Str) (excl : Str → Bool) :
    Ensures AllUsable (listEntries b subtree excl) := (listEntries_safe b subtree excl).ensures

/-- **list_never_panics.**  `conserve ls` — every version selection, subtree and exclusion
predicate — never panics, whatever the archive holds and whatever the transport does. -/
theorem list_never_panics (sel : BandSelection) (subtree : Str) (excl : Str → Bool) :
    NoPanic (listVersion sel subtree excl) := (listVersion_safe sel subtree excl).noPanic

/-- **restore_never_panics.**  `restore()` up to the filesystem never panics: its only panic is
`IndexEntry::mtime()` on an unrepresentable time, and every listed entry has a representable one. -/
theorem restore_never_panics (H : Str → Str) (sel : BandSelection) (subtree : Str) (excl : Str → Bool) :
    NoPanic (restore H sel subtree excl) := (restore_safe H sel subtree excl).noPanic

/-- **validate_never_panics.**  `Archive::validate`, full and quick. -/
theorem validate_never_panics (H : Str → Str) (quick : Bool) : NoPanic (validate H quick) :=
  (validate_safe H quick).noPanic

/-- **backup_never_panics.**  `backup()` of any source listing with any options onto any archive:
`metadata_from` is total since the repair of D3, and `content_heuristically_unchanged` calls
`IndexEntry::mtime()` only on BASIS entries, which come from the stitched listing and so are
usable (`mergeTrees_usable`, threaded through `backupLoop`). -/
theorem backup_never_panics (H : Str → Str) (o : BackupOpts) (src : List SrcEntry) :
    NoPanic (backup H o src) := (backup_safe H o src).noPanic

/-! ### "list versions" -/

structure VersionsOpts where
  /-- any of `--sizes`, start time, duration asked for: the band is opened and its tail read -/
  detail : Bool := true
  /-- `tree_size`: the version is listed and the file sizes summed -/
  sizes : Bool := false
  newestFirst : Bool := false
  deriving Repr, Inhabited, DecidableEq

/-- One printed line of `conserve versions`. -/
structure VersionLine where
  id : Nat
  /-- `Info.is_closed`, `Info.index_hunk_count` (times are not modelled) -/
  info : Option (Bool × Option Nat) := none
  treeBytes : Option Nat := none
  deriving Repr, Inhabited, DecidableEq

/-- `Band::get_info` (src/band.rs): `read_json(BANDTAIL)?`; a missing tail is `Ok(None)`.  An
out-of-range start or end time is `Err(InvalidMetadata)` there, not a panic; times are not in the
model, so that error cannot arise here. -/
def bandGetInfo (b : Nat) : Prog (Bool × Option Nat) := do
  match ← perform (.read (.bandTail b)) with
  | .err .notFound => pure (false, none)
  | .err e => .fail (.transport e)
  | .val (.tail n) => pure (true, n)
  | .val _ => .fail .json
  | _ => .fail (.transport .other)

/-- The loop of `show_versions` (src/show.rs). -/
def showVersionsLoop (o : VersionsOpts) : List Nat → Prog (List VersionLine)
  | [] => pure []
  | b :: bs => do
    if !o.detail then
      let rest ← showVersionsLoop o bs
      pure ({ id := b } :: rest)
    else
    match ← (bandOpen b).attempt with
    | .error e =>                                   -- "Failed to open band": continue
      logError e
      showVersionsLoop o bs
    | .ok () =>
      match ← (bandGetInfo b).attempt with
      | .error e =>                                 -- "Failed to read band tail": continue
        logError e
        showVersionsLoop o bs
      | .ok info =>
        let bytes ← if o.sizes then do
            bandOpen b                              -- open_stored_tree(Specified(b))?
            let es ← listEntries b [slash] (fun _ => false)
            pure (some ((es.map (·.size)).sum))     -- StoredTree::size
          else pure none
        let rest ← showVersionsLoop o bs
        pure ({ id := b, info := some info, treeBytes := bytes } :: rest)

/-- `show_versions`: `list_band_ids`, then per version `Band::open` + `get_info` (+ tree size). -/
def showVersions (o : VersionsOpts) : Prog (List VersionLine) := do
  let ids ← listBandIds
  showVersionsLoop o (if o.newestFirst then ids.reverse else ids)

theorem bandGetInfo_safe (b : Nat) : Safe (fun _ => True) (bandGetInfo b) := by
  unfold bandGetInfo
  simp only [Prog.bind_def, Prog.pure_def]
  repeat safe_step

theorem showVersionsLoop_safe (o : VersionsOpts) (bs : List Nat) :
    Safe (fun _ => True) (showVersionsLoop o bs) := by
  induction bs with
  | nil => exact .ret trivial
  | cons b bs ih =>
    unfold showVersionsLoop
    simp only [Prog.bind_def, Prog.pure_def]
    safe_using [ih, (bandOpen_safe b).attempt_triv, (bandGetInfo_safe b).attempt_triv, bandOpen_safe b,
      (listEntries_safe b _ _).triv]

/-- **versions_never_panics.**  `conserve versions`, with every combination of options. -/
theorem versions_never_panics (o : VersionsOpts) : NoPanic (showVersions o) := by
  refine Safe.noPanic (Q := fun _ => True) ?_
  unfold showVersions
  simp only [Prog.bind_def]
  exact Safe.bind' listBandIds_safe (fun _ => showVersionsLoop_safe o _)

/-! ### delete / gc -/

/-- **delete_never_panics.**  `delete_bands` / `gc` after the repair of D6 (`strict = true`): it reads
the hunk list with `hunks_available()?`, not with `iter_available_hunks()` and its `expect`. -/
theorem delete_never_panics (D : List Nat) (opts : DeleteOpts) : NoPanic (deleteBands true D opts) :=
  (deleteBands_strict_safe D opts).noPanic

/-- One complete version with a head and a tail but no index directory (the damage: `b0000/i`
removed). -/
def noIndexStore : Store :=
  [ (.root, .dir), (.header, .header [48, 46, 54]), (.blockRoot, .dir),
    (.bandDir 0, .dir), (.bandHead 0, .head .ok []), (.bandTail 0, .tail (some 0)) ]

/-- An intact one-version archive in a world where the first listing of `b0000/i` fails. -/
def indexFaultWorld : World :=
  { store := oneEntryStore (dirEntry [slash]), faults := [⟨⟨.listDir, .indexDir 0, 0⟩, .other⟩] }

/-- **delete_nonstrict_can_panic** (D9, `iter_available_hunks: expect("hunks available")`).  The code
before the repair panics (a) without any fault on an archive whose index directory is gone, and
(b) on an intact archive when listing the index directory fails once; the repaired code fails with
an ordinary error in both. -/
theorem delete_nonstrict_can_panic :
    ((deleteBands false [] {}).run (World.clean noIndexStore)).1
        = .panic "iter_available_hunks: expect(hunks available)" ∧
    ((deleteBands false [] {}).run indexFaultWorld).1
        = .panic "iter_available_hunks: expect(hunks available)" ∧
    ((deleteBands true [] {}).run (World.clean noIndexStore)).1 = .err (.transport .notFound) ∧
    ((deleteBands true [] {}).run indexFaultWorld).1 = .err (.transport .other) := by
  exact ⟨panicSite?_eq_some.mp (by decide +kernel), panicSite?_eq_some.mp (by decide +kernel),
    errOf?_eq_some.mp (by decide +kernel), errOf?_eq_some.mp (by decide +kernel)⟩

/-! ## 4. The entry check was needed -/

/-- An entry whose path is `//` — what one flipped bit makes of `/.` or `/o`. -/
def slashSlash : IndexEntry := dirEntry [47, 47]

/-- An entry whose `mtime_nanos` does not fit an `i32`. -/
def bigNanos : IndexEntry := { dirEntry [slash] with mtimeNanos := 2000000000 }

/-- **entry_check_needed_apath** (D9).  With the hunk reader as it was before the repair (entries
used as decoded), listing the one-version archive whose only entry has path `//` panics in
`Exclude::matches`; with the repaired reader the same archive lists as empty and the hunk is
reported (`invalidMetadata`).  `listEntriesW readHunk = listEntries` (`listEntriesW_checked`) shows
the parametrised listing is the model with only the reader exchanged. -/
theorem entry_check_needed_apath :
    ((listEntriesW readHunkUnchecked 0 [slash] (fun _ => false)).run
        (World.clean (oneEntryStore slashSlash))).1 = .panic "Exclude::matches: assert is_valid" ∧
    panicSite? ((listEntries 0 [slash] (fun _ => false)).run (World.clean (oneEntryStore slashSlash))).1 = none ∧
    ((listEntries 0 [slash] (fun _ => false)).run (World.clean (oneEntryStore slashSlash))).2.events
      = [.error .invalidMetadata] :=
  ⟨panicSite?_eq_some.mp (by decide +kernel), by decide +kernel, by decide +kernel⟩

/-- **entry_check_needed_mtime** (D9).  The same for `mtime_nanos = 2·10⁹`: restore with the unchecked
reader panics in `IndexEntry::mtime()`; the repaired restore does not, and reports the hunk. -/
theorem entry_check_needed_mtime :
    ((restoreW readHunkUnchecked (fun c => c) 0 [slash] (fun _ => false)).run
        (World.clean (oneEntryStore bigNanos))).1 = .panic "IndexEntry::mtime: Timestamp::new expect" ∧
    panicSite? ((restore (fun c => c) (.specified 0) [slash] (fun _ => false)).run
        (World.clean (oneEntryStore bigNanos))).1 = none ∧
    ((restore (fun c => c) (.specified 0) [slash] (fun _ => false)).run
        (World.clean (oneEntryStore bigNanos))).2.events = [.error .invalidMetadata] :=
  ⟨panicSite?_eq_some.mp (by decide +kernel), by decide +kernel, by decide +kernel⟩

/-- The two odd entries are exactly what the check rejects, for exactly those reasons. -/
example : entryUsable slashSlash = false ∧ isValid slashSlash.apath = false := by decide
example : entryUsable bigNanos = false ∧ entryTimeNs bigNanos.mtime bigNanos.mtimeNanos = none := by decide
example : entryUsable (dirEntry [slash]) = true := by decide

/-! ## 5. No hang -/

/-- **c10_total.**  Every operation yields an outcome in every world: `Prog.run` is a total function
on a finite tree and every operation is a total Lean function (structural recursion on lists of
band ids / hunk numbers / entries and on the band id).  That Lean accepts the definitions IS the
termination proof; this theorem only records it. -/
theorem c10_total (H : Str → Str) (w : World) :
    (∀ o, ∃ r, (showVersions o).run w = r) ∧
    (∀ sel subtree excl, ∃ r, (listVersion sel subtree excl).run w = r) ∧
    (∀ sel subtree excl, ∃ r, (restore H sel subtree excl).run w = r) ∧
    (∀ quick, ∃ r, (validate H quick).run w = r) ∧
    (∀ o src, ∃ r, (backup H o src).run w = r) ∧
    (∀ D opts, ∃ r, (deleteBands true D opts).run w = r) :=
  ⟨fun _ => ⟨_, rfl⟩, fun _ _ _ => ⟨_, rfl⟩, fun _ _ _ => ⟨_, rfl⟩, fun _ => ⟨_, rfl⟩,
   fun _ _ => ⟨_, rfl⟩, fun _ _ => ⟨_, rfl⟩⟩

/-- **c10_no_crash.**  The "never crashes" half of C10, all operations together, for every store
(so for every damaged store), every fault list and every crash point. -/
theorem c10_no_crash (H : Str → Str) :
    (∀ o, NoPanic (showVersions o)) ∧
    (∀ sel subtree excl, NoPanic (listVersion sel subtree excl)) ∧
    (∀ sel subtree excl, NoPanic (restore H sel subtree excl)) ∧
    (∀ quick, NoPanic (validate H quick)) ∧
    (∀ o src, NoPanic (backup H o src)) ∧
    (∀ D opts, NoPanic (deleteBands true D opts)) :=
  ⟨versions_never_panics, list_never_panics, restore_never_panics H, validate_never_panics H,
   backup_never_panics H, delete_never_panics⟩

/-! ## 6. Containment at the listing level -/

/-- `Damage s s' k` (Proofs/NoPanicContain.lean): `s'` differs from `s` at most in what path `k`
holds — deleted, truncated, overwritten with garbage, bit-flipped (any other value), or created. -/
theorem damage_def (s s' : Store) (k : Key) :
    Damage s s' k ↔ ∀ k', k' ≠ k → s'.get? k' = s.get? k' := Iff.rfl

/-- **damage_outside_band** (a).  If the damaged path is not inside version `b`'s directory, then
every hunk of `b` decodes (`hunkAt`) and is usable (`usableHunk`) exactly as before, `b` exists, is
readable and complete exactly as before. -/
theorem damage_outside_band {s s' : Store} {k : Key} (hd : Damage s s' k) {b : Nat}
    (hk : Key.isUnder (.bandDir b) k = false) :
    (∀ n, hunkAt s' b n = hunkAt s b n) ∧ (∀ n, usableHunk s' b n = usableHunk s b n) ∧
    bandPresent s' b = bandPresent s b ∧ bandReadable s' b = bandReadable s b ∧
    isComplete s' b = isComplete s b :=
  have h := hd.sameBand hk
  ⟨h.hunkAt, h.usableHunk, h.bandPresent, h.bandReadable, h.isComplete⟩

/-- … and, when no path occurs twice in either store, its set of hunk files, its own entries and
the errors reported while consulting it are the same. -/
theorem damage_outside_band_entries {s s' : Store} (nd : keysNodup s = true) (nd' : keysNodup s' = true)
    {k : Key} (hd : Damage s s' k) {b : Nat} (hk : Key.isUnder (.bandDir b) k = false) :
    hunkNumsOf s' b = hunkNumsOf s b ∧ bandEntries s' b = bandEntries s b ∧
    bandErrors s' b = bandErrors s b := by
  have n1 : (s.map (·.1)).Nodup := by simpa [keysNodup] using nd
  have n2 : (s'.map (·.1)).Nodup := by simpa [keysNodup] using nd'
  have h := hd.sameBand hk
  exact ⟨h.hunkNumsOf n1 n2, h.bandEntries n1 n2, h.bandErrors n1 n2⟩

/-- **damage_content_untouched** (a).  The content of an entry (`readBack`) is the same in both
stores unless the damaged path is one of the blocks the entry names. -/
theorem damage_content_untouched (H : Str → Str) {s s' : Store} {k : Key} (hd : Damage s s' k)
    (e : IndexEntry) (hk : ∀ a ∈ e.addrs, k ≠ .block a.hash) :
    readBack H s' e.addrs = readBack H s e.addrs :=
  readBack_congr H e.addrs fun a ha => hd _ (fun h => hk a ha h.symm)

/-- **listing_unaffected.**  Damage to a path that is not inside the directory of any version
`≤ n` — a block, the lock, the header, a LATER version — leaves the listing of version `n` and the
errors it reports exactly as they were (by the C08 rule), and hence what the code returns. -/
theorem listing_unaffected {s s' : Store} (wf : ArchWF s) (wf' : ArchWF s') {k : Key}
    (hd : Damage s s' k) (n : Nat) (hk : ∀ b, b ≤ n → Key.isUnder (.bandDir b) k = false) :
    listSpec s' n = listSpec s n ∧ listErrors s' n = listErrors s n ∧
    ((stitchAll n).run (World.clean s')).1 = ((stitchAll n).run (World.clean s)).1 := by
  have hs : ∀ b, b ≤ n → SameBand s s' b := fun b hb => hd.sameBand (hk b hb)
  have h1 := listSpec_congr wf.keys wf'.keys n hs
  refine ⟨h1, listErrors_congr wf.keys wf'.keys n hs, ?_⟩
  rw [(C08.stitch_eq_spec wf' n).1, (C08.stitch_eq_spec wf n).1, h1]

/-- A block path is inside no version directory: block damage never changes any listing. -/
theorem block_not_under_band (h : Str) (b : Nat) : Key.isUnder (.bandDir b) (.block h) = false := by
  simp [Key.isUnder, Key.parent]

/-- A path inside version `c`'s directory is not inside version `b`'s for `b ≠ c`: damage to a
version leaves all other versions' own data alone. -/
theorem other_band_not_under {b c : Nat} (hbc : b ≠ c) (k : Key) (hk : Key.isUnder (.bandDir c) k = true) :
    Key.isUnder (.bandDir b) k = false := by
  cases k <;> simp_all [Key.isUnder, Key.parent] <;> omega

/-- **archWF_lost_hunk.**  Well-formedness (the hypothesis of C08) survives damage that makes a
hunk file missing, unusable or empty: `bandsSorted` only constrains usable hunks.  ("No path twice"
and "a tree" are assumed of the damaged store; they hold for deletion and for overwriting, see
`archWF_erase_hunk`, `archWF_put_hunk`.) -/
theorem archWF_lost_hunk {s s' : Store} (wf : ArchWF s) (nd' : keysNodup s' = true)
    (tr' : treeShaped s' = true) {b n : Nat} (hd : Damage s s' (.hunk b n))
    (hlost : usableHunk s' b n = none ∨ usableHunk s' b n = some []) : ArchWF s' :=
  archWF_of_lost_hunk wf nd' tr' hd hlost

/-- Deleting a hunk file of a well-formed archive gives a well-formed archive. -/
theorem archWF_erase_hunk {s : Store} (wf : ArchWF s) (b n : Nat) : ArchWF (s.erase (.hunk b n)) :=
  archWF_of_lost_hunk wf (keysNodup_erase wf.nodup _) (treeShaped_erase_hunk wf.tree b n)
    (damage_erase s _) (.inl (by simp [usableHunk]))

/-- Overwriting an existing hunk file with anything unusable (garbage, a truncated file, a hunk
with an entry that fails the check) or with nothing (zero length) gives a well-formed archive. -/
theorem archWF_put_hunk {s : Store} (wf : ArchWF s) {b n : Nat} {v0 : FileVal}
    (hex : s.get? (.hunk b n) = some v0) (v : FileVal)
    (hv : usableHunk (s.put (.hunk b n) v) b n = none ∨ usableHunk (s.put (.hunk b n) v) b n = some []) :
    ArchWF (s.put (.hunk b n) v) :=
  archWF_of_lost_hunk wf (keysNodup_put wf.nodup _ v) (treeShaped_put_hunk wf.tree hex v)
    (damage_put s _ v) hv

/-- "The hunk file has become missing, undecodable/unusable, or empty." -/
def HunkLost (s' : Store) (b n : Nat) : Prop :=
  usableHunk s' b n = none ∨ s'.get? (.hunk b n) = some .empty

theorem HunkLost.contributes_nothing {s' : Store} {b n : Nat} (h : HunkLost s' b n) :
    usableHunk s' b n = none ∨ usableHunk s' b n = some [] := by
  rcases h with h | h
  · exact .inl h
  · exact .inr (by simp [usableHunk, h])

/-- **lost_hunk_reported** (b).  Version `b` of `s` is readable, complete with a tail that states `m`
hunks, and passes `Band::check_index_hunks`; hunk file `n` is one of its hunks.  In `s'` only that
file differs and it is lost (missing, unusable or emptied).  Then `b` is still readable and
consulting it REPORTS the loss — `indexCheckError` (`invalidMetadata`: a hunk is missing / the count
is not what the tail says / a zero-length hunk in a complete version) or `hunkError` for the hunk
itself — so every listing whose chain reaches `b`, in particular the listing of `b`, reports at
least one error.  No well-formedness beyond "no path occurs twice" is needed. -/
theorem lost_hunk_reported {s s' : Store} (nd : keysNodup s = true) (nd' : keysNodup s' = true)
    {b n m : Nat} (hd : Damage s s' (.hunk b n))
    (hread : bandReadable s b = true)
    (htail : s.get? (.bandTail b) = some (.tail (some m)))
    (hcheck : indexCheckError s b = none)
    (hn : n ∈ hunkNumsOf s b)
    (hlost : HunkLost s' b n) :
    bandReadable s' b = true ∧
    (indexCheckError s' b = some .invalidMetadata ∨ (n ∈ hunkNumsOf s' b ∧ ∃ e, hunkError s' b n = some e)) ∧
    listErrors s' b ≠ [] ∧ ∀ v, b ∈ chain s' v → listErrors s' v ≠ [] := by
  have n1 : (s.map (·.1)).Nodup := by simpa [keysNodup] using nd
  have n2 : (s'.map (·.1)).Nodup := by simpa [keysNodup] using nd'
  obtain ⟨hr, herr⟩ := lost_hunk_bandErrors n1 n2 hd hread htail hcheck hn hlost
  have hne := bandErrors_ne_nil hr herr
  exact ⟨hr, herr, listErrors_ne_nil (self_mem_chain s' b) hne, fun v hv => listErrors_ne_nil hv hne⟩

/-- **lost_hunk_rest_listed.**  In the situation of `lost_hunk_reported`, what the rule lists for
version `b` of the damaged archive is exactly the content of the OTHER hunk files as it was, in
hunk order: nothing else is dropped and nothing is altered. -/
theorem lost_hunk_rest_listed {s s' : Store} (nd : keysNodup s = true) (nd' : keysNodup s' = true)
    {b n m : Nat} (hd : Damage s s' (.hunk b n))
    (hread : bandReadable s b = true)
    (htail : s.get? (.bandTail b) = some (.tail (some m)))
    (hlost : HunkLost s' b n) :
    listSpec s' b = (((hunkNumsOf s b).filter (· != n)).filterMap (usableHunk s b)).flatten ∧
    (listSpec s' b).Sublist (listSpec s b) := by
  have n1 : (s.map (·.1)).Nodup := by simpa [keysNodup] using nd
  have n2 : (s'.map (·.1)).Nodup := by simpa [keysNodup] using nd'
  have htail' : s'.get? (.bandTail b) = some (.tail (some m)) := (hd _ (by simp)).trans htail
  have hr' : bandReadable s' b = true := by
    unfold bandReadable at hread ⊢
    rw [hd (.bandHead b) (by simp), hd (.indexDir b) (by simp)]; exact hread
  have hl : ∀ t : Store, t.get? (.bandTail b) = some (.tail (some m)) → bandReadable t b = true →
      listSpec t b = ownEntries t b := by
    intro t ht hr
    simp [listSpec, bandEntries, hr, isComplete, ht, FileVal.isDir]
  rw [hl s' htail' hr', hl s htail hread]
  exact ⟨ownEntries_lost_eq n1 n2 hd hlost.contributes_nothing,
    ownEntries_lost_sublist n1 n2 hd hlost.contributes_nothing⟩

/-- **lost_hunk_reported_run.**  The same about the code, through C08's `stitch_eq_spec` (which needs
`ArchWF` of the damaged store — provided by `archWF_lost_hunk`): listing version `b` of the damaged
archive in the fault-free world returns the entries of the other hunks and logs at least one error
event. -/
theorem lost_hunk_reported_run {s s' : Store} (wf : ArchWF s) (nd' : keysNodup s' = true)
    (tr' : treeShaped s' = true) {b n m : Nat} (hd : Damage s s' (.hunk b n))
    (hread : bandReadable s b = true)
    (htail : s.get? (.bandTail b) = some (.tail (some m)))
    (hcheck : indexCheckError s b = none)
    (hn : n ∈ hunkNumsOf s b)
    (hlost : HunkLost s' b n) :
    ((stitchAll b).run (World.clean s')).1
      = .ok (((hunkNumsOf s b).filter (· != n)).filterMap (usableHunk s b)).flatten ∧
    ∃ e, Event.error e ∈ ((stitchAll b).run (World.clean s')).2.events := by
  have wf' := archWF_lost_hunk wf nd' tr' hd hlost.contributes_nothing
  obtain ⟨h1, _, h3⟩ := C08.stitch_eq_spec wf' b
  obtain ⟨_, _, hne, _⟩ := lost_hunk_reported wf.nodup nd' hd hread htail hcheck hn hlost
  refine ⟨by rw [h1, (lost_hunk_rest_listed wf.nodup nd' hd hread htail hlost).1], ?_⟩
  rw [h3]
  cases hl : listErrors s' b with
  | nil => exact absurd hl hne
  | cons e rest => exact ⟨e, by simp⟩

/-! ## 6b. Containment at the restore level (fault-free world) -/

theorem mem_evsOf {x : Err} {l : List Err} : Event.error x ∈ evsOf l ↔ x ∈ l := by
  simp [evsOf]

/-- **restore_spec.**  `restore` of a specified version of a well-formed store in the fault-free
world, if it returns: the nodes are `restoreP` (Proofs/NoPanicRestoreRun.lean — `restoreEntries` as
a pure function of the store) of the rule's filtered listing, nothing is written, and the events are
the listing's errors (`listErrors`) followed by restore's own reports. -/
theorem restore_spec (H : Str → Str) {s : Store} (wf : ArchWF s) (b : Nat) (subtree : Str) (excl : Str → Bool)
    {nodes : List RNode} {w' : World}
    (h : (restore H (.specified b) subtree excl).run (World.clean s) = (.ok nodes, w')) :
    nodes = (restoreP H s [] ((listSpec s b).filter fun e => isPrefixOfImpl subtree e.apath && !excl e.apath)).1 ∧
    w'.store = s ∧
    w'.events = evsOf (listErrors s b ++
      (restoreP H s [] ((listSpec s b).filter fun e => isPrefixOfImpl subtree e.apath && !excl e.apath)).2) :=
  run_restore_specified H wf b subtree excl h

/-- **restore_file_exact_or_reported.**  For every selected file entry `e` of the listing (no listed
entry lying below a listed symlink): if its content reads back (`readBack = some c`) restore
produces the complete node with exactly `c`; if it does not (a block missing, undecodable, corrupt
or too short) restore produces an INCOMPLETE node and reports `restoreFileBlock e.apath _`.  Never
silently dropped, never silently altered. -/
theorem restore_file_exact_or_reported (H : Str → Str) {s : Store} (wf : ArchWF s) (b : Nat) (subtree : Str)
    (excl : Str → Bool) {nodes : List RNode} {w' : World}
    (h : (restore H (.specified b) subtree excl).run (World.clean s) = (.ok nodes, w'))
    (hns : NoSymlinkAbove [] (listSpec s b))
    {e : IndexEntry} (he : e ∈ listSpec s b) (hsel : (isPrefixOfImpl subtree e.apath && !excl e.apath) = true)
    (hk : e.kind = .file) :
    (∀ c, readBack H s e.addrs = some c → { RNode.ofEntry e with content := c } ∈ nodes) ∧
    (readBack H s e.addrs = none →
      (∃ bytes, { RNode.ofEntry e with content := bytes, complete := false } ∈ nodes) ∧
      ∃ hh, Event.error (.restoreFileBlock e.apath hh) ∈ w'.events) := by
  obtain ⟨hn, _, hev⟩ := restore_spec H wf b subtree excl h
  have hns' : NoSymlinkAbove [] ((listSpec s b).filter fun e => isPrefixOfImpl subtree e.apath && !excl e.apath) :=
    ⟨fun _ hp => (nomatch hp),
     fun x hx hxk y hy => hns.2 x (List.mem_filter.mp hx).1 hxk y (List.mem_filter.mp hy).1⟩
  have hf := restoreP_file H (s := s) hns' (List.mem_filter.mpr ⟨he, hsel⟩) hk
  rw [hn, hev]
  refine ⟨hf.1, fun hnone => ?_⟩
  obtain ⟨bytes, hh, h1, h2⟩ := hf.2 hnone
  exact ⟨⟨bytes, h1⟩, hh, mem_evsOf.mpr (List.mem_append_right _ h2)⟩

/-- **restore_block_damage_contained.**  One BLOCK file `h` is damaged in any way.  Restoring any
version `b` (that still restores) then: every selected file that does not name block `h` and read
back before is restored complete with exactly the content it had; every file whose content cannot
be read back any more gets an incomplete node and a `restoreFileBlock` report; the listing itself
(which files, which metadata) is unchanged. -/
theorem restore_block_damage_contained (H : Str → Str) {s s' : Store} (wf : ArchWF s) (wf' : ArchWF s')
    {h : Str} (hd : Damage s s' (.block h)) (b : Nat) (subtree : Str) (excl : Str → Bool)
    {nodes : List RNode} {w' : World}
    (hrun : (restore H (.specified b) subtree excl).run (World.clean s') = (.ok nodes, w'))
    (hns : NoSymlinkAbove [] (listSpec s b)) :
    listSpec s' b = listSpec s b ∧
    ∀ e ∈ listSpec s b, (isPrefixOfImpl subtree e.apath && !excl e.apath) = true → e.kind = .file →
      ((∀ a ∈ e.addrs, a.hash ≠ h) → ∀ c, readBack H s e.addrs = some c →
        { RNode.ofEntry e with content := c } ∈ nodes) ∧
      (readBack H s' e.addrs = none →
        (∃ bytes, { RNode.ofEntry e with content := bytes, complete := false } ∈ nodes) ∧
        ∃ hh, Event.error (.restoreFileBlock e.apath hh) ∈ w'.events) := by
  have hl := (listing_unaffected wf wf' hd b (fun c _ => block_not_under_band h c)).1
  refine ⟨hl, fun e he hsel hk => ?_⟩
  have hx := restore_file_exact_or_reported H wf' b subtree excl hrun (hl ▸ hns) (hl ▸ he) hsel hk
  refine ⟨fun hne c hc => hx.1 c ?_, hx.2⟩
  rw [damage_content_untouched H hd e (fun a ha heq => hne a ha (by cases heq; rfl))]
  exact hc

/-- **restore_lost_hunk_contained.**  One index HUNK of a complete version `b` is lost (situation of
`lost_hunk_reported`).  Restoring `b` then reports an error, and every selected file entry of the
OTHER hunks whose content read back before is restored complete with exactly that content. -/
theorem restore_lost_hunk_contained (H : Str → Str) {s s' : Store} (wf : ArchWF s) (nd' : keysNodup s' = true)
    (tr' : treeShaped s' = true) {b n m : Nat} (hd : Damage s s' (.hunk b n))
    (hread : bandReadable s b = true)
    (htail : s.get? (.bandTail b) = some (.tail (some m)))
    (hcheck : indexCheckError s b = none)
    (hn : n ∈ hunkNumsOf s b)
    (hlost : HunkLost s' b n)
    (subtree : Str) (excl : Str → Bool) {nodes : List RNode} {w' : World}
    (hrun : (restore H (.specified b) subtree excl).run (World.clean s') = (.ok nodes, w'))
    (hns : NoSymlinkAbove [] (listSpec s b)) :
    (∃ err, Event.error err ∈ w'.events) ∧
    ∀ e ∈ (((hunkNumsOf s b).filter (· != n)).filterMap (usableHunk s b)).flatten,
      (isPrefixOfImpl subtree e.apath && !excl e.apath) = true → e.kind = .file →
      ∀ c, readBack H s e.addrs = some c → { RNode.ofEntry e with content := c } ∈ nodes := by
  have wf' := archWF_lost_hunk wf nd' tr' hd hlost.contributes_nothing
  obtain ⟨hl, hsub⟩ := lost_hunk_rest_listed wf.nodup nd' hd hread htail hlost
  obtain ⟨_, _, hne, _⟩ := lost_hunk_reported wf.nodup nd' hd hread htail hcheck hn hlost
  have hns' : NoSymlinkAbove [] (listSpec s' b) :=
    ⟨fun _ hp => (nomatch hp), fun x hx hxk y hy => hns.2 x (hsub.subset hx) hxk y (hsub.subset hy)⟩
  constructor
  · obtain ⟨_, _, hev⟩ := restore_spec H wf' b subtree excl hrun
    cases hle : listErrors s' b with
    | nil => exact absurd hle hne
    | cons x rest => exact ⟨x, by rw [hev, hle]; exact mem_evsOf.mpr (by simp)⟩
  · intro e he hsel hk c hc
    have hx := restore_file_exact_or_reported H wf' b subtree excl hrun hns' (hl ▸ he) hsel hk
    refine hx.1 c ?_
    rw [damage_content_untouched H hd e (fun a _ heq => by cases heq)]
    exact hc

/-! ## 7. The full statement, where it fails, and what is missing -/

section
variable (H : Str → Str)

/-- A store is "good" for C10: the documented format (`Conforms`), no duplicate paths, a tree, and
no gc lock lying around. -/
def Good (s : Store) : Prop :=
  Conforms H s = true ∧ keysNodup s = true ∧ treeShaped s = true ∧ s.get? .gcLock = none

/-- Single-FILE damage: path `k` held a file, and afterwards holds a different file, or nothing. -/
def FileDamage (s s' : Store) (k : Key) : Prop :=
  Damage s s' k ∧ k ≠ .header ∧ (∃ v, s.get? k = some v ∧ v ≠ .dir) ∧ s'.get? k ≠ some .dir ∧
  keysNodup s' = true ∧ treeShaped s' = true

/-- What restoring version `b` reports and produces in the fault-free world. -/
def restoreOf (s : Store) (b : Nat) : Outcome (List RNode) × World :=
  (restore H (.specified b) [slash] (fun _ => false)).run (World.clean s)

/-- Clause 1 of C10: nothing panics (termination is by construction). -/
def NoCrash : Prop :=
  (∀ o, NoPanic (showVersions o)) ∧ (∀ sel st ex, NoPanic (listVersion sel st ex)) ∧
  (∀ sel st ex, NoPanic (restore H sel st ex)) ∧ (∀ q, NoPanic (validate H q)) ∧
  (∀ o src, NoPanic (backup H o src))

/-- Clause 2 of C10 for version `b`: every file `e` of the undamaged listing whose hunk and blocks
are untouched is restored complete with exactly its content; every file that has become unreadable
or has left the listing is REPORTED (an error event) and no complete node is produced for it. -/
def Contained (s s' : Store) (k : Key) (b : Nat) : Prop :=
  ∀ nodes, (restoreOf H s' b).1 = .ok nodes →
    ∀ e ∈ listSpec s b, e.kind = .file →
      ((∃ n es, hunkAt s b n = some es ∧ e ∈ es ∧ k ≠ .hunk b n) ∧ (∀ a ∈ e.addrs, k ≠ .block a.hash) →
        ∃ c, readBack H s e.addrs = some c ∧ { RNode.ofEntry e with content := c } ∈ nodes) ∧
      (readBack H s' e.addrs = none ∨ e ∉ listSpec s' b →
        (∀ nd ∈ nodes, nd.apath = e.apath → nd.complete = false) ∧
        ∃ err, Event.error err ∈ (restoreOf H s' b).2.events)

/-- Clause 3 of C10: after a deletion or an emptying, a new backup completes (that the new version
then restores exactly is C01/C04's statement about `backup`, applied to `s'`). -/
def BackupCompletes (s' : Store) (k : Key) : Prop :=
  (s'.get? k = none ∨ s'.get? k = some .empty) →
    ∀ o src, ∃ st w', (backup H o src).run (World.clean s') = (.ok st, w')

/-- The C10 sentence read literally: clause 2 for EVERY version that still opens. -/
def C10Statement : Prop :=
  ∀ s s' : Store, ∀ k : Key, Good H s → FileDamage s s' k →
    NoCrash H ∧ (∀ b, bandReadable s' b = true → Contained H s s' k b) ∧ BackupCompletes H s' k

/-- The same with clause 2 restricted to versions that were COMPLETE, with a tail that states the
hunk count (what every 0.6 writer produces). -/
def C10StatementComplete : Prop :=
  ∀ s s' : Store, ∀ k : Key, Good H s → FileDamage s s' k →
    NoCrash H ∧
    (∀ b m, bandReadable s' b = true → s.get? (.bandTail b) = some (.tail (some m)) → Contained H s s' k b) ∧
    BackupCompletes H s' k

end

/-- A file entry without content. -/
def emptyFile (p : Str) : IndexEntry :=
  { apath := p, kind := .file, mtime := 0, mtimeNanos := 0, unixMode := some 420,
    user := none, group := none, addrs := [], target := none }

/-- An interrupted backup: version 0 has no tail; its only hunk holds `/` and the empty file `/f`. -/
def interrupted : Store :=
  [ (.root, .dir), (.header, .header [48, 46, 54]), (.blockRoot, .dir),
    (.bandDir 0, .dir), (.bandHead 0, .head .ok []), (.indexDir 0, .dir), (.hunkDir 0 0, .dir),
    (.hunk 0 0, .hunk [dirEntry [slash], emptyFile [47, 102]]) ]

/-- **c10_statement_refuted.**  Read literally, the sentence is false, and no repair of the code can
make it true: in a version WITHOUT tail, the loss of its last hunk file (here: its only one) cannot
be told from a backup that was interrupted one hunk earlier.  Witness: `interrupted` conforms to the
format; delete `b0000/i/00000/000000000`; version 0 still opens; `/f` is gone from the listing and
from the restore — and nothing at all is reported.  (For a version WITH a tail the loss is always
reported: `lost_hunk_reported`.) -/
theorem c10_statement_refuted : ¬ C10Statement (fun c => c) := by
  intro h
  have hs : Good (fun c => c) interrupted :=
    ⟨by decide +kernel, by decide +kernel, by decide +kernel, by decide +kernel⟩
  have hd : FileDamage interrupted (interrupted.erase (.hunk 0 0)) (.hunk 0 0) :=
    ⟨damage_erase _ _, by decide, ⟨.hunk [dirEntry [slash], emptyFile [47, 102]], by decide +kernel, by decide⟩,
     by decide +kernel,
     by decide +kernel, by decide +kernel⟩
  obtain ⟨_, h2, _⟩ := h _ _ _ hs hd
  have hrun : (restoreOf (fun c => c) (interrupted.erase (.hunk 0 0)) 0).1 = .ok [] :=
    okOf?_eq_some.mp (by decide +kernel)
  obtain ⟨_, e, he⟩ := ((h2 0 (by decide +kernel)) [] hrun (emptyFile [47, 102]) (by decide +kernel) rfl).2
    (.inr (by decide +kernel))
  have hev : (restoreOf (fun c => c) (interrupted.erase (.hunk 0 0)) 0).2.events = [] := by decide +kernel
  rw [hev] at he
  cases he

/-- **c10_partial.**  What is proved of `C10StatementComplete`: clause 1 in full — and for every store,
every world, any number of damaged files, the header included (`c10_no_crash`) — plus, for clause 2,
its listing-level core (§6): versions the damage is outside of list and read back unchanged
(`listing_unaffected`, `damage_content_untouched`), and a lost index hunk of a complete version is
reported while the other hunks' entries are listed unmodified (`lost_hunk_reported_run`).

At the restore level (§6b), for damaged BLOCKS `restore_block_damage_contained` and for a lost HUNK
`restore_lost_hunk_contained` give clause 2 outright, under `ArchWF` and "no listed entry lies below
a listed symlink" — both consequences of `Conforms`, but that implication is not proved here.

MISSING for `C10StatementComplete`: (i) `Conforms H s → ArchWF s ∧ NoSymlinkAbove [] (listSpec s b)` and
`ArchWF s'` for damage to files other than blocks and hunks (head, tail, lock: they do not touch
`bandsSorted`), to discharge the hypotheses of §6b from `Good`; (ii) the remaining damage classes
of clause 2: a hunk overwritten by a DIFFERENT usable hunk (undetectable — index hunks carry no
checksum; the sentence only speaks of "missing or undecodable"), a damaged TAIL (the version turns
incomplete and only ADDS entries of earlier versions after the last own path), a damaged HEAD (the
version does not open: clause vacuous), a damaged file of an EARLIER version (irrelevant to a
complete `b` by `listing_unaffected`-style framing, which is proved only for later versions);
(iii) clause 3 needs `backup`'s functional correctness (C01/C04) from a store that does not
`Conform` any more. -/
theorem c10_partial (H : Str → Str) : NoCrash H :=
  ⟨versions_never_panics, list_never_panics, restore_never_panics H, validate_never_panics H,
   backup_never_panics H⟩

/-! ## 8. Non-vacuity -/

/-- A complete version with two hunks: `/` and `/a` in hunk 0, `/b` in hunk 1. -/
def twoHunks : Store :=
  [ (.root, .dir), (.header, .header [48, 46, 54]), (.blockRoot, .dir),
    (.bandDir 0, .dir), (.bandHead 0, .head .ok []), (.indexDir 0, .dir), (.hunkDir 0 0, .dir),
    (.hunk 0 0, .hunk [dirEntry [47], dirEntry [47, 97]]), (.hunk 0 1, .hunk [dirEntry [47, 98]]),
    (.bandTail 0, .tail (some 2)) ]

/-- The same with hunk 1 overwritten with garbage. -/
def twoHunksJunk : Store := twoHunks.put (.hunk 0 1) (.junk 7)

-- `sortNat` is `List.mergeSort` (well-founded recursion: the kernel cannot evaluate it on two or
-- more elements), so hunk numbers are computed by hand where a store has two hunks.
theorem twoHunks_nums : hunkNumsOf twoHunks 0 = [0, 1] := by
  rw [hunkNumsOf_eq, show twoHunks.filterMap (hunkSelAll 0) = [0, 1] by decide +kernel]
  exact C08.sortNat_of_sorted (by decide)

theorem twoHunksJunk_nums : hunkNumsOf twoHunksJunk 0 = [0, 1] := by
  rw [hunkNumsOf_eq, show twoHunksJunk.filterMap (hunkSelAll 0) = [0, 1] by decide +kernel]
  exact C08.sortNat_of_sorted (by decide)

theorem twoHunks_own : ownEntries twoHunks 0 = [dirEntry [47], dirEntry [47, 97], dirEntry [47, 98]] := by
  unfold ownEntries; rw [twoHunks_nums]; decide +kernel

theorem twoHunks_wf : ArchWF twoHunks := by
  refine ⟨by decide +kernel, by decide +kernel, ?_⟩
  have hb : twoHunks.all (fun kv => match kv.1 with | .hunk b _ => b == 0 | _ => true) = true := by
    decide +kernel
  rw [List.all_eq_true] at hb
  unfold bandsSorted
  rw [List.all_eq_true]
  intro kv hm
  have := hb kv hm
  split
  · rename_i b n hk
    rw [hk] at this
    have hb0 : b = 0 := by simpa using this
    subst hb0
    rw [twoHunks_own]; decide +kernel
  · rfl

theorem twoHunks_check : indexCheckError twoHunks 0 = none := by
  simp only [indexCheckError, twoHunks_nums]
  decide +kernel

/-- The hypotheses of `lost_hunk_reported` / `lost_hunk_reported_run` are satisfiable, for each kind of
loss: the hunk deleted, overwritten with garbage, emptied, or holding an entry that fails the check. -/
example : Damage twoHunks (twoHunks.erase (.hunk 0 1)) (.hunk 0 1) ∧
    bandReadable twoHunks 0 = true ∧ twoHunks.get? (.bandTail 0) = some (.tail (some 2)) ∧
    indexCheckError twoHunks 0 = none ∧ 1 ∈ hunkNumsOf twoHunks 0 ∧
    HunkLost (twoHunks.erase (.hunk 0 1)) 0 1 ∧
    HunkLost twoHunksJunk 0 1 ∧
    HunkLost (twoHunks.put (.hunk 0 1) .empty) 0 1 ∧
    HunkLost (twoHunks.put (.hunk 0 1) (.hunk [slashSlash])) 0 1 :=
  ⟨damage_erase _ _, by decide +kernel, by decide +kernel, twoHunks_check, by rw [twoHunks_nums]; decide,
   .inl (by decide +kernel), .inl (by decide +kernel), .inr (by decide +kernel), .inl (by decide +kernel)⟩

/-- … and the conclusion on that instance: the listing of the archive without hunk 1 is hunk 0's
two entries, with an error reported (by the theorem) … -/
example :
    ((stitchAll 0).run (World.clean (twoHunks.erase (.hunk 0 1)))).1 = .ok [dirEntry [47], dirEntry [47, 97]] ∧
    ∃ e, Event.error e ∈ ((stitchAll 0).run (World.clean (twoHunks.erase (.hunk 0 1)))).2.events := by
  have h := lost_hunk_reported_run (s := twoHunks) (s' := twoHunks.erase (.hunk 0 1)) (b := 0) (n := 1) (m := 2)
    twoHunks_wf (keysNodup_erase twoHunks_wf.nodup _) (treeShaped_erase_hunk twoHunks_wf.tree 0 1)
    (damage_erase _ _) (by decide +kernel) (by decide +kernel) twoHunks_check (by rw [twoHunks_nums]; decide)
    (.inl (by decide +kernel))
  refine ⟨h.1.trans ?_, h.2⟩
  rw [twoHunks_nums]
  exact congrArg Outcome.ok (by decide +kernel)

/-- … namely the directory check's (confirmed by evaluating the run). -/
example : ((stitchAll 0).run (World.clean (twoHunks.erase (.hunk 0 1)))).2.events = [.error .invalidMetadata] := by
  decide +kernel

/-- Garbage in hunk 1: reported as the hunk's own error (`json`), the rest is listed. -/
example : listErrors twoHunksJunk 0 = [.json] ∧
    listSpec twoHunksJunk 0 = [dirEntry [47], dirEntry [47, 97]] := by
  constructor
  · have hc : chain twoHunksJunk 0 = [0] := by decide +kernel
    simp only [listErrors, hc, List.flatMap_cons, List.flatMap_nil, List.append_nil, bandErrors,
      indexCheckError, twoHunksJunk_nums]
    decide +kernel
  · have h := (lost_hunk_rest_listed (s := twoHunks) (s' := twoHunksJunk) (b := 0) (n := 1)
      (m := 2) twoHunks_wf.nodup (keysNodup_put twoHunks_wf.nodup _ _) (damage_put _ _ _) (by decide +kernel)
      (by decide +kernel) (.inl (by decide +kernel))).1
    rw [h, twoHunks_nums]
    decide +kernel

/-- `listing_unaffected` applies to block damage of any well-formed archive: its hypothesis on `k`
holds for every block path. -/
example (h : Str) (n : Nat) : ∀ b, b ≤ n → Key.isUnder (.bandDir b) (.block h) = false :=
  fun b _ => block_not_under_band h b

/-- An intact one-entry archive. -/
def intact : Store := oneEntryStore (dirEntry [slash])

/-- `AllUsable` is not vacuous: an intact listing is non-empty (and usable); `Ensures` really returns. -/
example : ((stitchAll 0).run (World.clean intact)).1 = .ok [dirEntry [slash]] :=
  okOf?_eq_some.mp (by decide +kernel)

/-- The operations do run to completion on an intact archive (so `NoPanic` is not true merely
because everything fails): versions, restore, validate. -/
example : ((showVersions { sizes := true }).run (World.clean intact)).1
    = .ok [{ id := 0, info := some (true, some 1), treeBytes := some 0 }] :=
  okOf?_eq_some.mp (by decide +kernel)

example : ((restore (fun c => c) .latestClosed [slash] (fun _ => false)).run (World.clean intact)).1
    = .ok [RNode.ofEntry (dirEntry [slash])] :=
  okOf?_eq_some.mp (by decide +kernel)

example : ((validate (fun c => c) false).run (World.clean intact)).1 = .ok () ∧
    ((validate (fun c => c) false).run (World.clean intact)).2.events = [] :=
  ⟨okOf?_eq_some.mp (by decide +kernel), by decide +kernel⟩

/-! ### §6b on an instance -/

/-- `/f` with content `[1,2,3]`, stored in the block named (with `H = id`) `[1,2,3]`. -/
def fileF : IndexEntry :=
  { apath := [47, 102], kind := .file, mtime := 0, mtimeNanos := 0, unixMode := some 420,
    user := none, group := none, addrs := [⟨[1, 2, 3], 0, 3⟩], target := none }

def withBlock : Store :=
  [ (.root, .dir), (.header, .header [48, 46, 54]), (.blockRoot, .dir),
    (.blockDir [1, 2, 3], .dir), (.block [1, 2, 3], .blockData [1, 2, 3]),
    (.bandDir 0, .dir), (.bandHead 0, .head .ok []), (.indexDir 0, .dir), (.hunkDir 0 0, .dir),
    (.hunk 0 0, .hunk [dirEntry [slash], fileF]), (.bandTail 0, .tail (some 1)) ]

/-- The block overwritten with garbage. -/
def withBlockJunk : Store := withBlock.put (.block [1, 2, 3]) (.junk 9)

theorem withBlock_noSymlink : NoSymlinkAbove [] (listSpec withBlock 0) := by
  have hl : listSpec withBlock 0 = [dirEntry [slash], fileF] := by decide +kernel
  refine ⟨fun _ hp => (nomatch hp), fun x hx hk => ?_⟩
  rw [hl] at hx
  simp only [List.mem_cons, List.not_mem_nil, or_false] at hx
  rcases hx with rfl | rfl <;> simp [dirEntry, fileF] at hk

/-- The hypotheses of `restore_block_damage_contained` hold of this pair of stores, the run returns,
and its conclusion is what evaluation shows: `/` restored, `/f` left incomplete and reported. -/
example : ArchWF withBlock ∧ ArchWF withBlockJunk ∧ Damage withBlock withBlockJunk (.block [1, 2, 3]) ∧
    readBack (fun c => c) withBlock fileF.addrs = some [1, 2, 3] ∧
    readBack (fun c => c) withBlockJunk fileF.addrs = none ∧
    okOf? ((restore (fun c => c) (.specified 0) [slash] (fun _ => false)).run (World.clean withBlock)).1
      = some [RNode.ofEntry (dirEntry [slash]), { RNode.ofEntry fileF with content := [1, 2, 3] }] ∧
    okOf? ((restore (fun c => c) (.specified 0) [slash] (fun _ => false)).run (World.clean withBlockJunk)).1
      = some [RNode.ofEntry (dirEntry [slash]), { RNode.ofEntry fileF with content := [], complete := false }] ∧
    ((restore (fun c => c) (.specified 0) [slash] (fun _ => false)).run (World.clean withBlockJunk)).2.events
      = [.error (.restoreFileBlock [47, 102] [1, 2, 3])] :=
  ⟨by decide +kernel, by decide +kernel, damage_put _ _ _, by decide +kernel, by decide +kernel,
   by decide +kernel, by decide +kernel, by decide +kernel⟩

-- (A run of `backup` cannot be evaluated by the kernel — `mergeTrees` is defined by well-founded
-- recursion; that backups complete on stores with garbage in them is C03/C04's subject.)

end Conserve.C10
