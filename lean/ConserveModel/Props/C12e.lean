import ConserveModel.Proofs.ExclRestore
import ConserveModel.Proofs.ExclSymlink
import ConserveModel.Props.C01a
import ConserveModel.Props.C08
/-
C12, end to end — Selecting a subtree returns exactly that subtree.

"List/restore with `--only S` yields exactly the entries whose path is S or below S (component-wise,
not textual prefix), i.e. the same as filtering the full listing/restore."

`C12.prefix_iff_ancestor` is the statement about the test (`Apath::is_prefix_of`); this file lifts it
to whole runs of the model programs `listEntries` / `listVersion` (src/index/stitch.rs, `Stitch` with
`subtree`) and `restore` (src/restore.rs, `only_subtree`):

* `subtree_list_eq_filter`          for EVERY well-formed store (any arrangement of complete, interrupted,
                                    damaged versions — the stitched listing included), every version id,
                                    every exclusion predicate: listing with subtree `S` = listing with
                                    subtree "/" filtered by the test, and the two runs report exactly the
                                    same error events;
* `subtree_list_eq_ancestors`       with `S` valid: the test is ancestry by whole components;
* `subtree_listVersion_eq_filter`   the same for `Archive::iter_entries` (which first opens the version: if
                                    that fails both runs fail with the same error);
* `subtree_restore_eq_filter`       after a fault-free backup of a good source into a good archive (the
                                    hypotheses of `C01a.backup_restore_exact`): restore with subtree `S` = the
                                    nodes of the full restore whose path passes the test, in order, both silent;
* `subtree_restore_eq_ancestors`    with `S` valid: … whose path is `S` or below `S` by whole components;
* `subtree_restore_exact`           spelled out against the source: exactly `expectedNode` of the source
                                    entries at or below `S`;
* `subtree_restore_tree`            for the walk of a well-formed source tree;
* `subtree_restore_stitched`        for ANY well-formed store and version (stitched listings included), under the
                                    one hypothesis that no listed symlink OUTSIDE the subtree lies above a
                                    listed path inside it: same nodes; `subtree_below_symlink_differs` shows
                                    the hypothesis is needed (the symlink guard of `restore` sees only what
                                    the subtree iterator yields).
-/
set_option linter.unusedSimpArgs false
namespace Conserve.C12e
open Conserve Conserve.Exact

/-- **subtree_list_eq_filter.**  For every well-formed store `s` (C08's `ArchWF`: no hypothesis on which
versions are complete, readable or damaged), every version id `n` and every exclusion predicate:
the stitched listing with subtree `S` returns exactly the entries of the listing with subtree "/" that
pass `S.is_prefix_of(path)`, in the same order; neither run changes the store; and both runs report
EXACTLY the same error events (those of reading the version chain: `C08.stitch_errors`) — selecting a
subtree neither hides nor adds a complaint. -/
theorem subtree_list_eq_filter {s : Store} (wf : ArchWF s) (n : Nat) (S : Str) (excl : Str → Bool) :
    ∃ all,
      ((listEntries n [slash] excl).run (World.clean s)).1 = .ok all ∧
      ((listEntries n S excl).run (World.clean s)).1 = .ok (all.filter fun e => isPrefixOfImpl S e.apath) ∧
      ((listEntries n S excl).run (World.clean s)).2.events =
        ((listEntries n [slash] excl).run (World.clean s)).2.events ∧
      ((listEntries n S excl).run (World.clean s)).2.events = ((listErrors s n).map Event.error).reverse ∧
      ((listEntries n S excl).run (World.clean s)).2.store = s := by
  have hall := (listEntries_runsAt wf n [slash] excl).clean
  have hsub := (listEntries_runsAt wf n S excl).clean
  refine ⟨_, hall.1, ?_, hsub.2.2.trans hall.2.2.symm, hsub.2.2, hsub.2.1⟩
  rw [hsub.1]
  exact congrArg Outcome.ok (filter_sel_split S excl _ (fun e he => C08.listed_valid he))

/-- **subtree_list_eq_ancestors.**  With a valid subtree path, "passes the test" is "is `S` or lies
below `S` by whole components" (`isAncestorOrSelf`: the component list of `S` is a prefix of the
component list of the path) — not a textual prefix: `/build` does not select `/build2`. -/
theorem subtree_list_eq_ancestors {s : Store} (wf : ArchWF s) (n : Nat) (S : Str) (hS : isValid S = true)
    (excl : Str → Bool) :
    ∃ all,
      ((listEntries n [slash] excl).run (World.clean s)).1 = .ok all ∧
      ((listEntries n S excl).run (World.clean s)).1 = .ok (all.filter fun e => isAncestorOrSelf S e.apath) ∧
      ((listEntries n S excl).run (World.clean s)).2.events =
        ((listEntries n [slash] excl).run (World.clean s)).2.events := by
  have hall := (listEntries_runsAt wf n [slash] excl).clean
  obtain ⟨all, h1, h2, h3, _⟩ := subtree_list_eq_filter wf n S excl
  refine ⟨all, h1, ?_, h3⟩
  rw [h2]
  congr 1
  apply List.filter_congr
  intro e he
  have hv : isValid e.apath = true := by
    have : all = _ := Outcome.ok.inj (h1.symm.trans hall.1)
    rw [this] at he
    exact C08.listed_valid (List.mem_filter.mp he).1
  exact C12.prefix_iff_ancestor S e.apath hS hv

/-- **subtree_listVersion_eq_filter.**  The same for `Archive::iter_entries(Specified(n), S, exclude)`,
which opens the version first: if the head of version `n` cannot be opened both runs fail with the
same error; otherwise the subtree listing is the filtered full listing.  Same error events. -/
theorem subtree_listVersion_eq_filter {s : Store} (wf : ArchWF s) (n : Nat) (S : Str) (excl : Str → Bool) :
    ((listVersion (.specified n) S excl).run (World.clean s)).1 =
      Outcome.map (fun all => all.filter fun e => isPrefixOfImpl S e.apath)
        ((listVersion (.specified n) [slash] excl).run (World.clean s)).1 ∧
    ((listVersion (.specified n) S excl).run (World.clean s)).2.events =
      ((listVersion (.specified n) [slash] excl).run (World.clean s)).2.events := by
  have hall := (listVersion_specified_runs wf n [slash] excl).clean
  have hsub := (listVersion_specified_runs wf n S excl).clean
  rw [hall.1, hsub.1, hall.2.2, hsub.2.2]
  unfold listSelP
  cases headOutcome s n with
  | ok u =>
    refine ⟨?_, rfl⟩
    simp only [Outcome.map]
    exact congrArg Outcome.ok (filter_sel_split S excl _ (fun e he => C08.listed_valid he))
  | err e => exact ⟨rfl, rfl⟩
  | panic m => exact ⟨rfl, rfl⟩

/-! ### Restore -/

/-- **subtree_restore_eq_filter.**  After a fault-free backup of a good source into a good archive
(the hypotheses of `C01a.backup_restore_exact`; the walk of a well-formed tree is a good source),
restoring the new version with `only_subtree = S` (and any exclusion predicate) creates exactly the
nodes that the restore of the whole version (same exclusions) creates and whose path passes
`S.is_prefix_of`, in the same order, with the same content and metadata; neither restore reports
anything. -/
theorem subtree_restore_eq_filter (H : Str → Str) (hinj : Function.Injective H)
    (hlen : ∀ d, subdirNameChars ≤ (H d).length) (s : Store) (o : BackupOpts) (src : List SrcEntry)
    (ho : 0 < o.maxBlockSize) (hsrc : SrcGood src) (hs : ArchiveGood H src s) (S : Str) (excl : Str → Bool) :
    ∃ all,
      ((restore H (.specified (newBandOf s)) [slash] excl).run
          (World.clean ((backup H o src).run (World.clean s)).2.store)).1 = .ok all ∧
      ((restore H (.specified (newBandOf s)) S excl).run
          (World.clean ((backup H o src).run (World.clean s)).2.store)).1
        = .ok (all.filter fun nd => isPrefixOfImpl S nd.apath) ∧
      ((restore H (.specified (newBandOf s)) [slash] excl).run
          (World.clean ((backup H o src).run (World.clean s)).2.store)).2.events = [] ∧
      ((restore H (.specified (newBandOf s)) S excl).run
          (World.clean ((backup H o src).run (World.clean s)).2.store)).2.events = [] := by
  have hall := backup_then_select hinj hlen s o src ho hsrc hs [slash] excl
  have hsub := backup_then_select hinj hlen s o src ho hsrc hs S excl
  refine ⟨_, hall.restoreSpecified, ?_, hall.restoreSpecifiedSilent, hsub.restoreSpecifiedSilent⟩
  rw [hsub.restoreSpecified, filter_map_expectedNode o (isPrefixOfImpl S), filter_sel_split_src S excl src hsrc.valid]

/-- **subtree_restore_exact.**  Against the source: restoring with subtree `S` and nothing excluded
yields exactly `expectedNode` of the source entries whose path passes the test (while the full
restore yields `expectedNode` of all of them, C01a) — the same for the version selected by id and as
the latest complete version; nothing is reported. -/
theorem subtree_restore_exact (H : Str → Str) (hinj : Function.Injective H)
    (hlen : ∀ d, subdirNameChars ≤ (H d).length) (s : Store) (o : BackupOpts) (src : List SrcEntry)
    (ho : 0 < o.maxBlockSize) (hsrc : SrcGood src) (hs : ArchiveGood H src s) (S : Str) :
    ((restore H (.specified (newBandOf s)) S (fun _ => false)).run
        (World.clean ((backup H o src).run (World.clean s)).2.store)).1
      = .ok ((src.filter fun sf => isPrefixOfImpl S sf.apath).map (expectedNode o)) ∧
    ((restore H (.specified (newBandOf s)) S (fun _ => false)).run
        (World.clean ((backup H o src).run (World.clean s)).2.store)).2.events = [] ∧
    ((restore H .latestClosed S (fun _ => false)).run
        (World.clean ((backup H o src).run (World.clean s)).2.store)).1
      = .ok ((src.filter fun sf => isPrefixOfImpl S sf.apath).map (expectedNode o)) ∧
    ((restore H .latestClosed S (fun _ => false)).run
        (World.clean ((backup H o src).run (World.clean s)).2.store)).2.events = [] := by
  have hsub := backup_then_select hinj hlen s o src ho hsrc hs S (fun _ => false)
  have hf : (src.filter fun sf => selKeep S (fun _ => false) sf.apath) =
      src.filter fun sf => isPrefixOfImpl S sf.apath := by
    apply List.filter_congr; intro sf _; simp [selKeep]
  rw [← hf]
  exact ⟨hsub.restoreSpecified, hsub.restoreSpecifiedSilent, hsub.restoreLatest, hsub.restoreLatestSilent⟩

/-- **subtree_restore_eq_ancestors.**  With a valid `S`: exactly the nodes of the full restore whose
path is `S` or below `S` by whole components (not textual prefix), in order, no errors. -/
theorem subtree_restore_eq_ancestors (H : Str → Str) (hinj : Function.Injective H)
    (hlen : ∀ d, subdirNameChars ≤ (H d).length) (s : Store) (o : BackupOpts) (src : List SrcEntry)
    (ho : 0 < o.maxBlockSize) (hsrc : SrcGood src) (hs : ArchiveGood H src s) (S : Str)
    (hS : isValid S = true) :
    ((restore H (.specified (newBandOf s)) [slash] (fun _ => false)).run
        (World.clean ((backup H o src).run (World.clean s)).2.store)).1 = .ok (src.map (expectedNode o)) ∧
    ((restore H (.specified (newBandOf s)) S (fun _ => false)).run
        (World.clean ((backup H o src).run (World.clean s)).2.store)).1
      = .ok ((src.map (expectedNode o)).filter fun nd => isAncestorOrSelf S nd.apath) ∧
    ((restore H (.specified (newBandOf s)) S (fun _ => false)).run
        (World.clean ((backup H o src).run (World.clean s)).2.store)).2.events = [] := by
  have e := C01a.backup_restore_exact H hinj hlen s o src ho hsrc hs
  have hsub := subtree_restore_exact H hinj hlen s o src ho hsrc hs S
  refine ⟨e.restoreSpecified, ?_, hsub.2.1⟩
  rw [hsub.1, filter_map_expectedNode o (isAncestorOrSelf S)]
  congr 2
  apply List.filter_congr
  intro sf hsf
  exact C12.prefix_iff_ancestor S sf.apath hS (hsrc.valid sf hsf)

/-- **subtree_restore_tree.**  For every well-formed source tree (any exclusions at backup time) and
every valid subtree path: restore with `--only S` of the backup of the tree's walk creates exactly the
walked entries at or below `S` by whole components.  (`S` below a symlink selects nothing: the walk has
nothing there — `SrcGood.noBelowSymlink`.) -/
theorem subtree_restore_tree (H : Str → Str) (hinj : Function.Injective H)
    (hlen : ∀ d, subdirNameChars ≤ (H d).length) (s : Store) (o : BackupOpts) (T : Node) (excl : Str → Bool)
    (ho : 0 < o.maxBlockSize) (hwf : T.WF = true)
    (hsize : ∀ sf ∈ C11.walk T excl, sf.kind = .file → sf.size = sf.content.length)
    (htime : ∀ sf ∈ C11.walk T excl,
      -377705023201 * nanosPerSec ≤ sf.mtimeNs ∧ sf.mtimeNs < 253402207201 * nanosPerSec)
    (hbytes : totalSize (C11.walk T excl) < 18446744073709551616)
    (hs : ArchiveGood H (C11.walk T excl) s) (S : Str) (hS : isValid S = true) :
    ((restore H (.specified (newBandOf s)) S (fun _ => false)).run
        (World.clean ((backup H o (C11.walk T excl)).run (World.clean s)).2.store)).1
      = .ok (((C11.walk T excl).filter fun sf => isAncestorOrSelf S sf.apath).map (expectedNode o)) ∧
    ((restore H (.specified (newBandOf s)) S (fun _ => false)).run
        (World.clean ((backup H o (C11.walk T excl)).run (World.clean s)).2.store)).2.events = [] := by
  have hsrc := walk_srcGood T excl hwf hsize htime hbytes
  have h := subtree_restore_eq_ancestors H hinj hlen s o _ ho hsrc hs S hS
  refine ⟨?_, h.2.2⟩
  rw [h.2.1, filter_map_expectedNode o (isAncestorOrSelf S)]

/-! ### Any version of any well-formed archive (stitched listings included) -/

/-- **subtree_restore_stitched.**  For EVERY well-formed store (C08's `ArchWF` plus the shape facts
`StoreOK`; versions complete, interrupted, damaged, blocks missing — anything), every version id and
every exclusion predicate: if no listed symlink outside the subtree lies strictly above a listed
path inside it (`NoSymlinkAbove`; automatic when the listing comes from a walked tree, where nothing
lies below a symlink), then restoring with `only_subtree = S` either fails with the same error as the
full restore (version cannot be opened) or creates exactly the nodes of the full restore whose path
passes `S.is_prefix_of`, in order — including partially restored files (`complete = false`); and
the errors it reports are a sub-list of the errors the full restore reports. -/
theorem subtree_restore_stitched {H : Str → Str} {s : Store} (wf : ArchWF s) (hst : StoreOK H s) (b : Nat)
    (S : Str) (excl : Str → Bool)
    (hns : NoSymlinkAbove (isPrefixOfImpl S) (listSpec s b)) :
    ((restore H (.specified b) S excl).run (World.clean s)).1 =
      Outcome.map (fun all => all.filter fun nd => isPrefixOfImpl S nd.apath)
        ((restore H (.specified b) [slash] excl).run (World.clean s)).1 ∧
    (((restore H (.specified b) S excl).run (World.clean s)).2.events).Sublist
      ((restore H (.specified b) [slash] excl).run (World.clean s)).2.events := by
  have hall := (restore_specified_sel_runs wf hst b [slash] excl).clean
  have hsub := (restore_specified_sel_runs wf hst b S excl).clean
  rw [hall.1, hsub.1, hall.2.2, hsub.2.2]
  unfold restoreSelP
  cases headOutcome s b with
  | err e => exact ⟨rfl, List.Sublist.refl _⟩
  | panic m => exact ⟨rfl, List.Sublist.refl _⟩
  | ok u =>
    simp only
    rw [filter_sel_split S excl _ (fun e he => C08.listed_valid he)]
    have hsubset : ∀ e ∈ (listSpec s b).filter (fun e => selKeep [slash] excl e.apath), e ∈ listSpec s b :=
      fun e he => (List.mem_filter.mp he).1
    obtain ⟨nodes, h1, h2, h3⟩ := restoreP_filter (H := H) s (isPrefixOfImpl S)
      ((listSpec s b).filter fun e => selKeep [slash] excl e.apath)
      (fun e he => usable_time (listed_usable (hsubset e he))) (hns.subset hsubset) [] [] (fun _ _ _ => rfl)
    rw [h1, h2]
    exact ⟨rfl, List.Sublist.append h3 (List.Sublist.refl _)⟩

/-- **The hypothesis is needed** (and this is where "subtree restore = filtered full restore" stops):
take the listing `/` (dir), `/a` (symlink), `/a/b` (file) — which only the stitched listing of an
interrupted version can produce (`/a` from the new version, `/a/b` from an older one where `/a` was a
directory; C09).  The full restore refuses `/a/b` (below a restored symlink, reported), so filtering
it to `/a/b` gives nothing; restore with subtree `/a/b` never sees the symlink and creates `/a/b`. -/
theorem subtree_below_symlink_differs :
    let es : List IndexEntry :=
      [ { apath := [47], kind := .dir, mtime := 0, mtimeNanos := 0, unixMode := none, user := none,
          group := none, addrs := [], target := none },
        { apath := [47, 97], kind := .symlink, mtime := 0, mtimeNanos := 0, unixMode := none, user := none,
          group := none, addrs := [], target := some [120] },
        { apath := [47, 97, 47, 98], kind := .file, mtime := 0, mtimeNanos := 0, unixMode := none,
          user := none, group := none, addrs := [], target := none } ]
    let S : Str := [47, 97, 47, 98]
    ¬ NoSymlinkAbove (isPrefixOfImpl S) es ∧
    (∃ all, (restoreP C01a.Example.exH [] [] es).1 = .ok all ∧
      (all.filter fun nd => isPrefixOfImpl S nd.apath) = []) ∧
    (∃ nd, (restoreP C01a.Example.exH [] [] (es.filter fun e => isPrefixOfImpl S e.apath)).1 = .ok [nd] ∧
      nd.apath = S) := by
  intro es S
  refine ⟨?_, ⟨_, rfl, by decide +kernel⟩, ⟨_, rfl, rfl⟩⟩
  intro h
  have := h es[1] (by decide +kernel) rfl (by decide +kernel) es[2] (by decide +kernel) (by decide +kernel)
  revert this
  decide +kernel

/-! ### Non-vacuity -/

namespace Example
open C01a.Example C08

/-- Component-wise, not textual: subtree "/a" of C08's demo archive, version 2 (an interrupted
version whose listing is stitched from three versions), is the one entry "/a" … -/
example : ∃ all, ((listEntries 2 [slash] (fun _ => false)).run (World.clean demo)).1 = .ok all ∧
    ((listEntries 2 [47, 97] (fun _ => false)).run (World.clean demo)).1
      = .ok (all.filter fun e => isAncestorOrSelf [47, 97] e.apath) := by
  obtain ⟨all, h1, h2, _⟩ := subtree_list_eq_ancestors demo_wf 2 [47, 97] (by decide) (fun _ => false)
  exact ⟨all, h1, h2⟩

/-- … and the test on the paths of a tree with "/build", "/build2" and a multi-byte name: "/build"
selects itself and what is below it, not the sibling "/build2"; "/é" (c3 a9) selects "/é/x". -/
example : ([[47], [47, 98, 117, 105, 108, 100], [47, 98, 117, 105, 108, 100, 50],
      [47, 98, 117, 105, 108, 100, 47, 120], [47, 195, 169], [47, 195, 169, 47, 120]].filter
        fun p => isPrefixOfImpl [47, 98, 117, 105, 108, 100] p) =
    [[47, 98, 117, 105, 108, 100], [47, 98, 117, 105, 108, 100, 47, 120]] := by decide +kernel
example : ([[47], [47, 98, 117, 105, 108, 100], [47, 98, 117, 105, 108, 100, 50],
      [47, 98, 117, 105, 108, 100, 47, 120], [47, 195, 169], [47, 195, 169, 47, 120]].filter
        fun p => isPrefixOfImpl [47, 195, 169] p) = [[47, 195, 169], [47, 195, 169, 47, 120]] := by
  decide +kernel

/-- The restore theorem applies to `C01a.Example.source` (`/ /a /b /d /l /d/e`) in the fresh archive:
subtree "/d" restores exactly "/d" and "/d/e" — not "/l", not the root. -/
example :
    ((restore exH (.specified (newBandOf archive)) [47, 100] (fun _ => false)).run
        (World.clean ((backup exH opts source).run (World.clean archive)).2.store)).1
      = .ok [expectedNode opts dd, expectedNode opts de] := by
  have h := (subtree_restore_exact exH exH_inj exH_len archive opts source (by decide) source_good
    (ArchiveGood.of_noBands archive_ok archive_noBands archive_noLock source) [47, 100]).1
  rw [h]
  exact congrArg Outcome.ok (by decide +kernel)

/-- A subtree below the symlink "/l" of that source selects nothing. -/
example :
    ((restore exH (.specified (newBandOf archive)) [47, 108, 47, 120] (fun _ => false)).run
        (World.clean ((backup exH opts source).run (World.clean archive)).2.store)).1 = .ok [] := by
  have h := (subtree_restore_exact exH exH_inj exH_len archive opts source (by decide) source_good
    (ArchiveGood.of_noBands archive_ok archive_noBands archive_noLock source) [47, 108, 47, 120]).1
  rw [h]
  exact congrArg Outcome.ok (by decide +kernel)

/-- `subtree_restore_stitched` applies to C08's demo archive, version 2, once it is `StoreOK`: the
listing holds no symlink at all. -/
example : NoSymlinkAbove (isPrefixOfImpl [47, 98]) (listSpec demo 2) := by
  rw [demo_list2]
  intro l hl hk
  simp only [List.mem_cons, List.not_mem_nil, or_false] at hl
  rcases hl with rfl | rfl | rfl | rfl | rfl <;> simp [ent] at hk

end Example

end Conserve.C12e
