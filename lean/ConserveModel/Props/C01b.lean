import ConserveModel.Proofs.Mtime
/-
C01 (b) — a file's modification time survives backup and restore, for every value a
`jiff::Timestamp` can hold, including pre-1970 and fractional ones.

The property statement is `MtimeStatement`; `mtime_roundtrip` proves it, at full strength, for
the code as it is now (after commit 6ea0861, which made both conversions round seconds down).

For the code as it was before that commit (`…Pre` in Mtime.lean) the statement is
`MtimeStatementPre`, and it is REFUTED (`mtime_refuted_pre`, witness −1.5 s: the whole backup
panicked); `mtime_roundtrip_partial_pre` gives the exact set of times for which it held and
`mtime_panics_exactly_pre` the exact set where the backup panicked;
`toFileTimePre_negative_rejected` is the second half of the defect on the read side.
-/
namespace Conserve.C01b
open Conserve Conserve.DM

theorem inRange_iff (t : Int) :
    inRange t ↔ -377705023201000000000 ≤ t ∧ t ≤ 253402207200999999999 := Iff.rfl

/-- What a faithful restore hands to the OS for source time `t` (ns): floor seconds and the
non-negative nanosecond rest — the only `timespec` that denotes `t`. -/
def expected (t : Int) : Int × Nat := (t / 1000000000, (t % 1000000000).toNat)

/-- The expected `timespec` is accepted by `utimensat` and denotes exactly `t`. -/
theorem expected_denotes (t : Int) : osAccepts (expected t) = some t := by
  unfold osAccepts expected nsPerSec
  have h : ((t % 1000000000).toNat : Int) = t % 1000000000 := by omega
  have h2 : (t % 1000000000).toNat < 1000000000 := by omega
  simp only [h2, if_true, h]
  congr 1; omega

/-- **C01 (b), full strength**: every representable source mtime comes back exactly (and
nothing panics on the way). -/
def MtimeStatement : Prop :=
  ∀ t : Int, inRange t → mtimeRoundTrip t = .ok (expected t)

/-- The same statement about the conversions before commit 6ea0861. -/
def MtimeStatementPre : Prop :=
  ∀ t : Int, inRange t → mtimeRoundTripPre t = .ok (expected t)

/-! ### The code as it is -/

/-- `metadata_from` stores floor seconds and the non-negative rest, for EVERY `t`; its
`try_into::<u32>().unwrap()` is dead. -/
theorem toIndex_eq_floor (t : Int) :
    toIndex t = .ok (t / 1000000000, (t % 1000000000).toNat) := by
  unfold toIndex
  simp only [subsec_eq, asSecond_eq]
  by_cases hc : 0 ≤ t ∨ t % 1000000000 = 0
  · have h1 : ¬ (t % 1000000000 < 0) := by omega
    simp [hc, h1]
  · have h1 : t % 1000000000 - 1000000000 < 0 := by omega
    have h2 : ¬ (t % 1000000000 - 1000000000 + 1000000000 < 0) := by omega
    simp only [hc, if_false, h1, if_true, h2]
    congr 2
    · omega
    · congr 1; omega

/-- `to_file_time` yields floor seconds and the non-negative rest: nothing negative is cast. -/
theorem toFileTime_eq_floor (ts : Int) :
    toFileTime ts = (ts / 1000000000, (ts % 1000000000).toNat) := by
  unfold toFileTime castUnsigned
  simp only [subsec_eq, asSecond_eq]
  by_cases hc : 0 ≤ ts ∨ ts % 1000000000 = 0
  · have h1 : ¬ (ts % 1000000000 < 0) := by omega
    have h2 : 0 ≤ ts % 1000000000 := by omega
    simp [hc, h1, h2]
  · have h1 : ts % 1000000000 - 1000000000 < 0 := by omega
    have h2 : 0 ≤ ts % 1000000000 - 1000000000 + 1000000000 := by omega
    simp only [hc, if_false, h1, if_true, h2]
    congr 1
    · omega
    · congr 1; omega

/-- Reading back what `metadata_from` stored gives the same `Timestamp`.  This is what `diff`
and the unchanged-file heuristic of the next backup rely on (C18). -/
theorem index_mtime_roundtrip (t : Int) (hr : inRange t) :
    indexMtime (t / 1000000000) (t % 1000000000).toNat = .ok t := by
  rw [inRange_iff] at hr
  unfold indexMtime secMin secMax nsPerSec
  have h1 : ¬ ((t % 1000000000).toNat ≥ 2147483648) := by omega
  have h2 : ¬ (t / 1000000000 < -377705023201 ∨ 253402207200 < t / 1000000000 ∨
      (t % 1000000000).toNat > 999999999) := by omega
  simp only [h1, h2, if_false]
  congr 1; omega

/-- **C01 (b) for the code as it is, full strength**: every time in jiff's range, negative and
fractional included, comes back exactly, with no panic. -/
theorem mtime_roundtrip : MtimeStatement := by
  intro t hr
  unfold mtimeRoundTrip mtimeEncode sourceTimestamp restoredTime
  simp only [hr, if_true, Outcome.bind, toIndex_eq_floor]
  rw [index_mtime_roundtrip t hr]
  simp only [toFileTime_eq_floor]
  rfl

/-- Times outside jiff's range (year > 9999 or < −9999, settable on file systems with 64-bit
timestamps) panic the source walk itself (source.rs:99 `expect`), before and after the repair.
Not reachable on this sandbox's ext4 (1901..2446); a C10-style robustness finding. -/
theorem source_out_of_range_panics (t : Int) (h : ¬ inRange t) :
    mtimeRoundTrip t = .panic siteSourceRange := by
  unfold mtimeRoundTrip mtimeEncode sourceTimestamp restoredTime
  simp [h, Outcome.bind]

/-- `cast_unsigned` of a sub-second value never produces `UTIME_NOW` (2³⁰−1) or `UTIME_OMIT`
(2³⁰−2), so `osAccepts` need not special-case them. -/
theorem castUnsigned_not_special (ts : Int) :
    castUnsigned (subsecNanosecond ts) ≠ 1073741823 ∧
      castUnsigned (subsecNanosecond ts) ≠ 1073741822 := by
  rw [subsec_eq]
  unfold castUnsigned
  by_cases hc : 0 ≤ ts ∨ ts % 1000000000 = 0
  · simp only [hc, if_true]
    have : 0 ≤ ts % 1000000000 := by omega
    simp only [this, if_true]; omega
  · simp only [hc, if_false]
    have : ¬ (0 ≤ ts % 1000000000 - 1000000000) := by omega
    simp only [this, if_false]; omega

/-! ### The code before commit 6ea0861 -/

/-- The old `metadata_from` succeeded exactly for times that are not (negative with a
sub-second part), and then stored the same pair as now. -/
theorem toIndexPre_ok (t : Int) (h : 0 ≤ t ∨ t % 1000000000 = 0) :
    toIndexPre t = .ok (t / 1000000000, (t % 1000000000).toNat) := by
  unfold toIndexPre
  simp only [subsec_eq, asSecond_eq, h, if_true]
  have : ¬ (t % 1000000000 < 0) := by omega
  simp [this]

/-- It panicked (`subsec_nanosecond().try_into::<u32>().unwrap()`, index/entry.rs:146) exactly
for pre-epoch times with a non-zero sub-second part. -/
theorem toIndexPre_panics_iff (t : Int) :
    toIndexPre t = .panic siteEncNanos ↔ t < 0 ∧ t % 1000000000 ≠ 0 := by
  by_cases h : 0 ≤ t ∨ t % 1000000000 = 0
  · rw [toIndexPre_ok t h]; constructor
    · intro x; cases x
    · intro ⟨a, b⟩; omega
  · unfold toIndexPre
    simp only [subsec_eq, h, if_false]
    have : t % 1000000000 - 1000000000 < 0 := by omega
    simp only [this, if_true, true_iff]
    omega

/-- **Partial result for the old code**: the round trip was exact for every time in range
that is non-negative or a whole number of seconds. -/
theorem mtime_roundtrip_partial_pre (t : Int) (hr : inRange t)
    (hc : 0 ≤ t ∨ t % 1000000000 = 0) : mtimeRoundTripPre t = .ok (expected t) := by
  have hi := index_mtime_roundtrip t hr
  unfold mtimeRoundTripPre mtimeEncodePre sourceTimestamp restoredTimePre
  simp only [hr, if_true, Outcome.bind, toIndexPre_ok t hc]
  rw [hi]
  simp only [toFileTimePre, subsec_eq, asSecond_eq, hc, if_true, expected, castUnsigned]
  have : 0 ≤ t % 1000000000 := by omega
  simp [this]

/-- Outside that set the old backup panicked, and only there (for times in range). -/
theorem mtime_panics_exactly_pre (t : Int) (hr : inRange t) :
    mtimeRoundTripPre t = .panic siteEncNanos ↔ t < 0 ∧ t % 1000000000 ≠ 0 := by
  by_cases hc : 0 ≤ t ∨ t % 1000000000 = 0
  · rw [mtime_roundtrip_partial_pre t hr hc]; constructor
    · intro x; cases x
    · intro ⟨a, b⟩; omega
  · have hp := (toIndexPre_panics_iff t).2 (by omega)
    unfold mtimeRoundTripPre mtimeEncodePre sourceTimestamp restoredTimePre
    simp only [hr, if_true, Outcome.bind, hp, true_iff]
    omega

/-- **Refutation for the old code**: a file last modified 1.5 s before the epoch (mtime
−1 500 000 000 ns, `FileTime::from_unix_time(-2, 500_000_000)`) panicked the whole backup at
index/entry.rs:146 instead of being stored. -/
theorem mtime_refuted_pre : ¬ MtimeStatementPre := by
  intro h
  have := h (-1500000000) (by decide)
  revert this; decide

/-- The second half of the defect, on the READ side: for an index pair denoting a pre-epoch
time with a sub-second part (as the repaired writer, and conserve versions that stored floor
seconds, write it) the old `to_file_time` cast the negative `subsec_nanosecond` to `u32`; the
resulting `tv_nsec ≥ 3 294 967 297` is refused by `utimensat` (`EINVAL`), so restore reported an
error and left the time unset.  Repairing only `metadata_from` would not have been enough. -/
theorem toFileTimePre_negative_rejected (ts : Int) (h : ts < 0 ∧ ts % 1000000000 ≠ 0) :
    osAccepts (toFileTimePre ts) = none := by
  have hc : ¬ (0 ≤ ts ∨ ts % 1000000000 = 0) := by omega
  unfold osAccepts toFileTimePre castUnsigned
  simp only [subsec_eq, hc, if_false]
  have h1 : ¬ (0 ≤ ts % 1000000000 - 1000000000) := by omega
  simp only [h1, if_false]
  have : ¬ ((4294967296 + (ts % 1000000000 - 1000000000)).toNat < 1000000000) := by omega
  simp [this]

/-- The repair agrees with the old write side wherever the old one worked, so archives written
before and after are interchangeable. -/
theorem repair_extends_pre (t : Int) (p : Int × Nat) (h : toIndexPre t = .ok p) :
    toIndex t = .ok p := by
  rw [toIndex_eq_floor]
  by_cases hc : 0 ≤ t ∨ t % 1000000000 = 0
  · rw [toIndexPre_ok t hc] at h; exact h
  · have := (toIndexPre_panics_iff t).2 (by omega)
    rw [this] at h; cases h

-- Non-vacuity and concrete values.
example : inRange (-1500000000) := by decide
example : mtimeRoundTrip (-1500000000) = .ok (-2, 500000000) := by decide
example : mtimeRoundTrip (-1) = .ok (-1, 999999999) := by decide
example : mtimeRoundTrip (-2000000000) = .ok (-2, 0) := by decide
example : mtimeRoundTrip 1700000000000000123 = .ok (1700000000, 123) := by decide
example : mtimeRoundTrip (tsMax + 1) = .panic siteSourceRange := by decide
example : mtimeRoundTripPre (-1500000000) = .panic siteEncNanos := by decide
example : mtimeRoundTripPre (-1) = .panic siteEncNanos := by decide
example : mtimeRoundTripPre (-2000000000) = .ok (-2, 0) := by decide
-- what the old `to_file_time` did with the pair stored for −1.5 s:
example : restoredTimePre (.ok (-2, 500000000)) = .ok (-1, 3794967296) := by decide
example : osAccepts (-1, 3794967296) = none := by decide
example : restoredTime (.ok (-2, 500000000)) = .ok (-2, 500000000) := by decide
-- decoded-but-odd index values (C10 territory): both `unwrap`s of `IndexEntry::mtime`
example : indexMtime 0 2147483648 = .panic siteDecNanos := by decide
example : indexMtime 0 1000000000 = .panic siteDecNew := by decide
example : indexMtime 253402207201 0 = .panic siteDecNew := by decide

end Conserve.C01b
