import ConserveModel.Proofs.DeleteFault
/-
C05 — Deleting versions and collecting garbage never harm what is kept.

"Deleting versions and collecting garbage never harm what is kept.  For any archive history and
any set of versions to delete, after the delete exactly those versions are gone, every remaining
complete version restores exactly as it did before, no block referenced by any remaining version
has been removed and no unreferenced block remains; a dry run changes nothing.  If the delete is
killed at any point, or a storage read fails while it is working out what is referenced, every
remaining complete version still restores exactly."

Model: Gc.lean `deleteBands strict D opts` (src/archive.rs `delete_bands`, `referenced_blocks`;
src/gc_lock.rs).  `strict = true` is the code after the repair of defect D6 (a hunk that is listed
must be read; any failure aborts); `strict = false` the code before, kept for the refutation.

How to read the statements:
* the archive is any store `s` (not only ones a backup history produces) under explicit
  well-formedness hypotheses: `DelArchOK s D` (unique keys; the archive directory and `d/` exist; every
  KEPT band has an accepted head, an index directory and hunks that all decode with every entry
  passing `IndexEntry::check` (`entryUsable`) — otherwise strict mode aborts), `DirsOk s` (every
  stored key's parent is a directory), `newestComplete s`, no `GC_LOCK`;
* `D` is any list of band ids; `keptOf s D` = the band directories of `s` not in `D`;
* `deleted s D` is the store after the delete, given as a FILTER of the initial association list
  (`survives`): the final store is that very list, not merely `get?`-equal;
* `referencedBy s keep h`: hash `h` is named by an entry of a decodable hunk of a band in `keep`;
* `KeptIntact H s D s'` is the pure-function form of "every remaining version restores exactly":
  all keys under kept band directories and all blocks they name are unchanged, hence `hunkAt`,
  `isComplete` and `readBack H` give the same answers.
-/
namespace Conserve.C05
open Conserve Prog

/-! ### 1. Refusals -/

/-- **`delete_refuses`.**  In a fault-free world, if the newest band has no tail, or a `GC_LOCK`
entry is present and `--break-lock` was not given, `delete_bands` fails and nothing is touched —
for every `D`, every option set, both versions of the code.  The one exception is stated exactly:
with `--break-lock` a stale lock FILE has already been removed when the incomplete newest band is
noticed (`refusedStore`); without `--break-lock` the store is the very same list. -/
theorem delete_refuses (strict : Bool) (s : Store) (D : List Nat) (o : DeleteOpts)
    (hroot : s.get? .root = some .dir)
    (h : ¬ newestComplete s ∨ ((s.get? .gcLock).isSome = true ∧ o.breakLock = false)) :
    ∃ e, ((deleteBands strict D o).run (World.clean s)).1 = .err e ∧
      ((deleteBands strict D o).run (World.clean s)).2.store = refusedStore o s ∧
      (o.breakLock = false → ((deleteBands strict D o).run (World.clean s)).2.store = s) := by
  obtain ⟨e, he⟩ := acquireOutcome_refuses o h
  have hr := deleteBands_refuse_runs hroot strict D o (e := e) (by rw [he])
    (World.clean s) (World.clean_quiet s) rfl
  rw [he] at hr
  obtain ⟨h1, h2, _⟩ := hr.clean
  refine ⟨e, h1, h2, ?_⟩
  intro hb
  rw [h2]
  simp [refusedStore, hb]

/-- The error when the newest band has no tail. -/
theorem delete_refuses_incomplete (strict : Bool) (s : Store) (D : List Nat) (o : DeleteOpts)
    (hroot : s.get? .root = some .dir) {b : Nat} (hm : maxNat? (bandIdsOf s) = some b)
    (hc : isComplete s b = false) :
    ((deleteBands strict D o).run (World.clean s)).1 = .err (.deleteWithIncompleteBackup b) := by
  have hacq : (acquireOutcome o s).1 = .err (.deleteWithIncompleteBackup b) := by
    simp only [acquireOutcome, breakOutcome]
    have h1 := lockOutcome_incomplete hm hc
    have h2 := lockOutcome_incomplete (s := s.erase .gcLock) (b := b)
      (by rw [bandIdsOf_erase_lock]; exact hm) (by rw [isComplete_erase_lock]; exact hc)
    cases o.breakLock <;> cases fileAt s .gcLock <;> simp [h1, h2]
  exact (deleteBands_refuse_runs hroot strict D o hacq (World.clean s) (World.clean_quiet s) rfl).clean.1

/-- The error when the lock file is there (and the newest band is complete). -/
theorem delete_refuses_locked (strict : Bool) (s : Store) (D : List Nat) (o : DeleteOpts)
    (hroot : s.get? .root = some .dir) (hnew : newestComplete s) (hl : fileAt s .gcLock = true)
    (hb : o.breakLock = false) :
    ((deleteBands strict D o).run (World.clean s)).1 = .err .gcLockHeld ∧
      ((deleteBands strict D o).run (World.clean s)).2.store = s := by
  have hacq : acquireOutcome o s = (.err .gcLockHeld, s) := by
    simp [acquireOutcome, hb, lockOutcome_held hnew hl]
  have hr := deleteBands_refuse_runs hroot strict D o (e := .gcLockHeld) (by rw [hacq])
    (World.clean s) (World.clean_quiet s) rfl
  rw [hacq] at hr
  exact ⟨hr.clean.1, hr.clean.2.1⟩

/-! ### 2. Dry run -/

/-- **`delete_dry_run`.**  A dry run succeeds, reports the number of unreferenced blocks, and
changes nothing: the lock file is written and removed again, and the final store is the very same
association list as before (list equality, not only `get?`-equality), with no event emitted. -/
theorem delete_dry_run (s : Store) (D : List Nat) (o : DeleteOpts) (ok : DelArchOK s D)
    (hfree : s.get? .gcLock = none) (hnew : newestComplete s) (hdry : o.dryRun = true) :
    ((deleteBands true D o).run (World.clean s)).1 = .ok { unreferencedBlockCount := (unrefOf s D).length } ∧
      ((deleteBands true D o).run (World.clean s)).2.store = s ∧
      ((deleteBands true D o).run (World.clean s)).2.events = [] :=
  (deleteBands_dry_runs ok hfree hnew o hdry (World.clean s) (World.clean_quiet s) rfl).clean

/-! ### 3. Functional correctness of a real run -/

/-- **`delete_exact`, core.**  A real run on a well-formed archive succeeds with the expected
statistics and the final store is `deleted s D` — the initial association list with the keys
at or under the band directories of `D` and the block files of `unrefOf s D` filtered out. -/
theorem delete_exact_store (s : Store) (D : List Nat) (o : DeleteOpts) (ok : DelArchOK s D)
    (hfree : s.get? .gcLock = none) (hnew : newestComplete s) (hdry : o.dryRun = false)
    (hnd : D.Nodup) (hex : ∀ b ∈ D, b ∈ bandIdsOf s) :
    ((deleteBands true D o).run (World.clean s)).1 = .ok (realStats s D) ∧
      ((deleteBands true D o).run (World.clean s)).2.store = deleted s D ∧
      ((deleteBands true D o).run (World.clean s)).2.events = [] := by
  refine (deleteBands_real_runs ok hfree hnew o hdry hnd ?_ (World.clean s) (World.clean_quiet s) rfl).clean
  intro b hb
  rw [Store.get?_of_mem_unique ok.nodup (mem_bandIdsOf'.1 (hex b hb))]
  rfl

/-- **`delete_exact`.**  Clean world, real run, `DelArchOK s D`, `DirsOk s`, newest band complete, no
lock, `D` without repetitions and every band of `D` present.  Then the run succeeds with
`deleted_band_count = |D|`, `unreferenced_block_count = deleted_block_count = |unrefOf s D|`, no
deletion errors, and for the final store `s'`:
(a) the versions left are exactly those not in `D`; every key at or under a deleted band directory
    is gone; every key at or under any other band directory is unchanged;
(b) a listed block file (`blockListed`: present, non-empty) is still there iff it is named by a kept
    band — or its name has fewer than three characters, which `list_blocks` never sees; every
    block named by a kept band is unchanged; no listed unreferenced block (name ≥ 3 chars) is left;
    `unrefOf s D` has no repetitions, so its length is the number of such blocks;
(c) everything else (header, `d/` and its subdirectories, stray files) is unchanged and there is
    no `GC_LOCK`. -/
theorem delete_exact (s : Store) (D : List Nat) (o : DeleteOpts) (ok : DelArchOK s D) (hdirs : DirsOk s)
    (hfree : s.get? .gcLock = none) (hnew : newestComplete s) (hdry : o.dryRun = false)
    (hnd : D.Nodup) (hex : ∀ b ∈ D, b ∈ bandIdsOf s) :
    let r := (deleteBands true D o).run (World.clean s)
    let s' := r.2.store
    r.1 = .ok { unreferencedBlockCount := (unrefOf s D).length, deletedBandCount := D.length,
                deletedBlockCount := (unrefOf s D).length, deletionErrors := 0 } ∧
    -- (a)
    bandIdsOf s' = (bandIdsOf s).filter (fun b => !D.contains b) ∧
    (∀ b ∈ D, ∀ k, Key.isUnder (.bandDir b) k = true → s'.get? k = none) ∧
    (∀ b, b ∉ D → ∀ k, Key.isUnder (.bandDir b) k = true → s'.get? k = s.get? k) ∧
    -- (b)
    (∀ h, blockListed s' h ↔
      blockListed s h ∧ (referencedBy s (keptOf s D) h ∨ h.length < subdirNameChars)) ∧
    (∀ h, referencedBy s (keptOf s D) h → s'.get? (.block h) = s.get? (.block h)) ∧
    (∀ h, blockListed s' h → subdirNameChars ≤ h.length → referencedBy s (keptOf s D) h) ∧
    (unrefOf s D).Nodup ∧
    (∀ h, h ∈ unrefOf s D ↔
      blockListed s h ∧ subdirNameChars ≤ h.length ∧ ¬ referencedBy s (keptOf s D) h) ∧
    -- (c)
    (∀ k, underAny D k = false → (∀ h, k ≠ .block h) → s'.get? k = s.get? k) ∧
    s'.get? .gcLock = none := by
  intro r s'
  obtain ⟨h1, h2, _⟩ := delete_exact_store s D o ok hfree hnew hdry hnd hex
  have hs' : s' = deleted s D := h2
  have hblock : ∀ h, blockListed s' h ↔
      blockListed s h ∧ (referencedBy s (keptOf s D) h ∨ h.length < subdirNameChars) := by
    intro h
    simp only [blockListed, hs', get?_deleted_block]
    by_cases hm : h ∈ unrefOf s D
    · have hm' := (mem_unrefOf_iff ok.nodup hdirs).1 hm
      simp only [hm, if_true]
      constructor
      · rintro ⟨v, hv, _⟩; cases hv
      · rintro ⟨_, hr | hl⟩
        · exact absurd hr hm'.2.2
        · exact absurd hm'.2.1 (by omega)
    · simp only [hm, if_false]
      constructor
      · intro hl
        refine ⟨hl, ?_⟩
        by_cases hlen : subdirNameChars ≤ h.length
        · left
          apply Classical.byContradiction
          intro hr
          exact hm ((mem_unrefOf_iff ok.nodup hdirs).2 ⟨hl, hlen, hr⟩)
        · right; omega
      · exact fun h => h.1
  refine ⟨h1, ?_, ?_, ?_, hblock, ?_, ?_, nodup_unrefOf ok.nodup D, ?_, ?_, ?_⟩
  · rw [hs', bandIdsOf_deleted]; rfl
  · intro b hb k hk; rw [hs']; exact deleted_band_gone s hb hk
  · intro b hb k hk; rw [hs']; exact kept_band_unchanged s hb hk
  · intro h hr
    rw [hs', get?_deleted_block]
    have : h ∉ unrefOf s D := fun hm => ((mem_unrefOf_iff ok.nodup hdirs).1 hm).2.2 hr
    simp [this]
  · intro h hl hlen
    rcases ((hblock h).1 hl).2 with hr | hr
    · exact hr
    · omega
  · intro h; exact mem_unrefOf_iff ok.nodup hdirs
  · intro k hk hb; rw [hs']; exact other_unchanged s hk hb
  · rw [hs', other_unchanged s (underAny_gcLock D) (by intro h; simp)]; exact hfree

/-- **`--break-lock`.**  With `break_lock = true` and a stale lock FILE present, the delete first
removes it and then behaves exactly as on the archive without it: same statistics, and the
final store is `deleted (s.erase GC_LOCK) D` (so `delete_exact`'s conclusions (a)–(c) hold with
`s.erase GC_LOCK` in place of `s`); a dry run ends in `s.erase GC_LOCK` — the stale lock is gone,
nothing else has changed. -/
theorem delete_exact_break_lock (s : Store) (D : List Nat) (o : DeleteOpts)
    (ok : DelArchOK (s.erase .gcLock) D) (hroot : s.get? .root = some .dir)
    (hb : o.breakLock = true) (hl : fileAt s .gcLock = true) (hnew : newestComplete s)
    (hnd : D.Nodup) (hex : ∀ b ∈ D, b ∈ bandIdsOf s) :
    let r := (deleteBands true D o).run (World.clean s)
    (o.dryRun = false → r.1 = .ok (realStats (s.erase .gcLock) D) ∧ r.2.store = deleted (s.erase .gcLock) D) ∧
    (o.dryRun = true → r.1 = .ok (dryStats (s.erase .gcLock) D) ∧ r.2.store = s.erase .gcLock) := by
  intro r
  have hacq := lockTaken_break o hb hl hnew
  have hfree : (s.erase .gcLock).get? .gcLock = none := Store.get?_erase_self s _
  refine ⟨fun hdry => ?_, fun hdry => ?_⟩
  · have hr := deleteBands_real_runs_gen ok hroot hfree o hacq hdry hnd
      (by intro b hb'
          have hm : b ∈ bandIdsOf (s.erase .gcLock) := by rw [bandIdsOf_erase_lock]; exact hex b hb'
          rw [Store.get?_of_mem_unique ok.nodup (mem_bandIdsOf'.1 hm)]; rfl)
      (World.clean s) (World.clean_quiet s) rfl
    exact ⟨hr.clean.1, hr.clean.2.1⟩
  · have hr := deleteBands_dry_runs_gen ok hroot hfree o hacq hdry (World.clean s) (World.clean_quiet s) rfl
    exact ⟨hr.clean.1, hr.clean.2.1⟩

/-- **`delete_missing_band`.**  If `D = pre ++ b :: post` and `b` is the first band of the list
that cannot be removed — it has no directory entry, or it already occurs in `pre` (a repeated id) —
the run fails with `BandNotFound b` midway: the bands of `pre` are gone, no block has been removed
(the blocks only they referenced stay as garbage), and the lock is released by `Drop`. -/
theorem delete_missing_band (s : Store) (pre post : List Nat) (b : Nat) (o : DeleteOpts)
    (ok : DelArchOK s (pre ++ b :: post)) (hfree : s.get? .gcLock = none) (hnew : newestComplete s)
    (hdry : o.dryRun = false) (hnd : pre.Nodup) (hex : ∀ b' ∈ pre, b' ∈ bandIdsOf s)
    (hb : s.get? (.bandDir b) = none ∨ b ∈ pre) :
    ((deleteBands true (pre ++ b :: post) o).run (World.clean s)).1 = .err (.bandNotFound b) ∧
      ((deleteBands true (pre ++ b :: post) o).run (World.clean s)).2.store =
        s.filter (fun kv => !underAny pre kv.1) := by
  have hr := deleteBands_missing_runs ok hfree hnew o hdry hnd
    (by intro b' hb'
        rw [Store.get?_of_mem_unique ok.nodup (mem_bandIdsOf'.1 (hex b' hb'))]; rfl)
    hb (World.clean s) (World.clean_quiet s) rfl
  exact ⟨hr.clean.1, hr.clean.2.1⟩

/-! ### 5. / 6. Safety in every world: crash points and storage faults -/

/-- **Safety in every world** (the common strengthening of `delete_crash_safe` and
`delete_readfault_safe`).  Strict mode.  For ANY world on the store `s` — any fault list (faults of
any kind on any operation, reads and writes alike), any crash point or none, even a world that is
already dead — after `delete_bands D`, however it ended, the kept versions are intact:
keys under every band directory outside `D` unchanged, blocks they name unchanged, contents read
back the same.  Only `HunkTreeOk` (a consequence of `DirsOk`) is assumed of the archive: no
readability, no lock state, no condition on `D`. -/
theorem delete_safe_any_world (H : Str → Str) (D : List Nat) (o : DeleteOpts) (w : World)
    (hd : DirsOk w.store) : KeptIntact H w.store D ((deleteBands true D o).run w).2.store :=
  deleteBands_keptIntact H D o w hd.hunkTreeOk

/-- **`delete_crash_safe`.**  Killed before any mutating micro-step `j` (a write is two
micro-steps), on an otherwise fault-free world: the kept versions are intact in the store the
crash leaves (`j` beyond the end: the run completes; the same conclusion). -/
theorem delete_crash_safe (H : Str → Str) (s : Store) (D : List Nat) (o : DeleteOpts) (hd : DirsOk s)
    (j : Nat) :
    KeptIntact H s D ((deleteBands true D o).run { World.clean s with crashAt := some j }).2.store :=
  delete_safe_any_world H D o { World.clean s with crashAt := some j } hd

/-- **`delete_readfault_safe`.**  Any list of injected faults (in particular any faults on
`read` / `listDir` / `metadata` while the delete works out what is referenced): the kept versions
are intact.  Either the delete fails before removing anything, or what it removes is still only
bands of `D` and blocks no band outside `D` names.  What the model does on each read-only
operation, exactly: a failing `listDir` of the archive directory, of `bNNNN/i` or of a subdirectory
`bNNNN/i/DDDDD`, a failing read of a head or of a listed hunk, a hunk that lists but reads
`NotFound`, a failing `listDir` of `d/` (transport error) or of ANY one subdirectory `d/xxx`
(`list_blocks` fails as a whole with `ListBlocks`, see `list_blocks_all_or_nothing`), a failing
`metadata` of an unreferenced block — each makes `delete_bands` fail before `gc_lock.check()`, i.e.
before the first removal; the lock is then removed by `Drop`. -/
theorem delete_readfault_safe (H : Str → Str) (s : Store) (D : List Nat) (o : DeleteOpts)
    (hd : DirsOk s) (faults : List Fault) :
    KeptIntact H s D ((deleteBands true D o).run { World.clean s with faults := faults }).2.store :=
  delete_safe_any_world H D o { World.clean s with faults := faults } hd

/-- The frame half holds for BOTH versions of the code and needs no hypothesis at all: in any
world, `delete_bands D` can only change `GC_LOCK`, keys at or under band directories of `D`, and
block files. -/
theorem delete_frame_any_world (strict : Bool) (D : List Nat) (o : DeleteOpts) (w : World) (k : Key)
    (h1 : k ≠ .gcLock) (h2 : underAny D k = false) (h3 : ∀ h, k ≠ .block h) :
    ((deleteBands strict D o).run w).2.store.get? k = w.store.get? k :=
  deleteBands_frame strict D o w k h1 h2 h3

/-- The crux of the repair of D6, stated on its own: in strict mode, in any world, if
`referenced_blocks` returns at all then its result contains every hash named by a decodable hunk of
the given bands (whose hunk files sit in real subdirectories).  A failing read can make it fail;
it can never shrink the set. -/
theorem referenced_blocks_never_shrinks (bs : List Nat) (w : World) (refs : List Str)
    (h : ((referencedBlocks true bs).run w).1 = .ok refs) (b : Nat) (hb : b ∈ bs)
    (hok : HunkFilesOk w.store b) (n : Nat) (es : List IndexEntry) (hes : hunkAt w.store b n = some es)
    (e : IndexEntry) (he : e ∈ es) (a : Addr) (ha : a ∈ e.addrs) : a.hash ∈ refs :=
  referencedBlocks_sound bs w refs h b hb hok n es hes e he a ha

/-- In any world, `list_blocks` either fails or returns exactly the block names the store holds
(`blockNamesOf`): a fault on the listing of one subdirectory never yields a shorter list.
(Safety does not depend on this — a shorter `present` list only means fewer removals — but the
statistics would.) -/
theorem list_blocks_all_or_nothing (w : World) (hs : List Str) (h : (listBlocks.run w).1 = .ok hs) :
    hs = blockNamesOf w.store := listBlocks_sound h

/-- **Defect D6: `delete_readfault_safe` is FALSE for the code before the repair**, general form:
`strict = false`, a single version `b` with a single hunk `n`, nothing to delete, and one failing
read of that hunk.  The run succeeds and removes every block `list_blocks` can see. -/
theorem delete_readfault_nonstrict_removes_all {s : Store} {b n : Nat} (hn : UniqueKeys s)
    (hroot : s.get? .root = some .dir) (hbr : s.get? .blockRoot = some .dir)
    (hfree : s.get? .gcLock = none) (hnew : newestComplete s) (hbands : bandIdsOf s = [b])
    (hhead : headReadable s b = true) (hidx : s.get? (.indexDir b) = some .dir)
    (hhunks : hunksListed s b = [n]) (o : DeleteOpts) (hdry : o.dryRun = false) :
    let w : World := { store := s, faults := readFault (.hunk b n) }
    (∃ st, ((deleteBands false [] o).run w).1 = .ok st) ∧
      ∀ h ∈ blockNamesOf s, ((deleteBands false [] o).run w).2.store.get? (.block h) = none :=
  nonstrict_read_fault_removes_all hn hroot hbr hfree hnew hbands hhead hidx hhunks o hdry

/-! ### 4. Every remaining version restores exactly -/

/-- The earlier bands `Stitch` continues into below band `b`: going down, every band with a head
file is read; the walk stops after the first one that has a tail. -/
def chainBelow (s : Store) : Nat → List Nat
  | 0 => []
  | b + 1 =>
    if fileAt s (.bandHead b) then (if isComplete s b then [b] else b :: chainBelow s b)
    else chainBelow s b

/-- The bands whose index the listing of version `b` is stitched from: `b` alone if it is complete. -/
def stitchChain (s : Store) (b : Nat) : List Nat := if isComplete s b then [b] else b :: chainBelow s b

/-- **`delete_keeps_restore`, full statement (NOT proved here).**  After a successful real delete,
restoring a kept version `b` whose whole stitch chain is kept — `b` itself if it is complete; for an
incomplete `b` also the earlier bands it continues into — gives the same result (outcome: the same
list of restored nodes with the same contents, or the same error) and the same reported errors as
before the delete.  A kept INCOMPLETE band that stitches into a deleted band is outside the
property ("every remaining COMPLETE version restores exactly"): the chain condition excludes it.
Since the repair of `previous_existing_band` (a listing that walks past an id whose head file is gone
but whose index still holds hunk 0 reports `bandHeadMissing` for it) one more condition is needed for
an INCOMPLETE `b`: no band of `D` below `b` is such a band — deleting it would (rightly) end the
complaint, so the events would differ.  Nothing is added for a complete `b`
(`C02h.delete_any_world_keeps_restore`). -/
def delete_keeps_restore_Statement : Prop :=
  ∀ (H : Str → Str) (s : Store) (D : List Nat) (o : DeleteOpts) (b : Nat),
    DelArchOK s D → DirsOk s → s.get? .gcLock = none → newestComplete s → o.dryRun = false → D.Nodup →
    (∀ b' ∈ D, b' ∈ bandIdsOf s) → (∀ c ∈ stitchChain s b, c ∉ D) →
    (∀ b' ∈ D, b' < b → fileAt s (.bandHead b') = false → fileAt s (.hunk b' 0) = false) →
    let s' := ((deleteBands true D o).run (World.clean s)).2.store
    let r := (restore H (.specified b) [slash] (fun _ => false)).run (World.clean s)
    let r' := (restore H (.specified b) [slash] (fun _ => false)).run (World.clean s')
    r'.1 = r.1 ∧ r'.2.events = r.2.events

/-- **`delete_keeps_restore_partial`: the pure-function level.**  After `delete_bands D` (however it
ended — success, error, killed, faults: the hypotheses are only `DirsOk s`), for every band `b`
outside `D` (so for every band of a kept stitch chain): every key at or under its directory is
unchanged, so its head, tail and hunk files read the same (`hunkAt`, `isComplete`); and every file
entry of every hunk reads back the same content (`readBack H`).  What is missing for
`delete_keeps_restore_Statement` is the refinement "the result of `restore (.specified b)` on a
clean world is a function of exactly these things" — the stitch/listing refinement of the C08 task
(`readBand`, `readHunks`, `stitchDown`, `restoreEntries` as pure functions of the store) — plus
`delete_keeps_listings` below for the directory listings and the fact that `list_blocks` succeeds
on both stores. -/
theorem delete_keeps_restore_partial (H : Str → Str) (s : Store) (D : List Nat) (o : DeleteOpts)
    (hd : DirsOk s) :
    let s' := ((deleteBands true D o).run (World.clean s)).2.store
    (∀ b, b ∉ D → ∀ n, hunkAt s' b n = hunkAt s b n) ∧
    (∀ b, b ∉ D → isComplete s' b = isComplete s b) ∧
    (∀ b, b ∉ D → ∀ n es, hunkAt s b n = some es → ∀ e ∈ es, readBack H s' e.addrs = readBack H s e.addrs) ∧
    (∀ b, b ∉ D → ∀ k, Key.isUnder (.bandDir b) k = true → s'.get? k = s.get? k) := by
  intro s'
  have h := delete_safe_any_world H D o (World.clean s) hd
  exact ⟨h.hunks, h.complete, h.content, h.keys⟩

/-- After a successful real delete the directory listings of every kept band (band directory,
`i`, `i/DDDDD`) are the very same lists as before, so `hunks_available` and `check_index_hunks` see
the same; and `stitchChain` is the same for every version whose chain is kept... the chain
membership tests (`BANDHEAD` / `BANDTAIL` present) are among the unchanged keys. -/
theorem delete_keeps_listings (s : Store) (D : List Nat) (o : DeleteOpts) (ok : DelArchOK s D)
    (hfree : s.get? .gcLock = none) (hnew : newestComplete s) (hdry : o.dryRun = false)
    (hnd : D.Nodup) (hex : ∀ b ∈ D, b ∈ bandIdsOf s) :
    let s' := ((deleteBands true D o).run (World.clean s)).2.store
    ∀ b, b ∉ D → ∀ k, Key.isUnder (.bandDir b) k = true → s'.children k = s.children k := by
  intro s' b hb k hk
  have h2 := (delete_exact_store s D o ok hfree hnew hdry hnd hex).2.1
  have hs' : s' = deleted s D := h2
  rw [hs']
  exact kept_band_listing_unchanged s hb hk

/-! ### 7. Order of block removal -/

/-- **`delete_order_irrelevant`.**  The code iterates a `HashSet`; the model removes the
unreferenced blocks in name order.  Whatever order is used — any permutation `l` of `unrefOf s D` —
the removal loop, run in a fault-free world from the state in which the bands of `D` have just
been removed, reports no error and ends in the very same store (list equality), which is the one
the model's order gives. -/
theorem delete_order_irrelevant (s : Store) (D : List Nat) (l : List Str) (hn : UniqueKeys s)
    (hl : l.Perm (unrefOf s D)) (w : World) (hq : w.Quiet) (hs : w.store = eraseBands s D) :
    ((deleteBody.delBlocks l 0).run w).1 = .ok 0 ∧
      ((deleteBody.delBlocks l 0).run w).2.store = eraseBlocks (eraseBands s D) (unrefOf s D) := by
  have hnd : l.Nodup := (hl.nodup_iff).2 (nodup_unrefOf hn D)
  have hfile : ∀ h ∈ l, fileAt (eraseBands s D) (.block h) = true := by
    intro h hh
    simp only [fileAt, get?_eraseBands, underAny_block, Bool.false_eq_true, if_false]
    exact blockNamesOf_file hn (mem_unrefOf.1 (hl.mem_iff.1 hh)).1
  have hr := delBlocks_runs l (eraseBands s D) 0 hnd hfile w hq hs
  exact ⟨hr.1, by rw [hr.2.store, eraseBlocks_perm _ hl]⟩

/-! ### Non-vacuity: a concrete archive with two versions and a garbage block -/

section examples

def hA : Str := [97, 97, 97, 49]      -- "aaa1"
def hB : Str := [98, 98, 98, 50]      -- "bbb2"
def hG : Str := [99, 99, 99, 51]      -- "ccc3": garbage, no version names it

def fileEntry (p : Str) (as : List Addr) : IndexEntry :=
  { apath := p, kind := .file, mtime := 0, mtimeNanos := 0, unixMode := some 420, user := none,
    group := none, addrs := as, target := none }

/-- Version 0 holds `/a`; version 1 holds `/a` (same block) and `/b`; block `ccc3` is garbage. -/
def exStore : Store :=
  [ (.root, .dir), (.header, .header [48, 46, 54]), (.blockRoot, .dir),
    (.blockDir [97, 97, 97], .dir), (.block hA, .blockData [1, 2, 3]),
    (.blockDir [98, 98, 98], .dir), (.block hB, .blockData [4, 5]),
    (.blockDir [99, 99, 99], .dir), (.block hG, .blockData [9]),
    (.bandDir 0, .dir), (.bandHead 0, .head .ok []), (.indexDir 0, .dir), (.hunkDir 0 0, .dir),
    (.hunk 0 0, .hunk [fileEntry [47, 97] [⟨hA, 0, 3⟩]]), (.bandTail 0, .tail (some 1)),
    (.bandDir 1, .dir), (.bandHead 1, .head .ok []), (.indexDir 1, .dir), (.hunkDir 1 0, .dir),
    (.hunk 1 0, .hunk [fileEntry [47, 97] [⟨hA, 0, 3⟩], fileEntry [47, 98] [⟨hB, 0, 2⟩]]),
    (.bandTail 1, .tail (some 1)) ]

/-- A hash function that names the three blocks correctly. -/
def exH : Str → Str := fun c => if c = [1, 2, 3] then hA else if c = [4, 5] then hB else hG

theorem sortNat_of_sorted {l : List Nat} (h : l.Pairwise (· ≤ ·)) : sortNat l = l :=
  List.mergeSort_of_pairwise (h.imp (by simp))

theorem ex_bands : bandIdsOf exStore = [0, 1] := by
  show sortNat [0, 1] = [0, 1]
  exact sortNat_of_sorted (by decide)

theorem ex_hunks (b : Nat) (hb : b = 0 ∨ b = 1) : hunksListed exStore b = [0] := by
  rcases hb with rfl | rfl
  · have h1 : hunkDirsOf exStore 0 = [0] := by
      show sortNat [0] = [0]; exact sortNat_of_sorted (by decide)
    have h2 : hunksInDir exStore 0 0 = [0] := by
      show sortNat [0] = [0]; exact sortNat_of_sorted (by decide)
    simp [hunksListed, h1, h2]
  · have h1 : hunkDirsOf exStore 1 = [0] := by
      show sortNat [0] = [0]; exact sortNat_of_sorted (by decide)
    have h2 : hunksInDir exStore 1 0 = [0] := by
      show sortNat [0] = [0]; exact sortNat_of_sorted (by decide)
    simp [hunksListed, h1, h2]

theorem ex_blocks : blockNamesOf exStore = [hA, hB, hG] := by
  have h1 : blockSubdirsOf exStore = [[97, 97, 97], [98, 98, 98], [99, 99, 99]] := by
    show List.mergeSort [[97, 97, 97], [98, 98, 98], [99, 99, 99]] _ = _
    exact List.mergeSort_of_pairwise (by decide)
  rw [blockNamesOf, h1]
  decide

theorem ex_kept0 : keptOf exStore [0] = [1] := by rw [keptOf, ex_bands]; decide

/-- Deleting version 0: the only unreferenced block is the garbage block. -/
theorem ex_unref0 : unrefOf exStore [0] = [hG] := by
  have hr : refsOf exStore [1] = [hA, hB] := by
    simp only [refsOf, bandRefHashes, ex_hunks 1 (Or.inr rfl)]
    decide
  rw [unrefOf, ex_kept0, hr, ex_blocks]
  show List.mergeSort [hG] strLe = [hG]
  exact List.mergeSort_singleton _

theorem ex_kept1 : keptOf exStore [1] = [0] := by rw [keptOf, ex_bands]; decide

/-- Deleting version 1 instead: `bbb2` becomes unreferenced too. -/
theorem ex_unref1 : unrefOf exStore [1] = [hB, hG] := by
  have hr : refsOf exStore [0] = [hA] := by
    simp only [refsOf, bandRefHashes, ex_hunks 0 (Or.inl rfl)]
    decide
  rw [unrefOf, ex_kept1, hr, ex_blocks]
  show List.mergeSort [hB, hG] strLe = [hB, hG]
  exact List.mergeSort_of_pairwise (by decide)

theorem ex_readable (b : Nat) (hb : b = 0 ∨ b = 1) : BandReadable exStore b := by
  refine ⟨?_, ?_, ?_⟩
  · rcases hb with rfl | rfl <;> decide
  · rcases hb with rfl | rfl <;> decide
  · rw [ex_hunks b hb]
    rcases hb with rfl | rfl <;> decide

theorem ex_archOK0 : DelArchOK exStore [0] where
  nodup := by decide
  root := by decide
  blockRoot := by decide
  kept := by rw [ex_kept0]; intro b hb; exact ex_readable b (Or.inr (by simpa using hb))

theorem ex_archOK1 : DelArchOK exStore [1] where
  nodup := by decide
  root := by decide
  blockRoot := by decide
  kept := by rw [ex_kept1]; intro b hb; exact ex_readable b (Or.inl (by simpa using hb))

theorem ex_dirsOk : DirsOk exStore := by decide

theorem ex_lockFree : exStore.get? .gcLock = none := by decide

theorem ex_newest : newestComplete exStore := by
  intro b hb
  rw [ex_bands] at hb
  have : b = 1 := by
    have h : maxNat? [0, 1] = some 1 := by decide
    rw [h] at hb; cases hb; rfl
  subst this
  decide

/-- All hypotheses of `delete_exact` (and `delete_dry_run`) hold for `D = [0]` on the example. -/
example : DelArchOK exStore [0] ∧ DirsOk exStore ∧ exStore.get? .gcLock = none ∧ newestComplete exStore ∧
    [0].Nodup ∧ ∀ b ∈ [0], b ∈ bandIdsOf exStore :=
  ⟨ex_archOK0, ex_dirsOk, ex_lockFree, ex_newest, by decide, by rw [ex_bands]; decide⟩

/-- … and the conclusion, concretely: one band and one block deleted, and the final store is the
initial list without version 0 and without the garbage block. -/
example : ((deleteBands true [0] {}).run (World.clean exStore)).1 =
      .ok { unreferencedBlockCount := 1, deletedBandCount := 1, deletedBlockCount := 1, deletionErrors := 0 } ∧
    ((deleteBands true [0] {}).run (World.clean exStore)).2.store =
      [ (.root, .dir), (.header, .header [48, 46, 54]), (.blockRoot, .dir),
        (.blockDir [97, 97, 97], .dir), (.block hA, .blockData [1, 2, 3]),
        (.blockDir [98, 98, 98], .dir), (.block hB, .blockData [4, 5]),
        (.blockDir [99, 99, 99], .dir),
        (.bandDir 1, .dir), (.bandHead 1, .head .ok []), (.indexDir 1, .dir), (.hunkDir 1 0, .dir),
        (.hunk 1 0, .hunk [fileEntry [47, 97] [⟨hA, 0, 3⟩], fileEntry [47, 98] [⟨hB, 0, 2⟩]]),
        (.bandTail 1, .tail (some 1)) ] := by
  obtain ⟨h1, h2, _⟩ := delete_exact_store exStore [0] {} ex_archOK0 ex_lockFree ex_newest rfl
    (by decide) (by rw [ex_bands]; decide)
  refine ⟨?_, ?_⟩
  · rw [h1, realStats, ex_unref0]; rfl
  · rw [h2, deleted]
    simp only [survives, ex_unref0]
    decide

/-- Deleting version 1 removes two blocks (`delete_exact` for `D = [1]`). -/
example : ((deleteBands true [1] {}).run (World.clean exStore)).1 =
      .ok { unreferencedBlockCount := 2, deletedBandCount := 1, deletedBlockCount := 2, deletionErrors := 0 } := by
  obtain ⟨h1, _, _⟩ := delete_exact_store exStore [1] {} ex_archOK1 ex_lockFree ex_newest rfl
    (by decide) (by rw [ex_bands]; decide)
  rw [h1, realStats, ex_unref1]; rfl

/-- The kept version really names blocks, and their content really reads back: the conclusion of
`KeptIntact` is not about `none = none`. -/
example : referencedBy exStore (keptOf exStore [0]) hB ∧
    readBack exH exStore [⟨hA, 0, 3⟩] = some [1, 2, 3] ∧ readBack exH exStore [⟨hB, 0, 2⟩] = some [4, 5] := by
  refine ⟨?_, by decide, by decide⟩
  rw [ex_kept0]
  exact ⟨1, by simp, 0, _, rfl, fileEntry [47, 98] [⟨hB, 0, 2⟩], by simp, ⟨hB, 0, 2⟩, by simp [fileEntry], rfl⟩

/-- `delete_refuses`, first disjunct: a third version without tail makes every delete refuse. -/
example : ¬ newestComplete (exStore ++ [(.bandDir 2, .dir), (.bandHead 2, .head .ok [])]) := by
  intro h
  have hb : bandIdsOf (exStore ++ [(.bandDir 2, .dir), (.bandHead 2, .head .ok [])]) = [0, 1, 2] := by
    show sortNat [0, 1, 2] = [0, 1, 2]
    exact sortNat_of_sorted (by decide)
  have := h 2 (by rw [hb]; decide)
  revert this
  decide

/-- `delete_refuses`, second disjunct: a lock file. -/
example : (Store.get? (exStore ++ [(Key.gcLock, FileVal.lock)]) .gcLock).isSome = true := by decide

/-- `delete_missing_band`: `D = [0, 7]`, version 7 does not exist; version 0 is removed, then the
run fails. -/
example : DelArchOK exStore ([0] ++ 7 :: []) ∧ exStore.get? (.bandDir 7) = none := by
  refine ⟨⟨by decide, by decide, by decide, ?_⟩, by decide⟩
  have : keptOf exStore ([0] ++ 7 :: []) = [1] := by rw [keptOf, ex_bands]; decide
  rw [this]; intro b hb; exact ex_readable b (Or.inr (by simpa using hb))

/-! #### The witness for D6 -/

/-- One complete version whose only file `/a` is stored in block `aaa1`. -/
def rfStore : Store :=
  [ (.root, .dir), (.header, .header [48, 46, 54]), (.blockRoot, .dir),
    (.blockDir [97, 97, 97], .dir), (.block hA, .blockData [1, 2, 3]),
    (.bandDir 0, .dir), (.bandHead 0, .head .ok []), (.indexDir 0, .dir), (.hunkDir 0 0, .dir),
    (.hunk 0 0, .hunk [fileEntry [47, 97] [⟨hA, 0, 3⟩]]), (.bandTail 0, .tail (some 1)) ]

/-- The first read of the only index hunk fails with `Other`. -/
def rfWorld : World := { store := rfStore, faults := [⟨⟨.read, .hunk 0 0, 0⟩, .other⟩] }

theorem rf_bands : bandIdsOf rfStore = [0] := by
  show sortNat [0] = [0]; exact sortNat_of_sorted (by decide)

theorem rf_hunks : hunksListed rfStore 0 = [0] := by
  have h1 : hunkDirsOf rfStore 0 = [0] := by show sortNat [0] = [0]; exact sortNat_of_sorted (by decide)
  have h2 : hunksInDir rfStore 0 0 = [0] := by show sortNat [0] = [0]; exact sortNat_of_sorted (by decide)
  simp [hunksListed, h1, h2]

theorem rf_blocks : blockNamesOf rfStore = [hA] := by
  have h1 : blockSubdirsOf rfStore = [[97, 97, 97]] := by
    show List.mergeSort [[97, 97, 97]] _ = _
    exact List.mergeSort_singleton _
  rw [blockNamesOf, h1]
  decide

theorem rf_newest : newestComplete rfStore := by
  intro b hb
  rw [rf_bands] at hb
  have : b = 0 := by
    have h : maxNat? [0] = some 0 := by decide
    rw [h] at hb; cases hb; rfl
  subst this
  decide

/-- **`delete_readfault_refuted_nonstrict`** (D6).  With the code before the repair, on `rfStore`, a
pure garbage collection (`D = []`) during which the first read of the index hunk fails reports
success and has removed block `aaa1` — which the kept, complete version 0 names for `/a`, whose
content `[1,2,3]` read back correctly before and cannot be read back any more.  With the repaired
code the same run leaves the block alone (`delete_readfault_safe`). -/
theorem delete_readfault_refuted_nonstrict :
    (∃ st, ((deleteBands false [] {}).run rfWorld).1 = .ok st) ∧
    referencedBy rfStore (keptOf rfStore []) hA ∧
    readBack exH rfStore [⟨hA, 0, 3⟩] = some [1, 2, 3] ∧
    ((deleteBands false [] {}).run rfWorld).2.store.get? (.block hA) = none ∧
    readBack exH ((deleteBands false [] {}).run rfWorld).2.store [⟨hA, 0, 3⟩] = none ∧
    ((deleteBands true [] {}).run rfWorld).2.store.get? (.block hA) = some (.blockData [1, 2, 3]) := by
  have h := delete_readfault_nonstrict_removes_all (s := rfStore) (b := 0) (n := 0) (by decide) (by decide)
    (by decide) (by decide) rf_newest rf_bands (by decide) (by decide) rf_hunks {} rfl
  have hgone : ((deleteBands false [] {}).run rfWorld).2.store.get? (.block hA) = none :=
    h.2 hA (by rw [rf_blocks]; simp)
  have href : referencedBy rfStore (keptOf rfStore []) hA := by
    have hk : keptOf rfStore [] = [0] := by rw [keptOf, rf_bands]; decide
    rw [hk]
    exact ⟨0, by simp, 0, _, rfl, fileEntry [47, 97] [⟨hA, 0, 3⟩], by simp, ⟨hA, 0, 3⟩, by simp [fileEntry], rfl⟩
  refine ⟨h.1, href, by decide, hgone, ?_, ?_⟩
  · simp [readBack, readAddrPure, blockContent, hgone]
  · have hsafe := (delete_readfault_safe exH rfStore [] {} (by decide) [⟨⟨.read, .hunk 0 0, 0⟩, .other⟩]).blocks
      hA (referencedOutside_of_by href)
    exact hsafe.trans (by decide)

end examples

end Conserve.C05
