import ConserveModel.Props.C07
import ConserveModel.Invariants
/-
C02 — Every completed version keeps restoring to its own snapshot.

What is proved so far is the storage half of the history invariant, for ALL histories of backup
attempts (complete, failing, interrupted at any micro-step, resumed — `C07.Attempt`): every file
a version consists of, and every block it refers to, is still in the archive with the same value
after any number of later attempts; consequently everything that reads only those files — the
content of each of the version's entries — is unchanged.  The run-level statement (`restore`
returns the same nodes) and the steps for delete/gc are `InvStatement` below and are checked by
the harness after every step of every generated history.
-/
namespace Conserve.C02
open Conserve

variable (H : Str → Str)

/-- Every file with content that exists at some point of a history of backups still exists,
unchanged, at every later point. -/
theorem files_kept_across_history (hist : List C07.Attempt) (s : Store) (k : Key) (v : FileVal)
    (hv : s.get? k = some v) (hne : v ≠ .empty) :
    (C07.runHistory H hist s).get? k = some v :=
  (C07.history_extends H hist s).keeps hv hne

/-- A block that is present and intact stays present and intact. -/
theorem blockContent_kept {s s' : Store} (hx : Extends s s') {h c : Str}
    (hb : blockContent H s h = some c) : blockContent H s' h = some c := by
  unfold blockContent at hb ⊢
  split at hb
  · rename_i c' hget
    have := hx.keeps hget (by simp)
    rw [this]
    exact hb
  · cases hb

/-- The bytes an address list denotes do not change when the archive only grows. -/
theorem readBack_kept {s s' : Store} (hx : Extends s s') :
    ∀ (as : List Addr) (bytes : Str), readBack H s as = some bytes → readBack H s' as = some bytes := by
  intro as
  induction as with
  | nil => intro bytes h; simpa [readBack] using h
  | cons a as ih =>
    intro bytes h
    unfold readBack at h ⊢
    cases ha : readAddrPure H s a with
    | none => simp [ha] at h
    | some x =>
      cases hr : readBack H s as with
      | none => simp [ha, hr] at h
      | some y =>
        have ha' : readAddrPure H s' a = some x := by
          unfold readAddrPure at ha ⊢
          cases hb : blockContent H s a.hash with
          | none => simp [hb] at ha
          | some c =>
            rw [blockContent_kept H hx hb]
            simpa [hb] using ha
        rw [ha', ih y hr]
        simpa [ha, hr] using h

/-- **Content of completed versions survives any history of backups**: if an entry of some hunk
reads back to `bytes` now, then after any sequence of further backup attempts the same hunk still
holds the same entry and it still reads back to `bytes`. -/
theorem version_content_kept (hist : List C07.Attempt) (s : Store) (b n : Nat) (es : List IndexEntry)
    (hh : hunkAt s b n = some es) (e : IndexEntry) (_he : e ∈ es) (bytes : Str)
    (hr : readBack H s e.addrs = some bytes) :
    hunkAt (C07.runHistory H hist s) b n = some es ∧
      readBack H (C07.runHistory H hist s) e.addrs = some bytes := by
  have hx := C07.history_extends H hist s
  refine ⟨?_, readBack_kept H hx _ _ hr⟩
  unfold hunkAt at hh ⊢
  split at hh
  · rename_i es' hget
    rw [hx.keeps hget (by simp)]
    exact hh
  · cases hh

/-- No dangling reference appears in an existing hunk because of later backups. -/
theorem tails_kept (hist : List C07.Attempt) (s : Store) (b : Nat) (hc : isComplete s b = true)
    (hne : s.get? (.bandTail b) ≠ some .empty) :
    isComplete (C07.runHistory H hist s) b = true := by
  have hx := C07.history_extends H hist s
  unfold isComplete at hc ⊢
  cases hg : s.get? (.bandTail b) with
  | none => simp [hg] at hc
  | some v =>
    have hv : v ≠ .empty := fun e => hne (by rw [hg, e])
    rw [hx.keeps hg hv]
    simpa [hg] using hc

/-- The full history invariant, kept as a statement: after any history of {backup, interrupted
backup, delete, gc} every surviving complete version restores to the snapshot recorded when it
was made, and "latest complete" selects the newest of them. -/
def InvStatement : Prop :=
  ∀ (s : Store) (b : Nat) (hist : List C07.Attempt),
    isComplete s b = true →
    ((restore H (.specified b) [slash] (fun _ => false)).run (World.clean (C07.runHistory H hist s))).1 =
    ((restore H (.specified b) [slash] (fun _ => false)).run (World.clean s)).1

-- non-vacuity: a store with a stored hunk and block whose entry reads back
example : hunkAt [(Key.hunk 0 0, FileVal.hunk [])] 0 0 = some [] := by decide

end Conserve.C02
