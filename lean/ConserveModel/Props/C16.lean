import ConserveModel.Proofs.FsModeFull
import ConserveModel.Proofs.FsWalkTree
import ConserveModel.Proofs.FsGuard
import ConserveModel.Props.C11Walk
/-
C16 — Restore stays inside its destination and never clobbers by default; and C01 (c), the
modes of restored files.

Model: ConserveModel/Fs.lean (`Fs`, path resolution, the system calls restore issues with
Linux's follow / no-follow behaviour, `restoreToFs` = src/restore.rs `restore()` from
`ensure_dir_exists` on).  The list of `RNode`s is what the store-level half (Restore.lean)
hands over.  Property theorems only; helper lemmas live in Proofs/Fs*.lean.

Trusted, not verified: that `Fs` describes Linux (validated by the C16 harness against the
kernel: final file system of the real restore vs `restoreToFs`, path by path).
-/
namespace Conserve.C16
open Conserve

/-- `p` is the destination or lies below it. -/
abbrev under (D p : Path) : Prop := D <+: p

/-- A listing as a complete version produces it (decidable): valid apaths, strictly increasing,
and every entry but the first (the root of the selected subtree) lies below the first and has
its parent directory among the EARLIER entries, as a `Dir`. -/
abbrev TreeConsistent (nodes : List RNode) : Prop := treeConsistent nodes = true

/-- A tree-consistent listing never passes through a non-directory: every entry that is a
proper ancestor of another entry is a directory, and no path occurs twice. -/
theorem treeConsistent_confinable {nodes : List RNode} (h : TreeConsistent nodes) : Confinable nodes :=
  confinable_of_treeConsistent h

/-- **Confinement.**  Restoring a tree-consistent listing WITHOUT the overwrite option, into any
well-formed file system, whatever the symlinks in the listing point at: every node that is not
under the destination is exactly as before — content, target, mode, owner, mtime.

Side conditions, all about the CALLER's destination path (`DestPlain`): its components are real
names (no "." or ".."), none of its proper prefixes is a symlink or a file (the destination
"resolves to itself"), and the destination itself is a directory or does not exist.

The one exception is what `mkdir(destination)` does when the destination does not exist yet:
the kernel stamps the mtime of the destination's parent (`restore_confined_parent`). -/
theorem restore_confined (fs : Fs) (dest : Path) (nodes : List RNode)
    (uidOf gidOf : Str → Option Nat) (oldOrder : Bool)
    (hT : TreeConsistent nodes) (hwf : fs.wf = true) (hD : DestPlain fs dest) :
    let fs' := (restoreToFs fs dest false nodes uidOf gidOf oldOrder).1
    ∀ p, ¬ under dest p → (p ≠ dest.dropLast ∨ fs.node dest ≠ none) → fs'.node p = fs.node p :=
  restoreToFs_outside (treeConsistent_confinable hT) hwf hD

/-- Confinement when the destination already exists: no exception at all. -/
theorem restore_confined_existing (fs : Fs) (dest : Path) (nodes : List RNode)
    (uidOf gidOf : Str → Option Nat) (oldOrder : Bool)
    (hT : TreeConsistent nodes) (hwf : fs.wf = true) (hD : DestPlain fs dest)
    (hex : fs.isDir dest = true) :
    let fs' := (restoreToFs fs dest false nodes uidOf gidOf oldOrder).1
    ∀ p, ¬ under dest p → fs'.node p = fs.node p := by
  intro fs' p hp
  refine restore_confined fs dest nodes uidOf gidOf oldOrder hT hwf hD p hp (Or.inr ?_)
  obtain ⟨x, hx, _⟩ := Fs.isDir_iff.1 hex
  rw [hx]; simp

/-- The parent of the destination keeps kind, content, mode and owner; only its mtime may be
stamped (by `mkdir(destination)` when the destination was absent). -/
theorem restore_confined_parent (fs : Fs) (dest : Path) (nodes : List RNode)
    (uidOf gidOf : Str → Option Nat) (oldOrder : Bool)
    (hT : TreeConsistent nodes) (hwf : fs.wf = true) (hD : DestPlain fs dest) (hne : dest ≠ []) :
    EqMod (fs.node dest.dropLast)
      ((restoreToFs fs dest false nodes uidOf gidOf oldOrder).1.node dest.dropLast) :=
  restoreToFs_parent (treeConsistent_confinable hT) hwf hD hne

/-- Confinement under the weaker hypothesis actually used: distinct valid apaths, and every
entry that is a proper ancestor of another entry is a directory (entries whose parent is
missing from the listing are allowed: their creation fails, or `create_dir_all` makes the
parents). -/
theorem restore_confined_of_confinable (fs : Fs) (dest : Path) (nodes : List RNode)
    (uidOf gidOf : Str → Option Nat) (oldOrder : Bool)
    (hC : Confinable nodes) (hwf : fs.wf = true) (hD : DestPlain fs dest) :
    let fs' := (restoreToFs fs dest false nodes uidOf gidOf oldOrder).1
    ∀ p, ¬ under dest p → (p ≠ dest.dropLast ∨ fs.node dest ≠ none) → fs'.node p = fs.node p :=
  restoreToFs_outside hC hwf hD

/-- Confinement under the WEAKEST hypothesis on the listing (`ConfinableL`): distinct valid
apaths, and every entry that is a proper ancestor of another entry is a directory or a FILE —
never a symlink (an entry for the root apath apart: it never becomes a symlink, the destination
exists).  Below a file entry nothing can be created: the path fails to resolve with ENOTDIR. -/
theorem restore_confined_of_confinableL (fs : Fs) (dest : Path) (nodes : List RNode)
    (uidOf gidOf : Str → Option Nat) (oldOrder : Bool)
    (hC : ConfinableL nodes) (hwf : fs.wf = true) (hD : DestPlain fs dest) :
    let fs' := (restoreToFs fs dest false nodes uidOf gidOf oldOrder).1
    ∀ p, ¬ under dest p → (p ≠ dest.dropLast ∨ fs.node dest ≠ none) → fs'.node p = fs.node p :=
  restoreToFs_outsideL hC hwf hD

/-! ### Any listing: the guard of commit 7db24bb -/

/-- **The guard** (src/restore.rs since commit 7db24bb; `restoreEntries` in Restore.lean), as an
invariant with `syms`: in ANY world (any store, faults, crash point), if the per-entry loop
started with the symlink set `syms` returns `nodes`, then no node is strictly below (by
`belowSymlink`: proper ancestor by whole components, the root never counting) an element of
`syms` or the apath of a SYMLINK node that precedes it in `nodes`. -/
theorem restoreEntries_no_entry_below_symlink_syms (H : Str → Str) (syms : List Str)
    (es : List IndexEntry) (w w' : World) (nodes : List RNode)
    (h : (restoreEntries H syms es).run w = (.ok nodes, w')) :
    ∀ pre n post, nodes = pre ++ n :: post →
      ∀ s, (s ∈ syms ∨ ∃ m ∈ pre, m.kind = .symlink ∧ m.apath = s) →
        belowSymlink [s] n.apath = false := by
  intro pre n post e s hs
  have := ((restoreEntries_post H es syms).run w nodes w' h).1
  rw [e] at this
  exact guardedFrom_split pre syms n post this s hs

/-- The guard for `restore()` itself (`syms = []`), by whole components: no returned node has a
proper ancestor, other than the root, that is the apath of an EARLIER SYMLINK node (apaths
valid, as every listing's are). -/
theorem restoreEntries_no_entry_below_symlink (H : Str → Str) (es : List IndexEntry) (w w' : World)
    (nodes : List RNode) (h : (restoreEntries H [] es).run w = (.ok nodes, w')) :
    ∀ pre n post, nodes = pre ++ n :: post → ∀ m ∈ pre, m.kind = .symlink →
      isValid m.apath = true → isValid n.apath = true → comps m ≠ [] →
      comps m <+: comps n → comps m = comps n := by
  intro pre n post e m hm hk hvm hvn hroot hpre
  apply Classical.byContradiction
  intro hne
  have h1 := restoreEntries_no_entry_below_symlink_syms H [] es w w' nodes h pre n post e m.apath
    (Or.inr ⟨m, hm, hk, rfl⟩)
  have h2 := belowSymlink_of_mem (syms := [m.apath]) List.mem_cons_self hvm hvn hroot hpre hne
  rw [h1] at h2; cases h2

/-- What `restoreEntries` returns for a listing with valid, strictly increasing apaths — what
`C08.listed_valid` / `C08.stitch_sorted` give for ANY version, complete or stitched from an
interrupted one — satisfies `ConfinableL`: entries may still lie below a FILE entry of the same
listing (harmless), never below a symlink entry. -/
theorem restoreEntries_confinableL (H : Str → Str) (es : List IndexEntry) (w w' : World)
    (nodes : List RNode)
    (hv : ∀ e ∈ es, isValid e.apath = true)
    (hs : es.Pairwise fun a b => apathCmp a.apath b.apath = .lt)
    (h : (restoreEntries H [] es).run w = (.ok nodes, w')) : ConfinableL nodes :=
  guardedOut_confinableL hv hs ((restoreEntries_post H es []).run w nodes w' h)

/-- **Confinement for any listing** (complete or interrupted version): for every list of index
entries with valid, strictly increasing apaths, in any world, whatever nodes the per-entry loop
of `restore()` hands to the file system, restoring them without the overwrite option changes
nothing outside the destination (same side conditions on the caller's destination path as
`restore_confined`; same single exception, the mtime of the parent of an absent destination). -/
theorem restore_confined_any_listing (H : Str → Str) (es : List IndexEntry) (w w' : World)
    (nodes : List RNode) (fs : Fs) (dest : Path) (uidOf gidOf : Str → Option Nat) (oldOrder : Bool)
    (hv : ∀ e ∈ es, isValid e.apath = true)
    (hs : es.Pairwise fun a b => apathCmp a.apath b.apath = .lt)
    (h : (restoreEntries H [] es).run w = (.ok nodes, w'))
    (hwf : fs.wf = true) (hD : DestPlain fs dest) :
    let fs' := (restoreToFs fs dest false nodes uidOf gidOf oldOrder).1
    (∀ p, ¬ under dest p → (p ≠ dest.dropLast ∨ fs.node dest ≠ none) → fs'.node p = fs.node p) ∧
    (dest ≠ [] → EqMod (fs.node dest.dropLast) (fs'.node dest.dropLast)) :=
  have hC := restoreEntries_confinableL H es w w' nodes hv hs h
  ⟨restoreToFs_outsideL hC hwf hD, restoreToFs_parentL hC hwf hD⟩

/-- **No clobbering by default.**  Without the overwrite option, a destination that exists and
has at least one entry is refused with `DestinationNotEmpty`, no error goes to the monitor, and
the file system is the SAME afterwards (not a single node touched), for ANY listing.
`dest.length < resolveFuel` only says the path is shorter than the resolution step bound. -/
theorem restore_refuses_nonempty (fs : Fs) (dest : Path) (nodes : List RNode)
    (uidOf gidOf : Str → Option Nat) (oldOrder : Bool)
    (hD : DestPlain fs dest) (hlen : dest.length < resolveFuel)
    (hdir : fs.isDir dest = true) (hne : fs.hasChild dest = true) :
    restoreToFs fs dest false nodes uidOf gidOf oldOrder = (fs, [], some .destinationNotEmpty) :=
  restoreToFs_refuses hD hlen hdir hne

/-! ### C01 (c): modes of restored files -/

/-- **Modes are restored exactly** (C01 c; order owner-then-mode, commit 1d92d82).  Restoring a
tree-consistent listing whose first entry — the root of the selected subtree — is a directory,
into an absent or empty destination, as root (the model has no permission checks), whatever the
stored owners resolve to: every complete file entry with a stored mode `m < 0o10000` (setuid,
setgid and sticky included) is, at the end of the restore, a regular file at its place with
mode exactly `m`.  This includes that every call made for it succeeds and that nothing restore
does later (other entries, the deferred directory metadata) changes it.

`hlen` says the restored paths are shorter than the resolution step bound (`resolveFuel`,
standing for PATH_MAX); `DestPlain` is the caller's obligation as in `restore_confined`. -/
theorem file_mode_restored (fs : Fs) (dest : Path) (nodes : List RNode)
    (uidOf gidOf : Str → Option Nat) (m : Nat)
    (hT : TreeConsistent nodes) (hhead : ∀ h ∈ nodes.head?, h.kind = .dir)
    (hwf : fs.wf = true) (hD : DestPlain fs dest)
    (hlen : ∀ n ∈ nodes, (dest ++ comps n).length < resolveFuel)
    (hempty : fs.node dest = none ∨ fs.hasChild dest = false) :
    ∀ n ∈ nodes, n.kind = .file → n.complete = true → n.unixMode = some m → m < 0o10000 →
      ∃ x, (restoreToFs fs dest false nodes uidOf gidOf).1.node (dest ++ comps n) = some x ∧
        x.kind = .file ∧ x.mode = m :=
  restoreToFs_mode_full hT hhead hwf hD hlen hempty

/-- The same conclusion for ANY destination the restore accepted (e.g. with the first entry a
file), from the observable fact that the restore reported no error: empty monitor list and
`Ok(())`. -/
theorem file_mode_restored_of_no_errors (fs : Fs) (dest : Path) (nodes : List RNode)
    (uidOf gidOf : Str → Option Nat) (m : Nat)
    (hT : TreeConsistent nodes) (hwf : fs.wf = true) (hD : DestPlain fs dest)
    (hok : (restoreToFs fs dest false nodes uidOf gidOf).2 = ([], none)) :
    ∀ n ∈ nodes, n.kind = .file → n.complete = true → n.unixMode = some m → m < 0o10000 →
      ∃ x, (restoreToFs fs dest false nodes uidOf gidOf).1.node (dest ++ comps n) = some x ∧
        x.kind = .file ∧ x.mode = m :=
  restoreToFs_mode (treeConsistent_confinable hT) hwf hD hok

/-! ### Concrete file systems -/

private def sSandbox : Str := [115, 97, 110, 100, 98, 111, 120]
private def sDest : Str := [100, 101, 115, 116]
private def sOutside : Str := [111, 117, 116, 115, 105, 100, 101]
private def sA : Str := [97]
private def sB : Str := [98]

private def t0 : Mtime := .at 1600000000000000000

/-- `/sandbox/dest` (empty) and `/sandbox/outside` (a directory with a file `b`… not yet). -/
private def fsD11 : Fs :=
  { nodes := [([], .dir 0o755 0 0 t0), ([sSandbox], .dir 0o755 0 0 t0),
      ([sSandbox, sDest], .dir 0o755 0 0 t0), ([sSandbox, sOutside], .dir 0o750 8 8 t0)] }

private def destD11 : Path := [sSandbox, sDest]

/-- The stitched listing of the interrupted version (D11): `/` dir, `/a` symlink to
`../outside` (from the new, interrupted band), `/a/b` file (from the older band). -/
private def nodesD11 : List RNode :=
  [{ apath := [47], kind := .dir, unixMode := some 0o755 },
   { apath := [47, 97], kind := .symlink, target := some ([46, 46, 47] ++ sOutside) },
   { apath := [47, 97, 47, 98], kind := .file, content := [104, 105], unixMode := some 0o644 }]

private def nobody : Str → Option Nat := fun _ => none

/-- Confinement claimed for ARBITRARY valid, strictly increasing lists of nodes handed to the
file system UNGUARDED — what `restore()` did BEFORE commit 7db24bb with the stitched listing of
an interrupted version — even into an existing empty destination. -/
def C16InterruptedStatement : Prop :=
  ∀ (fs : Fs) (dest : Path) (nodes : List RNode) (uidOf gidOf : Str → Option Nat),
    (∀ n ∈ nodes, isValid n.apath = true) →
    nodes.Pairwise (fun a b => apathCmp a.apath b.apath = .lt) →
    fs.wf = true → DestPlain fs dest → fs.isDir dest = true →
    ∀ p, ¬ under dest p → (restoreToFs fs dest false nodes uidOf gidOf).1.node p = fs.node p

/-- **D11, the behaviour of the code BEFORE commit 7db24bb** (`restoreToFs` applied to the
unguarded node list).  For the listing `/` (dir), `/a` (symlink → `../outside`), `/a/b` (file)
restore created `/sandbox/outside/b`, beside the destination `/sandbox/dest`, and reported no
error.  Since 7db24bb the per-entry loop drops `/a/b` (`d11_guarded`, below) and
`restore_confined_any_listing` holds. -/
theorem c16_interrupted_refuted : ¬ C16InterruptedStatement := by
  intro h
  have := h fsD11 destD11 nodesD11 nobody nobody (by decide) (by decide) (by decide)
    (destPlain_of_B (by decide)) (by decide) [sSandbox, sOutside, sB] (by decide)
  revert this
  decide

/-- The same theorem under the name that says what it is about. -/
theorem c16_unguarded_refuted_before_7db24bb : ¬ C16InterruptedStatement := c16_interrupted_refuted

/-- What exactly happened in the D11 witness: the file lands in `outside`, whose mtime is stamped,
and restore is silent about it. -/
example : (restoreToFs fsD11 destD11 false nodesD11 nobody nobody).2 = ([], none) := by decide
example : ((restoreToFs fsD11 destD11 false nodesD11 nobody nobody).1.node [sSandbox, sOutside, sB]) =
    some (.file [104, 105] 0o644 0 0 (.at 0)) := by decide
example : ((restoreToFs fsD11 destD11 false nodesD11 nobody nobody).1.node [sSandbox, sOutside]) =
    some (.dir 0o750 8 8 .now) := by decide
/-- The D11 listing is valid and sorted but not tree-consistent. -/
example : ¬ TreeConsistent nodesD11 := by decide

/-! ### D11 after the repair -/

/-- The D11 listing as index entries (the file has no content addresses). -/
private def esD11 : List IndexEntry :=
  [{ apath := [47], kind := .dir, mtime := 0, mtimeNanos := 0, unixMode := some 0o755, user := none,
     group := none, addrs := [], target := none },
   { apath := [47, 97], kind := .symlink, mtime := 0, mtimeNanos := 0, unixMode := none, user := none,
     group := none, addrs := [], target := some ([46, 46, 47] ++ sOutside) },
   { apath := [47, 97, 47, 98], kind := .file, mtime := 0, mtimeNanos := 0, unixMode := some 0o644,
     user := none, group := none, addrs := [], target := none }]

private def guardedD11 : List RNode :=
  [{ apath := [47], kind := .dir, unixMode := some 0o755 },
   { apath := [47, 97], kind := .symlink, target := some ([46, 46, 47] ++ sOutside) }]

/-- **D11 repaired.**  For the D11 witness listing the per-entry loop of `restore()` now returns
`/` and `/a` only — `/a/b`, below the symlink `/a`, is dropped and reported as
`InvalidMetadata` — and restoring these nodes leaves `/sandbox/outside` exactly as it was and
creates no `/sandbox/outside/b`. -/
theorem d11_guarded :
    ((restoreEntries id [] esD11).run (World.clean [])).1 = .ok guardedD11 ∧
    ((restoreEntries id [] esD11).run (World.clean [])).2.events = [.error .invalidMetadata] ∧
    (restoreToFs fsD11 destD11 false guardedD11 nobody nobody).1.node [sSandbox, sOutside] =
      fsD11.node [sSandbox, sOutside] ∧
    (restoreToFs fsD11 destD11 false guardedD11 nobody nobody).1.node [sSandbox, sOutside, sB] = none ∧
    (restoreToFs fsD11 destD11 false guardedD11 nobody nobody).2 = ([], none) :=
  ⟨rfl, rfl, by decide, by decide, by decide⟩

/-- `restore_confined_any_listing` applies to the D11 listing (its hypotheses are satisfiable):
nothing outside `/sandbox/dest` changes. -/
example : ∀ p, ¬ under destD11 p →
    (restoreToFs fsD11 destD11 false guardedD11 nobody nobody).1.node p = fsD11.node p := by
  intro p hp
  have h := (restore_confined_any_listing id esD11 (World.clean []) _ guardedD11 fsD11 destD11 nobody nobody
    false (by decide) (by decide) rfl (by decide) (destPlain_of_B (by decide))).1
  exact h p hp (Or.inr (by decide))

/-- A listing in which an entry lies below a FILE entry (`/f` file, `/f/x` file) is confinable
in the weak sense, and restore reports ENOTDIR for the second entry. -/
example : (restoreToFs fsD11 destD11 false
    [{ apath := [47], kind := .dir }, { apath := [47, 102], kind := .file, content := [1] },
     { apath := [47, 102, 47, 120], kind := .file, content := [2] }] nobody nobody).2 =
    ([{ what := .restoreFile, apath := [47, 102, 47, 120], errno := some .ENOTDIR }], none) := by decide

/-! ### Non-vacuity -/

/-- A complete listing with symlinks pointing out of the destination in every way: absolute,
upward to a directory, upward to a file, `..`, `.`, dangling, to another entry. -/
private def nodesOk : List RNode :=
  [{ apath := [47], kind := .dir, unixMode := some 0o700, mtime := 5 },
   { apath := [47, 97], kind := .symlink, target := some ([46, 46, 47] ++ sOutside) },
   { apath := [47, 98], kind := .symlink, target := some ([47] ++ sSandbox ++ [47] ++ sOutside) },
   { apath := [47, 99], kind := .symlink, target := some [46, 46] },
   { apath := [47, 100], kind := .dir, unixMode := some 0o2755, mtime := 7, mtimeNanos := 1 },
   { apath := [47, 101], kind := .file, content := [1, 2, 3], unixMode := some 0o6755,
     user := some [98, 105, 110], mtime := 9 },
   { apath := [47, 100, 47, 120], kind := .symlink, target := some [46, 46, 47, 46, 46, 47, 111, 117, 116, 115, 105, 100, 101] },
   { apath := [47, 100, 47, 121], kind := .file, content := [9], unixMode := some 0o4711 }]

private def uidBin : Str → Option Nat := fun s => if s = [98, 105, 110] then some 2 else none

example : TreeConsistent nodesOk := by decide
example : fsD11.wf = true := by decide
example : DestPlain fsD11 destD11 := destPlain_of_B (by decide)
example : (restoreToFs fsD11 destD11 false nodesOk uidBin uidBin).2 = ([], none) := by decide
/-- The setuid+setgid file owned by `bin` comes back with mode 0o6755, owner 2, its mtime. -/
example : (restoreToFs fsD11 destD11 false nodesOk uidBin uidBin).1.node (destD11 ++ [[101]]) =
    some (.file [1, 2, 3] 0o6755 2 0 (.at 9000000000)) := by decide
/-- Directory metadata is applied at the end (`apply_deferrals`), after the children. -/
example : (restoreToFs fsD11 destD11 false nodesOk uidBin uidBin).1.node (destD11 ++ [[100]]) =
    some (.dir 0o2755 0 0 (.at 7000000001)) := by decide
/-- `outside` is exactly as before. -/
example : (restoreToFs fsD11 destD11 false nodesOk uidBin uidBin).1.node [sSandbox, sOutside] =
    fsD11.node [sSandbox, sOutside] := by decide

/-- An absent destination: it is created, and only its parent's mtime changes outside. -/
private def fsAbsent : Fs :=
  { nodes := [([], .dir 0o755 0 0 t0), ([sSandbox], .dir 0o755 0 0 t0),
      ([sSandbox, sOutside], .dir 0o750 8 8 t0)] }
example : DestPlain fsAbsent destD11 := destPlain_of_B (by decide)
example : (restoreToFs fsAbsent destD11 false nodesOk uidBin uidBin).1.node [sSandbox] =
    some (.dir 0o755 0 0 .now) := by decide
example : (restoreToFs fsAbsent destD11 false nodesOk uidBin uidBin).2 = ([], none) := by decide

/-- A non-empty destination is refused and nothing is touched. -/
private def fsFull : Fs :=
  { nodes := [([], .dir 0o755 0 0 t0), ([sSandbox], .dir 0o755 0 0 t0),
      ([sSandbox, sDest], .dir 0o755 0 0 t0), ([sSandbox, sDest, sA], .file [7] 0o600 1 1 t0)] }
example : fsFull.isDir destD11 = true ∧ fsFull.hasChild destD11 = true ∧
    destD11.length < resolveFuel := by decide
example : restoreToFs fsFull destD11 false nodesOk uidBin uidBin =
    (fsFull, [], some .destinationNotEmpty) := by decide
/-- With the overwrite option the same restore goes ahead (and `/a` there is EEXIST). -/
example : (restoreToFs fsFull destD11 true nodesOk uidBin uidBin).2 =
    ([{ what := .restoreSymlink, apath := [47, 97], errno := some .EEXIST }], none) := by decide

/-- Without the hypothesis on the first entry the statement is false: a listing that consists
of one file two levels down (`restore --only /d/y` of a file) cannot create it, its parent is
missing; the real code reports `RestoreFile … NotFound` likewise. -/
example : (restoreToFs fsD11 destD11 false
    [{ apath := [47, 100, 47, 121], kind := .file, unixMode := some 0o644 }] nobody nobody).2 =
    ([{ what := .restoreFile, apath := [47, 100, 47, 121], errno := some .ENOENT }], none) := by decide

/-! ### The order before commit 1d92d82 -/

private def nodesSuid : List RNode :=
  [{ apath := [47], kind := .dir, unixMode := some 0o755 },
   { apath := [47, 102], kind := .file, content := [1], unixMode := some 0o4755,
     user := some [98, 105, 110] }]

/-- **D2.**  With chmod-then-lchown (the order before commit 1d92d82) a file stored with mode
0o4755 and an owner that resolves ends as 0o755: `lchown` clears S_ISUID after the mode was set. -/
theorem file_mode_refuted_old_order :
    (restoreToFs fsD11 destD11 false nodesSuid uidBin uidBin (oldOrder := true)).1.node
        (destD11 ++ [[102]]) = some (.file [1] 0o755 2 0 (.at 0)) ∧
    (restoreToFs fsD11 destD11 false nodesSuid uidBin uidBin (oldOrder := true)).2 = ([], none) := by
  decide

/-- The same restore with the repaired order gives 0o4755. -/
example : (restoreToFs fsD11 destD11 false nodesSuid uidBin uidBin).1.node (destD11 ++ [[102]]) =
    some (.file [1] 0o4755 2 0 (.at 0)) := by decide

/-- On Linux the old order lost the bit even when NO owner resolved: `lchown(-1, -1)` still
clears S_ISUID (observed on 6.18; `chown_common`). -/
example : (restoreToFs fsD11 destD11 false nodesSuid nobody nobody (oldOrder := true)).1.node
    (destD11 ++ [[102]]) = some (.file [1] 0o755 0 0 (.at 0)) := by decide

example : clearSetid 0o6755 = 0o755 ∧ clearSetid 0o6745 = 0o2745 ∧ clearSetid 0o7777 = 0o1777 ∧
    clearSetid 0o7767 = 0o3767 := by decide

/-- `file_mode_restored` applies to the listing above (its hypotheses are satisfiable). -/
example : ∃ x, (restoreToFs fsD11 destD11 false nodesOk uidBin uidBin).1.node
    (destD11 ++ comps { apath := [47, 100, 47, 121], kind := .file, content := [9], unixMode := some 0o4711 })
      = some x ∧ x.kind = .file ∧ x.mode = 0o4711 :=
  file_mode_restored fsD11 destD11 nodesOk uidBin uidBin 0o4711 (by decide) (by decide) (by decide)
    (destPlain_of_B (by decide)) (by decide) (by decide) _ (by decide) rfl rfl rfl (by decide)

/-! ### The list-level fact `complete_band_consistent` will need -/

/-- **The walk of a well-formed tree is tree-consistent**: for any source tree (any depth and
width), any exclusion predicate, and any translation `g` of walk entries into restore nodes
that keeps apath and kind (whatever it does with content and metadata), the list of nodes in
walk order satisfies `TreeConsistent` — every entry's parent directory was emitted earlier, as
a directory.  (A complete band's index is such a list; that a stored listing equals it needs
the backup invariants and is not part of this file.) -/
theorem walk_treeConsistent (T : Node) (excl : Str → Bool) (hwf : T.WF = true)
    (g : SrcEntry → RNode) (hg : ∀ e, (g e).apath = e.apath ∧ (g e).kind = e.kind) :
    TreeConsistent ((C11.walk T excl).map g) := by
  have hv := C11.walk_valid T excl hwf
  have hs := C11.walk_sorted T excl hwf
  unfold TreeConsistent treeConsistent
  simp only [Bool.and_eq_true, List.all_eq_true, decide_eq_true_eq]
  refine ⟨⟨?_, ?_⟩, ?_⟩
  · intro n hn
    obtain ⟨e, he, rfl⟩ := List.mem_map.1 hn
    rw [(hg e).1]; exact hv e he
  · rw [List.pairwise_map] at hs ⊢
    exact hs.imp fun {a b} h => by rw [(hg a).1, (hg b).1]; exact h
  · unfold C11.walk
    rw [C11.walk_deque_eq_rec, walkRec_eq, List.map_cons]
    show tcFrom (g (T.entry [slash])) [g (T.entry [slash])] _ = true
    by_cases hd : T.isDir = true
    · have hP := walkBelow_parents excl T.kids [] (fun _ h => nomatch h) (Node.WF_kids hwf)
      have := tcFrom_of_PBfrom g hg (T.entry [slash]) (by rw [Node.entry_apath]; rfl)
        (Node.entry_kind_dir hd _) (T.kids.walkBelow excl [slash]) [T.entry [slash]]
        List.mem_cons_self
        (PBfrom_ctx _ [] _ hP ⟨_, List.mem_cons_self, Node.entry_kind_dir hd _, by rw [Node.entry_apath]; rfl⟩
          (fun _ h => nomatch h))
      simpa using this
    · have : T.kids.walkBelow excl [slash] = [] := by
        cases T <;> simp_all [Node.isDir, Node.kids, Forest.walkBelow, Forest.items, assemble, sortBy]
      rw [this]; rfl

/-- Non-vacuity: a tree with a symlink beside a directory of the same prefix, walked and
translated with empty metadata. -/
private def tWalk : Node :=
  .dir {} (.ofList [([97], .dir {} (.ofList [([98], .file {} 0 [])])), ([97, 46], .symlink {} [46, 46])])

example : tWalk.WF = true := by decide
example : ((C11.walk tWalk C11.noExcl).map fun e => ({ apath := e.apath, kind := e.kind } : RNode)).map (·.apath) =
    [[47], [47, 97], [47, 97, 46], [47, 97, 47, 98]] := by decide

end Conserve.C16
