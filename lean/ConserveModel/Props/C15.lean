import ConserveModel.Proofs.GlobExclude
import ConserveModel.Proofs.GlobAnchor
import ConserveModel.Proofs.ApathPrefix
/-
C15 — Exclusions mean the same thing at backup, list and restore time.

This file holds the part of C15 that is about the exclusion test itself (src/excludes.rs on top
of globset; model in ConserveModel/Glob.lean, tied to the real `Exclude` by harness/src/c15.rs):

* `suffix_rule`, `suffix_cases`     what the second glob `Q/**` that `add_pattern` adds means;
* `unanchored_rule_partial`         what the "**/" put in front of an unanchored pattern means;
* `excluded_iff`                    a path is excluded iff it, or a prefix of it that ends just before a
                                    '/', matches one of the patterns (in its anchored form `Q`);
* `excl_desc_closed`                so exclusion is inherited by everything below an excluded path;
* `prune_eq_filter`                 so a walk that does not descend into excluded directories (backup)
                                    keeps exactly the paths that a filter over the full listing keeps
                                    (list / restore) — on lists; the tree-walk statement
                                    `walk_prune_eq_filter` is in the tree model and uses this lemma;
* `root_not_closed`                 the root is outside all this, exactly as in the property text.

All theorems are for ALL patterns that globset accepts within the modelled grammar (literals,
`?`, `*`, `**` in every position, classes, backslash escapes; not `{..}` alternates) unless the name
ends in `_partial`, and for all byte strings as paths (validity of the apath is not needed).
-/
namespace Conserve.C15
open Conserve

/-- `p` is strictly below `a` by whole components, at the level of bytes: `p = a ++ "/" ++ z`.
For apaths other than the root this is descent by whole components (`strictDesc_iff_ancestor`). -/
def StrictDesc (a p : Str) : Prop := ∃ z, p = a ++ slash :: z

/-- `y` is `x` or a prefix of `x` that ends just before a '/' (for an apath `/a/b`: "", "/a", "/a/b";
the empty prefix stands for the root directory — globset sees the root's children as "" ++ "/" ++ name). -/
def SelfOrAbove (y x : Str) : Prop := y = x ∨ StrictDesc y x

/-! ### The glob `Q/**` -/

/-- The decidable class G of globs for which appending "/**" appends a `RecursiveSuffix` token and
which are not just `**`: every glob that parses and does not end in "**" is in G
(`inG_of_not_endsWith`), among them globs ending in '/'. -/
def inG (p : Str) : Bool :=
  match parseGlob p with
  | none => false
  | some ts => ts != [.recPrefix] && parseGlob (p ++ slashStarStar) == some (ts ++ [.recSuffix])

/-- **suffix_rule.** For `p` in G, the glob `p/**` matches `x` iff `p` matches a prefix `y` of `x` that
is followed by a '/': `p/**` = "something strictly below a match of `p`". -/
theorem suffix_rule (p : Str) (hG : inG p = true) (x : Str) :
    globMatch (p ++ slashStarStar) x = true ↔ ∃ y z, x = y ++ slash :: z ∧ globMatch p y = true := by
  unfold inG at hG
  cases hp : parseGlob p with
  | none => simp [hp] at hG
  | some ts =>
    simp only [hp, Bool.and_eq_true, bne_iff_ne, ne_eq, beq_iff_eq] at hG
    obtain ⟨hne, hs⟩ := hG
    simp only [globMatch_of_parse hp, globMatch_of_parse hs]
    exact matchToks_snoc_recSuffix hne x

/-- Globs that parse, do not end in "**" and are not equivalent to `**` are in G. -/
theorem inG_of_not_endsWith {p : Str} {ts : List Tok} (hp : parseGlob p = some ts)
    (hne : ts ≠ [.recPrefix]) (hend : ¬ ∃ q, p = q ++ [42, 42]) : inG p = true := by
  unfold inG
  simp [hp, hne, parseGlob_slashStarStar_of_not_endsWith hp hend]

/-- **suffix_cases.** Every glob `p` that parses falls in one of three cases: it is in G (the suffix
rule holds); or it is equivalent to `**` and matches everything; or it ends in a `**` component, and
then `p/**` has the same tokens as `p`, and `p` already matches everything below what it matches. -/
theorem suffix_cases {p : Str} {ts : List Tok} (hp : parseGlob p = some ts) :
    inG p = true ∨ (∀ x, globMatch p x = true) ∨
    (parseGlob (p ++ slashStarStar) = some ts ∧
      ∀ a z, globMatch p a = true → globMatch p (a ++ slash :: z) = true) := by
  by_cases hrp : ts = [.recPrefix]
  · right; left; intro x; rw [globMatch_of_parse hp, hrp]; exact matchToks_recPrefix x
  · rcases parseGlob_slashStarStar hp with h1 | ⟨h1, h2⟩
    · left; unfold inG; simp [hp, hrp, h1]
    · right; right
      refine ⟨h1, ?_⟩
      rcases h2 with h2 | ⟨t0, rfl⟩
      · exact absurd h2 hrp
      · intro a z ha
        rw [globMatch_of_parse hp] at ha ⊢
        exact matchToks_recSuffix_closed t0 a z ha

/-! ### The "**/" in front of unanchored patterns -/

/-- Anchored patterns are used as they are. -/
theorem anchorPattern_anchored (P : Str) (h : P.head? = some slash) : anchorPattern P = P := by
  simp [anchorPattern, h]

/-- Unanchored patterns get "**/" in front. -/
theorem anchorPattern_unanchored (P : Str) (h : P.head? ≠ some slash) :
    anchorPattern P = starStarSlash ++ P := by
  simp [anchorPattern, h, starStarSlash]

/-- **unanchored_rule_partial** (side condition: the pattern is not empty and does not itself start
with '*'; such patterns merge with the "**/" in front of them).  `**/P` matches `y` iff `P` matches
all of `y` or the part of `y` after one of its slashes — `P` matches "at any depth". -/
theorem unanchored_rule_partial (P : Str) (h0 : P ≠ []) (hstar : P.head? ≠ some 42) (y : Str) :
    globMatch (starStarSlash ++ P) y = true ↔
      ∃ u v, y = u ++ v ∧ (u = [] ∨ ∃ w, u = w ++ [slash]) ∧ globMatch P v = true := by
  cases hp : parseGlob P with
  | none =>
    simp [globMatch, hp, parseGlob_starStarSlash_none hstar hp]
  | some ts =>
    have hp' := parseGlob_starStarSlash hstar hp
    have hR : RPHead (.recPrefix :: ts) := parseGlob_RPHead hp'
    have hts : ts ≠ [.recPrefix] := by
      intro h; subst h; exact hR (by simp)
    have hne : (Tok.recPrefix :: ts) ≠ [.recPrefix] := by
      intro h
      exact parseGlob_toks_ne_nil h0 hstar hp (by simpa using h)
    simp only [globMatch_of_parse hp, globMatch_of_parse hp', matchToks_of_ne hne, matchToks_of_ne hts]
    exact matchT_cons .recPrefix ts y

/-! ### Exclude -/

/-- `Exclude::from_strings` succeeds iff every pattern, in its anchored form, is accepted by globset
(the second glob `Q/**` can then never fail). -/
theorem fromStrings_isSome_iff (pats : List Str) :
    (∃ E, Exclude.fromStrings pats = some E) ↔ ∀ P ∈ pats, ∃ ts, parseGlob (anchorPattern P) = some ts := by
  unfold Exclude.fromStrings
  constructor
  · rintro ⟨E, h⟩
    cases hgs : parseAll (pats.flatMap expandPattern) with
    | none => simp [hgs] at h
    | some gs => exact (parseAll_expand hgs).1
  · intro h
    obtain ⟨gs, hgs⟩ := parseAll_expand_isSome h
    exact ⟨⟨gs⟩, by simp [hgs]⟩

/-- **excluded_iff.** A path is excluded iff it, or a prefix of it ending just before a '/' (an
ancestor by whole components; "" for the root directory), matches one of the patterns in its
anchored form (`P` itself if it starts with '/', else `**/P`). Nothing else is dropped or kept. -/
theorem excluded_iff (pats : List Str) (E : Exclude) (h : Exclude.fromStrings pats = some E) (x : Str) :
    E.matches x = true ↔
      ∃ P ∈ pats, ∃ y, SelfOrAbove y x ∧ globMatch (anchorPattern P) y = true := by
  unfold Exclude.fromStrings at h
  cases hgs : parseAll (pats.flatMap expandPattern) with
  | none => simp [hgs] at h
  | some gs =>
    simp [hgs] at h
    subst h
    obtain ⟨hparse, hex⟩ := parseAll_expand hgs
    show excluded gs x = true ↔ _
    rw [hex x]
    constructor
    · rintro ⟨P, hP, hm⟩
      obtain ⟨ts, hts⟩ := hparse P hP
      obtain ⟨y, hy, hmy⟩ := (globPair_iff hts x).mp hm
      refine ⟨P, hP, y, ?_, hmy⟩
      rcases hy with rfl | ⟨z, rfl⟩
      · exact Or.inl rfl
      · exact Or.inr ⟨z, rfl⟩
    · rintro ⟨P, hP, y, hy, hmy⟩
      obtain ⟨ts, hts⟩ := hparse P hP
      refine ⟨P, hP, (globPair_iff hts x).mpr ⟨y, ?_, hmy⟩⟩
      rcases hy with rfl | ⟨z, rfl⟩
      · exact Or.inl rfl
      · exact Or.inr ⟨z, rfl⟩

/-- **excl_desc_closed.** Everything strictly below an excluded path is excluded — for every set of
patterns from which an `Exclude` can be built. -/
theorem excl_desc_closed (pats : List Str) (E : Exclude) (h : Exclude.fromStrings pats = some E)
    (a p : Str) (ha : E.matches a = true) (hd : StrictDesc a p) : E.matches p = true := by
  rw [excluded_iff pats E h] at ha ⊢
  obtain ⟨P, hP, y, hy, hm⟩ := ha
  obtain ⟨z, rfl⟩ := hd
  refine ⟨P, hP, y, Or.inr ?_, hm⟩
  rcases hy with rfl | ⟨w, rfl⟩
  · exact ⟨z, rfl⟩
  · exact ⟨w ++ slash :: z, by simp⟩

/-- The byte-level `StrictDesc` is descent by whole components for apaths below the root:
for `a = "/…"` other than "/" and `p = "/…"`, `a` is a proper ancestor of `p` iff `p = a ++ "/" ++ z`. -/
theorem strictDesc_iff_ancestor (rs rp : Str) (hrs : rs ≠ []) :
    StrictDesc (slash :: rs) (slash :: rp) ↔
      (isAncestorOrSelf (slash :: rs) (slash :: rp) = true ∧ slash :: rs ≠ slash :: rp) := by
  unfold StrictDesc isAncestorOrSelf
  rw [components_cons rs hrs]
  by_cases hrp : rp = []
  · subst hrp
    have hne := splitSlash_ne_nil rs
    constructor
    · rintro ⟨z, hz⟩; simp at hz
    · rintro ⟨h, _⟩
      cases hsp : splitSlash rs with
      | nil => exact absurd hsp hne
      | cons q qs => rw [hsp] at h; simp [components] at h
  · rw [components_cons rp hrp, splitSlash_prefix_iff]
    constructor
    · rintro ⟨z, hz⟩
      simp only [List.cons_append, List.cons.injEq, true_and] at hz
      subst hz
      refine ⟨Or.inr ⟨z, rfl⟩, ?_⟩
      intro h
      have := congrArg List.length h
      simp at this
    · rintro ⟨h | ⟨y, h⟩, hne⟩
      · subst h; exact absurd rfl hne
      · exact ⟨y, by rw [h]; simp⟩

/-- `excl_desc_closed` for apaths: if `a = "/…"` is not the root and is a proper ancestor (by whole
components) of `p = "/…"`, and `a` is excluded, then `p` is excluded. -/
theorem excl_desc_closed_apath (pats : List Str) (E : Exclude) (h : Exclude.fromStrings pats = some E)
    (rs rp : Str) (hrs : rs ≠ []) (ha : E.matches (slash :: rs) = true)
    (hanc : isAncestorOrSelf (slash :: rs) (slash :: rp) = true) (hne : slash :: rs ≠ slash :: rp) :
    E.matches (slash :: rp) = true :=
  excl_desc_closed pats E h _ _ ha ((strictDesc_iff_ancestor rs rp hrs).mpr ⟨hanc, hne⟩)

/-! ### Pruning (backup) = filtering (list, restore), on lists -/

/-- **prune_eq_filter.** Take any list of paths in which every path's parent directory (if it is
not directly below the root) occurs earlier — e.g. all entries below the root in walk order.  The walk
that skips the children of excluded directories and otherwise drops excluded entries (`pruneWalk`)
keeps exactly the entries that are not excluded. -/
theorem prune_eq_filter (pats : List Str) (E : Exclude) (h : Exclude.fromStrings pats = some E)
    (xs : List Str) (hclosed : ParentClosed parentOf [] xs) :
    pruneWalk E.matches parentOf [] xs = xs.filter fun x => !E.matches x := by
  apply pruneWalk_eq_filter E.matches parentOf _ [] [] xs (by simp) hclosed
  intro x q hq hex
  obtain ⟨n, rfl⟩ := parentOf_eq hq
  exact excl_desc_closed pats E h q _ hex ⟨n, rfl⟩

/-! ### The root -/

/-- The root is excepted, as in the property text ("entries below the root"): the pattern "/" excludes
the root itself but nothing below it — the children of the root are `"" ++ "/" ++ name` for globset, not
`"/" ++ "/" ++ name`.  (The backup walk never tests the root; listing and restore do.) -/
theorem root_not_closed :
    (Exclude.fromStrings [[47]]).map (fun E => (E.matches [47], E.matches [47, 97])) = some (true, false) := by
  decide

/-- Pattern "*" (that is `**/*`) matches the root as well as everything else. -/
theorem star_matches_root :
    (Exclude.fromStrings [[42]]).map (fun E => (E.matches [47], E.matches [47, 97], E.matches [47, 97, 47, 98]))
      = some (true, true, true) := by
  decide

/-! ### Non-vacuity and corner cases (all evaluated by the kernel) -/

-- G is inhabited: "/a", "**/foo*", "/a/" (ending in '/'), "/[!a]?", "/a**" (a `**` that is not a component).
example : inG [47, 97] = true := by decide
example : inG [42, 42, 47, 102, 111, 111, 42] = true := by decide
example : inG [47, 97, 47] = true := by decide
example : inG [47, 91, 33, 97, 93, 63] = true := by decide
-- "/a**" ends in "**" but is in G all the same (the criterion `inG_of_not_endsWith` is sufficient only).
example : inG [47, 97, 42, 42] = true := by decide
-- Not in G: "**" and "**/" (match everything), "/a/**" (third case of `suffix_cases`), "[a" (rejected).
example : inG [42, 42] = false := by decide
example : inG [42, 42, 47] = false := by decide
example : inG [47, 97, 47, 42, 42] = false := by decide
example : inG [91, 97] = false := by decide
-- the suffix rule really fails for "**/" on a string without a leading slash: "a/b"
example : globMatch ([42, 42, 47] ++ slashStarStar) [97, 47, 98] = false ∧ globMatch [42, 42, 47] [97] = true := by
  decide
-- and for "/a/**": "/a/**/**" matches "/a/b", but no prefix of "/a/b" followed by '/' matches "/a/**"
example : globMatch ([47, 97, 47, 42, 42] ++ slashStarStar) [47, 97, 47, 98] = true := by decide
example : globMatch [47, 97, 47, 42, 42] [47, 97] = false ∧ globMatch [47, 97, 47, 42, 42] [] = false := by decide

-- An Exclude exists and excludes something but not everything: ["foo*", "/exc"] (tests of excludes.rs).
example : (Exclude.fromStrings [[102, 111, 111, 42], [47, 101, 120, 99]]).map
    (fun E => (E.matches [47, 115, 47, 102, 111, 111, 98],      -- "/s/foob"   excluded (any depth)
               E.matches [47, 101, 120, 99, 47, 97],            -- "/exc/a"    excluded (below /exc)
               E.matches [47, 115, 47, 101, 120, 99],           -- "/s/exc"    kept (anchored)
               E.matches [47, 98]))                              -- "/b"        kept
    = some (true, true, false, false) := by decide
-- A rejected pattern: no Exclude.
example : (Exclude.fromStrings [[91, 97]]).isNone = true := by decide
-- `?` is one byte: "?" does not exclude "/é" (c3 a9), "??" does.
example : (Exclude.fromStrings [[63]]).map (·.matches [47, 195, 169]) = some false := by decide
example : (Exclude.fromStrings [[63, 63]]).map (·.matches [47, 195, 169]) = some true := by decide
-- a negated class matches '/': the unanchored pattern "a[!b]c" excludes "/a/c".
example : (Exclude.fromStrings [[97, 91, 33, 98, 93, 99]]).map (·.matches [47, 97, 47, 99]) = some true := by decide
-- ParentClosed lists exist, and pruning a directory drops its children: patterns ["b"],
-- list [/a, /a/b, /a/b/c, /d]
example : ParentClosed parentOf [] [[47, 97], [47, 97, 47, 98], [47, 97, 47, 98, 47, 99], [47, 100]] := by
  simp [ParentClosed, parentOf, splitLastSlash, slash]
example : (Exclude.fromStrings [[98]]).map (fun E =>
    pruneWalk E.matches parentOf [] [[47, 97], [47, 97, 47, 98], [47, 97, 47, 98, 47, 99], [47, 100]])
    = some [[47, 97], [47, 100]] := by decide

end Conserve.C15
