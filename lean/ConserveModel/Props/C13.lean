import ConserveModel.Proofs.ConformsBackup
import ConserveModel.Proofs.ConformsDelete
import ConserveModel.Props.C04
import ConserveModel.Props.C05
import ConserveModel.Driver.StoreIO
import ConserveModel.Props.C11Walk
import ConserveModel.Proofs.ConformsWalk
/-
C13 — Everything written conforms to the documented archive format.

"After any sequence of operations, an independent reader of the documented 0.6 format finds: index
hunks numbered consecutively from zero, non-empty, entries valid paths strictly increasing within
and across hunks; a completed version's tail stating the true hunk count; every block stored under
the first three hex digits of, and named by, the BLAKE2b hash of its uncompressed content; every
address lying inside its block; only files carrying addresses whose lengths sum to the file's size;
and only symlinks carrying a target."  Quantifier: all histories and option combinations, checked
after every mutating operation, including after interrupted backups (for whatever was written).

`Conforms H s : Bool` (Invariants.lean) is that independent reader, with the allowances for what
a killed write can leave (a zero-length last hunk of a version without tail, a zero-length tail, a
missing / zero-length head of an empty version, zero-length blocks).  This file proves that it is
PRESERVED:

* `backup_conforms_all_worlds` — by `backup`, in EVERY world that enforces `CreateNew`: any list of
  injected faults, any crash point `crashAt := some j` (counted in micro-steps; a write is "create
  empty" then "fill"), dead or alive.  Since the statement is about the store the run ends in, and
  a world killed at micro-step `j` ends in the store the run had reached then, this is "checked
  after every mutating operation, including after interrupted backups".
* `delete_conforms` — by `delete_bands` (strict mode, the code as repaired), in every world.
* `history_conforms` (= `reachable_conforms`) — by induction over any history of backup attempts
  and deletes, each in an arbitrary world, from any conforming archive, e.g. the empty one
  (`emptyArchive_conforms`).
* `hunk_path_doc` — the documented path arithmetic `bNNNN/i/DDDDD/NNNNNNNNN`, `DDDDD = n / 10000`,
  and `d/xxx/<hash>`, `xxx` = first three characters.

What is assumed besides `Conforms` of the starting archive: the store is a map (`NoDupKeys`) and
every key's parent is a directory (`DirsOk`) — both facts about any real directory tree, both
preserved by the runs (`backup_ci_all_worlds`, `delete_ci`), both needed: without `DirsOk` an
orphan hunk file `b0005/i/00000/000000003` (no `b0005` directory) is invisible to `Conforms` but
would become hunk 3 of the next version.  `HashLen H`: the hash, as a file name, has at least
three characters (128 for BLAKE2b-512); `H` injective (a dedup hit must be the same bytes, or an
address could point past the end of the block it names).  The source listing is what the walk
yields: strictly increasing valid paths, a target exactly for symlinks (`SrcSorted`; entries of
unknown kind are allowed in `SrcSortedWeak`).  NOTHING is assumed about options (`maxBlockSize`,
`maxEntriesPerHunk`, `smallFileCap` may be anything, 0 included), file contents, `st_size`
agreeing with what reading returns, or the basis version: unlike C04 (which says the recorded
CONTENT is right and needs the tool's own "unchanged" heuristic to be sound), conformance of
reused basis addresses follows from the archive having conformed before.

The proof (Proofs/Conforms*.lean) is a Hoare-style development like the one of C03/C04 (and reuses
its program equations, `storeOrDedup_spec`, the read-only lemmas): the store invariant
`CI = Conforms ∧ DirsOk ∧ NoDupKeys` is shown for every single `World.exec` step; the writer
invariant `W2` says every recorded address resolves and only files have any; the loop invariant
`LoopSt`: the new band is "open" with hunks `hs` (files `0 … sequence-1`, all decoded, head there,
no tail), `hunksWritten = sequence = hs.length`, and every entry buffered in
`pending ++ finished ++ queue` has a valid path, a target iff it is a symlink, a known kind, a
path distinct from the other buffered ones, above every path already written and below every source
entry still to come.
-/
namespace Conserve.C13
open Conserve Conserve.Inv Conserve.Conf

variable {H : Str → Str}

/-- What the source walk yields (`C11.walk_sorted`, `C11.walk_valid`): strictly increasing valid
paths; a target exactly for symlinks; no entry of unknown kind. -/
def SrcSorted (src : List SrcEntry) : Prop :=
  (src.map (·.apath)).Pairwise (apathCmp · · = .lt) ∧
  ∀ e ∈ src, isValid e.apath = true ∧ (e.kind = .symlink ↔ e.target.isSome = true) ∧ e.kind ≠ .unknown

/-- The same without the last clause: entries of unknown kind (sockets, devices …) may occur — the
backup skips them. -/
def SrcSortedWeak (src : List SrcEntry) : Prop :=
  (src.map (·.apath)).Pairwise (apathCmp · · = .lt) ∧
  ∀ e ∈ src, isValid e.apath = true ∧ (e.kind = .symlink ↔ e.target.isSome = true)

theorem SrcSorted.weak {src : List SrcEntry} (h : SrcSorted src) : SrcSortedWeak src :=
  ⟨h.1, fun e he => ⟨(h.2 e he).1, (h.2 e he).2.1⟩⟩

/-- The store part of the invariant behind all theorems here (`Conserve.Conf.CI`): the archive
conforms, every key's parent is a directory, no key occurs twice. -/
abbrev Inv13 (H : Str → Str) (s : Store) : Prop := CI H s

/-! ### 1. Backup -/

/-- **The invariant survives `backup` in every world**: any faults, any crash point, any options.
(`DirsOk` and `NoDupKeys` come along so that the statement can be iterated.) -/
theorem backup_ci_all_worlds {o : BackupOpts} {src : List SrcEntry} {w : World}
    (hinj : Function.Injective H) (hlen : HashLen H) (hsrc : SrcSortedWeak src)
    (he : w.enforceCreateNew = true) (hci : CI H w.store) : CI H ((backup H o src).run w).2.store :=
  (backup_csat hinj hlen o ⟨hsrc.1, fun sf hsf => hsrc.2 sf hsf⟩ w ⟨he, hci⟩).1.ci

/-- **`backup_conforms_all_worlds`.**  For every injective hash with names of at least three
characters, ALL options (also `maxBlockSize = 0` and `maxEntriesPerHunk = 0`: every entry then
triggers a flush, and `finish_hunk` skips empty pending lists), every source listing that is
strictly increasing and valid, every world that enforces `CreateNew` — ANY faults, ANY crash
point: if the archive conformed before (and is a directory tree), it conforms after — whatever was
written, however the run ended. -/
theorem backup_conforms_all_worlds (o : BackupOpts) (src : List SrcEntry) (w : World)
    (hinj : Function.Injective H) (hlen : HashLen H) (hsrc : SrcSorted src)
    (he : w.enforceCreateNew = true) (hnd : NoDupKeys w.store) (hdirs : DirsOk w.store)
    (hc : Conforms H w.store = true) :
    Conforms H ((backup H o src).run w).2.store = true :=
  (backup_ci_all_worlds hinj hlen hsrc.weak he ⟨hc, hdirs, hnd⟩).conf

/-- The same for source listings that may contain entries of unknown kind. -/
theorem backup_conforms_all_worlds_weak (o : BackupOpts) (src : List SrcEntry) (w : World)
    (hinj : Function.Injective H) (hlen : HashLen H) (hsrc : SrcSortedWeak src)
    (he : w.enforceCreateNew = true) (hnd : NoDupKeys w.store) (hdirs : DirsOk w.store)
    (hc : Conforms H w.store = true) :
    Conforms H ((backup H o src).run w).2.store = true :=
  (backup_ci_all_worlds hinj hlen hsrc he ⟨hc, hdirs, hnd⟩).conf

/-- The clean world (no faults, no crash): the complete new version conforms. -/
theorem backup_conforms_clean (o : BackupOpts) (src : List SrcEntry) (s : Store)
    (hinj : Function.Injective H) (hlen : HashLen H) (hsrc : SrcSorted src) (hnd : NoDupKeys s)
    (hdirs : DirsOk s) (hc : Conforms H s = true) :
    Conforms H ((backup H o src).run (World.clean s)).2.store = true :=
  backup_conforms_all_worlds o src (World.clean s) hinj hlen hsrc rfl hnd hdirs hc

/-- Every crash point: the store an interrupted backup leaves conforms (the zero-length file of a
write killed in the middle is the permitted leftover). -/
theorem backup_conforms_crash (o : BackupOpts) (src : List SrcEntry) (s : Store) (j : Nat)
    (hinj : Function.Injective H) (hlen : HashLen H) (hsrc : SrcSorted src) (hnd : NoDupKeys s)
    (hdirs : DirsOk s) (hc : Conforms H s = true) :
    Conforms H ((backup H o src).run { store := s, crashAt := some j }).2.store = true :=
  backup_conforms_all_worlds o src { store := s, crashAt := some j } hinj hlen hsrc rfl hnd hdirs hc

/-- Every fault list. -/
theorem backup_conforms_faults (o : BackupOpts) (src : List SrcEntry) (s : Store) (faults : List Fault)
    (hinj : Function.Injective H) (hlen : HashLen H) (hsrc : SrcSorted src) (hnd : NoDupKeys s)
    (hdirs : DirsOk s) (hc : Conforms H s = true) :
    Conforms H ((backup H o src).run { store := s, faults := faults }).2.store = true :=
  backup_conforms_all_worlds o src { store := s, faults := faults } hinj hlen hsrc rfl hnd hdirs hc

/-- **The source walk of any well-formed tree, under any exclusion predicate, is `SrcSorted`**
(C11: `walk_sorted`, `walk_valid`; every entry is `entry_from_fs_metadata` of a node). -/
theorem walk_srcSorted (T : Node) (excl : Str → Bool) (hwf : T.WF = true) : SrcSorted (C11.walk T excl) :=
  ⟨C11.walk_sorted T excl hwf, fun e he =>
    ⟨C11.walk_valid T excl hwf e he, (walk_entries_shape T excl e he).1, (walk_entries_shape T excl e he).2⟩⟩

/-- End to end: backing up ANY well-formed source tree (any depth, width, contents, exclusions)
with any options, in any world, keeps the archive conforming. -/
theorem backup_tree_conforms (o : BackupOpts) (T : Node) (excl : Str → Bool) (hwf : T.WF = true) (w : World)
    (hinj : Function.Injective H) (hlen : HashLen H) (he : w.enforceCreateNew = true)
    (hnd : NoDupKeys w.store) (hdirs : DirsOk w.store) (hc : Conforms H w.store = true) :
    Conforms H ((backup H o (C11.walk T excl)).run w).2.store = true :=
  backup_conforms_all_worlds o _ w hinj hlen (walk_srcSorted T excl hwf) he hnd hdirs hc

/-! ### 2. Delete -/

/-- The invariant survives `delete_bands` (strict mode) in every world. -/
theorem delete_ci (D : List Nat) (opts : DeleteOpts) (w : World) (hci : CI H w.store) :
    CI H ((deleteBands true D opts).run w).2.store :=
  (deleteBands_isat D opts w hci).1

/-- **`delete_conforms`.**  Deleting versions — in every world: any faults, any crash point — keeps
the archive conforming: a band directory is removed with everything below it (no partial version
is left), blocks are only removed once every version of `D` is gone and only if no remaining
version names them (`C05.delete_safe_any_world`'s argument, here carried along every step), and the
lock file is invisible to the format. -/
theorem delete_conforms (D : List Nat) (opts : DeleteOpts) (w : World) (hnd : NoDupKeys w.store)
    (hdirs : DirsOk w.store) (hc : Conforms H w.store = true) :
    Conforms H ((deleteBands true D opts).run w).2.store = true :=
  (delete_ci D opts w ⟨hc, hdirs, hnd⟩).conf

/-! ### 3. Histories -/

/-- One operation of a history, in a world of its own: `w` supplies the fault list, the crash
point, the dead flag and the trace (its store is replaced by the current archive). -/
inductive Step
  | backup (o : BackupOpts) (src : List SrcEntry) (w : World)
  | delete (D : List Nat) (opts : DeleteOpts) (w : World)

/-- The archive after one step. -/
def Step.run (H : Str → Str) : Step → Store → Store
  | .backup o src w, s => ((Conserve.backup H o src).run { w with store := s }).2.store
  | .delete D opts w, s => ((deleteBands true D opts).run { w with store := s }).2.store

/-- What is assumed of a step: a backup's source listing is sorted and valid, and its world
enforces `CreateNew`; nothing of a delete. -/
def Step.OK : Step → Prop
  | .backup _ src w => SrcSorted src ∧ w.enforceCreateNew = true
  | .delete _ _ _ => True

/-- All archives a history visits, the initial one first. -/
def states (H : Str → Str) : List Step → Store → List Store
  | [], s => [s]
  | st :: rest, s => s :: states H rest (st.run H s)

/-- Every step of the history is admissible. -/
def HistOK (hist : List Step) : Prop := ∀ st ∈ hist, st.OK

theorem step_ci (hinj : Function.Injective H) (hlen : HashLen H) (st : Step) (s : Store)
    (hok : st.OK) (hci : CI H s) : CI H (st.run H s) := by
  cases st with
  | backup o src w =>
    obtain ⟨hsrc, he⟩ := hok
    exact backup_ci_all_worlds (w := { w with store := s }) hinj hlen hsrc.weak he hci
  | delete D opts w => exact delete_ci D opts { w with store := s } hci

/-- **`history_conforms`.**  Over any history of backup attempts and deletes, each with arbitrary
options in an arbitrary world (faults, crash point): every archive visited — after every step,
complete or interrupted — conforms to the format, if the first one does. -/
theorem history_conforms (hinj : Function.Injective H) (hlen : HashLen H) (hist : List Step)
    (hok : HistOK hist) (s : Store) (hnd : NoDupKeys s) (hd : DirsOk s) (hc : Conforms H s = true) :
    ∀ s' ∈ states H hist s, Conforms H s' = true := by
  have key : ∀ (hist : List Step), HistOK hist → ∀ (s : Store), CI H s → ∀ s' ∈ states H hist s, CI H s' := by
    intro hist
    induction hist with
    | nil =>
      intro _ s hci s' hs'
      simp only [states, List.mem_singleton] at hs'
      subst hs'; exact hci
    | cons st rest ih =>
      intro hok s hci s' hs'
      simp only [states, List.mem_cons] at hs'
      rcases hs' with rfl | hs'
      · exact hci
      · exact ih (fun st' h' => hok st' (List.mem_cons_of_mem _ h')) _
          (step_ci hinj hlen st s (hok st (List.mem_cons_self ..)) hci) s' hs'
  intro s' hs'
  exact (key hist hok s ⟨hc, hd, hnd⟩ s' hs').conf

/-- A freshly initialised archive (`Archive::create`): root, header, block directory. -/
def emptyArchive : Store := [(.root, .dir), (.header, .header [48, 46, 54]), (.blockRoot, .dir)]

theorem emptyArchive_conforms : Conforms H emptyArchive = true := by
  have hb : bandIdsOf emptyArchive = [] := by simp [bandIdsOf, emptyArchive, sortNat]
  have h1 : emptyArchive.get? .header = some (.header [48, 46, 54]) := by decide
  have h2 : emptyArchive.get? .root = some .dir := by decide
  have h3 : emptyArchive.get? .blockRoot = some .dir := by decide
  unfold Conforms
  rw [hb, h1, h2, h3]
  simp [emptyArchive, blocksConform]

theorem emptyArchive_ci : CI H emptyArchive :=
  ⟨emptyArchive_conforms, by decide, by unfold NoDupKeys emptyArchive; decide⟩

/-- **`reachable_conforms`** (DESIGN §4 C13): every archive reachable from the empty one by an
admissible history conforms. -/
theorem reachable_conforms (hinj : Function.Injective H) (hlen : HashLen H) (hist : List Step)
    (hok : HistOK hist) : ∀ s' ∈ states H hist emptyArchive, Conforms H s' = true :=
  history_conforms hinj hlen hist hok emptyArchive (emptyArchive_ci (H := H)).nodup
    (emptyArchive_ci (H := H)).dirs emptyArchive_conforms

/-! ### 4. The documented paths -/

/-- **`hunk_path_doc`.**  doc/format.md: index hunks are `bNNNN/i/DDDDD/NNNNNNNNN` with `DDDDD` the
hunk number divided by 10000; blocks are `d/xxx/<hash>` with `xxx` the first three characters of
the hash.  In the model this is the parent relation of `Key` … -/
theorem hunk_path_doc (b n : Nat) (h : Str) :
    Key.parent (.hunk b n) = some (.hunkDir b (n / 10000)) ∧
    Key.parent (.hunkDir b (n / 10000)) = some (.indexDir b) ∧
    Key.parent (.indexDir b) = some (.bandDir b) ∧
    Key.parent (.bandHead b) = some (.bandDir b) ∧ Key.parent (.bandTail b) = some (.bandDir b) ∧
    Key.parent (.bandDir b) = some .root ∧
    Key.parent (.block h) = some (.blockDir (h.take 3)) ∧ Key.parent (.blockDir (h.take 3)) = some .blockRoot ∧
    Key.parent .blockRoot = some .root :=
  ⟨rfl, rfl, rfl, rfl, rfl, rfl, rfl, rfl, rfl⟩

/-- … and, in the driver's rendering of keys as real paths, "the path of a key is the path of its
parent, a slash, and a name": `bNNNN/i/DDDDD/` + nine digits, `d/xxx/` + the hash, … -/
theorem hunk_path_render (b n : Nat) (h : Str) :
    IO.renderKey (.hunk b n) = IO.renderKey (.hunkDir b (n / 10000)) ++ "/" ++ IO.padNat 9 n ∧
    IO.renderKey (.hunkDir b (n / 10000)) = IO.renderKey (.indexDir b) ++ "/" ++ IO.padNat 5 (n / 10000) ∧
    IO.renderKey (.indexDir b) = IO.renderKey (.bandDir b) ++ "/i" ∧
    IO.renderKey (.bandDir b) = "b" ++ IO.padNat 4 b ∧
    IO.renderKey (.block h) = IO.renderKey (.blockDir (h.take 3)) ++ "/" ++ IO.strOfBytes h ∧
    IO.renderKey (.blockDir (h.take 3)) = IO.renderKey .blockRoot ++ "/" ++ IO.strOfBytes (h.take 3) := by
  refine ⟨rfl, ?_, rfl, rfl, rfl, ?_⟩
  · simp [IO.renderKey, String.append_assoc]
  · simp [IO.renderKey]

/-- The hunk the writer puts number `sequence` into is the one `finish_hunk` created the
sub-directory for: a new sub-directory exactly every 10000 hunks. -/
theorem hunk_subdir_created (seq : Nat) (h : seq % hunksPerSubdir ≠ 0) :
    seq / hunksPerSubdir = (seq - 1) / hunksPerSubdir := by
  unfold hunksPerSubdir at *
  omega

/-! ### Non-vacuity: the hypotheses hold of concrete archives, sources and faulty, killed worlds -/

namespace Example

/-- An injective "hash" whose names have at least three characters. -/
def exH : Str → Str := fun c => 0 :: 0 :: 0 :: c

theorem exH_inj : Function.Injective exH := fun a b h => by simpa [exH] using h

theorem exH_len : HashLen exH := fun c => by simp [exH, subdirNameChars]

theorem source_sorted : SrcSorted C04.Example.source := by
  refine ⟨by decide, ?_⟩
  intro e he
  simp only [C04.Example.source, List.mem_cons, List.not_mem_nil, or_false] at he
  rcases he with rfl | rfl | rfl <;> decide

/-- The empty archive, two injected faults and a crash point (`C04.Example.world`). -/
def world : World := { C04.Example.world with store := emptyArchive }

/-- The faulty, killed first backup leaves a conforming archive. -/
example : Conforms exH ((backup exH C04.Example.opts C04.Example.source).run world).2.store = true :=
  backup_conforms_all_worlds C04.Example.opts C04.Example.source world exH_inj exH_len source_sorted rfl
    (emptyArchive_ci (H := exH)).nodup (emptyArchive_ci (H := exH)).dirs emptyArchive_conforms

/-- Options at their extremes: block size 0, flush after every entry. -/
example : Conforms exH ((backup exH { maxEntriesPerHunk := 0, maxBlockSize := 0, smallFileCap := 0 }
    C04.Example.source).run world).2.store = true :=
  backup_conforms_all_worlds _ C04.Example.source world exH_inj exH_len source_sorted rfl
    (emptyArchive_ci (H := exH)).nodup (emptyArchive_ci (H := exH)).dirs emptyArchive_conforms

/-- A second archive: one complete version holding `/a` in one block, so that there IS a basis. -/
def ea : IndexEntry := { apath := [47, 97], kind := .file, mtime := 0, mtimeNanos := 0, unixMode := some 420,
                         user := none, group := none,
                         addrs := [{ hash := [0, 0, 0, 1, 2], start := 0, len := 2 }], target := none }

def archive2 : Store :=
  [(.root, .dir), (.header, .header [48, 46, 54]), (.blockRoot, .dir),
   (.blockDir [0, 0, 0], .dir), (.block [0, 0, 0, 1, 2], .blockData [1, 2]),
   (.bandDir 0, .dir), (.bandHead 0, .head .ok []), (.indexDir 0, .dir), (.hunkDir 0 0, .dir),
   (.hunk 0 0, .hunk [ea]), (.bandTail 0, .tail (some 1))]

theorem archive2_conforms : Conforms exH archive2 = true := by
  have hb : bandIdsOf archive2 = [0] := by simp [bandIdsOf, archive2, sortNat]
  have hn : hunkNumsOf archive2 0 = [0] := by simp [hunkNumsOf, archive2, sortNat, FileVal.isDir]
  have h1 : archive2.get? .header = some (.header [48, 46, 54]) := by decide
  have h2 : archive2.get? .root = some .dir := by decide
  have h3 : archive2.get? .blockRoot = some .dir := by decide
  have h4 : blocksConform exH archive2 = true := by decide
  have h5 : bandConforms exH archive2 0 = true := by
    unfold bandConforms
    rw [hn]
    decide
  unfold Conforms
  rw [hb, h1, h2, h3, h4]
  simp [h5]

theorem archive2_noDup : NoDupKeys archive2 := by
  unfold NoDupKeys archive2
  decide

theorem archive2_dirs : DirsOk archive2 := by decide

/-- A world on it with an injected fault on the first hunk write and a crash point. -/
def world2 : World :=
  { store := archive2,
    faults := [{ at_ := { verb := .write, key := .hunk 1 0, nth := 0 }, kind := .other }],
    crashAt := some 9 }

/-- The theorem applies to this faulty, killed run on an archive with a basis version. -/
example : Conforms exH ((backup exH C04.Example.opts C04.Example.source).run world2).2.store = true :=
  backup_conforms_all_worlds C04.Example.opts C04.Example.source world2 exH_inj exH_len source_sorted rfl
    archive2_noDup archive2_dirs archive2_conforms

/-- Deleting the only version of `archive2`, in a world with a fault and a crash point. -/
example : Conforms exH ((deleteBands true [0] {}).run
    { store := archive2, faults := [{ at_ := { verb := .removeFile, key := .block [0, 0, 0, 1, 2], nth := 0 },
                                      kind := .other }], crashAt := some 2 }).2.store = true :=
  delete_conforms [0] {} _ archive2_noDup archive2_dirs archive2_conforms

/-- A two-step history from the empty archive: a faulty, killed backup, then a delete. -/
example : ∀ s' ∈ states exH [.backup C04.Example.opts C04.Example.source world, .delete [0] {} (World.clean [])] emptyArchive,
    Conforms exH s' = true :=
  reachable_conforms exH_inj exH_len _ (by
    intro st hst
    simp only [List.mem_cons, List.not_mem_nil, or_false] at hst
    rcases hst with rfl | rfl
    · exact ⟨source_sorted, rfl⟩
    · trivial)

end Example

end Conserve.C13
