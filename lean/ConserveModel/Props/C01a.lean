import ConserveModel.Proofs.ExactUnchanged
import ConserveModel.Proofs.ExactWalk
import ConserveModel.Props.C14
import ConserveModel.Props.C02
/-
C01 (a) — Backup then restore reproduces the source tree exactly (content and structure).

"For any source tree of directories, regular files and symlinks, and any backup settings (entries
per index hunk, maximum block size, small-file threshold), a backup completes without crashing or
reporting errors, and restoring that version into an empty directory yields exactly the same set
of paths with the same kinds, file bytes, symlink targets, modification times …, mode bits and
owner…, again with no errors."

Everything here is about the fault-free, crash-free world `World.clean s` and the model programs
`backup H o src` (Backup.lean) and `restore H sel "/" ∅` (Restore.lean, restore up to the
filesystem: the list of things restore creates, with the metadata it applies).

Hypotheses (definitions with field-by-field comments in Proofs/ExactList.lean, ExactMain.lean,
ExactStore.lean):
* `H` injective, and every block name has at least three characters (`hlen`; the names are 128 hex
  digits — a shorter name's sub-directory would be ignored by `list_blocks`, see the report);
* `0 < o.maxBlockSize`; the other options (`maxEntriesPerHunk`, `smallFileCap`, `owner`) are arbitrary;
* `SrcGood src`: for files `size = content.length`; paths valid and STRICTLY INCREASING (C11:
  the walk is); kinds dir/file/symlink; symlinks have a target; mtimes in jiff's range; nothing lies
  strictly below a symlink; the file sizes add up to less than 2^64;
* `ArchiveGood H src s`: `StoreOK` (a map and a tree; directories where the layout has directories;
  `d/` exists; every block file named by the hash of its content and shorter than 2^64 bytes); in
  every version the usable hunks strictly increasing (`ArchWF` of C08); no `GC_LOCK`; every version
  directory holds a version that lists without complaint (`BandGood`); no dangling reference;
  `HeuristicSoundStore` — the tool's own "looks unchanged ⇒ is unchanged" assumption (C03/C04).
  An initialised archive without versions is good for every source (`ArchiveGood.of_noBands`), and the
  archive a backup leaves is good again (`backup_keeps_archive_good`).

Proved: `backup_restore_exact` (general, with basis), `backup_restore_exact_nobasis` (first backup),
`later_backup_keeps_restore` (the backup step of C02), `backup_keeps_archive_good`,
`backup_twice_restores_both` (two backups of the same source), `second_backup_restores`, and the first
clause of C14: `unchanged_backup_writes_no_block`, `same_tree_again_writes_no_block`,
`unchanged_statement_partial` (C14.UnchangedStatement with the hypotheses above in place of `Conforms`);
`clean_history_keeps_restore`, `clean_history_restores_all` (C02's induction over fault-free backup steps);
`backup_restore_exact_tree` (the source is the walk of a well-formed tree).
Not proved: `C02.InvStatement` as stated there (arbitrary histories with faults and crashes, no
hypothesis on the archive); what is proved of it is the fault-free backup step
(`later_backup_keeps_restore`), see the doc comment there.
-/
namespace Conserve.C01a
open Conserve Conserve.Exact

/-- The clauses of C01 (a) about one run `r` of `backup` from archive `s` and what `restore` then does. -/
structure Exact (H : Str → Str) (o : BackupOpts) (src : List SrcEntry) (s : Store)
    (r : Outcome Stats × World) : Prop where
  /-- the backup returns statistics (no error, no panic) … -/
  ok : ∃ stats, r.1 = .ok stats ∧ stats.errors = 0
  /-- … and reports no error -/
  silent : ∀ ev ∈ r.2.events, ∀ e, ev ≠ .error e
  /-- nothing that was in the archive changed -/
  extends_ : Extends s r.2.store
  /-- the new version has the id after the newest existing one and is complete -/
  complete : isComplete r.2.store (newBandOf s) = true
  /-- restoring that version by id yields exactly the source, entry by entry, in order … -/
  restoreSpecified :
    ((restore H (.specified (newBandOf s)) [slash] (fun _ => false)).run (World.clean r.2.store)).1
      = .ok (src.map (expectedNode o))
  /-- … reporting nothing -/
  restoreSpecifiedSilent :
    ((restore H (.specified (newBandOf s)) [slash] (fun _ => false)).run (World.clean r.2.store)).2.events = []
  /-- the same when asking for the latest complete version: it is the new one -/
  restoreLatest :
    ((restore H .latestClosed [slash] (fun _ => false)).run (World.clean r.2.store)).1
      = .ok (src.map (expectedNode o))
  restoreLatestSilent :
    ((restore H .latestClosed [slash] (fun _ => false)).run (World.clean r.2.store)).2.events = []

theorem exact_of_summary {H : Str → Str} {o : BackupOpts} {src : List SrcEntry} {s s' : Store}
    {hs : List (List IndexEntry)} {stats : Stats} {evs : List Event}
    (h : Summary H o src s s' hs stats evs) (hsrc : SrcGood src) (hst : StoreOK H s) :
    Exact H o src s ((backup H o src).run (World.clean s)) := by
  obtain ⟨h1, h2, h3⟩ := h.runs.clean
  have hspec := (restore_specified_runs h.wf h.final.st (newBandOf s)).clean
  have hlatest := (restore_latest_runs h.wf h.final.st h.bandIds_mem (h.bandIds_le hst) h.head_ok
    (final_complete h.final)).clean
  rw [h.restoreSpec hsrc] at hspec hlatest
  refine ⟨⟨stats, h1, h.noErr⟩, ?_, ?_, ?_, ?_, ?_, ?_, ?_⟩
  · rw [h3]; exact h.noEv
  · rw [h2]; exact h.ext
  · rw [h2]; exact final_complete h.final
  · rw [h2]; exact hspec.1
  · rw [h2]; exact hspec.2.2
  · rw [h2]; exact hlatest.1
  · rw [h2]; exact hlatest.2.2

/-- **C01 (a), general form.**  For every injective block hash, every option triple, every good
source listing and every good archive (with or without earlier versions, complete or interrupted,
whatever their hunk layout): the backup returns, counts and reports no error, changes nothing that
was there, completes the version with the next id; and `restore` of that version (by id, or as the
latest complete one) returns EXACTLY `src.map (expectedNode o)` — the same paths in the same order
with the same kinds, file bytes, symlink targets, stored modification times, mode bits and owner /
group — and reports nothing. -/
theorem backup_restore_exact (H : Str → Str) (hinj : Function.Injective H)
    (hlen : ∀ d, subdirNameChars ≤ (H d).length) (s : Store) (o : BackupOpts) (src : List SrcEntry)
    (ho : 0 < o.maxBlockSize) (hsrc : SrcGood src) (hs : ArchiveGood H src s) :
    Exact H o src s ((backup H o src).run (World.clean s)) := by
  obtain ⟨s', hss, stats, evs, h⟩ := backup_summary (o := o) hinj hlen ho hsrc hs
  exact exact_of_summary h hsrc hs.st

/-- **C01 (a), first backup.**  Into an initialised archive without versions (it may hold blocks),
nothing is assumed beyond its shape (`StoreOK`) and the absence of a `GC_LOCK`: in particular no
assumption about unchanged files, since there is no basis. -/
theorem backup_restore_exact_nobasis (H : Str → Str) (hinj : Function.Injective H)
    (hlen : ∀ d, subdirNameChars ≤ (H d).length) (s : Store) (o : BackupOpts) (src : List SrcEntry)
    (ho : 0 < o.maxBlockSize) (hsrc : SrcGood src) (hst : StoreOK H s) (hnb : Inv.NoBands s)
    (hlock : s.get? .gcLock = none) :
    Exact H o src s ((backup H o src).run (World.clean s)) :=
  backup_restore_exact H hinj hlen s o src ho hsrc (ArchiveGood.of_noBands hst hnb hlock src)

/-- **C01 (a) for source trees.**  For every well-formed source tree `T` (Tree.lean: directories,
regular files and symlinks, names that `Apath` accepts, distinct within a directory; any depth and
width, any `read_dir` order) and every exclusion predicate, the listing the walk produces
(`C11.walk`, the model of `source::Iter`) is a good source: its order and validity are C11, "nothing
below a symlink" is C16's `walk_treeConsistent`.  What remains to be assumed is about the tree's
metadata: for files `st_size` is the length of what reading returns, the modification times are in
jiff's range, and the sizes add up to less than 2^64. -/
theorem backup_restore_exact_tree (H : Str → Str) (hinj : Function.Injective H)
    (hlen : ∀ d, subdirNameChars ≤ (H d).length) (s : Store) (o : BackupOpts) (T : Node) (excl : Str → Bool)
    (ho : 0 < o.maxBlockSize) (hwf : T.WF = true)
    (hsize : ∀ sf ∈ C11.walk T excl, sf.kind = .file → sf.size = sf.content.length)
    (htime : ∀ sf ∈ C11.walk T excl,
      -377705023201 * nanosPerSec ≤ sf.mtimeNs ∧ sf.mtimeNs < 253402207201 * nanosPerSec)
    (hbytes : totalSize (C11.walk T excl) < 18446744073709551616)
    (hs : ArchiveGood H (C11.walk T excl) s) :
    Exact H o (C11.walk T excl) s ((backup H o (C11.walk T excl)).run (World.clean s)) :=
  backup_restore_exact H hinj hlen s o _ ho (walk_srcGood T excl hwf hsize htime hbytes) hs

/-- The first version of an archive is version 0. -/
theorem newBandOf_noBands {H : Str → Str} {s : Store} (hst : StoreOK H s) (hnb : Inv.NoBands s) :
    newBandOf s = 0 := by
  have : bandIdsOf s = [] := by
    rw [List.eq_nil_iff_forall_not_mem]
    intro b hb
    exact absurd rfl (hnb _ (Store.mem_of_get?' ((Exact.mem_bandIdsOf hst).1 hb)) b)
  simp [newBandOf, nextBandId, this, maxNat?]

/-- **The backup step of C02**: after a fault-free backup into a good archive, restoring ANY
earlier version id `b` gives the same result (the same nodes with the same contents, or the same
error) and the same reported errors as before the backup. -/
theorem later_backup_keeps_restore (H : Str → Str) (hinj : Function.Injective H)
    (hlen : ∀ d, subdirNameChars ≤ (H d).length) (s : Store) (o : BackupOpts) (src : List SrcEntry)
    (ho : 0 < o.maxBlockSize) (hsrc : SrcGood src) (hs : ArchiveGood H src s) (b : Nat)
    (hb : b < newBandOf s) :
    let s' := ((backup H o src).run (World.clean s)).2.store
    ((restore H (.specified b) [slash] (fun _ => false)).run (World.clean s')).1 =
      ((restore H (.specified b) [slash] (fun _ => false)).run (World.clean s)).1 ∧
    ((restore H (.specified b) [slash] (fun _ => false)).run (World.clean s')).2.events =
      ((restore H (.specified b) [slash] (fun _ => false)).run (World.clean s)).2.events := by
  obtain ⟨s', hss, stats, evs, h⟩ := backup_summary (o := o) hinj hlen ho hsrc hs
  obtain ⟨_, h2, _⟩ := h.runs.clean
  have hnew := (restore_specified_runs h.wf h.final.st b).clean
  have hold := (restore_specified_runs hs.wf hs.st b).clean
  rw [h.restoreSpec_old hs hb] at hnew
  simp only [h2]
  exact ⟨hnew.1.trans hold.1.symm, hnew.2.2.trans hold.2.2.symm⟩

/-- Every existing version directory has an id below the new one, so the previous theorem covers
every version there was. -/
theorem existing_below_new (s : Store) : ∀ b ∈ bandIdsOf s, b < newBandOf s := nextBandId_gt _

/-- **The hypotheses are reestablished**: the archive a fault-free backup leaves is good again, for
any next source `src'` for which the tool's unchanged-file assumption holds of the new archive. -/
theorem backup_keeps_archive_good (H : Str → Str) (hinj : Function.Injective H)
    (hlen : ∀ d, subdirNameChars ≤ (H d).length) (s : Store) (o : BackupOpts) (src : List SrcEntry)
    (ho : 0 < o.maxBlockSize) (hsrc : SrcGood src) (hs : ArchiveGood H src s) (src' : List SrcEntry)
    (hh : Inv.HeuristicSoundStore H src' ((backup H o src).run (World.clean s)).2.store) :
    ArchiveGood H src' ((backup H o src).run (World.clean s)).2.store := by
  obtain ⟨s', hss, stats, evs, h⟩ := backup_summary (o := o) hinj hlen ho hsrc hs
  obtain ⟨_, h2, _⟩ := h.runs.clean
  rw [h2] at hh ⊢
  exact h.archiveGood hs hh

/-- … and for the SAME source the assumption holds by construction: every stored entry with the path
of a source file that looks unchanged against it reads back to that file's bytes. -/
theorem backup_keeps_archive_good_same (H : Str → Str) (hinj : Function.Injective H)
    (hlen : ∀ d, subdirNameChars ≤ (H d).length) (s : Store) (o : BackupOpts) (src : List SrcEntry)
    (ho : 0 < o.maxBlockSize) (hsrc : SrcGood src) (hs : ArchiveGood H src s) :
    ArchiveGood H src ((backup H o src).run (World.clean s)).2.store := by
  obtain ⟨s', hss, stats, evs, h⟩ := backup_summary (o := o) hinj hlen ho hsrc hs
  obtain ⟨_, h2, _⟩ := h.runs.clean
  rw [h2]
  exact h.archiveGood hs (h.heuristic_same hs hsrc)

/-- **Two versions.**  After backing up `src` (options `o`) and then `src2` (options `o2`), the FIRST
version still restores to exactly `src`, and the second to exactly `src2`.  The only extra
hypothesis is the tool's own assumption for the second source against the archive it meets. -/
theorem second_backup_restores (H : Str → Str) (hinj : Function.Injective H)
    (hlen : ∀ d, subdirNameChars ≤ (H d).length) (s : Store) (o o2 : BackupOpts) (src src2 : List SrcEntry)
    (ho : 0 < o.maxBlockSize) (ho2 : 0 < o2.maxBlockSize) (hsrc : SrcGood src) (hsrc2 : SrcGood src2)
    (hs : ArchiveGood H src s) :
    let s1 := ((backup H o src).run (World.clean s)).2.store
    let r2 := (backup H o2 src2).run (World.clean s1)
    Inv.HeuristicSoundStore H src2 s1 →
    Exact H o2 src2 s1 r2 ∧
    ((restore H (.specified (newBandOf s)) [slash] (fun _ => false)).run (World.clean r2.2.store)).1
      = .ok (src.map (expectedNode o)) ∧
    ((restore H (.specified (newBandOf s)) [slash] (fun _ => false)).run (World.clean r2.2.store)).2.events = [] := by
  intro s1 r2 hh
  have e1 := backup_restore_exact H hinj hlen s o src ho hsrc hs
  have hg1 : ArchiveGood H src2 s1 := backup_keeps_archive_good H hinj hlen s o src ho hsrc hs src2 hh
  have e2 := backup_restore_exact H hinj hlen s1 o2 src2 ho2 hsrc2 hg1
  have hlt : newBandOf s < newBandOf s1 := by
    apply existing_below_new
    obtain ⟨s', hss, stats, evs, h⟩ := backup_summary (o := o) hinj hlen ho hsrc hs
    obtain ⟨_, h2, _⟩ := h.runs.clean
    show newBandOf s ∈ bandIdsOf ((backup H o src).run (World.clean s)).2.store
    rw [h2]; exact h.bandIds_mem
  have keep := later_backup_keeps_restore H hinj hlen s1 o2 src2 ho2 hsrc2 hg1 (newBandOf s) hlt
  exact ⟨e2, keep.1.trans e1.restoreSpecified, keep.2.trans e1.restoreSpecifiedSilent⟩

/-- **The same tree twice**: no hypothesis about the second run at all. -/
theorem backup_twice_restores_both (H : Str → Str) (hinj : Function.Injective H)
    (hlen : ∀ d, subdirNameChars ≤ (H d).length) (s : Store) (o o2 : BackupOpts) (src : List SrcEntry)
    (ho : 0 < o.maxBlockSize) (ho2 : 0 < o2.maxBlockSize) (hsrc : SrcGood src) (hs : ArchiveGood H src s) :
    let s1 := ((backup H o src).run (World.clean s)).2.store
    let r2 := (backup H o2 src).run (World.clean s1)
    Exact H o2 src s1 r2 ∧
    ((restore H (.specified (newBandOf s)) [slash] (fun _ => false)).run (World.clean r2.2.store)).1
      = .ok (src.map (expectedNode o)) := by
  intro s1 r2
  have hg1 := backup_keeps_archive_good_same H hinj hlen s o src ho hsrc hs
  have := second_backup_restores H hinj hlen s o o2 src src ho ho2 hsrc hsrc hs hg1.heuristic
  exact ⟨this.1, this.2.1⟩

/-! ### Histories of fault-free backups (C02, backup steps only) -/

/-- A history of fault-free backups, each starting from the archive the previous one left. -/
def runBackups (H : Str → Str) : List (BackupOpts × List SrcEntry) → Store → Store
  | [], s => s
  | (o, src) :: rest, s => runBackups H rest ((backup H o src).run (World.clean s)).2.store

/-- What is assumed along the history: positive block sizes, good sources, and — the history-level
form of the tool's assumption — at every step the new source's files that look unchanged against
a stored entry with their path ARE unchanged. -/
def HistOK (H : Str → Str) : List (BackupOpts × List SrcEntry) → Store → Prop
  | [], _ => True
  | (o, src) :: rest, s =>
    0 < o.maxBlockSize ∧ SrcGood src ∧ Inv.HeuristicSoundStore H src s ∧
      HistOK H rest ((backup H o src).run (World.clean s)).2.store

/-- Every version made along the history restores, in archive `final`, to exactly its source. -/
def AllRestore (H : Str → Str) (final : Store) : List (BackupOpts × List SrcEntry) → Store → Prop
  | [], _ => True
  | (o, src) :: rest, s =>
    (((restore H (.specified (newBandOf s)) [slash] (fun _ => false)).run (World.clean final)).1
        = .ok (src.map (expectedNode o)) ∧
     ((restore H (.specified (newBandOf s)) [slash] (fun _ => false)).run (World.clean final)).2.events = []) ∧
    AllRestore H final rest ((backup H o src).run (World.clean s)).2.store

theorem _root_.Conserve.Exact.ArchiveGood.change_src {H : Str → Str} {src src' : List SrcEntry} {s : Store} (h : ArchiveGood H src s)
    (hh : Inv.HeuristicSoundStore H src' s) : ArchiveGood H src' s :=
  ⟨h.st, h.sorted, h.noLock, h.bands, h.noDangling, hh⟩

/-- **Across any history of fault-free backups** the restore of every version id that existed (or
could have existed) before is unchanged, and the archive stays good. -/
theorem clean_history_keeps_restore (H : Str → Str) (hinj : Function.Injective H)
    (hlen : ∀ d, subdirNameChars ≤ (H d).length) (hist : List (BackupOpts × List SrcEntry)) :
    ∀ (s : Store) (src0 : List SrcEntry), ArchiveGood H src0 s → HistOK H hist s →
      (∀ b, b < newBandOf s →
        ((restore H (.specified b) [slash] (fun _ => false)).run (World.clean (runBackups H hist s))).1 =
          ((restore H (.specified b) [slash] (fun _ => false)).run (World.clean s)).1 ∧
        ((restore H (.specified b) [slash] (fun _ => false)).run (World.clean (runBackups H hist s))).2.events =
          ((restore H (.specified b) [slash] (fun _ => false)).run (World.clean s)).2.events) ∧
      newBandOf s ≤ newBandOf (runBackups H hist s) ∧
      ∃ src', ArchiveGood H src' (runBackups H hist s) := by
  induction hist with
  | nil => intro s src0 hg _; exact ⟨fun _ _ => ⟨rfl, rfl⟩, Nat.le_refl _, src0, hg⟩
  | cons a rest ih =>
    obtain ⟨o, src⟩ := a
    intro s src0 hg ⟨ho, hsrc, hh, hrest⟩
    have hg' := hg.change_src hh
    obtain ⟨s', hss, stats, evs, h⟩ := backup_summary (o := o) hinj hlen ho hsrc hg'
    obtain ⟨_, h2, _⟩ := h.runs.clean
    have hg1 : ArchiveGood H src ((backup H o src).run (World.clean s)).2.store :=
      backup_keeps_archive_good_same H hinj hlen s o src ho hsrc hg'
    have hlt : newBandOf s < newBandOf ((backup H o src).run (World.clean s)).2.store := by
      apply existing_below_new
      rw [h2]; exact h.bandIds_mem
    obtain ⟨ih1, ih2, ih3⟩ := ih _ src hg1 hrest
    refine ⟨fun b hb => ?_, by simp only [runBackups]; omega, ih3⟩
    have hk := later_backup_keeps_restore H hinj hlen s o src ho hsrc hg' b hb
    have := ih1 b (by omega)
    simp only [runBackups]
    exact ⟨this.1.trans hk.1, this.2.trans hk.2⟩

/-- **Every version of a fault-free history restores to its own source at the end** (and reports
nothing): the induction of C02 over backup steps. -/
theorem clean_history_restores_all (H : Str → Str) (hinj : Function.Injective H)
    (hlen : ∀ d, subdirNameChars ≤ (H d).length) (hist : List (BackupOpts × List SrcEntry)) :
    ∀ (s : Store) (src0 : List SrcEntry), ArchiveGood H src0 s → HistOK H hist s →
      AllRestore H (runBackups H hist s) hist s := by
  induction hist with
  | nil => intro _ _ _ _; trivial
  | cons a rest ih =>
    obtain ⟨o, src⟩ := a
    intro s src0 hg ⟨ho, hsrc, hh, hrest⟩
    have hg' := hg.change_src hh
    have e1 := backup_restore_exact H hinj hlen s o src ho hsrc hg'
    obtain ⟨s', hss, stats, evs, h⟩ := backup_summary (o := o) hinj hlen ho hsrc hg'
    obtain ⟨_, h2, _⟩ := h.runs.clean
    have hg1 : ArchiveGood H src ((backup H o src).run (World.clean s)).2.store :=
      backup_keeps_archive_good_same H hinj hlen s o src ho hsrc hg'
    have hlt : newBandOf s < newBandOf ((backup H o src).run (World.clean s)).2.store := by
      apply existing_below_new
      rw [h2]; exact h.bandIds_mem
    have keep := (clean_history_keeps_restore H hinj hlen rest _ src hg1 hrest).1 (newBandOf s) hlt
    exact ⟨⟨keep.1.trans e1.restoreSpecified, keep.2.trans e1.restoreSpecifiedSilent⟩, ih _ src hg1 hrest⟩

/-! ### C14, first clause: work already stored is not stored again -/

/-- **An unchanged tree writes no block.**  If every source entry has the path of the entry at the
same position of the basis listing (the listing of the newest version, `basisListing s`) and every
source FILE looks unchanged against it (kind, mtime, size — `content_heuristically_unchanged`), then
the run issues no `write` to any block file at all (successful or not), the new version lists the
same paths, and every file entry it records carries exactly the basis entry's addresses — for every
option triple, whatever the hunk layout of the earlier versions. -/
theorem unchanged_backup_writes_no_block (H : Str → Str) (hinj : Function.Injective H)
    (hlen : ∀ d, subdirNameChars ≤ (H d).length) (s : Store) (o : BackupOpts) (src : List SrcEntry)
    (ho : 0 < o.maxBlockSize) (hsrc : SrcGood src) (hs : ArchiveGood H src s)
    (hun : Paired (fun be sf => be.apath = sf.apath ∧
      (sf.kind = .file → heuristicallyUnchanged sf be = some true)) (basisListing s) src) :
    let r := (backup H o src).run (World.clean s)
    (∀ ev ∈ r.2.trace, ∀ h v m, ev.op ≠ .write (.block h) v m) ∧
    Paired (fun be e => e.apath = be.apath ∧ (e.kind = .file → e.addrs = be.addrs))
      (basisListing s) (listSpec r.2.store (newBandOf s)) := by
  obtain ⟨s', hss, stats, evs, h, htrace, haddrs⟩ := backup_unchanged (o := o) hinj hlen ho hsrc hs hun
  obtain ⟨_, h2, _⟩ := h.runs.clean
  refine ⟨htrace, ?_⟩
  simp only [h2, final_listSpec h.final h.usable]
  exact haddrs

/-- **The same tree again**: a second backup of the source that was just backed up — with any
options — writes no block (whatever the first one met in the archive). -/
theorem same_tree_again_writes_no_block (H : Str → Str) (hinj : Function.Injective H)
    (hlen : ∀ d, subdirNameChars ≤ (H d).length) (s : Store) (o o2 : BackupOpts) (src : List SrcEntry)
    (ho : 0 < o.maxBlockSize) (ho2 : 0 < o2.maxBlockSize) (hsrc : SrcGood src) (hs : ArchiveGood H src s) :
    let s1 := ((backup H o src).run (World.clean s)).2.store
    ∀ ev ∈ ((backup H o2 src).run (World.clean s1)).2.trace, ∀ h v m, ev.op ≠ .write (.block h) v m := by
  intro s1
  obtain ⟨s', hss, stats, evs, h⟩ := backup_summary (o := o) hinj hlen ho hsrc hs
  obtain ⟨_, h2, _⟩ := h.runs.clean
  have hg1 : ArchiveGood H src s1 := backup_keeps_archive_good_same H hinj hlen s o src ho hsrc hs
  have hp : Paired (fun be sf => be.apath = sf.apath ∧
      (sf.kind = .file → heuristicallyUnchanged sf be = some true)) (basisListing s1) src := by
    show Paired _ (basisListing ((backup H o src).run (World.clean s)).2.store) src
    rw [h2]; exact h.unchanged_pair hsrc hs.st
  exact (unchanged_backup_writes_no_block H hinj hlen s1 o2 src ho2 hsrc hg1 hp).1

theorem paired_of_zip {α β : Type} {R : α → β → Prop} :
    ∀ {l1 : List α} {l2 : List β}, l1.length = l2.length → (∀ p ∈ l1.zip l2, R p.1 p.2) → Paired R l1 l2
  | [], [], _, _ => .nil
  | [], _ :: _, h, _ => by simp at h
  | _ :: _, [], h, _ => by simp at h
  | a :: l1, b :: l2, h, hz =>
    .cons (hz (a, b) (by simp)) (paired_of_zip (by simpa using h)
      (fun p hp => hz p (by simp only [List.zip_cons_cons]; exact List.mem_cons_of_mem _ hp)))

/-- `C14.UnchangedStatement` with `ArchiveGood`, `SrcGood` and the conditions on `H` and the block size
in place of `Conforms H s = true` (and without needing the newest version to be complete): what is
missing for the statement as written there is the derivation of `ArchiveGood` from `Conforms`
(`Conforms` does not say that the archive is a tree, nor bound block lengths) and the fact that a
source matching a conforming listing entry by entry is `SrcGood`. -/
theorem unchanged_statement_partial (H : Str → Str) (hinj : Function.Injective H)
    (hlen : ∀ d, subdirNameChars ≤ (H d).length) (s : Store) (o : BackupOpts) (src : List SrcEntry)
    (basis : List IndexEntry) (b : Nat) (ho : 0 < o.maxBlockSize) (hsrc : SrcGood src)
    (hs : ArchiveGood H src s) (hmax : maxNat? (bandIdsOf s) = some b)
    (hlist : ((listVersion (.specified b) [slash] (fun _ => false)).run (World.clean s)).1 = .ok basis)
    (hzip : basis.length = src.length ∧ ∀ p ∈ basis.zip src,
        p.1.apath = p.2.apath ∧ p.1.kind = p.2.kind ∧
        (p.2.kind = .file → heuristicallyUnchanged p.2 p.1 = some true)) :
    let r := (backup H o src).run (World.clean s)
    ∀ ev ∈ r.2.trace, ∀ h v m, ev.op ≠ .write (.block h) v m := by
  have hb : basis = basisListing s := by
    rw [C08.list_version_specified hs.wf b] at hlist
    unfold basisListing
    rw [hmax]
    cases hbo : bandOpenP s b with
    | error e => rw [hbo] at hlist; cases hlist
    | ok u =>
      rw [hbo] at hlist
      simp only [Outcome.ok.injEq] at hlist
      rw [← hlist, rootFilter_listSpec]
  subst hb
  have hp := paired_of_zip (R := fun be sf => be.apath = sf.apath ∧
    (sf.kind = .file → heuristicallyUnchanged sf be = some true)) hzip.1
    (fun p hp => ⟨(hzip.2 p hp).1, (hzip.2 p hp).2.2⟩)
  exact (unchanged_backup_writes_no_block H hinj hlen s o src ho hsrc hs hp).1

/-! ### Non-vacuity -/

namespace Example

/-- An injective "hash" whose names have at least three characters. -/
def exH (d : Str) : Str := d ++ [0, 0, 0]

theorem exH_inj : Function.Injective exH := fun _ _ h => List.append_cancel_right h
theorem exH_len (d : Str) : subdirNameChars ≤ (exH d).length := by simp [exH, subdirNameChars]

/-- A freshly initialised archive. -/
def archive : Store := [(.root, .dir), (.header, .header [48, 46, 54]), (.blockRoot, .dir)]

theorem archive_ok : StoreOK exH archive := StoreOK.of_checks (by decide +kernel)
theorem archive_noBands : Inv.NoBands archive := C04.Example.archive_noBands
theorem archive_noLock : archive.get? .gcLock = none := by decide

def root : SrcEntry := { apath := [47], kind := .dir, mtimeNs := 0, unixMode := 493, user := none, group := none }
/-- `/a`: a small file (goes through the combiner). -/
def fa : SrcEntry := { apath := [47, 97], kind := .file, mtimeNs := -1500000000, unixMode := 420,
                       user := some [117], group := none, size := 2, content := [1, 2] }
/-- `/b`: a file above the small-file threshold, three blocks of at most two bytes. -/
def fb : SrcEntry := { apath := [47, 98], kind := .file, mtimeNs := 1, unixMode := 2541, user := none,
                       group := some [103], size := 5, content := [3, 4, 5, 6, 7] }
/-- `/d`: a directory, `/l`: a symlink, `/d/e`: an empty file (sorts after all of `/`'s children). -/
def dd : SrcEntry := { apath := [47, 100], kind := .dir, mtimeNs := 5, unixMode := 493, user := none, group := none }
def ll : SrcEntry := { apath := [47, 108], kind := .symlink, mtimeNs := 7, unixMode := 511, user := none,
                       group := none, target := some [97] }
def de : SrcEntry := { apath := [47, 100, 47, 101], kind := .file, mtimeNs := 9, unixMode := 384, user := none,
                       group := none }
def source : List SrcEntry := [root, fa, fb, dd, ll, de]
def opts : BackupOpts := { maxEntriesPerHunk := 2, maxBlockSize := 2, smallFileCap := 2 }

theorem source_good : SrcGood source where
  wf := by unfold Inv.SrcWF; decide +kernel
  sorted := by decide +kernel
  valid := by decide +kernel
  kinds := by decide +kernel
  targets := by decide +kernel
  mtimes := by decide +kernel
  noBelowSymlink := by decide +kernel
  bytes := by decide +kernel

/-- The first-backup theorem applies to this tree and these options (two entries per hunk, blocks
of at most two bytes, small-file threshold two). -/
example : Exact exH opts source archive ((backup exH opts source).run (World.clean archive)) :=
  backup_restore_exact_nobasis exH exH_inj exH_len archive opts source (by decide) source_good
    archive_ok archive_noBands archive_noLock

example : newBandOf archive = 0 := newBandOf_noBands archive_ok archive_noBands

/-- What restore must produce for `/a`: its bytes, the stored time −2 s + 500 000 000 ns for
−1.5 s, mode 0o644, owner `u`. -/
example : expectedNode opts fa =
    { apath := [47, 97], kind := .file, content := [1, 2], mtime := -2, mtimeNanos := 500000000,
      unixMode := some 420, user := some [117], group := none, target := none, complete := true } := by
  decide +kernel

/-- The general theorem applies to the archive the first backup leaves (a store WITH a basis),
for the same tree again — with other options — and both versions restore exactly. -/
example :
    let s1 := ((backup exH opts source).run (World.clean archive)).2.store
    Exact exH {} source s1 ((backup exH {} source).run (World.clean s1)) :=
  (backup_twice_restores_both exH exH_inj exH_len archive opts {} source (by decide) (by decide) source_good
    (ArchiveGood.of_noBands archive_ok archive_noBands archive_noLock source)).1

/-- A source TREE: `/a` (file), `/a.` (symlink), `/d/` with `/d/b` (file) — in `read_dir` order. -/
def tree : Node :=
  .dir {} (.ofList [([100], .dir {} (.ofList [([98], .file {} 2 [8, 9])])), ([97, 46], .symlink {} [46, 46]),
    ([97], .file { mtimeNs := -1 } 1 [7])])

example : tree.WF = true := by decide

example : (C11.walk tree C11.noExcl).map (·.apath) = [[47], [47, 97], [47, 97, 46], [47, 100], [47, 100, 47, 98]] := by
  decide

/-- The tree-level theorem applies to it. -/
example : Exact exH opts (C11.walk tree C11.noExcl) archive
    ((backup exH opts (C11.walk tree C11.noExcl)).run (World.clean archive)) :=
  backup_restore_exact_tree exH exH_inj exH_len archive opts tree C11.noExcl (by decide) (by decide)
    (by decide) (by decide) (by decide)
    (ArchiveGood.of_noBands archive_ok archive_noBands archive_noLock _)

/-- A history of three backups of two trees satisfies `HistOK` is not shown by evaluation; the
two-step instance with the same tree is `backup_twice_restores_both`.  The one-step history: -/
example : AllRestore exH (runBackups exH [(opts, source)] archive) [(opts, source)] archive :=
  clean_history_restores_all exH exH_inj exH_len [(opts, source)] archive source
    (ArchiveGood.of_noBands archive_ok archive_noBands archive_noLock source)
    ⟨by decide, source_good, (ArchiveGood.of_noBands archive_ok archive_noBands archive_noLock source).heuristic,
      trivial⟩

/-- The C14 clause applies: backing the same tree up again (into the archive the first backup left,
with the default options) issues no block write. -/
example :
    let s1 := ((backup exH opts source).run (World.clean archive)).2.store
    ∀ ev ∈ ((backup exH {} source).run (World.clean s1)).2.trace, ∀ h v m, ev.op ≠ .write (.block h) v m :=
  same_tree_again_writes_no_block exH exH_inj exH_len archive opts {} source (by decide) (by decide) source_good
    (ArchiveGood.of_noBands archive_ok archive_noBands archive_noLock source)

/-- … while the first backup, into the empty archive, did write blocks (so the statement is not
vacuous): the heuristic's premise fails there — the basis listing is empty. -/
example : basisListing archive = [] := by decide +kernel

end Example

end Conserve.C01a
