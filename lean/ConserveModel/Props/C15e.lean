import ConserveModel.Proofs.ExclWalk
import ConserveModel.Proofs.ExclRestore
import ConserveModel.Props.C01a
/-
C15, end to end — Exclusions mean the same at backup, list and restore time.

"With the same exclusion patterns, (i) the entries a backup stores, (ii) the entries listed from a
full backup with the patterns applied, and (iii) the entries restored from a full backup with the
patterns applied are the same set of paths — an excluded directory takes its whole subtree with it
in all three."

The three code paths:
  (i)   src/source.rs `Iter` — PRUNES: an excluded child is dropped before it is looked at, so an
        excluded directory is never read (`C11.walk T ex`); the root entry is preloaded and NEVER tested;
  (ii)  src/index/stitch.rs `Stitch::next` — FILTERS every stored entry, the root entry "/" included
        (`filterEntries` / `listEntries` / `listVersion`);
  (iii) src/restore.rs `restore` — runs over the same `Stitch` (`restore H sel subtree excl`).

The root (part c).  In the code the root is special at BACKUP time only: `Iter::new` preloads the entry
for "/" and `visit_next_directory` tests children only, so no pattern can keep "/" out of a backup; but
`Stitch::next` applies `exclude.matches` to every stored entry, "/" included, and `restore` has no
exception for it (its only root special case is not calling `create_dir_all` for "/").  The model does
the same: `walkDeque` never calls `excl` on "/", `filterEntries` calls it on every entry.  So for a
pattern set that matches "/" (`C15.root_not_closed`, `C15.star_matches_root`: "/", "*", "", "**", "/**")
the three listings differ by exactly the root entry.  Checked against the real code with
/scratch/c15e/probe (tree of `Example.tree`): patterns ["*"] give stored ["/"], listed [], restored
nothing; patterns ["/"] give stored = everything, listed = everything but "/".  The exact guard under
which the property holds as stated is `E.matches "/" = false`; without it `root_excluded_differs`.

What is proved here (all for the fault-free world, hypotheses of `C01a.backup_restore_exact_tree`):
* `exclude_descClosed`            every compiled pattern set is closed under descendants of every valid
                                  path other than "/" (from `C15.excl_desc_closed`);
* `walk_prune_eq_filter_guard`    pruning walk = full walk filtered with the EXACT guard
                                  `p = "/" ∨ ¬ excluded p` — for every descendant-closed predicate;
* `walk_prune_eq_filter`          … = plain filter `¬ excluded p` when the predicate does not hold of "/";
* `walk_prune_eq_filter_globs`    both for compiled pattern sets;
* `backup_list_restore_guard`     (i) = full paths filtered with the exact guard, (ii) = (iii) = full paths
                                  filtered with `¬ excluded`, all silent, whole entries/nodes not only paths;
* `backup_list_restore_agree`     hence (i) = (ii) = (iii) as lists when the patterns do not match "/";
* `backup_list_restore_agree_globs`  the same for compiled pattern sets;
* `root_excluded_differs`         and when the patterns DO match "/" (e.g. "*", "/", "/**"): (i) = "/" :: (ii),
                                  (ii) = (iii) has no "/" — the three differ by exactly the root entry;
* `star_differs`                  a concrete witness (pattern "*").
-/
set_option linter.unusedSimpArgs false
namespace Conserve.C15e
open Conserve Conserve.Exact

/-- `ex` is closed under descendants (by whole components) of every valid path other than the root:
what "an excluded directory takes its whole subtree with it" needs.  Nothing is asked of "/": the
pattern "/" excludes the root and nothing below it (`C15.root_not_closed`). -/
def DescClosed (ex : Str → Bool) : Prop :=
  ∀ a p, isValid a = true → isValid p = true → a ≠ [slash] → ex a = true → StrictDesc a p → ex p = true

/-- What the source walk keeps of the full walk: the root unconditionally (src/source.rs `Iter::new`
preloads it without asking `exclude`), everything else iff it is not excluded. -/
def keepAtBackup (ex : Str → Bool) (p : Str) : Bool := p == [slash] || !ex p

/-- **Every compiled pattern set is descendant-closed** below the root, whatever the patterns
(anchored or not, with `*`, `**`, classes …): `add_pattern` compiles `P/**` next to `P`. -/
theorem exclude_descClosed (pats : List Str) (E : Exclude) (h : Exclude.fromStrings pats = some E) :
    DescClosed E.matches :=
  exclude_desc_closed_nonroot pats E h

/-- **Pruning = filtering, with the exact guard.**  For a well-formed tree and a descendant-closed
predicate, the walk that skips excluded children and never descends into them emits exactly the
entries of the full walk that are the root or not excluded — whole entries, in the same order. -/
theorem walk_prune_eq_filter_guard (T : Node) (ex : Str → Bool) (hwf : T.WF = true) (hcl : DescClosed ex) :
    C11.walk T ex = (C11.walk T C11.noExcl).filter (fun e => keepAtBackup ex e.apath) := by
  rw [walk_prune_cons T ex hwf hcl]
  conv => rhs; rw [walk_eq_cons_tail T C11.noExcl]
  rw [List.filter_cons]
  simp only [keepAtBackup, Node.entry_apath, beq_self_eq_true, Bool.true_or, if_true]
  congr 1
  apply List.filter_congr
  intro e he
  have : e.apath ≠ [slash] := walk_tail_ne_root T _ hwf e he
  simp [this]

/-- **walk_prune_eq_filter.**  If moreover the predicate does not hold of "/", pruning is plain
filtering: `walk T ex` is the full walk without the excluded entries, and so are its paths. -/
theorem walk_prune_eq_filter (T : Node) (ex : Str → Bool) (hwf : T.WF = true) (hcl : DescClosed ex)
    (hroot : ex [slash] = false) :
    C11.walk T ex = (C11.walk T C11.noExcl).filter (fun e => !ex e.apath) ∧
    (C11.walk T ex).map (·.apath) = ((C11.walk T C11.noExcl).map (·.apath)).filter (fun p => !ex p) := by
  have h := walk_prune_all T ex hwf hcl hroot
  refine ⟨h, ?_⟩
  rw [h, List.filter_map]
  rfl

/-- The paths version of `walk_prune_eq_filter_guard`. -/
theorem walk_prune_paths_guard (T : Node) (ex : Str → Bool) (hwf : T.WF = true) (hcl : DescClosed ex) :
    (C11.walk T ex).map (·.apath) = ((C11.walk T C11.noExcl).map (·.apath)).filter (keepAtBackup ex) := by
  rw [walk_prune_eq_filter_guard T ex hwf hcl, List.filter_map]
  rfl

/-- **For exclusion patterns**: for every list of patterns that `Exclude::from_strings` accepts, the
walk with the patterns is the full walk filtered with the exact guard; and with the plain test if the
patterns do not match "/". -/
theorem walk_prune_eq_filter_globs (T : Node) (hwf : T.WF = true) (pats : List Str) (E : Exclude)
    (h : Exclude.fromStrings pats = some E) :
    C11.walk T E.matches = (C11.walk T C11.noExcl).filter (fun e => keepAtBackup E.matches e.apath) ∧
    (E.matches [slash] = false →
      C11.walk T E.matches = (C11.walk T C11.noExcl).filter (fun e => !E.matches e.apath) ∧
      (C11.walk T E.matches).map (·.apath) =
        ((C11.walk T C11.noExcl).map (·.apath)).filter (fun p => !E.matches p)) :=
  ⟨walk_prune_eq_filter_guard T _ hwf (exclude_descClosed pats E h),
   walk_prune_eq_filter T _ hwf (exclude_descClosed pats E h)⟩

/-! ### Backup, list, restore -/

/-- The three results, for a source tree `T`, an exclusion predicate `ex`, two archives `s₁`, `s₂`
(they may be the same) and two option sets: `stored` are the source entries version (i) holds,
`kept` the entries (ii) and (iii) yield. -/
structure ThreeWay (H : Str → Str) (T : Node) (ex : Str → Bool) (o₁ o₂ : BackupOpts) (s₁ s₂ : Store)
    (stored kept : List SrcEntry) : Prop where
  /-- the backup WITH the exclusions succeeds silently and completes a version (all clauses of C01a) -/
  backupEx : C01a.Exact H o₁ (C11.walk T ex) s₁ ((backup H o₁ (C11.walk T ex)).run (World.clean s₁))
  /-- the FULL backup succeeds silently and completes a version -/
  backupAll : C01a.Exact H o₂ (C11.walk T C11.noExcl) s₂
    ((backup H o₂ (C11.walk T C11.noExcl)).run (World.clean s₂))
  /-- (i) what the backup with the exclusions stored, read back by a restore WITHOUT exclusions -/
  storedEq :
    ((restore H (.specified (newBandOf s₁)) [slash] (fun _ => false)).run
        (World.clean ((backup H o₁ (C11.walk T ex)).run (World.clean s₁)).2.store)).1
      = .ok (stored.map (expectedNode o₁))
  storedSilent :
    ((restore H (.specified (newBandOf s₁)) [slash] (fun _ => false)).run
        (World.clean ((backup H o₁ (C11.walk T ex)).run (World.clean s₁)).2.store)).2.events = []
  /-- (ii) listing the full backup with the exclusions applied: entries with exactly the metadata of
  the kept source entries, in order -/
  listedEq : ∃ es,
    ((listVersion (.specified (newBandOf s₂)) [slash] ex).run
        (World.clean ((backup H o₂ (C11.walk T C11.noExcl)).run (World.clean s₂)).2.store)).1 = .ok es ∧
    es.map strip = kept.map (Inv.metaOf o₂) ∧ es.map (·.apath) = kept.map (·.apath)
  listedSilent :
    ((listVersion (.specified (newBandOf s₂)) [slash] ex).run
        (World.clean ((backup H o₂ (C11.walk T C11.noExcl)).run (World.clean s₂)).2.store)).2.events = []
  /-- (iii) restoring the full backup with the exclusions applied -/
  restoredEq :
    ((restore H (.specified (newBandOf s₂)) [slash] ex).run
        (World.clean ((backup H o₂ (C11.walk T C11.noExcl)).run (World.clean s₂)).2.store)).1
      = .ok (kept.map (expectedNode o₂))
  restoredSilent :
    ((restore H (.specified (newBandOf s₂)) [slash] ex).run
        (World.clean ((backup H o₂ (C11.walk T C11.noExcl)).run (World.clean s₂)).2.store)).2.events = []
  /-- (iii) likewise when the version is selected as the latest complete one -/
  restoredLatestEq :
    ((restore H .latestClosed [slash] ex).run
        (World.clean ((backup H o₂ (C11.walk T C11.noExcl)).run (World.clean s₂)).2.store)).1
      = .ok (kept.map (expectedNode o₂))

/-- The paths of (i), (ii), (iii), read off a `ThreeWay`: stored paths, and the one list that both
the listing and the restore with exclusions yield. -/
theorem ThreeWay.paths {H : Str → Str} {T : Node} {ex : Str → Bool} {o₁ o₂ : BackupOpts} {s₁ s₂ : Store}
    {stored kept : List SrcEntry} (h : ThreeWay H T ex o₁ o₂ s₁ s₂ stored kept) :
    (∃ nodes, ((restore H (.specified (newBandOf s₁)) [slash] (fun _ => false)).run
        (World.clean ((backup H o₁ (C11.walk T ex)).run (World.clean s₁)).2.store)).1 = .ok nodes ∧
      nodes.map (·.apath) = stored.map (·.apath)) ∧
    (∃ es, ((listVersion (.specified (newBandOf s₂)) [slash] ex).run
        (World.clean ((backup H o₂ (C11.walk T C11.noExcl)).run (World.clean s₂)).2.store)).1 = .ok es ∧
      es.map (·.apath) = kept.map (·.apath)) ∧
    (∃ nodes, ((restore H (.specified (newBandOf s₂)) [slash] ex).run
        (World.clean ((backup H o₂ (C11.walk T C11.noExcl)).run (World.clean s₂)).2.store)).1 = .ok nodes ∧
      nodes.map (·.apath) = kept.map (·.apath)) := by
  refine ⟨⟨_, h.storedEq, map_expectedNode_apath _ _⟩, ?_, ⟨_, h.restoredEq, map_expectedNode_apath _ _⟩⟩
  obtain ⟨es, h1, _, h3⟩ := h.listedEq
  exact ⟨es, h1, h3⟩

/-- **C15 with the exact guard.**  For every well-formed source tree, every descendant-closed
exclusion predicate, every injective block hash, all options, and good archives (an initialised empty
archive, or any archive satisfying `ArchiveGood`; the metadata hypotheses are those of
`C01a.backup_restore_exact_tree`, asked of the FULL walk only):
(i) the backup made with the exclusions holds exactly the entries of the full walk that are the root
or not excluded; (ii) listing and (iii) restoring the FULL backup with the exclusions applied give
exactly the entries of the full walk that are not excluded — the same order, the same metadata and
file bytes, and none of the five runs reports an error. -/
theorem backup_list_restore_guard (H : Str → Str) (hinj : Function.Injective H)
    (hlen : ∀ d, subdirNameChars ≤ (H d).length) (s₁ s₂ : Store) (o₁ o₂ : BackupOpts) (T : Node)
    (ex : Str → Bool) (ho₁ : 0 < o₁.maxBlockSize) (ho₂ : 0 < o₂.maxBlockSize) (hwf : T.WF = true)
    (hcl : DescClosed ex)
    (hsize : ∀ sf ∈ C11.walk T C11.noExcl, sf.kind = .file → sf.size = sf.content.length)
    (htime : ∀ sf ∈ C11.walk T C11.noExcl,
      -377705023201 * nanosPerSec ≤ sf.mtimeNs ∧ sf.mtimeNs < 253402207201 * nanosPerSec)
    (hbytes : totalSize (C11.walk T C11.noExcl) < 18446744073709551616)
    (hs₁ : ArchiveGood H (C11.walk T C11.noExcl) s₁) (hs₂ : ArchiveGood H (C11.walk T C11.noExcl) s₂) :
    ThreeWay H T ex o₁ o₂ s₁ s₂
      ((C11.walk T C11.noExcl).filter fun e => keepAtBackup ex e.apath)
      ((C11.walk T C11.noExcl).filter fun e => !ex e.apath) := by
  have hw := walk_prune_eq_filter_guard T ex hwf hcl
  have hsub : ∀ sf ∈ C11.walk T ex, sf ∈ C11.walk T C11.noExcl := by
    intro sf hsf; rw [hw] at hsf; exact (List.mem_filter.mp hsf).1
  have hsrcA : SrcGood (C11.walk T C11.noExcl) := walk_srcGood T _ hwf hsize htime hbytes
  have hbytesX : totalSize (C11.walk T ex) < 18446744073709551616 := by
    have := totalSize_filter_le (fun e => keepAtBackup ex e.apath) (C11.walk T C11.noExcl)
    rw [hw]; omega
  have hsrcX : SrcGood (C11.walk T ex) :=
    walk_srcGood T ex hwf (fun sf h => hsize sf (hsub sf h)) (fun sf h => htime sf (hsub sf h)) hbytesX
  have eX := C01a.backup_restore_exact H hinj hlen s₁ o₁ _ ho₁ hsrcX (hs₁.mono hsub)
  have eA := C01a.backup_restore_exact H hinj hlen s₂ o₂ _ ho₂ hsrcA hs₂
  have sel := backup_then_select hinj hlen s₂ o₂ _ ho₂ hsrcA hs₂ [slash] ex
  have hf := filter_selKeep_root ex _ hsrcA.valid
  obtain ⟨es, hl1, hl2, hl3⟩ := sel.list
  refine ⟨eX, eA, ?_, eX.restoreSpecifiedSilent, ⟨es, hl1, ?_, ?_⟩, sel.listSilent, ?_,
    sel.restoreSpecifiedSilent, ?_⟩
  · exact eX.restoreSpecified.trans (congrArg (fun l => Outcome.ok (l.map (expectedNode o₁))) hw)
  · rw [hl2, hf]
  · rw [hl3, ← hf, List.filter_map]; rfl
  · rw [← hf]; exact sel.restoreSpecified
  · rw [← hf]; exact sel.restoreLatest

/-- **backup_list_restore_agree.**  If in addition the exclusion predicate does not hold of "/", the
three agree: (i), (ii) and (iii) are all exactly the full walk without the excluded entries (`kept`). -/
theorem backup_list_restore_agree (H : Str → Str) (hinj : Function.Injective H)
    (hlen : ∀ d, subdirNameChars ≤ (H d).length) (s₁ s₂ : Store) (o₁ o₂ : BackupOpts) (T : Node)
    (ex : Str → Bool) (ho₁ : 0 < o₁.maxBlockSize) (ho₂ : 0 < o₂.maxBlockSize) (hwf : T.WF = true)
    (hcl : DescClosed ex) (hroot : ex [slash] = false)
    (hsize : ∀ sf ∈ C11.walk T C11.noExcl, sf.kind = .file → sf.size = sf.content.length)
    (htime : ∀ sf ∈ C11.walk T C11.noExcl,
      -377705023201 * nanosPerSec ≤ sf.mtimeNs ∧ sf.mtimeNs < 253402207201 * nanosPerSec)
    (hbytes : totalSize (C11.walk T C11.noExcl) < 18446744073709551616)
    (hs₁ : ArchiveGood H (C11.walk T C11.noExcl) s₁) (hs₂ : ArchiveGood H (C11.walk T C11.noExcl) s₂) :
    ThreeWay H T ex o₁ o₂ s₁ s₂
      ((C11.walk T C11.noExcl).filter fun e => !ex e.apath)
      ((C11.walk T C11.noExcl).filter fun e => !ex e.apath) := by
  have h := backup_list_restore_guard H hinj hlen s₁ s₂ o₁ o₂ T ex ho₁ ho₂ hwf hcl hsize htime hbytes hs₁ hs₂
  have : ((C11.walk T C11.noExcl).filter fun e => keepAtBackup ex e.apath) =
      (C11.walk T C11.noExcl).filter fun e => !ex e.apath := by
    rw [← walk_prune_eq_filter_guard T ex hwf hcl, (walk_prune_eq_filter T ex hwf hcl hroot).1]
  rwa [this] at h

/-- **C15 for exclusion patterns.**  For every list of patterns `Exclude::from_strings` accepts and
that do not match "/" itself: the backup with the patterns, the listing of a full backup with the
patterns and the restore of a full backup with the patterns yield the same paths, as lists, equal to
the paths of the full walk that the patterns do not match; none of the runs reports an error. -/
theorem backup_list_restore_agree_globs (H : Str → Str) (hinj : Function.Injective H)
    (hlen : ∀ d, subdirNameChars ≤ (H d).length) (s₁ s₂ : Store) (o₁ o₂ : BackupOpts) (T : Node)
    (pats : List Str) (E : Exclude) (hE : Exclude.fromStrings pats = some E)
    (hroot : E.matches [slash] = false)
    (ho₁ : 0 < o₁.maxBlockSize) (ho₂ : 0 < o₂.maxBlockSize) (hwf : T.WF = true)
    (hsize : ∀ sf ∈ C11.walk T C11.noExcl, sf.kind = .file → sf.size = sf.content.length)
    (htime : ∀ sf ∈ C11.walk T C11.noExcl,
      -377705023201 * nanosPerSec ≤ sf.mtimeNs ∧ sf.mtimeNs < 253402207201 * nanosPerSec)
    (hbytes : totalSize (C11.walk T C11.noExcl) < 18446744073709551616)
    (hs₁ : ArchiveGood H (C11.walk T C11.noExcl) s₁) (hs₂ : ArchiveGood H (C11.walk T C11.noExcl) s₂) :
    let kept := ((C11.walk T C11.noExcl).map (·.apath)).filter (fun p => !E.matches p)
    (∃ nodes, ((restore H (.specified (newBandOf s₁)) [slash] (fun _ => false)).run
        (World.clean ((backup H o₁ (C11.walk T E.matches)).run (World.clean s₁)).2.store)).1 = .ok nodes ∧
      nodes.map (·.apath) = kept) ∧
    (∃ es, ((listVersion (.specified (newBandOf s₂)) [slash] E.matches).run
        (World.clean ((backup H o₂ (C11.walk T C11.noExcl)).run (World.clean s₂)).2.store)).1 = .ok es ∧
      es.map (·.apath) = kept) ∧
    (∃ nodes, ((restore H (.specified (newBandOf s₂)) [slash] E.matches).run
        (World.clean ((backup H o₂ (C11.walk T C11.noExcl)).run (World.clean s₂)).2.store)).1 = .ok nodes ∧
      nodes.map (·.apath) = kept) := by
  intro kept
  have h := (backup_list_restore_agree H hinj hlen s₁ s₂ o₁ o₂ T E.matches ho₁ ho₂ hwf
    (exclude_descClosed pats E hE) hroot hsize htime hbytes hs₁ hs₂).paths
  have hk : ((C11.walk T C11.noExcl).filter fun e => !E.matches e.apath).map (·.apath) = kept := by
    show _ = List.filter _ (List.map _ _)
    rw [List.filter_map]; rfl
  rwa [hk] at h

/-- **When the patterns match "/"** (`*`, `/`, `/**`, `**` …) the three do NOT agree, and differ by
exactly the root entry: the backup stores "/" (the walk never tests it) followed by the non-excluded
rest, while listing and restoring the full backup with the same patterns yield that rest WITHOUT "/"
(`Stitch::next` tests every entry, the root included). -/
theorem root_excluded_differs (H : Str → Str) (hinj : Function.Injective H)
    (hlen : ∀ d, subdirNameChars ≤ (H d).length) (s₁ s₂ : Store) (o₁ o₂ : BackupOpts) (T : Node)
    (ex : Str → Bool) (ho₁ : 0 < o₁.maxBlockSize) (ho₂ : 0 < o₂.maxBlockSize) (hwf : T.WF = true)
    (hcl : DescClosed ex) (hroot : ex [slash] = true)
    (hsize : ∀ sf ∈ C11.walk T C11.noExcl, sf.kind = .file → sf.size = sf.content.length)
    (htime : ∀ sf ∈ C11.walk T C11.noExcl,
      -377705023201 * nanosPerSec ≤ sf.mtimeNs ∧ sf.mtimeNs < 253402207201 * nanosPerSec)
    (hbytes : totalSize (C11.walk T C11.noExcl) < 18446744073709551616)
    (hs₁ : ArchiveGood H (C11.walk T C11.noExcl) s₁) (hs₂ : ArchiveGood H (C11.walk T C11.noExcl) s₂) :
    ∃ kept : List SrcEntry, ThreeWay H T ex o₁ o₂ s₁ s₂ (T.entry [slash] :: kept) kept ∧
      [slash] ∉ kept.map (·.apath) := by
  have h := backup_list_restore_guard H hinj hlen s₁ s₂ o₁ o₂ T ex ho₁ ho₂ hwf hcl hsize htime hbytes hs₁ hs₂
  refine ⟨(C11.walk T C11.noExcl).filter fun e => !ex e.apath, ?_, ?_⟩
  · have : ((C11.walk T C11.noExcl).filter fun e => keepAtBackup ex e.apath) =
        T.entry [slash] :: (C11.walk T C11.noExcl).filter fun e => !ex e.apath := by
      rw [← walk_prune_eq_filter_guard T ex hwf hcl, walk_prune_cons T ex hwf hcl]
      congr 1
      conv => rhs; rw [walk_eq_cons_tail T C11.noExcl]
      rw [List.filter_cons]
      simp [Node.entry_apath, hroot]
    rwa [this] at h
  · intro hm
    obtain ⟨e, he, hea⟩ := List.mem_map.mp hm
    have := (List.mem_filter.mp he).2
    simp only [hea, hroot, Bool.not_true] at this
    exact absurd this (by decide)

/-! ### Non-vacuity and corner cases -/

namespace Example
open C01a.Example

/-- `/a` (file), `/build/` with `/build/x` and `/build/sub/y`, `/build2` (a sibling whose name has
"build" as a textual prefix), `/é/` (multi-byte name, bytes c3 a9) with a file `/é/build` — listed in an
arbitrary `read_dir` order. -/
def tree : Node :=
  .dir {} (.ofList [
    ([98, 117, 105, 108, 100, 50], .file {} 1 [5]),
    ([195, 169], .dir {} (.ofList [([98, 117, 105, 108, 100], .file {} 0 [])])),
    ([98, 117, 105, 108, 100], .dir {} (.ofList [
        ([120], .file { mtimeNs := 3 } 2 [1, 2]),
        ([115, 117, 98], .dir {} (.ofList [([121], .symlink {} [120])]))])),
    ([97], .file {} 1 [9])])

example : tree.WF = true := by decide

/-- The full walk: "/", "/a", "/build", "/build2", "/é", "/build/sub", "/build/x", "/build/sub/y", "/é/build". -/
theorem full_paths : (C11.walk tree C11.noExcl).map (·.apath) =
    [[47], [47, 97], [47, 98, 117, 105, 108, 100], [47, 98, 117, 105, 108, 100, 50], [47, 195, 169],
     [47, 98, 117, 105, 108, 100, 47, 115, 117, 98], [47, 98, 117, 105, 108, 100, 47, 120],
     [47, 98, 117, 105, 108, 100, 47, 115, 117, 98, 47, 121],
     [47, 195, 169, 47, 98, 117, 105, 108, 100]] := by decide +kernel

/-- The anchored pattern "/build". -/
def patsAnchored : List Str := [[47, 98, 117, 105, 108, 100]]
/-- The unanchored pattern "build" (compiled as `**/build` and `**/build/**`). -/
def patsAnywhere : List Str := [[98, 117, 105, 108, 100]]
/-- The pattern "*" (compiled as `**/*`, `**/*/**`): matches every path, "/" included. -/
def patsStar : List Str := [[42]]

/-- The compiled sets (`from_strings` accepts all three pattern lists). -/
def exAnchored : Exclude := (Exclude.fromStrings patsAnchored).get (by decide +kernel)
/-- Compiled "build". -/
def exAnywhere : Exclude := (Exclude.fromStrings patsAnywhere).get (by decide +kernel)
/-- Compiled "*". -/
def exStar : Exclude := (Exclude.fromStrings patsStar).get (by decide +kernel)

/-- `from_strings` returns these sets. -/
theorem exAnchored_from : Exclude.fromStrings patsAnchored = some exAnchored := (Option.some_get _).symm
/-- (same for "build") -/
theorem exAnywhere_from : Exclude.fromStrings patsAnywhere = some exAnywhere := (Option.some_get _).symm
/-- (same for "*") -/
theorem exStar_from : Exclude.fromStrings patsStar = some exStar := (Option.some_get _).symm

/-- Neither "/build" nor "build" matches the root; "*" does. -/
theorem anchored_root : exAnchored.matches [slash] = false := by decide +kernel
/-- "build" does not match the root. -/
theorem anywhere_root : exAnywhere.matches [slash] = false := by decide +kernel
/-- "*" matches the root. -/
theorem star_root : exStar.matches [slash] = true := by decide +kernel

/-- Backup with "/build": the directory goes with its whole subtree (three levels), the sibling
"/build2" stays (component-wise, not textual), and so does "/é/build" (the pattern is anchored). -/
example : (C11.walk tree exAnchored.matches).map (·.apath) =
    [[47], [47, 97], [47, 98, 117, 105, 108, 100, 50], [47, 195, 169],
     [47, 195, 169, 47, 98, 117, 105, 108, 100]] := by decide +kernel

/-- Backup with "build": "/é/build" goes as well. -/
example : (C11.walk tree exAnywhere.matches).map (·.apath) =
    [[47], [47, 97], [47, 98, 117, 105, 108, 100, 50], [47, 195, 169]] := by decide +kernel

/-- … and that is the filter of the full walk, by the theorem (not by evaluation). -/
example : (C11.walk tree exAnywhere.matches).map (·.apath) =
    ((C11.walk tree C11.noExcl).map (·.apath)).filter (fun p => !exAnywhere.matches p) :=
  ((walk_prune_eq_filter_globs tree (by decide) _ _ exAnywhere_from).2 anywhere_root).2

/-- The metadata hypotheses of the end-to-end theorems hold for the example tree: sizes … -/
theorem tree_size : ∀ sf ∈ C11.walk tree C11.noExcl, sf.kind = .file → sf.size = sf.content.length := by
  decide +kernel
/-- … times … -/
theorem tree_time : ∀ sf ∈ C11.walk tree C11.noExcl,
    -377705023201 * nanosPerSec ≤ sf.mtimeNs ∧ sf.mtimeNs < 253402207201 * nanosPerSec := by decide +kernel
/-- … and total size. -/
theorem tree_bytes : totalSize (C11.walk tree C11.noExcl) < 18446744073709551616 := by decide +kernel

/-- All hypotheses of the end-to-end theorem hold for this tree, the fresh archive of `C01a.Example`,
its hash and options, and the pattern "build": the three path lists are equal to the four kept paths. -/
example :
    let kept : List Str := [[47], [47, 97], [47, 98, 117, 105, 108, 100, 50], [47, 195, 169]]
    (∃ nodes, ((restore exH (.specified (newBandOf archive)) [slash] (fun _ => false)).run
        (World.clean ((backup exH opts (C11.walk tree exAnywhere.matches)).run (World.clean archive)).2.store)).1
          = .ok nodes ∧ nodes.map (·.apath) = kept) ∧
    (∃ es, ((listVersion (.specified (newBandOf archive)) [slash] exAnywhere.matches).run
        (World.clean ((backup exH {} (C11.walk tree C11.noExcl)).run (World.clean archive)).2.store)).1
          = .ok es ∧ es.map (·.apath) = kept) ∧
    (∃ nodes, ((restore exH (.specified (newBandOf archive)) [slash] exAnywhere.matches).run
        (World.clean ((backup exH {} (C11.walk tree C11.noExcl)).run (World.clean archive)).2.store)).1
          = .ok nodes ∧ nodes.map (·.apath) = kept) := by
  have h := backup_list_restore_agree_globs exH exH_inj exH_len archive archive opts {} tree patsAnywhere
    exAnywhere exAnywhere_from anywhere_root (by decide) (by decide) (by decide) tree_size tree_time tree_bytes
    (ArchiveGood.of_noBands archive_ok archive_noBands archive_noLock _)
    (ArchiveGood.of_noBands archive_ok archive_noBands archive_noLock _)
  have hk : ((C11.walk tree C11.noExcl).map (·.apath)).filter (fun p => !exAnywhere.matches p) =
      [[47], [47, 97], [47, 98, 117, 105, 108, 100, 50], [47, 195, 169]] := by
    rw [full_paths]; decide +kernel
  simp only [hk] at h
  exact h

/-- **star_differs.**  The pattern "*" matches "/".  The backup made with it holds exactly the root
entry; listing or restoring a full backup with it yields nothing at all — not even the root. -/
theorem star_differs :
    ((restore exH (.specified (newBandOf archive)) [slash] (fun _ => false)).run
        (World.clean ((backup exH opts (C11.walk tree exStar.matches)).run (World.clean archive)).2.store)).1
      = .ok [expectedNode opts (tree.entry [slash])] ∧
    ((restore exH (.specified (newBandOf archive)) [slash] exStar.matches).run
        (World.clean ((backup exH opts (C11.walk tree C11.noExcl)).run (World.clean archive)).2.store)).1
      = .ok [] ∧
    ((listVersion (.specified (newBandOf archive)) [slash] exStar.matches).run
        (World.clean ((backup exH opts (C11.walk tree C11.noExcl)).run (World.clean archive)).2.store)).1
      = .ok [] := by
  obtain ⟨kept, h, _⟩ := root_excluded_differs exH exH_inj exH_len archive archive opts opts tree exStar.matches
    (by decide) (by decide) (by decide) (exclude_descClosed _ _ exStar_from) star_root tree_size tree_time
    tree_bytes (ArchiveGood.of_noBands archive_ok archive_noBands archive_noLock _)
    (ArchiveGood.of_noBands archive_ok archive_noBands archive_noLock _)
  have h0 := backup_list_restore_guard exH exH_inj exH_len archive archive opts opts tree exStar.matches
    (by decide) (by decide) (by decide) (exclude_descClosed _ _ exStar_from) tree_size tree_time
    tree_bytes (ArchiveGood.of_noBands archive_ok archive_noBands archive_noLock _)
    (ArchiveGood.of_noBands archive_ok archive_noBands archive_noLock _)
  have hk : ((C11.walk tree C11.noExcl).filter fun e => !exStar.matches e.apath) = [] := by decide +kernel
  have hs : ((C11.walk tree C11.noExcl).filter fun e => keepAtBackup exStar.matches e.apath) =
      [tree.entry [slash]] := by decide +kernel
  obtain ⟨es, hl1, hl2, _⟩ := h0.listedEq
  rw [hk] at hl2
  have : es = [] := by simpa using hl2
  subst this
  refine ⟨?_, ?_, hl1⟩
  · have := h0.storedEq; rw [hs] at this; exact this
  · have := h0.restoredEq; rw [hk] at this; exact this

/-- The pattern "/" alone: it excludes the root and nothing else (`C15.root_not_closed`), so the backup
made with it holds everything, while listing the full backup with it drops just "/". -/
example : (Exclude.fromStrings [[47]]).map (fun E =>
    ((C11.walk tree E.matches).map (·.apath) == (C11.walk tree C11.noExcl).map (·.apath),
     ((C11.walk tree C11.noExcl).map (·.apath)).filter (fun p => !E.matches p)
       == ((C11.walk tree C11.noExcl).map (·.apath)).tail)) = some (true, true) := by decide +kernel

end Example

end Conserve.C15e
