import ConserveModel.Proofs.ValidateExample
import ConserveModel.Proofs.ValidateTrailing
/-
C09 — Validate is accurate: silent on healthy archives, loud on damage.

"On any archive produced by fault-free operations (completed and interrupted-with-header backups,
deletes, gc) validation reports no error.  If any stored file is removed or made undecodable, or
any data block's bytes are altered, such that some version no longer restores exactly, validation
reports at least one error (full validation for content damage; quick validation for missing
files)."

The CODE is `validate` (Validate.lean: `Archive::validate`, `validate_bands`, `Band::validate`,
`validate_stored_tree`, `BlockDir::validate`, `get_async_uncached`) run after `archiveOpen`
(`check` = what `conserve validate` does).  All theorems are about the fault-free, crash-free world
`World.clean s`.

§1  FUNCTIONAL SPEC.  `validateErrors H quick s` (ValidateSpec.lean) is a pure function of the
    store built from the listing rule of C08 (`listSpec`, `listErrors`); `validate_spec` says the
    program returns `ok`, changes nothing and emits exactly these errors, in this order.
§2  SILENT.  `Good H s` = `Conforms H s` (Invariants.lean: the documented format, crash leftovers
    included) + the store is a function and a tree + every version directory has a readable head
    (`AllHeadsReadable`: the property covers "interrupted-WITH-header" only) + stored values are in
    range (`entriesInRange`: representable times, no `u64` overflow — what `IndexEntry::check` asks
    beyond `entryConforms`; `Conforms` does not say it).  Then neither mode reports anything.
§3–5 LOUD.  Damage is a relation `DamagedAt k d s s'`: the file at `k` is now absent (`d = none`) or
    holds `d = some v`, every other path is untouched, `s'` is still a function.  The byte-level
    damage domain {delete, truncate to 0, truncate to half, garbage, bit flips} is abstracted to
    typed values: absent, `.empty`, `.junk _` (does not decompress / parse), and for blocks
    `.blockData c'` with another content.  Blocks, index hunks, band heads, the archive header.
§6  Before the repair of D8 the hunk theorem was false (`validate_hunk_damage_refuted_before_repair`).
§7  The full "every damage that changes a version is reported" (`DetectsStatement`) is REFUTED by
    one case the format cannot see — the last hunk of a version that has no tail count — and
    proved for everything else (`detects_partial`).
-/
set_option linter.unusedSimpArgs false
namespace Conserve.C09
open Conserve

variable (H : Str → Str)

theorem mem_evsOf {e : Err} {errs : List Err} : Event.error e ∈ evsOf errs ↔ e ∈ errs := by
  simp [evsOf]

/-! ## 1. What `validate` reports, as a function of the store -/

/-- **validate_spec.**  On every store that is well-formed for listing (`ArchWF`, C08) and has the
archive directory and `d/`, `validate` (full or quick) runs to the end, writes nothing, and the
error events are exactly `validateErrors H quick s`, in order of occurrence (the world keeps events
newest first): per version in ascending id the error of `Band::open` or else the errors of the
stitched walk (`listErrors`, C08); then (quick) `blockMissing h` for every referenced hash that is
not a non-empty block file, or (full) one error per present block that does not read back and then
`blockTooShort h` / `blockMissing h` per referenced hash. -/
theorem validate_spec {s : Store} (ok : ArchOK s) (quick : Bool) :
    ((validate H quick).run (World.clean s)).1 = .ok () ∧
    ((validate H quick).run (World.clean s)).2.store = s ∧
    ((validate H quick).run (World.clean s)).2.events =
      ((validateErrors H quick s).map Event.error).reverse := by
  obtain ⟨w', h, q⟩ := run_validate H ok quick (Quiet.clean s) rfl
  rw [h]
  exact ⟨rfl, q.store, by simpa [evsOf] using q.events⟩

/-- The same in any quiet world (no faults, no crash point, not dead), whatever happened before. -/
theorem validate_spec_quiet {s : Store} (ok : ArchOK s) (quick : Bool) {evs : List Event} {w : World}
    (hq : Quiet s evs w) (hc : w.crashAt = none) :
    ((validate H quick).run w).1 = .ok () ∧
    Quiet s (((validateErrors H quick s).map Event.error).reverse ++ evs) ((validate H quick).run w).2 := by
  obtain ⟨w', h, q⟩ := run_validate H ok quick hq hc
  rw [h]
  exact ⟨rfl, q⟩

/-- `conserve validate` = `Archive::open` then `validate`: a header that does not open ends the run
with that error (and no event); otherwise as `validate_spec`. -/
theorem check_spec {s : Store} (ok : ArchOK s) (quick : Bool) :
    ((check H quick).run (World.clean s)).1 =
        (match headerError s with
         | none => Outcome.ok ()
         | some e => Outcome.err e) ∧
      ((check H quick).run (World.clean s)).2.store = s ∧
      ((check H quick).run (World.clean s)).2.events =
        (match headerError s with
         | none => ((validateErrors H quick s).map Event.error).reverse
         | some _ => []) := run_check H ok quick

/-- `referenced`: the table `validate` checks blocks against holds every address of every file
entry of every opened version's listing (with at least the length asked). -/
theorem referenced_complete {s : Store} {b : Nat} {e : IndexEntry} {a : Addr} (hb : b ∈ bandIdsOf s)
    (hh : headError s b = none) (he : e ∈ listSpec s b) (hk : e.kind = .file) (ha : a ∈ e.addrs) :
    ∃ n, (a.hash, n) ∈ referencedOf s ∧ a.start + a.len ≤ n := referenced_covers hb hh he hk ha

/-- The error `Band::open` gives is the one the listing of C08 names for an unreadable version. -/
theorem headError_is_unreadableError {s : Store} {b : Nat} {e : Err} (h : headError s b = some e) :
    e = unreadableError s b := by
  unfold headError at h
  unfold unreadableError
  cases hg : s.get? (.bandHead b) with
  | none => simp [hg] at h; exact h.symm
  | some v =>
    rw [hg] at h
    cases v with
    | head ver flags =>
      cases ver <;> simp at h ⊢
      · obtain ⟨hf, rfl⟩ := h; simp [hf]
      · obtain ⟨hf, rfl⟩ := h; simp [hf]
      · exact h.symm
      · exact h.symm
    | _ => simp at h ⊢; exact h.symm

/-! ## 2. Silent on healthy archives -/

/-- **validate_silent_on_good.**  On a healthy archive (`Good H s`, see the file header) full and
quick validation both run to the end and emit NO event at all. -/
theorem validate_silent_on_good {s : Store} (g : Good H s) (quick : Bool) :
    ((validate H quick).run (World.clean s)).1 = .ok () ∧
    ((validate H quick).run (World.clean s)).2.store = s ∧
    ((validate H quick).run (World.clean s)).2.events = [] := by
  have := validate_spec H g.archOK quick
  rw [g.validateErrors_nil quick] at this
  exact this

/-- The same through the driver: the header opens, nothing is reported. -/
theorem check_silent_on_good {s : Store} (g : Good H s) (quick : Bool) :
    ((check H quick).run (World.clean s)).1 = .ok () ∧
    ((check H quick).run (World.clean s)).2.events = [] := by
  have hh : headerError s = none := by simp [headerError, g.header]
  have := check_spec H g.archOK quick
  rw [hh, g.validateErrors_nil quick] at this
  exact ⟨this.1, this.2.2⟩

/-- What makes it silent, piece by piece: every version opens, its listing reports nothing
(hunks numbered 0,1,2,…, as many as the tail says, a zero-length hunk only as the last one of a
version without tail — exactly what `check_index_hunks` accepts — and every hunk usable), every
referenced address lies inside a present, correctly named block, and every present block reads back. -/
theorem good_pieces {s : Store} (g : Good H s) :
    (∀ b ∈ bandIdsOf s, headError s b = none ∧ listErrors s b = []) ∧
    (∀ p ∈ referencedOf s, ∃ c, s.get? (.block p.1) = some (.blockData c) ∧ H c = p.1 ∧ p.2 ≤ c.length) ∧
    (∀ p ∈ referencedOf s, p.1 ∈ blockNamesOf s) ∧
    (presentSorted s).filterMap (blockReadError H s) = [] := by
  refine ⟨fun x hx => ⟨g.headError_none hx, g.listErrors_nil hx⟩, g.referenced_resolve,
   fun p hp => g.resolves_present (g.referenced_resolve p hp), ?_⟩
  have := g.validateErrors_nil false
  simp only [validateErrors, Bool.false_eq_true, if_false, List.append_eq_nil_iff] at this
  exact this.2.1

/-- The archive a history of fault-free operations starts from. -/
def initArchive : Store := [(.root, .dir), (.header, .header [48, 46, 54]), (.blockRoot, .dir)]

/-- Archives produced by fault-free operations: backups that complete or are interrupted at any
micro-step (`crashAt`), and delete / gc (`deleteBands`, `D = []` is a plain gc). -/
inductive Produced : Store → Prop
  | init : Produced initArchive
  | backup {s : Store} (o : BackupOpts) (src : List SrcEntry) (crashAt : Option Nat) : Produced s →
      Produced ((backup H o src).run { store := s, crashAt := crashAt }).2.store
  | delete {s : Store} (D : List Nat) (o : DeleteOpts) : Produced s →
      Produced ((deleteBands true D o).run (World.clean s)).2.store

/-- The first sentence of the property at full strength.  NOT proved here: what is missing is
`Produced H s → Conforms H s ∧ keysNodup s ∧ treeShaped s ∧ entriesInRange s` — that the writers
(backup for every crash point, delete, gc) keep the format invariant — which belongs to the writer
invariants of C03/C04/C05 and is not assembled anywhere yet.  `validate_silent_on_good` is the part
of the statement that concerns `validate`; the harness checks the statement itself on every state
of every generated history. -/
def SilentOnProducedStatement : Prop :=
  ∀ s, Produced H s → AllHeadsReadable s → ∀ quick,
    ((validate H quick).run (World.clean s)).1 = .ok () ∧
    ((validate H quick).run (World.clean s)).2.events = []

/-- `SilentOnProducedStatement` follows from the format invariant of the writers. -/
theorem silent_on_produced_partial
    (hinv : ∀ s, Produced H s →
      Conforms H s = true ∧ keysNodup s = true ∧ treeShaped s = true ∧ entriesInRange s = true) :
    SilentOnProducedStatement H := by
  intro s hp hh quick
  obtain ⟨h1, h2, h3, h4⟩ := hinv s hp
  have := validate_silent_on_good H ⟨h1, h2, h3, hh, h4⟩ quick
  exact ⟨this.1, this.2.2⟩

/-! ## 3. Blocks -/

/-- The damage domain for a block file named `h`: removed, truncated to nothing, bytes that do
not decompress, or bytes that decompress to something whose hash is not `h` (truncation to half,
garbage and bit flips are one of the last two). -/
def BlockDamage (h : Str) (d : Option FileVal) : Prop :=
  d = none ∨ d = some .empty ∨ (∃ i, d = some (.junk i)) ∨ ∃ c, d = some (.blockData c) ∧ H c ≠ h

theorem BlockDamage.notHunk {h : Str} {d : Option FileVal} (hd : BlockDamage H h d) :
    ∀ es, d ≠ some (.hunk es) := by
  intro es he
  rcases hd with rfl | rfl | ⟨i, rfl⟩ | ⟨c, rfl, _⟩ <;> cases he

/-- With an injective hash, any other content is damage. -/
theorem blockDamage_of_injective (hinj : Function.Injective H) {c c' : Str} (hne : c' ≠ c) :
    BlockDamage H (H c) (some (.blockData c')) :=
  Or.inr (Or.inr (Or.inr ⟨c', rfl, fun e => hne (hinj e)⟩))

/-- **validate_detects_block_damage.**  `s` healthy, `s'` differs from `s` only in the file of
block `h` (removed / emptied / undecodable / other content), and some version's listing has a file
entry with an address in `h` (so that version no longer restores exactly): FULL validation of `s'`
runs to the end and reports `blockMissing h` (step 3b: the block is not among those that read
back — missing, does not decode, or its hash is not its name because validation recomputes `H`). -/
theorem validate_detects_block_damage {s s' : Store} {h : Str} {d : Option FileVal} (g : Good H s)
    (dm : DamagedAt (.block h) d s s') (hd : BlockDamage H h d) (href : Referenced s h) :
    ((validate H false).run (World.clean s')).1 = .ok () ∧
    Event.error (.blockMissing h) ∈ ((validate H false).run (World.clean s')).2.events := by
  have ok' := dm.archOK (Key.isLeaf_block h) hd.notHunk g.archOK
  obtain ⟨h1, _, h3⟩ := validate_spec H ok' false
  refine ⟨h1, ?_⟩
  rw [h3]
  apply mem_evsOf.mpr
  apply block_damage_detected g dm href
  intro c hc
  rcases hd with rfl | rfl | ⟨i, rfl⟩ | ⟨c', rfl, hne⟩
  · cases hc
  · cases hc
  · cases hc
  · cases hc; exact hne

/-- Altered bytes are also reported as what they are: `blockCorrupt h`, from `get_async_uncached`
comparing the hash of what it read with the name (`H c' ≠ h`, e.g. `H` injective and `c' ≠ c`).
This does not need the block to be referenced. -/
theorem validate_reports_corrupt_block {s s' : Store} {h c' : Str} (g : Good H s)
    (dm : DamagedAt (.block h) (some (.blockData c')) s s') (hbad : H c' ≠ h) :
    Event.error (.blockCorrupt h) ∈ ((validate H false).run (World.clean s')).2.events := by
  have ok' := dm.archOK (Key.isLeaf_block h) (by simp) g.archOK
  rw [(validate_spec H ok' false).2.2]
  exact mem_evsOf.mpr (block_corrupt_detected g dm hbad)

/-- If the hash does not notice (a collision `H c' = h`: impossible for an injective `H`), content
that is shorter than some listed address needs is still reported: `blockTooShort h`, from comparing
the referenced length with the decompressed length. -/
theorem validate_detects_short_block {s s' : Store} {h c' : Str} (g : Good H s)
    (dm : DamagedAt (.block h) (some (.blockData c')) s s') (hcol : H c' = h)
    {b : Nat} {e : IndexEntry} {a : Addr} (hb : b ∈ bandIdsOf s) (he : e ∈ listSpec s b)
    (hk : e.kind = .file) (ha : a ∈ e.addrs) (hah : a.hash = h) (hshort : c'.length < a.start + a.len) :
    Event.error (.blockTooShort h) ∈ ((validate H false).run (World.clean s')).2.events := by
  have ok' := dm.archOK (Key.isLeaf_block h) (by simp) g.archOK
  rw [(validate_spec H ok' false).2.2]
  exact mem_evsOf.mpr (block_too_short_detected g dm hcol hb he hk ha hah hshort)

/-- A block file that no longer decompresses is reported with a decode error. -/
theorem validate_reports_undecodable_block {s s' : Store} {h : Str} {i : Nat} (g : Good H s)
    (dm : DamagedAt (.block h) (some (.junk i)) s s') :
    Event.error .json ∈ ((validate H false).run (World.clean s')).2.events := by
  have ok' := dm.archOK (Key.isLeaf_block h) (by simp) g.archOK
  rw [(validate_spec H ok' false).2.2]
  exact mem_evsOf.mpr (block_junk_detected g dm)

/-- **validate_quick_detects_missing_block.**  A referenced block file that was removed or
truncated to nothing is reported by QUICK validation (`list_blocks` only sees non-empty files). -/
theorem validate_quick_detects_missing_block {s s' : Store} {h : Str} {d : Option FileVal} (g : Good H s)
    (dm : DamagedAt (.block h) d s s') (hd : d = none ∨ d = some .empty) (href : Referenced s h) :
    ((validate H true).run (World.clean s')).1 = .ok () ∧
    Event.error (.blockMissing h) ∈ ((validate H true).run (World.clean s')).2.events := by
  have ok' := dm.archOK (Key.isLeaf_block h)
    (by intro es he; rcases hd with rfl | rfl <;> cases he) g.archOK
  obtain ⟨h1, _, h3⟩ := validate_spec H ok' true
  refine ⟨h1, ?_⟩
  rw [h3]
  exact mem_evsOf.mpr (block_missing_detected_quick g dm href hd)

/-- "Some version no longer restores exactly" for block damage: if the content some listed entry
reads back changed, a file entry refers to the damaged block. -/
theorem referenced_of_readBack_changed {s s' : Store} {h : Str} {d : Option FileVal} (g : Good H s)
    (dm : DamagedAt (.block h) d s s') {b : Nat} (hb : b ∈ bandIdsOf s) {e : IndexEntry}
    (he : e ∈ listSpec s b) (hch : readBack H s' e.addrs ≠ readBack H s e.addrs) : Referenced s h := by
  have hsame : ∀ as : List Addr, (∀ a ∈ as, a.hash ≠ h) → readBack H s' as = readBack H s as := by
    intro as
    induction as with
    | nil => intro _; rfl
    | cons a as ih =>
      intro hne
      have h1 : readAddrPure H s' a = readAddrPure H s a := by
        have hk : Key.block a.hash ≠ Key.block h := by
          intro e; cases e; exact hne a (List.mem_cons_self ..) rfl
        simp only [readAddrPure, blockContent, dm.same _ hk]
      simp only [readBack, h1, ih (fun x hx => hne x (List.mem_cons_of_mem _ hx))]
  have hex : ∃ a ∈ e.addrs, a.hash = h := by
    apply Classical.byContradiction
    intro hn
    exact hch (hsame _ (fun a ha e' => hn ⟨a, ha, e'⟩))
  obtain ⟨a, ha, hah⟩ := hex
  have hc := g.listed_conforms he
  have hk : e.kind = .file := by
    unfold entryConforms at hc
    cases hkind : e.kind with
    | file => rfl
    | _ =>
      rw [hkind] at hc
      simp only [Bool.and_eq_true, List.isEmpty_iff] at hc
      first
        | (rw [hc.2.1] at ha; simp at ha)
        | simp at hc
  exact ⟨b, hb, e, he, hk, a, ha, hah⟩

/-! ## 4. Index hunks -/

/-- The damage domain for index hunks, band heads and the header: removed, truncated to nothing,
or bytes that do not decompress / parse. -/
def FileDamage (d : Option FileVal) : Prop := d = none ∨ d = some .empty ∨ ∃ i, d = some (.junk i)

theorem FileDamage.notHunk {d : Option FileVal} (hd : FileDamage d) : ∀ es, d ≠ some (.hunk es) := by
  intro es he
  rcases hd with rfl | rfl | ⟨i, rfl⟩ <;> cases he

/-- When the format lets anyone see that hunk `n` of version `b` was damaged: the bytes are
undecodable; or the tail states the hunk count; or `n` is not the last hunk. -/
def HunkDetectable (s : Store) (b n : Nat) (d : Option FileVal) : Prop :=
  (∃ i, d = some (.junk i)) ∨ (∃ c, s.get? (.bandTail b) = some (.tail (some c))) ∨
    n + 1 < (hunkNumsOf s b).length

/-- **validate_detects_hunk_damage.**  `s` healthy, `s'` differs only in hunk file `n` of version `b`
(removed / emptied / undecodable), detectable in the sense above.  Then full AND quick validation
of `s'` run to the end and report an error:
* removed: `check_index_hunks` finds the count different from the tail's, or a gap in the numbering
  (`invalidMetadata`);
* emptied: a zero-length hunk that is not the last one of a version without tail (`invalidMetadata`);
* undecodable: the hunk iterator reports the decode error (`json`) instead of swallowing it. -/
theorem validate_detects_hunk_damage {s s' : Store} {b n : Nat} {d : Option FileVal} (g : Good H s)
    (dm : DamagedAt (.hunk b n) d s s') (hd : FileDamage d) (hdet : HunkDetectable s b n d) (quick : Bool) :
    ((validate H quick).run (World.clean s')).1 = .ok () ∧
    ∃ e, Event.error e ∈ ((validate H quick).run (World.clean s')).2.events ∧
      (e = .invalidMetadata ∨ e = .json) := by
  have ok' := dm.archOK (Key.isLeaf_hunk b n) hd.notHunk g.archOK
  obtain ⟨h1, _, h3⟩ := validate_spec H ok' quick
  refine ⟨h1, ?_⟩
  obtain ⟨e, he, hk⟩ := hunk_damage_detected (H := H) g dm hd hdet quick
  exact ⟨e, by rw [h3]; exact mem_evsOf.mpr he, hk⟩

/-- Every hunk of a COMPLETE version (the tail states the count) is covered, whatever the damage. -/
theorem validate_detects_hunk_damage_complete {s s' : Store} {b n c : Nat} {d : Option FileVal} (g : Good H s)
    (hc : s.get? (.bandTail b) = some (.tail (some c)))
    (dm : DamagedAt (.hunk b n) d s s') (hd : FileDamage d) (quick : Bool) :
    ∃ e, Event.error e ∈ ((validate H quick).run (World.clean s')).2.events :=
  let ⟨e, he, _⟩ := (validate_detects_hunk_damage H g dm hd (Or.inr (Or.inl ⟨c, hc⟩)) quick).2
  ⟨e, he⟩

/-- In an INCOMPLETE version a missing (or emptied, or undecodable) hunk that is not the last one
leaves a gap (or a misplaced zero-length file) and is reported. -/
theorem validate_detects_middle_hunk_damage {s s' : Store} {b n : Nat} {d : Option FileVal} (g : Good H s)
    (hmid : n + 1 < (hunkNumsOf s b).length)
    (dm : DamagedAt (.hunk b n) d s s') (hd : FileDamage d) (quick : Bool) :
    ∃ e, Event.error e ∈ ((validate H quick).run (World.clean s')).2.events :=
  let ⟨e, he, _⟩ := (validate_detects_hunk_damage H g dm hd (Or.inr (Or.inr hmid)) quick).2
  ⟨e, he⟩

/-- **trailing_hunk_loss_undetectable.**  The one case left, in general: `s` healthy, version `b` has no
tail, and its LAST hunk file is removed.  Then `s'` is healthy too — it is exactly the archive an
interruption one hunk earlier leaves (`good_of_trailing_hunk_loss`) — so full and quick validation of
`s'` are silent.  Nothing in the format (no tail, no count) distinguishes the two stores: a limitation
of the format, outside what `validate` can report. -/
theorem trailing_hunk_loss_undetectable {s s' : Store} {b n : Nat} (g : Good H s)
    (dm : DamagedAt (.hunk b n) none s s') (hopen : s.get? (.bandTail b) = none)
    (hlast : n + 1 = (hunkNumsOf s b).length) (quick : Bool) :
    Good H s' ∧ ((check H quick).run (World.clean s')).1 = .ok () ∧
      ((check H quick).run (World.clean s')).2.events = [] :=
  have g' := good_of_trailing_hunk_loss g dm hopen hlast
  ⟨g', check_silent_on_good H g' quick⟩

/-- **open_band_trailing_hunk_loss_undetectable.**  … and it does change what the version lists.
Witness: `exOpen` (one interrupted version, hunks `/` and `/a`) is
healthy; after losing hunk 1 the store `exOpenDel` is ALSO healthy — it is exactly what an
interruption one hunk earlier leaves — so both validations are silent on it, although the listing
of the version changed (`/a` is gone).  Nothing in the format (no tail, no count) distinguishes the
two: this is a limitation of the format, outside what `validate` can report. -/
theorem open_band_trailing_hunk_loss_undetectable :
    Good id C09Ex.exOpen ∧ isComplete C09Ex.exOpen 0 = false ∧
    DamagedAt (.hunk 0 1) none C09Ex.exOpen C09Ex.exOpenDel ∧
    listSpec C09Ex.exOpenDel 0 ≠ listSpec C09Ex.exOpen 0 ∧
    Good id C09Ex.exOpenDel ∧
    ∀ quick, ((check id quick).run (World.clean C09Ex.exOpenDel)).1 = .ok () ∧
      ((check id quick).run (World.clean C09Ex.exOpenDel)).2.events = [] := by
  refine ⟨C09Ex.exOpen_good, by decide +kernel, C09Ex.exOpenDel_damaged, ?_, C09Ex.exOpenDel_good,
    fun quick => check_silent_on_good id C09Ex.exOpenDel_good quick⟩
  rw [C09Ex.exOpen_list, C09Ex.exOpenDel_list]
  decide

/-! ## 5. Band heads and the archive header -/

/-- **validate_detects_head_damage.**  A BANDHEAD that is removed, emptied or undecodable: `Band::open`
fails and `validate_bands` reports it — `bandHeadMissing b` for a removed head, a decode error
otherwise — under full and quick validation alike.  (Removing a BANDTAIL is not damage: the version
becomes "incomplete", a legal state.) -/
theorem validate_detects_head_damage {s s' : Store} {b : Nat} {d : Option FileVal} (g : Good H s)
    (dm : DamagedAt (.bandHead b) d s s') (hd : FileDamage d) (quick : Bool) :
    ((validate H quick).run (World.clean s')).1 = .ok () ∧
    Event.error (if d = none then Err.bandHeadMissing b else Err.json) ∈
      ((validate H quick).run (World.clean s')).2.events := by
  have ok' := dm.archOK (Key.isLeaf_bandHead b) hd.notHunk g.archOK
  obtain ⟨h1, _, h3⟩ := validate_spec H ok' quick
  refine ⟨h1, ?_⟩
  rw [h3]
  exact mem_evsOf.mpr (head_damage_detected g dm hd quick)

/-- **Header damage.**  `conserve validate` opens the archive first; a CONSERVE file that is removed,
emptied or undecodable makes `Archive::open` fail (`notAnArchive` / a decode error): the run ends
with that error. -/
theorem check_detects_header_damage {s s' : Store} {d : Option FileVal}
    (dm : DamagedAt .header d s s') (hd : FileDamage d) (quick : Bool) :
    ((check H quick).run (World.clean s')).1 = .err (if d = none then Err.notAnArchive else Err.json) := by
  obtain ⟨w1, h1, _⟩ := run_archiveOpen (Quiet.clean s')
  unfold check
  rw [Prog.run_bind, h1]
  unfold headerError
  rw [dm.now]
  rcases hd with rfl | rfl | ⟨i, rfl⟩ <;> rfl

/-! ## 6. Before the repair of D8 -/

/-- **validate_hunk_damage_refuted_before_repair.**  With the index reader as it was (read errors
swallowed by `IndexHunkIter::next`; no `check_index_hunks`: `validateSilent`, Proofs/ValidateSilent.lean)
the hunk theorem is false.  Witness: `ex` — one complete version with hunks 0,1,2 holding `/`, `/a`,
`/b`, tail count 3 — is healthy; delete hunk 1 of 3.  The version now lists `/ /b` instead of
`/ /a /b` (it no longer restores exactly), yet the old validation, full and quick, emits no event;
the current model reports an error in both modes. -/
theorem validate_hunk_damage_refuted_before_repair :
    Good id C09Ex.ex ∧ C09Ex.ex.get? (.bandTail 0) = some (.tail (some 3)) ∧
    DamagedAt (.hunk 0 1) none C09Ex.ex C09Ex.exDel ∧
    listSpec C09Ex.ex 0 = [C09Ex.eRoot, C09Ex.eA, C09Ex.eB] ∧
    listSpec C09Ex.exDel 0 = [C09Ex.eRoot, C09Ex.eB] ∧
    (∀ quick, ((validateSilent id quick).run (World.clean C09Ex.exDel)).2.events = []) ∧
    (∀ quick, ∃ e, Event.error e ∈ ((validate id quick).run (World.clean C09Ex.exDel)).2.events) :=
  ⟨C09Ex.ex_good, by decide +kernel, C09Ex.exDel_damaged, C09Ex.ex_list, C09Ex.exDel_list,
   C09Ex.exDel_silent,
   fun quick => validate_detects_hunk_damage_complete id C09Ex.ex_good (c := 3) (by decide +kernel)
     C09Ex.exDel_damaged (Or.inl rfl) quick⟩

/-! ## 7. The second sentence of the property as one statement -/

/-- The damage domain: header, band heads and index hunks × {removed, emptied, undecodable};
blocks additionally × {other content}.  Tails are excluded, as in the property. -/
def IsDamage : Key → Option FileVal → Prop
  | .header, d => FileDamage d
  | .bandHead _, d => FileDamage d
  | .hunk _ _, d => FileDamage d
  | .block h, d => BlockDamage H h d
  | _, _ => False

/-- "Some version no longer restores exactly": the listing of some version changed, or the
content one of its entries reads back did (restore creates exactly the listed entries with the
content their addresses read back). -/
def VersionChanged (s s' : Store) : Prop :=
  ∃ b ∈ bandIdsOf s, listSpec s' b ≠ listSpec s b ∨
    ∃ e ∈ listSpec s b, readBack H s' e.addrs ≠ readBack H s e.addrs

/-- "Validation reports at least one error": the run ends with an error or emits an error event. -/
def ReportsError (quick : Bool) (s : Store) : Prop :=
  (∃ e, ((check H quick).run (World.clean s)).1 = .err e) ∨
  ∃ e, Event.error e ∈ ((check H quick).run (World.clean s)).2.events

/-- The second sentence at full strength (full validation). -/
def DetectsStatement : Prop :=
  ∀ (s s' : Store) (k : Key) (d : Option FileVal), Good H s → DamagedAt k d s s' → IsDamage H k d →
    VersionChanged H s s' → ReportsError H false s'

/-- … and its quick-validation half: removed files. -/
def QuickDetectsMissingStatement : Prop :=
  ∀ (s s' : Store) (k : Key), Good H s → DamagedAt k none s s' → IsDamage H k none →
    VersionChanged H s s' → ReportsError H true s'

theorem events_of_check {s : Store} (ok : ArchOK s) (hh : headerError s = none) (quick : Bool) :
    ((check H quick).run (World.clean s)).2.events = ((validate H quick).run (World.clean s)).2.events := by
  have h1 := (check_spec H ok quick).2.2
  rw [hh] at h1
  rw [h1, (validate_spec H ok quick).2.2]

/-- **detects_partial.**  Everything except the one case the format cannot see: if the damaged
file is an index hunk, the damage must be `HunkDetectable` (undecodable bytes, or a tail count, or
not the last hunk).  Full validation; for removed files also quick validation. -/
theorem detects_partial {s s' : Store} {k : Key} {d : Option FileVal} (g : Good H s)
    (dm : DamagedAt k d s s') (hd : IsDamage H k d) (hch : VersionChanged H s s')
    (hdet : ∀ b n, k = .hunk b n → HunkDetectable s b n d) :
    ReportsError H false s' ∧ (d = none → ReportsError H true s') := by
  have hheader : ∀ k', k' ≠ Key.header → k = k' → headerError s' = none := by
    intro k' hne hk
    subst hk
    simp [headerError, dm.same .header (Ne.symm hne), g.header]
  cases k with
  | header =>
    have := fun q => check_detects_header_damage H dm hd q
    exact ⟨Or.inl ⟨_, this false⟩, fun _ => Or.inl ⟨_, this true⟩⟩
  | bandHead b =>
    have ok' := dm.archOK (Key.isLeaf_bandHead b) (FileDamage.notHunk hd) g.archOK
    have hh := hheader _ (by simp) rfl
    have := fun q => (validate_detects_head_damage H g dm hd q).2
    exact ⟨Or.inr ⟨_, by rw [events_of_check H ok' hh]; exact this false⟩,
      fun _ => Or.inr ⟨_, by rw [events_of_check H ok' hh]; exact this true⟩⟩
  | hunk b n =>
    have ok' := dm.archOK (Key.isLeaf_hunk b n) (FileDamage.notHunk hd) g.archOK
    have hh := hheader _ (by simp) rfl
    have := fun q => (validate_detects_hunk_damage H g dm hd (hdet b n rfl) q).2
    obtain ⟨e1, he1, _⟩ := this false
    obtain ⟨e2, he2, _⟩ := this true
    exact ⟨Or.inr ⟨e1, by rw [events_of_check H ok' hh]; exact he1⟩,
      fun _ => Or.inr ⟨e2, by rw [events_of_check H ok' hh]; exact he2⟩⟩
  | block h =>
    have hd' : BlockDamage H h d := hd
    have ok' := dm.archOK (Key.isLeaf_block h) hd'.notHunk g.archOK
    have hh := hheader _ (by simp) rfl
    have idx := block_indexSame g dm
    have href : Referenced s h := by
      obtain ⟨b, hb, hl | ⟨e, he, hr⟩⟩ := hch
      · exact absurd (idx.listSpec_eq b) hl
      · exact referenced_of_readBack_changed H g dm hb he hr
    refine ⟨Or.inr ⟨.blockMissing h, ?_⟩, fun hn => Or.inr ⟨.blockMissing h, ?_⟩⟩
    · rw [events_of_check H ok' hh]; exact (validate_detects_block_damage H g dm hd' href).2
    · rw [events_of_check H ok' hh]
      exact (validate_quick_detects_missing_block H g dm (Or.inl hn) href).2
  | _ => exact absurd hd (by simp [IsDamage])

/-- **detects_refuted.**  At full strength the second sentence is false in the model, for every
hash function that is the identity on the witness (e.g. `id`): losing the last hunk of an
interrupted version changes what that version lists and is reported by nobody
(`open_band_trailing_hunk_loss_undetectable`).  This is inherent in the format — a version without
tail does not say how many hunks it has — not a defect of `validate`. -/
theorem detects_refuted : ¬ DetectsStatement id ∧ ¬ QuickDetectsMissingStatement id := by
  obtain ⟨g, _, dm, hl, _, hs⟩ := open_band_trailing_hunk_loss_undetectable
  have hch : VersionChanged id C09Ex.exOpen C09Ex.exOpenDel :=
    ⟨0, by rw [C09Ex.exOpen_bandIds]; simp, Or.inl hl⟩
  have hno : ∀ quick, ¬ ReportsError id quick C09Ex.exOpenDel := by
    intro quick hr
    obtain ⟨h1, h2⟩ := hs quick
    rcases hr with ⟨e, he⟩ | ⟨e, he⟩
    · rw [h1] at he; cases he
    · rw [h2] at he; cases he
  exact ⟨fun h => hno false (h _ _ _ _ g dm (Or.inl rfl) hch),
    fun h => hno true (h _ _ _ g dm (Or.inl rfl) hch)⟩

/-! ## Non-vacuity -/

/-- The hypotheses of §2–§5 are satisfiable: `ex` (one complete version, three hunks, one block) is healthy. -/
example : Good id C09Ex.ex := C09Ex.ex_good
example : ((validate id false).run (World.clean C09Ex.ex)).2.events = [] :=
  (validate_silent_on_good id C09Ex.ex_good false).2.2
example : Referenced C09Ex.ex [1, 2, 3] := C09Ex.ex_referenced

/-- Flipping bits in block `[1,2,3]` (it now decompresses to `[9]`): full validation says so. -/
example : Event.error (.blockMissing [1, 2, 3]) ∈
    ((validate id false).run (World.clean (C09Ex.ex.put (.block [1, 2, 3]) (.blockData [9])))).2.events :=
  (validate_detects_block_damage id C09Ex.ex_good
    (DamagedAt.put C09Ex.ex_good.nodup ⟨.blockData [1, 2, 3], by decide +kernel, rfl⟩ (by simp))
    (Or.inr (Or.inr (Or.inr ⟨[9], rfl, by decide⟩))) C09Ex.ex_referenced).2

/-- Deleting the block: quick validation says so. -/
example : Event.error (.blockMissing [1, 2, 3]) ∈
    ((validate id true).run (World.clean (C09Ex.ex.erase (.block [1, 2, 3])))).2.events :=
  (validate_quick_detects_missing_block id C09Ex.ex_good
    (DamagedAt.erase C09Ex.ex_good.nodup ⟨.blockData [1, 2, 3], by decide +kernel, rfl⟩)
    (Or.inl rfl) C09Ex.ex_referenced).2

/-- Truncating the head of version 0 to nothing: reported as a decode error, also by quick validation. -/
example : Event.error .json ∈
    ((validate id true).run (World.clean (C09Ex.ex.put (.bandHead 0) .empty))).2.events :=
  (validate_detects_head_damage id C09Ex.ex_good
    (DamagedAt.put C09Ex.ex_good.nodup ⟨.head .ok [], by decide +kernel, rfl⟩ (by simp))
    (Or.inr (Or.inl rfl)) true).2

/-- The archive of Props/C08.lean (`demo`) has a head-less version directory (b0003) and an empty
head (b0005), so it is not `Good` (not "interrupted-with-header"); it is `ArchOK`, so `validate_spec`
applies to it and says what is reported (`bandHeadMissing 3`, a decode error for b0005, …). -/
example : ArchOK C08.demo := ⟨C08.demo_wf, by decide +kernel, by decide +kernel⟩

end Conserve.C09
