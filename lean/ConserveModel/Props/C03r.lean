import ConserveModel.Proofs.CrashRestore
import ConserveModel.Proofs.ProducedHeads
import ConserveModel.Proofs.CrashResume
/-
C03, the sentences about the INTERRUPTED version — "Once its header exists the interrupted version is
listed as incomplete, and listing or restoring it gives the new content for every path up to the last
one it recorded and the previous version's content after that.  A later backup of the same source
completes and restores exactly."

Setting: a good archive `s` (`Start`: C01a's `ArchiveGood`, C13's `CI`, stored values in range) whose
newest version directory `p` holds a complete version; `backup H o src` of a good source listing, killed
before mutating micro-step `j` — EVERY `j` — with no injected faults (`crashWorld s j`); `s'` is the
archive it leaves, `n = newBandOf s = p + 1` the id of the version it was writing.

* `interrupted_listing_spec` (2a): the entries `n` contributes to a listing (`bandEntries s' n`: its usable
  hunks if its head is readable, nothing otherwise) record, entry by entry and in order, a PREFIX `pre` of
  the source listing; and `listSpec s' n` (C08's rule = what the code lists) is those entries followed —
  unless `n`'s tail file already exists — by the entries of `listSpec s p` whose path sorts after the
  last recorded path.  (Entries still queued in the combiner or pending in the index writer are in no
  hunk: the hunks present are an initial segment of the hunks of the uninterrupted run.)
* `interrupted_restore_spec` (2b): with `n`'s head readable and nothing listed lying below a listed
  symlink, restoring `n` on `s'` returns `pre.map (expectedNode o)` — the NEW content — followed by the
  nodes the previous version's entries restore to in `s` — the OLD content — and reports nothing.
  `previous_restore_nodes`: those are exactly the nodes restoring `p` yields for these entries.
* `resume_completes_exact` (2c): if `n`'s head is readable (or no directory was made for `n`), `s'` is
  `ArchiveGood` for the same source, so a later fault-free backup of it — any options — satisfies all of
  `C01a.Exact`: completes, counts and reports no error, and its version restores exactly.
  `resume_completes_exact_late`: every crash point `j ≥ 4` (past `mkdir bNNNN`, `mkdir bNNNN/i` and the two
  micro-steps of the head write) qualifies.

How: the killed run is a prefix of the uninterrupted run (`Crash.crash_prefix`: its store is extended by
the complete run's store), whose final store C01a describes (`Exact.Summary`); C13's `CI` (kept in
every world) says which hunk files of `n` can be present; C04 gives the content of what was recorded.

FINDING recorded by the hypothesis of 2c (not a model artefact — `Stitch` reports what `Band::open`
returns): a backup killed between `mkdir bNNNN` and the completion of the head write leaves a version
directory without readable head; the NEXT backup takes it as its basis version, `Band::open` fails, and
the resumed backup — which does complete and restore exactly as far as C04r shows — REPORTS an error
(`monitor.error(BandHeadMissing)` resp. a JSON error for the zero-length head): "completes without
reporting errors" fails for exactly those three crash points.  Proved as `resume_after_early_kill_reports`
(for every archive whose newest version directory has no readable head), with the store the model leaves
at `crashAt := some 1` as example (`Example.t1`; `#eval` of the model: killed at micro-step 1 or 2 the
next backup emits `BandHeadMissing 0`, at 3 `Json`, from 4 on nothing).
`interrupted_incomplete_iff`: "listed as incomplete" = no tail file; the tail is the last thing written.
-/
namespace Conserve.C03r
open Conserve Conserve.Exact Conserve.Inv Conserve.Conf Conserve.Fault Conserve.Crash Conserve.Rng

variable {H : Str → Str}

/-- The world that is killed before mutating micro-step `j` (no injected faults) — C03's. -/
abbrev crashWorld (s : Store) (j : Nat) : World := C03.crashWorld s j

/-- What is assumed of the archive: good in C01a's sense and in C13's, stored values in range (C09), and
its newest version directory `p` holds a complete version. -/
abbrev Start (H : Str → Str) (src : List SrcEntry) (s : Store) (p : Nat) : Prop := CrashStart H src s p

/-- The restore the statements are about: version `b`, whole tree, nothing excluded, fault-free. -/
abbrev restoreOf (H : Str → Str) (b : Nat) (s : Store) : Outcome (List RNode) × World :=
  (restore H (.specified b) [slash] (fun _ => false)).run (World.clean s)

/-- What the listing of the interrupted version takes from the previous version: nothing once the tail
file exists; otherwise the previous listing's entries after the last recorded path. -/
def oldPart (s s' : Store) (p n : Nat) : List IndexEntry :=
  if isComplete s' n then []
  else (listSpec s p).filter (sortsAfter (lastOr (bandEntries s' n) none))

/-! ## 2a — the listing -/

/-- **`interrupted_listing_spec`.**  For EVERY crash point `j`: there is a prefix `pre` of the source
listing such that the entries version `n` contributes are, one by one and in order, records of `pre`
(`Records`: all metadata is `metadata_from` of the source entry; a file's addresses read back, in `s'`, to
exactly its bytes; nothing else has addresses); and the listing of `n` on `s'` is those entries followed
by `oldPart`: the previous version's entries that sort after the last recorded path — or nothing, if
`n`'s tail file exists (the run was killed in its very last write, or not at all).  Last clause: once
the tail file is there AND decodes (the run was not killed), `pre` is the whole source.  (For the
zero-length tail left by a kill between the two micro-steps of the tail write the same is true but not
proved: the static invariants do not say how many hunks precede a zero-length tail.) -/
theorem interrupted_listing_spec (H : Str → Str) (hinj : Function.Injective H) (hlen : HashLen H) (s : Store)
    (o : BackupOpts) (src : List SrcEntry) (p : Nat) (ho : 0 < o.maxBlockSize) (hsrc : SrcGood src)
    (hsw : C13.SrcSortedWeak src) (hst : Start H src s p) (j : Nat) :
    let s' := ((backup H o src).run (crashWorld s j)).2.store
    let n := newBandOf s
    ∃ pre, pre <+: src ∧ Paired (Records H o s') pre (bandEntries s' n) ∧
      listSpec s' n = bandEntries s' n ++ oldPart s s' p n ∧
      (bandReadable s' n = true → (∃ c, s'.get? (.bandTail n) = some (.tail c)) → pre = src) := by
  intro s' n
  obtain ⟨sF, hs, stats, evs, h⟩ := backup_summary (o := o) hinj (fun d => hlen d) ho hsrc hst.good
  have hci' : CI H s' :=
    C13.backup_ci_all_worlds (w := crashWorld s j) hinj hlen hsw rfl hst.ci
  obtain ⟨pre, hpre, hrec, hfull⟩ := crashed_records hinj ho hsrc hst.good h j hci'
  exact ⟨pre, hpre, hrec, crashed_listSpec hst j, hfull⟩

/-- The version is "incomplete" in the format's sense exactly as long as its tail file does not exist. -/
theorem interrupted_incomplete_iff (s' : Store) (n : Nat) :
    isComplete s' n = false ↔ (s'.get? (.bandTail n) = none ∨ s'.get? (.bandTail n) = some .dir) := by
  unfold isComplete
  cases hg : s'.get? (.bandTail n) with
  | none => simp
  | some v => cases v <;> simp [FileVal.isDir]

/-! ## 2b — the restore -/

/-- Restoring the previous (complete) version, when nothing it lists lies below a symlink it lists: one
node per listed entry (`nodeOf`), nothing reported.  These are the "old" nodes of 2b. -/
theorem previous_restore_nodes (H : Str → Str) (s : Store) (src : List SrcEntry) (p : Nat) (hst : Start H src s p)
    (hnb : NoneBelowSymlink (listSpec s p)) :
    (restoreOf H p s).1 = .ok ((listSpec s p).map (nodeOf H s)) ∧ (restoreOf H p s).2.events = [] :=
  restore_nodes_of_good hst.good (hst.good.bands p hst.mem).1 hnb

/-- **`interrupted_restore_spec`.**  Crash point `j` such that the new version's head is readable
(`bandReadable s' n`: head written, index directory there — every `j ≥ 4`), and no listed entry lies
strictly below a listed symlink (`NoneBelowSymlink`; for a source that is the walk of a tree and a
previous version of the same kind this can only fail when a path that was a DIRECTORY in the previous
version is a SYMLINK in the source and the run was killed after recording it: the old listing then
still supplies what was below it, and restore reports those entries instead of restoring them).
Then restoring `n` on `s'` (fault-free) returns `pre.map (expectedNode o)` — for every recorded path the
NEW content, metadata, target — followed by `(oldPart …).map (nodeOf H s)` — for every later path exactly
the node the previous version restores to — and reports nothing. -/
theorem interrupted_restore_spec (H : Str → Str) (hinj : Function.Injective H) (hlen : HashLen H) (s : Store)
    (o : BackupOpts) (src : List SrcEntry) (p : Nat) (ho : 0 < o.maxBlockSize) (hsrc : SrcGood src)
    (hsw : C13.SrcSortedWeak src) (hst : Start H src s p) (j : Nat) :
    let s' := ((backup H o src).run (crashWorld s j)).2.store
    let n := newBandOf s
    bandReadable s' n = true → NoneBelowSymlink (listSpec s' n) →
    ∃ pre, pre <+: src ∧ Paired (Records H o s') pre (bandEntries s' n) ∧
      (restoreOf H n s').1 = .ok (pre.map (expectedNode o) ++ (oldPart s s' p n).map (nodeOf H s)) ∧
      (restoreOf H n s').2.events = [] := by
  intro s' n hread hnb
  obtain ⟨pre, hpre, hrec, hlist, _⟩ := interrupted_listing_spec H hinj hlen s o src p ho hsrc hsw hst j
  have hg' : ArchiveGood H src s' := crashed_archiveGood hinj hlen ho hsrc hsw hst j (fun _ => hread)
  obtain ⟨h1, h2⟩ := restore_nodes_of_good hg' hread hnb
  refine ⟨pre, hpre, hrec, ?_, h2⟩
  show ((restore H (.specified n) [slash] (fun _ => false)).run (World.clean s')).1 = _
  rw [h1]
  have hl : listSpec s' n = bandEntries s' n ++ oldPart s s' p n := hlist
  rw [hl, List.map_append, map_nodeOf_records (src := src) hrec]
  congr 2
  apply List.map_congr_left
  intro e he
  have hmem : e ∈ listSpec s p := by
    unfold oldPart at he
    split at he
    · cases he
    · exact (List.mem_filter.mp he).1
  exact nodeOf_old hst.good.noDangling (crashed_extends s j) hmem

/-- **2b when the previous version was made from the same source** (with any options `o0`): every listed
path and kind is then a source path and kind, a good source has nothing below a symlink, and the
hypothesis about symlinks holds by itself. -/
theorem interrupted_restore_same_source (H : Str → Str) (hinj : Function.Injective H) (hlen : HashLen H)
    (s : Store) (o o0 : BackupOpts) (src : List SrcEntry) (p : Nat) (ho : 0 < o.maxBlockSize) (hsrc : SrcGood src)
    (hsw : C13.SrcSortedWeak src) (hst : Start H src s p)
    (hprev : Paired (Records H o0 s) src (listSpec s p)) (j : Nat) :
    let s' := ((backup H o src).run (crashWorld s j)).2.store
    let n := newBandOf s
    bandReadable s' n = true →
    ∃ pre, pre <+: src ∧ Paired (Records H o s') pre (bandEntries s' n) ∧
      (restoreOf H n s').1 = .ok (pre.map (expectedNode o) ++ (oldPart s s' p n).map (nodeOf H s)) ∧
      (restoreOf H n s').2.events = [] := by
  intro s' n hread
  refine interrupted_restore_spec H hinj hlen s o src p ho hsrc hsw hst j hread ?_
  obtain ⟨pre, hpre, hrec, hlist, _⟩ := interrupted_listing_spec H hinj hlen s o src p ho hsrc hsw hst j
  have hl : listSpec s' n = bandEntries s' n ++ oldPart s s' p n := hlist
  rw [hl]
  refine noneBelow_of_src hsrc ?_
  intro e he
  rcases List.mem_append.mp he with he | he
  · obtain ⟨sf, hsf, hr⟩ := paired_mem_right hrec e he
    exact ⟨sf, hpre.subset hsf, hr.apath.symm, hr.kind.symm⟩
  · have hmem : e ∈ listSpec s p := by
      unfold oldPart at he
      split at he
      · cases he
      · exact (List.mem_filter.mp he).1
    obtain ⟨sf, hsf, hr⟩ := paired_mem_right hprev e hmem
    exact ⟨sf, hsf, hr.apath.symm, hr.kind.symm⟩

/-! ## 2c — resuming -/

/-- **`resume_completes_exact`.**  If the interrupted version's head is readable — or no directory was
created for it — the archive the killed backup leaves is good again for the same source
(`ArchiveGood`: in particular the recorded entries satisfy the tool's "looks unchanged ⇒ is unchanged"
assumption BECAUSE they are the source's, C04), and a later fault-free backup of the same source with any
options `o2` satisfies `C01a.Exact`: it returns statistics with `errors = 0`, reports no error, changes
nothing that was there, completes its version, and that version restores (by id and as "latest") to
exactly `src.map (expectedNode o2)`, silently. -/
theorem resume_completes_exact (H : Str → Str) (hinj : Function.Injective H) (hlen : HashLen H) (s : Store)
    (o o2 : BackupOpts) (src : List SrcEntry) (p : Nat) (ho : 0 < o.maxBlockSize) (ho2 : 0 < o2.maxBlockSize)
    (hsrc : SrcGood src) (hsw : C13.SrcSortedWeak src) (hst : Start H src s p) (j : Nat) :
    let s' := ((backup H o src).run (crashWorld s j)).2.store
    (newBandOf s ∈ bandIdsOf s' → bandReadable s' (newBandOf s) = true) →
    ArchiveGood H src s' ∧ C01a.Exact H o2 src s' ((backup H o2 src).run (World.clean s')) := by
  intro s' hread
  have hg' : ArchiveGood H src s' := crashed_archiveGood hinj hlen ho hsrc hsw hst j hread
  exact ⟨hg', C01a.backup_restore_exact H hinj (fun d => hlen d) s' o2 src ho2 hsrc hg'⟩

/-- Every crash point at least four mutating micro-steps in — past `mkdir bNNNN`, `mkdir bNNNN/i`, and
both micro-steps of the head write — leaves a readable head. -/
theorem head_readable_late (H : Str → Str) (s : Store) (o : BackupOpts) (src : List SrcEntry) (p : Nat)
    (hst : Start H src s p) (j : Nat) (hj : 4 ≤ j) :
    let s' := ((backup H o src).run (crashWorld s j)).2.store
    ∀ b ∈ bandIdsOf s', bandReadable s' b = true := by
  intro s' b hb
  have hg := hst.good
  have hl : Late 4 (crashWorld s j) := ⟨rfl, rfl, rfl, fun j' hj' => by
    have : j' = j := by simpa [crashWorld, C03.crashWorld] using hj'.symm
    subst this
    show 0 + 4 ≤ j'
    omega⟩
  have h0 : HeadsOK s := fun b hb => (hg.bands b ((Exact.mem_bandIdsOf hg.st).2 hb)).1
  have h' : HeadsOK s' := backup_headsOK H o src (crashWorld s j) hl hg.st.noDup hg.st.dirsOk h0
  have hnd' : NoDupKeys s' := Prog.run_noDupKeys _ (crashWorld s j) hg.st.noDup
  exact h' b (hnd'.get?_of_mem (mem_bandIdsOf'.1 hb))

/-- **`resume_completes_exact_late`**: 2c for every crash point `j ≥ 4`, with no further hypothesis. -/
theorem resume_completes_exact_late (H : Str → Str) (hinj : Function.Injective H) (hlen : HashLen H) (s : Store)
    (o o2 : BackupOpts) (src : List SrcEntry) (p : Nat) (ho : 0 < o.maxBlockSize) (ho2 : 0 < o2.maxBlockSize)
    (hsrc : SrcGood src) (hsw : C13.SrcSortedWeak src) (hst : Start H src s p) (j : Nat) (hj : 4 ≤ j) :
    let s' := ((backup H o src).run (crashWorld s j)).2.store
    C01a.Exact H o2 src s' ((backup H o2 src).run (World.clean s')) :=
  (resume_completes_exact H hinj hlen s o o2 src p ho ho2 hsrc hsw hst j
    (fun hb => head_readable_late H s o src p hst j hj _ hb)).2

/-! ## The three early crash points: the resumed backup REPORTS an error -/

/-- **`resume_after_early_kill_reports`** (the finding behind the hypothesis of 2c).  Let `t` be a
well-formed archive without `GC_LOCK` whose newest version directory `b` has no readable head — no head
file (killed after `mkdir bNNNN` or after `mkdir bNNNN/i`), or a zero-length head (killed between the two
micro-steps of the head write).  Then the next fault-free backup — any options, any source — emits the
error event `unreadableError t b` (`BandHeadMissing b`, resp. a JSON error): `C01a.Exact.silent` FAILS for
it.  (`Stitch` takes the newest version directory as basis, `Band::open` fails, and the iterator passes
the error to `monitor.error`.  The backup still completes and — C04r — restores exactly.) -/
theorem resume_after_early_kill_reports (H : Str → Str) (o2 : BackupOpts) (src : List SrcEntry) (t : Store)
    (b : Nat) (hst : StoreOK H t) (hlock : t.get? .gcLock = none) (hwf : ArchWF t)
    (hmax : maxNat? (bandIdsOf t) = some b) (hbad : bandReadable t b = false) :
    Event.error (unreadableError t b) ∈ ((backup H o2 src).run (World.clean t)).2.events ∧
      ¬ (∀ ev ∈ ((backup H o2 src).run (World.clean t)).2.events, ∀ e, ev ≠ .error e) := by
  have h := resume_reports_error (H := H) (o := o2) src hst hlock hwf hmax hbad
  exact ⟨h, fun hs => hs _ h _ rfl⟩

/-! ## Non-vacuity -/

namespace Example
open C01a.Example C02h.Example

/-- The archive a first, fault-free backup of C01a's example source leaves satisfies `Start`, its newest
(and only) version being version 0. -/
theorem s1_start : Start exH source s1 0 := by
  obtain ⟨sF, hss, stats, evs, h⟩ := backup_summary (o := opts) exH_inj exH_len (by decide) source_good archive_good
  obtain ⟨_, h2, _⟩ := h.runs.clean
  have hs1 : s1 = sF := h2
  refine ⟨?_, s1_ci, ?_, ?_, s1_version.complete⟩
  · exact C01a.backup_keeps_archive_good_same exH exH_inj exH_len archive opts source (by decide) source_good
      archive_good
  · exact C09p.backup_keeps_inRange opts (C09p.srcInRange_of_srcGood source_good) (World.clean archive) (by decide)
  · rw [hs1]
    refine maxNat?_of_max ?_ ?_
    · rw [← new0]; exact h.bandIds_mem
    · intro x hx
      have := h.bandIds_le archive_ok x hx
      rw [new0] at this
      exact this

/-- 2a applies to it, for EVERY crash point. -/
example (j : Nat) :
    let s' := ((backup exH {} source).run (crashWorld s1 j)).2.store
    ∃ pre, pre <+: source ∧ Paired (Records exH {} s') pre (bandEntries s' (newBandOf s1)) ∧
      listSpec s' (newBandOf s1) = bandEntries s' (newBandOf s1) ++ oldPart s1 s' 0 (newBandOf s1) :=
  let ⟨pre, h1, h2, h3, _⟩ :=
    interrupted_listing_spec exH exH_inj hlen s1 {} source 0 (by decide) source_good source_sorted.weak s1_start j
  ⟨pre, h1, h2, h3⟩

/-- Version 0 of `s1` records the example source (C01a's summary of the first backup). -/
theorem s1_prev : Paired (Records exH opts s1) source (listSpec s1 0) := by
  obtain ⟨sF, hss, stats, evs, h⟩ := backup_summary (o := opts) exH_inj exH_len (by decide) source_good archive_good
  obtain ⟨_, h2, _⟩ := h.runs.clean
  have hs1 : s1 = sF := h2
  rw [hs1, ← new0, final_listSpec h.final h.usable]
  exact h.records

/-- 2b applies: at every crash point that leaves a readable head, restoring the interrupted version gives
the new nodes for a prefix of the source followed by the previous version's nodes, silently. -/
example (j : Nat)
    (hread : bandReadable ((backup exH {} source).run (crashWorld s1 j)).2.store (newBandOf s1) = true) :
    let s' := ((backup exH {} source).run (crashWorld s1 j)).2.store
    ∃ pre, pre <+: source ∧ Paired (Records exH {} s') pre (bandEntries s' (newBandOf s1)) ∧
      (restoreOf exH (newBandOf s1) s').1 =
        .ok (pre.map (expectedNode {}) ++ (oldPart s1 s' 0 (newBandOf s1)).map (nodeOf exH s1)) ∧
      (restoreOf exH (newBandOf s1) s').2.events = [] :=
  interrupted_restore_same_source exH exH_inj hlen s1 {} opts source 0 (by decide) source_good source_sorted.weak
    s1_start s1_prev j hread

/-- … and the previous version's nodes are what restoring version 0 yields. -/
example : (restoreOf exH 0 s1).1 = .ok ((listSpec s1 0).map (nodeOf exH s1)) :=
  (previous_restore_nodes exH s1 source 0 s1_start
    (noneBelow_of_src source_good fun e he =>
      let ⟨sf, hsf, hr⟩ := paired_mem_right s1_prev e he
      ⟨sf, hsf, hr.apath.symm, hr.kind.symm⟩)).1

/-- 2c applies for every crash point `j ≥ 4`: the resumed backup (default options) completes and
restores exactly. -/
example (j : Nat) (hj : 4 ≤ j) :
    let s' := ((backup exH {} source).run (crashWorld s1 j)).2.store
    C01a.Exact exH opts source s' ((backup exH opts source).run (World.clean s')) :=
  resume_completes_exact_late exH exH_inj hlen s1 {} opts source 0 (by decide) (by decide) source_good
    source_sorted.weak s1_start j hj

/-- The archive a first backup of the example source into the empty archive leaves when it is killed
before its second mutating micro-step (`#eval` of the model: `crashAt := some 1`; `some 2` adds `b0000/i`,
`some 3` a zero-length `b0000/BANDHEAD`): the version directory `b0000`, nothing in it. -/
def t1 : Store := archive ++ [(.bandDir 0, .dir)]

theorem t1_ok : StoreOK exH t1 := StoreOK.of_checks (by decide +kernel)

theorem t1_newest : maxNat? (bandIdsOf t1) = some 0 := by
  refine maxNat?_of_max (Hist.mem_bandIdsOf_of_get? (by decide)) ?_
  intro x hx
  have := mem_bandIdsOf'.1 hx
  simp [t1, archive] at this
  omega

/-- The finding applies to it: the resumed backup reports `BandHeadMissing 0` (and `#eval` agrees). -/
example : Event.error (.bandHeadMissing 0) ∈ ((backup exH opts source).run (World.clean t1)).2.events :=
  (resume_after_early_kill_reports exH opts source t1 0 t1_ok (by decide) (by decide +kernel) t1_newest
    (by decide)).1

end Example

end Conserve.C03r
