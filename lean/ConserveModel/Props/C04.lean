import ConserveModel.Proofs.BackupPrelude
/-
C04 — Storage errors never make the archive record wrong content.
(The same theorems, instantiated at crash points, are C03; see Props/C03.lean.)

Everything here is about `(backup H o src).run w` for an ARBITRARY world `w` that enforces
`CreateNew`: any list of injected faults (any operation, any error kind, any number of them),
any crash point `crashAt := some j` (counted in micro-steps: a write is "create empty" then
"fill"), already dead or not.  The theorems are consequences of one invariant (`Good`,
Proofs/BackupStore.lean) that every single `World.exec` step of `backup` preserves
(`backup_sat`, Proofs/BackupPrelude.lean).

What is NOT covered here (and not claimed): that `backup` does not panic (it can, in the model as
in the code, on an out-of-range stored mtime in the basis or an invalid stored apath), and the
"no false success" half of C04 (success with no error reported ⇒ the new version restores to the
whole source); see the report.
-/
namespace Conserve.C04
open Conserve Conserve.Inv

variable {H : Str → Str} {o : BackupOpts} {src : List SrcEntry} {w : World}

/-- The setting of the C04 theorems: an injective block hash, a positive block size, a source
whose file sizes are the lengths of what reading returns, and a world `w` (arbitrary faults and
crash point) that enforces `CreateNew`, whose store is a map (`NoDupKeys`), whose block files are
named by their content's hash or are zero-length leftovers (`BlocksGood`), and — `basis` — for
which the assumption the tool itself makes when it skips an "unchanged" file holds of the basis
listing this run computes (`HeuristicSound`), or which has no band directory at all. -/
structure Setting (H : Str → Str) (o : BackupOpts) (src : List SrcEntry) (w : World) : Prop where
  inj : Function.Injective H
  maxBlock : 0 < o.maxBlockSize
  srcWF : SrcWF src
  enforce : w.enforceCreateNew = true
  noDup : NoDupKeys w.store
  blocksGood : BlocksGood H w.store
  basis : NoBands w.store ∨ HeuristicSound H src w

/-- The setting from hypotheses on the initial archive alone: no dangling references, and the
heuristic assumption stated over the file entries of its hunks (`HeuristicSoundStore`). -/
theorem Setting.of_store (hinj : Function.Injective H) (hmax : 0 < o.maxBlockSize) (hwf : SrcWF src)
    (he : w.enforceCreateNew = true) (hnd : NoDupKeys w.store) (hbg : BlocksGood H w.store)
    (hd : NoDangling H w.store) (hs : HeuristicSoundStore H src w.store) : Setting H o src w :=
  ⟨hinj, hmax, hwf, he, hnd, hbg, Or.inr (heuristicSound_of_store w he hnd hbg hd hs)⟩

/-- The setting for an archive without any band directory (first backup): no assumption about a
basis is needed. -/
theorem Setting.nobasis (hinj : Function.Injective H) (hmax : 0 < o.maxBlockSize) (hwf : SrcWF src)
    (he : w.enforceCreateNew = true) (hnd : NoDupKeys w.store) (hbg : BlocksGood H w.store)
    (hnb : NoBands w.store) : Setting H o src w :=
  ⟨hinj, hmax, hwf, he, hnd, hbg, Or.inl hnb⟩

/-- The invariant at the end of the run, relative to the store it started on. -/
theorem backup_frame (h : Setting H o src w) :
    Frame H src w.store w ((backup H o src).run w).2 := by
  have hw : WOK H src w.store w :=
    ⟨h.enforce, ⟨h.noDup, h.blocksGood, fun hd => hd, fun b n es h0 h1 => by rw [h0] at h1; cases h1⟩⟩
  exact (backup_sat h.inj o h.maxBlock h.srcWF w hw h.basis).1

/-- **Frame / write-once.**  Whatever storage operations fail and wherever the run is killed,
every file of the archive is still there afterwards with the same value; the only change an
existing file can see is a zero-length leftover being completed. -/
theorem faults_extends (h : Setting H o src w) :
    Extends w.store ((backup H o src).run w).2.store :=
  (backup_frame h).ext

/-- **No dangling reference, ever.**  If no index entry of the archive referred to a missing,
corrupt or too-short block before, none does afterwards — whatever failed, wherever the run was
killed (including between the two micro-steps of any write). -/
theorem faults_no_dangling (h : Setting H o src w) (hd : NoDangling H w.store) :
    NoDangling H ((backup H o src).run w).2.store :=
  (backup_frame h).wok.good.noDangling hd

/-- **Recorded content is the source's content.**  Every file entry of every index hunk that
this run wrote (a hunk that was not decodably there before; they all belong to the band
`Band::create` chose) restores — `readBack`, the concatenation of its addresses — to exactly the
bytes of the source file WITH THE SAME PATH: never another file's bytes, never a missing or short
block.  For every fault list and every crash point. -/
theorem faults_recorded_content (h : Setting H o src w) :
    ∀ b n es, hunkAt w.store b n = none → hunkAt ((backup H o src).run w).2.store b n = some es →
      ∀ e ∈ es, e.kind = .file → RecOK H src ((backup H o src).run w).2.store e :=
  (backup_frame h).wok.good.newRec

/-- The same with the content spelled out: `sf.content` itself. -/
theorem faults_recorded_content_exact (h : Setting H o src w) :
    ∀ b n es, hunkAt w.store b n = none → hunkAt ((backup H o src).run w).2.store b n = some es →
      ∀ e ∈ es, e.kind = .file →
        ∃ sf ∈ src, sf.apath = e.apath ∧ sf.kind = .file ∧
          readBack H ((backup H o src).run w).2.store e.addrs = some sf.content := by
  intro b n es h0 h1 e he hk
  obtain ⟨sf, hsf, hap, hkf, hrb⟩ := faults_recorded_content h b n es h0 h1 e he hk
  refine ⟨sf, hsf, hap, hkf, ?_⟩
  rw [hrb, h.srcWF sf hsf hkf, List.take_length]

/-- **Blocks stay content-addressed.**  Every block file is named by the hash of its content or is
a zero-length leftover of a killed write — never wrong bytes under a name. -/
theorem faults_blocks_good (h : Setting H o src w) :
    BlocksGood H ((backup H o src).run w).2.store :=
  (backup_frame h).wok.good.blocks

/-- The store stays a map. -/
theorem faults_no_dup (h : Setting H o src w) : NoDupKeys ((backup H o src).run w).2.store :=
  (backup_frame h).wok.good.noDup

/-- Old versions are untouched: every hunk that was decodable before still decodes to the same
entries, and every address that resolved before resolves to the same bytes. -/
theorem faults_old_hunks (h : Setting H o src w) {b n : Nat} {es : List IndexEntry}
    (h0 : hunkAt w.store b n = some es) : hunkAt ((backup H o src).run w).2.store b n = some es :=
  hunkAt_mono h0 (faults_extends h)

theorem faults_old_content (h : Setting H o src w) {as : List Addr} {x : Str}
    (h0 : readBack H w.store as = some x) : readBack H ((backup H o src).run w).2.store as = some x :=
  readBack_mono H h0 (faults_extends h)

/-! ### The first-backup instances (`basis = []`), named as such -/

theorem faults_extends_nobasis (hinj : Function.Injective H) (hmax : 0 < o.maxBlockSize) (hwf : SrcWF src)
    (he : w.enforceCreateNew = true) (hnd : NoDupKeys w.store) (hbg : BlocksGood H w.store)
    (hnb : NoBands w.store) : Extends w.store ((backup H o src).run w).2.store :=
  faults_extends (Setting.nobasis hinj hmax hwf he hnd hbg hnb)

theorem faults_no_dangling_nobasis (hinj : Function.Injective H) (hmax : 0 < o.maxBlockSize) (hwf : SrcWF src)
    (he : w.enforceCreateNew = true) (hnd : NoDupKeys w.store) (hbg : BlocksGood H w.store)
    (hnb : NoBands w.store) (hd : NoDangling H w.store) :
    NoDangling H ((backup H o src).run w).2.store :=
  faults_no_dangling (Setting.nobasis hinj hmax hwf he hnd hbg hnb) hd

theorem faults_recorded_content_nobasis (hinj : Function.Injective H) (hmax : 0 < o.maxBlockSize)
    (hwf : SrcWF src) (he : w.enforceCreateNew = true) (hnd : NoDupKeys w.store)
    (hbg : BlocksGood H w.store) (hnb : NoBands w.store) :
    ∀ b n es, hunkAt w.store b n = none → hunkAt ((backup H o src).run w).2.store b n = some es →
      ∀ e ∈ es, e.kind = .file → RecOK H src ((backup H o src).run w).2.store e :=
  faults_recorded_content (Setting.nobasis hinj hmax hwf he hnd hbg hnb)

/-! ### The behaviour before the repair of D5 -/

/-- Before the repair, a failed store of a combined block lost the buffer but kept the queue:
the combiner invariant on which `faults_recorded_content` rests is violated on a two-file
example (see `Conserve.combinerFlushLosing_breaks`). -/
theorem combiner_losing_refuted :
    ∃ (src : List SrcEntry) (wr wr' : Writer) (w : World) (e : Err),
      CombOK src wr ∧ ((combinerFlushLosing id wr).run w).1 = .ok (wr', .error e) ∧ ¬ CombOK src wr' :=
  combinerFlushLosing_breaks

/-! ### Non-vacuity: the hypotheses hold of a concrete archive, source and faulty world -/

namespace Example

/-- A freshly initialised archive. -/
def archive : Store := [(.root, .dir), (.header, .header [48, 46, 54]), (.blockRoot, .dir)]

def fa : SrcEntry := { apath := [47, 97], kind := .file, mtimeNs := 0, unixMode := 420, user := none,
                       group := none, size := 2, content := [1, 2] }
def fb : SrcEntry := { apath := [47, 98], kind := .file, mtimeNs := 0, unixMode := 420, user := none,
                       group := none, size := 3, content := [3, 4, 5] }
def root : SrcEntry := { apath := [47], kind := .dir, mtimeNs := 0, unixMode := 493, user := none, group := none }
def source : List SrcEntry := [root, fa, fb]
def opts : BackupOpts := { maxEntriesPerHunk := 2, maxBlockSize := 2, smallFileCap := 2 }

/-- A world with two injected faults and a crash point. -/
def world : World :=
  { store := archive,
    faults := [{ at_ := { verb := .write, key := .block [1, 2], nth := 0 }, kind := .other },
               { at_ := { verb := .createDir, key := .blockDir [3, 4], nth := 0 }, kind := .permissionDenied }],
    crashAt := some 7 }

theorem source_wf : SrcWF source := by
  intro sf hsf _
  simp only [source, List.mem_cons, List.not_mem_nil, or_false] at hsf
  rcases hsf with rfl | rfl | rfl <;> rfl

theorem archive_noDup : NoDupKeys archive := by
  unfold NoDupKeys archive
  decide

theorem archive_blocksGood : BlocksGood id archive := by
  intro h v hv
  have h1 : (Key.block h == Key.root) = false := by simp
  have h2 : (Key.block h == Key.header) = false := by simp
  have h3 : (Key.block h == Key.blockRoot) = false := by simp
  simp [archive, Store.get?, List.lookup, h1, h2, h3] at hv

theorem archive_noBands : NoBands archive := by
  intro kv hkv b
  simp only [archive, List.mem_cons, List.not_mem_nil, or_false] at hkv
  rcases hkv with rfl | rfl | rfl <;> simp

theorem archive_noHunks (b n : Nat) : hunkAt archive b n = none := by
  have h1 : (Key.hunk b n == Key.root) = false := by simp
  have h2 : (Key.hunk b n == Key.header) = false := by simp
  have h3 : (Key.hunk b n == Key.blockRoot) = false := by simp
  simp [hunkAt, archive, Store.get?, List.lookup, h1, h2, h3]

theorem archive_noDangling : NoDangling id archive := by
  intro b n es h
  rw [archive_noHunks] at h; cases h

theorem setting : Setting id opts source world :=
  Setting.nobasis (fun _ _ h => h) (by decide) source_wf rfl archive_noDup archive_blocksGood archive_noBands

-- all the theorems apply to this faulty, killed run
example : NoDangling id ((backup id opts source).run world).2.store :=
  faults_no_dangling setting archive_noDangling

example : Extends archive ((backup id opts source).run world).2.store := faults_extends setting

/-! A second archive: one complete version holding `/a`, so that there IS a basis. -/

def ea : IndexEntry := { apath := [47, 97], kind := .file, mtime := 0, mtimeNanos := 0, unixMode := some 420,
                         user := none, group := none, addrs := [{ hash := [1, 2], start := 0, len := 2 }],
                         target := none }

def archive2 : Store :=
  [(.root, .dir), (.header, .header [48, 46, 54]), (.blockRoot, .dir),
   (.blockDir [1, 2], .dir), (.block [1, 2], .blockData [1, 2]),
   (.bandDir 0, .dir), (.bandHead 0, .head .ok []), (.indexDir 0, .dir), (.hunkDir 0 0, .dir),
   (.hunk 0 0, .hunk [ea]), (.bandTail 0, .tail (some 1))]

def world2 : World :=
  { store := archive2,
    faults := [{ at_ := { verb := .write, key := .hunk 1 0, nth := 0 }, kind := .other }],
    crashAt := some 9 }

theorem archive2_hunk {b n : Nat} {es : List IndexEntry} (h : hunkAt archive2 b n = some es) :
    b = 0 ∧ n = 0 ∧ es = [ea] := by
  by_cases hb : b = 0 ∧ n = 0
  · obtain ⟨rfl, rfl⟩ := hb
    have h0 : hunkAt archive2 0 0 = some [ea] := by decide
    rw [h0] at h
    cases h
    exact ⟨rfl, rfl, rfl⟩
  · have hne : (Key.hunk b n == Key.hunk 0 0) = false := by
      simp only [beq_eq_false_iff_ne, ne_eq, Key.hunk.injEq]; exact hb
    have h1 : ∀ k : Key, (∀ b' n', k ≠ .hunk b' n') → (Key.hunk b n == k) = false := by
      intro k hk; simp only [beq_eq_false_iff_ne, ne_eq]; exact fun e => hk b n e.symm
    simp [hunkAt, archive2, Store.get?, List.lookup, hne, h1] at h

theorem archive2_noDup : NoDupKeys archive2 := by
  unfold NoDupKeys archive2
  decide

theorem archive2_blocksGood : BlocksGood id archive2 := by
  intro h v hv
  by_cases hh : h = [1, 2]
  · subst hh
    have h0 : archive2.get? (.block [1, 2]) = some (.blockData [1, 2]) := by decide
    rw [h0] at hv
    cases hv
    exact Or.inr ⟨[1, 2], rfl, rfl⟩
  · have hne : (Key.block h == Key.block [1, 2]) = false := by
      simp only [beq_eq_false_iff_ne, ne_eq, Key.block.injEq]; exact hh
    have h1 : ∀ k : Key, (∀ h', k ≠ .block h') → (Key.block h == k) = false := by
      intro k hk; simp only [beq_eq_false_iff_ne, ne_eq]; exact fun e => hk h e.symm
    simp [archive2, Store.get?, List.lookup, hne, h1] at hv

theorem archive2_readBack : readBack id archive2 ea.addrs = some [1, 2] := by decide

theorem archive2_noDangling : NoDangling id archive2 := by
  intro b n es h e he
  obtain ⟨_, _, rfl⟩ := archive2_hunk h
  simp only [List.mem_singleton] at he
  subst he
  exact readBack_addr_isSome id archive2_readBack

theorem archive2_heuristic : HeuristicSoundStore id source archive2 := by
  intro b n es h e he sf hsf hk hap _ _
  obtain ⟨_, _, rfl⟩ := archive2_hunk h
  simp only [List.mem_singleton] at he
  subst he
  simp only [source, List.mem_cons, List.not_mem_nil, or_false] at hsf
  rcases hsf with rfl | rfl | rfl
  · cases hk
  · exact archive2_readBack
  · simp [ea, fb] at hap

/-- The general (with-basis) setting holds of this archive, for a faulty, killed world. -/
theorem setting2 : Setting id opts source world2 :=
  Setting.of_store (fun _ _ h => h) (by decide) source_wf rfl archive2_noDup archive2_blocksGood
    archive2_noDangling archive2_heuristic

-- the heuristic's premise is met: `/a` in the source looks unchanged against the stored entry
example : heuristicallyUnchanged fa ea = some true := by decide

example : NoDangling id ((backup id opts source).run world2).2.store :=
  faults_no_dangling setting2 archive2_noDangling

end Example

end Conserve.C04
