import ConserveModel.Props.C05
import ConserveModel.Proofs.DeleteExactMore
/-
C05g — the "exactly" half of C05.

"… after the delete EXACTLY those versions are gone, … no block referenced by any remaining version
has been removed and NO UNREFERENCED BLOCK REMAINS; a DRY RUN CHANGES NOTHING."

Props/C05.lean proves the functional form for `D` without repetitions whose bands all exist
(`delete_exact`, stated against the INITIAL store), the dry run on the clean world and the run that
stops at a missing band for a given split of `D`.  Added here, all for the strict reference scan:

(a) `delete_outcome`, `delete_exact_bands`, `delete_stops_at_first_missing`: ARBITRARY `D` (unsorted,
    repeated ids, ids without a directory): the run succeeds iff `D` has no repetition and every id
    has a directory entry, and then the band ids left are exactly those not in `D`; otherwise it fails
    with `BandNotFound b` at the FIRST position (in the order given) whose id is absent or repeats an
    earlier one, having removed exactly the bands before that position and no block.
(b) `delete_no_garbage_left`: stated against the FINAL store: every block file `list_blocks` can see
    is named by a decodable hunk of a band directory that is still there (complete or not: a band
    counts as soon as it has a directory; `DelArchOK` makes every such band readable — with an
    unreadable one the run fails, `referencedBlocks` opens every kept band).  What CAN remain without
    being referenced is stated exactly, with witnesses: zero-length block files, and block files whose
    name has fewer than three characters (`garbage_that_remains`).
(c) `dry_run_changes_nothing`: in EVERY world (faults, crash points, both scans, any `D`, with or
    without `--break-lock`) a dry run leaves every key but `GC_LOCK` as it was, and issues no
    mutating operation on any other key; on the clean world the store is the same LIST and the
    count it reports is the number of blocks the real run deletes (`dry_run_predicts_real`).
    `GC_LOCK` itself can be left behind by a dry run that is killed (`dry_run_killed_leaves_lock`).
(d) `gc_idempotent`: a second garbage collection removes nothing and reports zeros; more generally
    a gc after any successful delete (`gc_after_delete_removes_nothing`) — provided the newest
    REMAINING band is complete, which deleting the newest band can falsify (then gc refuses).
-/
namespace Conserve.C05g
open Conserve Prog

/-- `bNNNN` has an entry in the archive directory (what `remove_dir_all` needs to find). -/
def bandEntry (s : Store) (b : Nat) : Bool := (s.get? (.bandDir b)).isSome

/-! ### (a) Exactly those versions are gone -/

/-- **What a real delete does for an arbitrary list `D`.**  Clean world, `DelArchOK s D`, newest
band complete, no lock.  EITHER `D` has no repetition and every id has a directory entry: the run
succeeds and ends in `deleted s D`; OR `D = pre ++ b :: post` where `b` is the first id, in the order
given, that has no entry or already occurred (`b ∈ pre`): the run fails with `BandNotFound b`, and the
store is the initial list minus everything at or under the directories of `pre`. -/
theorem delete_outcome (s : Store) (D : List Nat) (o : DeleteOpts) (ok : DelArchOK s D)
    (hfree : s.get? .gcLock = none) (hnew : newestComplete s) (hdry : o.dryRun = false) :
    let r := (deleteBands true D o).run (World.clean s)
    (D.Nodup ∧ (∀ b ∈ D, bandEntry s b = true) ∧ r.1 = .ok (realStats s D) ∧ r.2.store = deleted s D) ∨
    (∃ pre b post, D = pre ++ b :: post ∧ pre.Nodup ∧ (∀ b' ∈ pre, bandEntry s b' = true) ∧
      (s.get? (.bandDir b) = none ∨ b ∈ pre) ∧
      r.1 = .err (.bandNotFound b) ∧ r.2.store = deletedBandsOnly s pre) := by
  intro r
  rcases split_first_bad (bandEntry s) D with ⟨hnd, hall⟩ | ⟨pre, b, post, hD, hnd, hall, hb⟩
  · left
    have hr := (deleteBands_real_runs ok hfree hnew o hdry hnd hall (World.clean s) (World.clean_quiet s) rfl).clean
    exact ⟨hnd, hall, hr.1, hr.2.1⟩
  · right
    have hb' : s.get? (.bandDir b) = none ∨ b ∈ pre := by
      rcases hb with hb | hb
      · left
        simp only [bandEntry] at hb
        cases hg : s.get? (.bandDir b) with
        | none => rfl
        | some v => simp [hg] at hb
      · exact .inr hb
    subst hD
    have hr := (deleteBands_missing_runs ok hfree hnew o hdry hnd hall hb' (World.clean s)
      (World.clean_quiet s) rfl).clean
    exact ⟨pre, b, post, rfl, hnd, hall, hb', hr.1, hr.2.1⟩

/-- A list with a bad position is not a good list. -/
theorem not_good_of_bad {s : Store} {pre post : List Nat} {b : Nat}
    (hb : s.get? (.bandDir b) = none ∨ b ∈ pre) :
    ¬ ((pre ++ b :: post).Nodup ∧ ∀ b' ∈ pre ++ b :: post, bandEntry s b' = true) := by
  rintro ⟨hnd, hall⟩
  rcases hb with hb | hb
  · have := hall b (by simp)
    simp [bandEntry, hb] at this
  · exact (List.nodup_append.1 hnd).2.2 b hb b List.mem_cons_self rfl

/-- **`delete_exact_bands`.**  Arbitrary `D`.  If a real delete returns `Ok(stats)` then: `D` has no
repetition, every id of `D` had a directory entry, the statistics are `realStats s D`, and in the final
store `s'` the band ids are exactly the former ones not in `D`; everything at or under a directory of
`D` is gone and everything at or under any other band directory is unchanged. -/
theorem delete_exact_bands (s : Store) (D : List Nat) (o : DeleteOpts) (ok : DelArchOK s D)
    (hfree : s.get? .gcLock = none) (hnew : newestComplete s) (hdry : o.dryRun = false)
    (st : DeleteStats) (hok : ((deleteBands true D o).run (World.clean s)).1 = .ok st) :
    let s' := ((deleteBands true D o).run (World.clean s)).2.store
    D.Nodup ∧ (∀ b ∈ D, bandEntry s b = true) ∧ st = realStats s D ∧
    bandIdsOf s' = (bandIdsOf s).filter (fun b => decide (b ∉ D)) ∧
    (∀ b ∈ D, ∀ k, Key.isUnder (.bandDir b) k = true → s'.get? k = none) ∧
    (∀ b, b ∉ D → ∀ k, Key.isUnder (.bandDir b) k = true → s'.get? k = s.get? k) := by
  intro s'
  rcases delete_outcome s D o ok hfree hnew hdry with ⟨hnd, hall, h1, h2⟩ | ⟨pre, b, post, _, _, _, _, h1, _⟩
  · have hs' : s' = deleted s D := h2
    rw [h1] at hok
    refine ⟨hnd, hall, by cases hok; rfl, ?_, ?_, ?_⟩
    · rw [hs', bandIdsOf_deleted, keptOf]
      apply List.filter_congr
      intro b _
      simp
    · intro b hb k hk; rw [hs']; exact deleted_band_gone s hb hk
    · intro b hb k hk; rw [hs']; exact kept_band_unchanged s hb hk
  · rw [h1] at hok; cases hok

/-- **The converse direction**: with no repetition and every id present, the run does succeed. -/
theorem delete_succeeds_iff (s : Store) (D : List Nat) (o : DeleteOpts) (ok : DelArchOK s D)
    (hfree : s.get? .gcLock = none) (hnew : newestComplete s) (hdry : o.dryRun = false) :
    (∃ st, ((deleteBands true D o).run (World.clean s)).1 = .ok st) ↔
      (D.Nodup ∧ ∀ b ∈ D, bandEntry s b = true) := by
  constructor
  · rintro ⟨st, hst⟩
    have := delete_exact_bands s D o ok hfree hnew hdry st hst
    exact ⟨this.1, this.2.1⟩
  · rintro ⟨hnd, hall⟩
    rcases delete_outcome s D o ok hfree hnew hdry with ⟨_, _, h1, _⟩ | ⟨pre, b, post, hD, _, _, hb, _, _⟩
    · exact ⟨_, h1⟩
    · subst hD; exact absurd ⟨hnd, hall⟩ (not_good_of_bad hb)

/-- **`delete_stops_at_first_missing`.**  Arbitrary `D` that is NOT (repetition-free with every id
present).  Then `D = pre ++ b :: post` with `b` the first bad id in the order given, the run fails with
`BandNotFound b`, and in the final store: the band ids are the former ones not in `pre` (so the bands
of `pre` — and only they — are gone, those of `post` are all still there); every block file is
unchanged (what only `pre` referenced stays as garbage); there is no `GC_LOCK`; every key not under a
band of `pre` is unchanged. -/
theorem delete_stops_at_first_missing (s : Store) (D : List Nat) (o : DeleteOpts) (ok : DelArchOK s D)
    (hfree : s.get? .gcLock = none) (hnew : newestComplete s) (hdry : o.dryRun = false)
    (hbad : ¬ (D.Nodup ∧ ∀ b ∈ D, bandEntry s b = true)) :
    let r := (deleteBands true D o).run (World.clean s)
    ∃ pre b post, D = pre ++ b :: post ∧ pre.Nodup ∧ (∀ b' ∈ pre, bandEntry s b' = true) ∧
      (s.get? (.bandDir b) = none ∨ b ∈ pre) ∧
      r.1 = .err (.bandNotFound b) ∧
      bandIdsOf r.2.store = (bandIdsOf s).filter (fun b' => decide (b' ∉ pre)) ∧
      (∀ h, r.2.store.get? (.block h) = s.get? (.block h)) ∧
      r.2.store.get? .gcLock = none ∧
      (∀ k, underAny pre k = false → r.2.store.get? k = s.get? k) ∧
      (∀ b' ∈ pre, ∀ k, Key.isUnder (.bandDir b') k = true → r.2.store.get? k = none) := by
  intro r
  rcases delete_outcome s D o ok hfree hnew hdry with ⟨hnd, hall, _, _⟩ | ⟨pre, b, post, hD, hnd, hall, hb, h1, h2⟩
  · exact absurd ⟨hnd, hall⟩ hbad
  · have hs' : r.2.store = deletedBandsOnly s pre := h2
    refine ⟨pre, b, post, hD, hnd, hall, hb, h1, ?_, ?_, ?_, ?_, ?_⟩
    · rw [hs', bandIdsOf_deletedBandsOnly]
      apply List.filter_congr
      intro b' _; simp
    · intro h; rw [hs', get?_deletedBandsOnly]; simp
    · rw [hs', get?_deletedBandsOnly]; simp [hfree]
    · intro k hk; rw [hs', get?_deletedBandsOnly, hk]; rfl
    · intro b' hb' k hk
      rw [hs', get?_deletedBandsOnly, underAny_eq_true.2 ⟨b', hb', hk⟩]; rfl

/-! ### (b) No unreferenced block remains -/

/-- **`delete_no_garbage_left`.**  Clean world, `DelArchOK s D`, `DirsOk s`, newest band complete, no
lock, real run, arbitrary `D`.  If the run returns `Ok`, then in the final store `s'`:
* every block file that `list_blocks` can see — present, not a directory, not zero-length, name of
  at least three characters — is named by an entry of a decodable hunk of some band directory of
  `s'` (any band that still has a directory counts: complete, interrupted, newest or not);
* exactly: a visible block is in `s'` iff it was in `s` and is so referenced;
* every block so referenced is unchanged. -/
theorem delete_no_garbage_left (s : Store) (D : List Nat) (o : DeleteOpts) (ok : DelArchOK s D)
    (hdirs : DirsOk s) (hfree : s.get? .gcLock = none) (hnew : newestComplete s) (hdry : o.dryRun = false)
    (st : DeleteStats) (hok : ((deleteBands true D o).run (World.clean s)).1 = .ok st) :
    let s' := ((deleteBands true D o).run (World.clean s)).2.store
    (∀ h, blockListed s' h → subdirNameChars ≤ h.length → referencedBy s' (bandIdsOf s') h) ∧
    (∀ h, subdirNameChars ≤ h.length →
      (blockListed s' h ↔ blockListed s h ∧ referencedBy s' (bandIdsOf s') h)) ∧
    (∀ h, referencedBy s' (bandIdsOf s') h → s'.get? (.block h) = s.get? (.block h)) := by
  intro s'
  rcases delete_outcome s D o ok hfree hnew hdry with ⟨_, _, _, h2⟩ | ⟨pre, b, post, _, _, _, _, h1, _⟩
  · have hs' : s' = deleted s D := h2
    have key : ∀ h, subdirNameChars ≤ h.length →
        (blockListed s' h ↔ blockListed s h ∧ referencedBy s' (bandIdsOf s') h) := by
      intro h hlen
      rw [hs', referencedBy_deleted, blockListed_deleted]
      constructor
      · rintro ⟨hl, hnot⟩
        refine ⟨hl, Classical.byContradiction fun hr => hnot ?_⟩
        exact (mem_unrefOf_iff ok.nodup hdirs).2 ⟨hl, hlen, hr⟩
      · rintro ⟨hl, hr⟩
        exact ⟨hl, fun hm => ((mem_unrefOf_iff ok.nodup hdirs).1 hm).2.2 hr⟩
    refine ⟨fun h hl hlen => ((key h hlen).1 hl).2, key, ?_⟩
    intro h hr
    rw [hs'] at hr ⊢
    rw [referencedBy_deleted] at hr
    rw [get?_deleted_block]
    have : h ∉ unrefOf s D := fun hm => ((mem_unrefOf_iff ok.nodup hdirs).1 hm).2.2 hr
    simp [this]
  · rw [h1] at hok; cases hok

/-- **Which bands count, and what happens with an unreadable one.**  Either scan, clean world, no
lock, newest band complete, arbitrary `D`, real or dry run, NO readability hypothesis: if
`delete_bands` returns `Ok` then EVERY band directory of the archive that is not in `D` — complete or
interrupted — has a head file the program accepts.  Contrapositive: a single kept band whose head is
missing, empty, undecodable, of an unsupported version or with unknown flags makes every delete and
every gc fail (before anything is removed: the failure is in `referenced_blocks`). -/
theorem delete_ok_kept_heads_readable (strict : Bool) (s : Store) (D : List Nat) (o : DeleteOpts)
    (hroot : s.get? .root = some .dir) (hfree : s.get? .gcLock = none) (hnew : newestComplete s)
    (st : DeleteStats) (hok : ((deleteBands strict D o).run (World.clean s)).1 = .ok st) :
    ∀ b ∈ keptOf s D, headReadable s b = true := by
  intro b hb
  rw [deleteBands_eq] at hok
  have ha := acquire_runs hroot o (World.clean s) (World.clean_quiet s) rfl
  rw [acquireOutcome_ok hfree hnew] at ha
  obtain ⟨held, h1, hrun⟩ := Prog.run_bind_ok_split hok
  rw [hrun] at hok
  have hst : ((acquire o).run (World.clean s)).2.store = s ++ [(.gcLock, .lock)] := ha.2.store
  generalize ((acquire o).run (World.clean s)).2 = w1 at hok hst
  simp only [withLock] at hok
  rw [Prog.run_bind, Prog.run_attemptAll] at hok
  simp only at hok
  rcases hb1 : (deleteBody strict D o held).run w1 with ⟨out, w2⟩
  rw [hb1] at hok
  cases out with
  | err e =>
    simp only [Prog.run_bind] at hok
    rcases h3 : gcLockReleaseOnError.run w2 with ⟨o3, w3⟩
    rw [h3] at hok
    cases o3 <;> simp at hok
  | panic site =>
    simp only [Prog.run_bind] at hok
    rcases h3 : gcLockDrop.run w2 with ⟨o3, w3⟩
    rw [h3] at hok
    cases o3 <;> simp at hok
  | ok st' =>
    have hbody : ((deleteBody strict D o held).run w1).1 = .ok st' := by rw [hb1]
    rw [deleteBody_eq] at hbody
    obtain ⟨all, w3, hall, hst3, hbody⟩ := run_bind_ok_ro readOnly_listBandIds hbody
    obtain ⟨refs, w4, hrefs, _, _⟩ := run_bind_ok_ro (readOnly_referencedBlocks strict _) hbody
    have hall' : all = bandIdsOf s := by
      have := listBandIds_sound (w := w1) (all := all) (by rw [hall])
      rw [this, hst, bandIdsOf_lock]
    have := referencedBlocks_heads strict _ w3 refs (by rw [hrefs]) b (by rw [hall']; exact hb)
    rw [hst3, hst] at this
    simp only [headReadable, get?_lock _ _ (show Key.bandHead b ≠ .gcLock by simp)] at this ⊢
    exact this

/-- What is NOT collected, exactly: a block FILE of the final store that no remaining band names is
zero-length, or has a name shorter than three characters (both invisible to `list_blocks`). -/
theorem remaining_garbage_is_invisible (s : Store) (D : List Nat) (o : DeleteOpts) (ok : DelArchOK s D)
    (hdirs : DirsOk s) (hfree : s.get? .gcLock = none) (hnew : newestComplete s) (hdry : o.dryRun = false)
    (st : DeleteStats) (hok : ((deleteBands true D o).run (World.clean s)).1 = .ok st) :
    let s' := ((deleteBands true D o).run (World.clean s)).2.store
    ∀ h v, s'.get? (.block h) = some v → v.isDir = false → ¬ referencedBy s' (bandIdsOf s') h →
      v = .empty ∨ h.length < subdirNameChars := by
  intro s' h v hv hd hnr
  have h1 := (delete_no_garbage_left s D o ok hdirs hfree hnew hdry st hok).1 h
  by_cases hlen : subdirNameChars ≤ h.length
  · left
    cases hve : v.isEmptyFile with
    | true => cases v <;> simp [FileVal.isEmptyFile] at hve; rfl
    | false => exact absurd (h1 ⟨v, hv, hd, hve⟩ hlen) hnr
  · right; omega

/-! ### (c) A dry run changes nothing -/

/-- **`dry_run_changes_nothing`, every world.**  Either scan, any `D`, any options with `dry_run`
set, ANY world (injected faults, crash point, dead, `CreateNew` honoured or not): after the run,
however it ended, every key other than `GC_LOCK` holds what it held before; and every operation the
run recorded is non-mutating or addresses `GC_LOCK` (never a `removeDirAll`). -/
theorem dry_run_changes_nothing (strict : Bool) (D : List Nat) (o : DeleteOpts) (hdry : o.dryRun = true)
    (w : World) :
    (∀ k, k ≠ .gcLock → ((deleteBands strict D o).run w).2.store.get? k = w.store.get? k) ∧
    ∃ new, ((deleteBands strict D o).run w).2.trace = new ++ w.trace ∧
      ∀ ev ∈ new, ev.op.isMutating = false ∨ (ev.op.key = .gcLock ∧ ∀ k, ev.op ≠ .removeDirAll k) := by
  have ht := touches_deleteBands_dry strict D o hdry
  refine ⟨fun k hk => ht.frame w k hk, ?_⟩
  obtain ⟨new, hnew, hP⟩ := Prog.run_trace_ops ht w
  refine ⟨new, hnew, fun ev hev => ?_⟩
  rcases lockOnly_cases (hP ev hev) with h | h | h
  · exact .inl h
  · exact .inr h
  · -- `removeDirAll GC_LOCK` would also reach keys "under" it; there are none, but the program
    -- never issues it anyway: it would have to affect only the lock, which it does
    exfalso
    obtain ⟨new', hn', h1⟩ := Prog.run_trace_ops (deleteBands_del (D := D) strict o) w
    have : new' = new := List.append_cancel_right (hn'.symm.trans hnew)
    subst this
    have h2 := h1 ev hev
    rw [h] at h2
    obtain ⟨b, _, hb⟩ := h2
    cases hb

/-- **`dry_run_store_eq`** (clean world, restating `C05.delete_dry_run` for arbitrary `D`): the final
store is the very same list, nothing is reported to the monitor, and the statistics are
`unreferenced_block_count = |unrefOf s D|`, everything else zero. -/
theorem dry_run_store_eq (s : Store) (D : List Nat) (o : DeleteOpts) (ok : DelArchOK s D)
    (hfree : s.get? .gcLock = none) (hnew : newestComplete s) (hdry : o.dryRun = true) :
    ((deleteBands true D o).run (World.clean s)).1 =
        .ok { unreferencedBlockCount := (unrefOf s D).length, deletedBandCount := 0,
              deletedBlockCount := 0, deletionErrors := 0 } ∧
      ((deleteBands true D o).run (World.clean s)).2.store = s ∧
      ((deleteBands true D o).run (World.clean s)).2.events = [] :=
  C05.delete_dry_run s D o ok hfree hnew hdry

/-- **`dry_run_predicts_real`.**  On the same archive, the count a dry run reports is the
`unreferenced_block_count` AND the `deleted_block_count` of the real run (when the real run succeeds:
`D` repetition-free with every id present); the dry run reports no deleted band and no error. -/
theorem dry_run_predicts_real (s : Store) (D : List Nat) (od o : DeleteOpts) (ok : DelArchOK s D)
    (hfree : s.get? .gcLock = none) (hnew : newestComplete s) (hd : od.dryRun = true) (hr : o.dryRun = false)
    (hnd : D.Nodup) (hex : ∀ b ∈ D, bandEntry s b = true) :
    ∃ sd sr, ((deleteBands true D od).run (World.clean s)).1 = .ok sd ∧
      ((deleteBands true D o).run (World.clean s)).1 = .ok sr ∧
      sd.unreferencedBlockCount = sr.unreferencedBlockCount ∧
      sd.unreferencedBlockCount = sr.deletedBlockCount ∧
      sr.deletionErrors = 0 ∧ sr.deletedBandCount = D.length ∧
      sd.deletedBandCount = 0 ∧ sd.deletedBlockCount = 0 ∧ sd.deletionErrors = 0 := by
  have h1 := (dry_run_store_eq s D od ok hfree hnew hd).1
  have h2 := (deleteBands_real_runs ok hfree hnew o hr hnd hex (World.clean s) (World.clean_quiet s) rfl).clean.1
  exact ⟨_, _, h1, h2, rfl, rfl, rfl, rfl, rfl, rfl, rfl⟩

/-! ### (d) Garbage collection is idempotent -/

/-- **A gc after a successful delete removes nothing.**  After a successful real `delete_bands D`
(hypotheses of `C05.delete_exact`), if the newest REMAINING band is complete, a following
`delete_bands []` (a pure gc, any options, real run) succeeds, reports zero unreferenced blocks, zero
deletions, zero errors, and ends in the very same store (list equality). -/
theorem gc_after_delete_removes_nothing (s : Store) (D : List Nat) (o o' : DeleteOpts) (ok : DelArchOK s D)
    (hdirs : DirsOk s) (hfree : s.get? .gcLock = none) (hnew : newestComplete s) (hdry : o.dryRun = false)
    (hnd : D.Nodup) (hex : ∀ b ∈ D, b ∈ bandIdsOf s) (hdry' : o'.dryRun = false) :
    let s1 := ((deleteBands true D o).run (World.clean s)).2.store
    newestComplete s1 →
    ((deleteBands true [] o').run (World.clean s1)).1 =
        .ok { unreferencedBlockCount := 0, deletedBandCount := 0, deletedBlockCount := 0, deletionErrors := 0 } ∧
      ((deleteBands true [] o').run (World.clean s1)).2.store = s1 := by
  intro s1 hnew1
  have hs1 : s1 = deleted s D := (C05.delete_exact_store s D o ok hfree hnew hdry hnd hex).2.1
  have ok1 : DelArchOK s1 [] := hs1 ▸ delArchOK_deleted ok []
  have hfree1 : s1.get? .gcLock = none := by
    rw [hs1, other_unchanged s (underAny_gcLock D) (by intro h; simp)]; exact hfree
  have hu : unrefOf s1 [] = [] := hs1 ▸ unrefOf_deleted_nil ok.nodup hdirs
  obtain ⟨h1, h2, _⟩ := C05.delete_exact_store s1 [] o' ok1 hfree1 hnew1 hdry' List.nodup_nil (fun _ h => nomatch h)
  refine ⟨?_, ?_⟩
  · rw [h1, realStats, hu]; rfl
  · rw [h2, deleted_nil_of_no_garbage hu]

/-- **`gc_idempotent`.**  Running `delete_bands []` twice (clean world, `DelArchOK s []`, `DirsOk s`,
newest band complete, no lock, real runs): the second run succeeds, finds no unreferenced block,
deletes nothing and leaves the store the first run produced, as the same list. -/
theorem gc_idempotent (s : Store) (o o' : DeleteOpts) (ok : DelArchOK s []) (hdirs : DirsOk s)
    (hfree : s.get? .gcLock = none) (hnew : newestComplete s) (hdry : o.dryRun = false)
    (hdry' : o'.dryRun = false) :
    let s1 := ((deleteBands true [] o).run (World.clean s)).2.store
    ((deleteBands true [] o').run (World.clean s1)).1 =
        .ok { unreferencedBlockCount := 0, deletedBandCount := 0, deletedBlockCount := 0, deletionErrors := 0 } ∧
      ((deleteBands true [] o').run (World.clean s1)).2.store = s1 := by
  intro s1
  have hs1 : s1 = deleted s [] :=
    (C05.delete_exact_store s [] o ok hfree hnew hdry List.nodup_nil (fun _ h => nomatch h)).2.1
  refine gc_after_delete_removes_nothing s [] o o' ok hdirs hfree hnew hdry List.nodup_nil
    (fun _ h => nomatch h) hdry' ?_
  have := newestComplete_deleted_nil hnew
  rw [← hs1] at this
  exact this

/-- Also after the second run a DRY run agrees: nothing to collect. -/
theorem gc_then_dry_run_reports_zero (s : Store) (o o' : DeleteOpts) (ok : DelArchOK s []) (hdirs : DirsOk s)
    (hfree : s.get? .gcLock = none) (hnew : newestComplete s) (hdry : o.dryRun = false)
    (hdry' : o'.dryRun = true) :
    let s1 := ((deleteBands true [] o).run (World.clean s)).2.store
    ((deleteBands true [] o').run (World.clean s1)).1 = .ok {} ∧
      ((deleteBands true [] o').run (World.clean s1)).2.store = s1 := by
  intro s1
  have hs1 : s1 = deleted s [] :=
    (C05.delete_exact_store s [] o ok hfree hnew hdry List.nodup_nil (fun _ h => nomatch h)).2.1
  have ok1 : DelArchOK s1 [] := hs1 ▸ delArchOK_deleted ok []
  have hfree1 : s1.get? .gcLock = none := by
    rw [hs1, other_unchanged s (underAny_gcLock []) (by intro h; simp)]; exact hfree
  have hu : unrefOf s1 [] = [] := hs1 ▸ unrefOf_deleted_nil ok.nodup hdirs
  have hnew1 : newestComplete s1 := by
    have := newestComplete_deleted_nil hnew
    rw [← hs1] at this
    exact this
  obtain ⟨h1, h2, _⟩ := C05.delete_dry_run s1 [] o' ok1 hfree1 hnew1 hdry'
  exact ⟨by rw [h1, hu]; rfl, h2⟩

/-! ### Non-vacuity and witnesses -/

section examples
open C05

/-- `delete_outcome` / `delete_exact_bands` / `delete_no_garbage_left` apply to the example archive
with `D = [0]`, and the run does return `Ok`. -/
example : DelArchOK exStore [0] ∧ DirsOk exStore ∧ exStore.get? .gcLock = none ∧ newestComplete exStore ∧
    ∃ st, ((deleteBands true [0] {}).run (World.clean exStore)).1 = .ok st :=
  ⟨ex_archOK0, ex_dirsOk, ex_lockFree, ex_newest,
    (delete_succeeds_iff exStore [0] {} ex_archOK0 ex_lockFree ex_newest rfl).2
      ⟨by decide, by decide⟩⟩

/-- `delete_ok_kept_heads_readable` on the example: the run returns `Ok`, so version 1 has a head. -/
example : headReadable exStore 1 = true := by
  obtain ⟨st, hst⟩ := (delete_succeeds_iff exStore [0] {} ex_archOK0 ex_lockFree ex_newest rfl).2
    ⟨by decide, by decide⟩
  exact delete_ok_kept_heads_readable true exStore [0] {} (by decide) ex_lockFree ex_newest st hst 1
    (by rw [ex_kept0]; simp)

/-- A repeated id: `D = [0, 0]` removes version 0, then fails with `BandNotFound 0`; version 1 and
all three blocks (the garbage block too) are still there. -/
example : ((deleteBands true [0, 0] {}).run (World.clean exStore)).1 = .err (.bandNotFound 0) ∧
    bandIdsOf ((deleteBands true [0, 0] {}).run (World.clean exStore)).2.store = [1] ∧
    ((deleteBands true [0, 0] {}).run (World.clean exStore)).2.store.get? (.block hG) =
      some (.blockData [9]) := by
  have ok : DelArchOK exStore [0, 0] := ⟨by decide, by decide, by decide, by
    have : keptOf exStore [0, 0] = [1] := by rw [keptOf, ex_bands]; decide
    rw [this]; intro b hb; exact ex_readable b (Or.inr (by simpa using hb))⟩
  obtain ⟨pre, b, post, hD, hnd, hall, hb, h1, h2, h3, _⟩ :=
    delete_stops_at_first_missing exStore [0, 0] {} ok ex_lockFree ex_newest rfl
      (by rintro ⟨h, _⟩; exact absurd h (by decide))
  -- the split is forced: pre = [0], b = 0
  have hpre : pre = [0] ∧ b = 0 := by
    match pre, hD, hnd, hall, hb with
    | [], hD, _, _, hb =>
      simp only [List.nil_append, List.cons.injEq] at hD
      rcases hb with hb | hb
      · rw [← hD.1] at hb; exact absurd hb (by decide)
      · cases hb
    | [x], hD, _, _, _ =>
      simp only [List.cons_append, List.nil_append, List.cons.injEq] at hD
      exact ⟨by rw [← hD.1], hD.2.1.symm⟩
    | x :: y :: rest, hD, hnd, _, _ =>
      simp only [List.cons_append, List.cons.injEq] at hD
      have : x = y := hD.1.symm.trans hD.2.1
      subst this
      simp at hnd
  obtain ⟨rfl, rfl⟩ := hpre
  refine ⟨h1, ?_, ?_⟩
  · rw [h2, ex_bands]; decide
  · rw [h3]; decide

/-- An archive with a zero-length block file `d/xxx/xxx9` and a block file with the two-character
name `zz` (in `d/zz/`), neither referenced by anything. -/
def junkStore : Store :=
  exStore ++ [(.blockDir [120, 120, 120], .dir), (.block [120, 120, 120, 57], .empty),
              (.blockDir [122, 122], .dir), (.block [122, 122], .blockData [7])]

theorem junk_bands : bandIdsOf junkStore = [0, 1] := by
  show sortNat [0, 1] = [0, 1]
  exact sortNat_of_sorted (by decide)

theorem junk_hunks (b : Nat) (hb : b = 0 ∨ b = 1) : hunksListed junkStore b = [0] := by
  rcases hb with rfl | rfl
  · have h1 : hunkDirsOf junkStore 0 = [0] := by
      show sortNat [0] = [0]; exact sortNat_of_sorted (by decide)
    have h2 : hunksInDir junkStore 0 0 = [0] := by
      show sortNat [0] = [0]; exact sortNat_of_sorted (by decide)
    simp [hunksListed, h1, h2]
  · have h1 : hunkDirsOf junkStore 1 = [0] := by
      show sortNat [0] = [0]; exact sortNat_of_sorted (by decide)
    have h2 : hunksInDir junkStore 1 0 = [0] := by
      show sortNat [0] = [0]; exact sortNat_of_sorted (by decide)
    simp [hunksListed, h1, h2]

theorem junk_archOK : DelArchOK junkStore [] where
  nodup := by decide
  root := by decide
  blockRoot := by decide
  kept := by
    rw [keptOf_nil, junk_bands]
    intro b hb
    have hb' : b = 0 ∨ b = 1 := by simpa using hb
    refine ⟨?_, ?_, ?_⟩
    · rcases hb' with rfl | rfl <;> decide
    · rcases hb' with rfl | rfl <;> decide
    · rw [junk_hunks b hb']
      rcases hb' with rfl | rfl <;> decide

theorem junk_newest : newestComplete junkStore := by
  intro b hb
  rw [junk_bands] at hb
  have : b = 1 := by
    have h : maxNat? [0, 1] = some 1 := by decide
    rw [h] at hb; cases hb; rfl
  subst this
  decide

/-- **`garbage_that_remains`: the literal "no unreferenced block remains" is FALSE for block files
`list_blocks` does not see.**  On `junkStore` a successful gc leaves both the zero-length block file
and the short-named block file in place, although no band names them (the garbage block `ccc3` is
collected).  (In the code: `list_blocks` warns about empty block files and skips them, and only
looks into three-character subdirectories.) -/
theorem garbage_that_remains :
    let s' := ((deleteBands true [] {}).run (World.clean junkStore)).2.store
    (∃ st, ((deleteBands true [] {}).run (World.clean junkStore)).1 = .ok st) ∧
    s'.get? (.block [120, 120, 120, 57]) = some .empty ∧
    s'.get? (.block [122, 122]) = some (.blockData [7]) ∧
    s'.get? (.block hG) = none ∧
    ¬ referencedBy s' (bandIdsOf s') [120, 120, 120, 57] ∧ ¬ referencedBy s' (bandIdsOf s') [122, 122] := by
  intro s'
  have hd : DirsOk junkStore := by decide
  obtain ⟨h1, h2, _⟩ := C05.delete_exact_store junkStore [] {} junk_archOK (by decide) junk_newest rfl
    List.nodup_nil (fun _ h => nomatch h)
  have hs' : s' = deleted junkStore [] := h2
  have hnot : ∀ h, ¬ blockListed junkStore h ∨ h.length < subdirNameChars → h ∉ unrefOf junkStore [] := by
    intro h hh hm
    have := (mem_unrefOf_iff junk_archOK.nodup hd).1 hm
    rcases hh with hh | hh
    · exact hh this.1
    · exact absurd this.2.1 (by omega)
  have hnr : ∀ h, (∀ b ∈ [0, 1], ∀ n es, hunkAt junkStore b n = some es → ∀ e ∈ es, ∀ a ∈ e.addrs, a.hash ≠ h) →
      ¬ referencedBy s' (bandIdsOf s') h := by
    intro h hh hr
    rw [hs', referencedBy_deleted, keptOf_nil, junk_bands] at hr
    obtain ⟨b, hb, n, es, hes, e, he, a, ha, heq⟩ := hr
    exact hh b hb n es hes e he a ha heq
  have hhunks : ∀ b ∈ [0, 1], ∀ n es, hunkAt junkStore b n = some es → ∀ e ∈ es, ∀ a ∈ e.addrs,
      a.hash = hA ∨ a.hash = hB := by
    intro b hb n es hes e he a ha
    have hn : n = 0 := by
      have h1 := hunkNumsOf_of_hunkAt hes
      have h2 : hunkNumsOf junkStore b = [0] := by
        rw [← hunksListed_eq_hunkNumsOf junk_archOK.nodup (hd.hunkDirsOk b)]
        exact junk_hunks b (by simpa using hb)
      rw [h2] at h1; simpa using h1
    subst hn
    have hb' : b = 0 ∨ b = 1 := by simpa using hb
    rcases hb' with rfl | rfl
    · have : es = [fileEntry [47, 97] [⟨hA, 0, 3⟩]] := by
        have : hunkAt junkStore 0 0 = some [fileEntry [47, 97] [⟨hA, 0, 3⟩]] := by decide
        rw [this] at hes; cases hes; rfl
      subst this
      simp only [List.mem_singleton] at he
      subst he
      simp [fileEntry] at ha
      left; rw [ha]
    · have : es = [fileEntry [47, 97] [⟨hA, 0, 3⟩], fileEntry [47, 98] [⟨hB, 0, 2⟩]] := by
        have : hunkAt junkStore 1 0 = some [fileEntry [47, 97] [⟨hA, 0, 3⟩], fileEntry [47, 98] [⟨hB, 0, 2⟩]] := by
          decide
        rw [this] at hes; cases hes; rfl
      subst this
      simp only [List.mem_cons, List.not_mem_nil, or_false] at he
      rcases he with rfl | rfl
      · simp [fileEntry] at ha; left; rw [ha]
      · simp [fileEntry] at ha; right; rw [ha]
  refine ⟨⟨_, h1⟩, ?_, ?_, ?_, ?_, ?_⟩
  · rw [hs', get?_deleted_block, if_neg (hnot _ (.inl ?_))]
    · decide
    · rintro ⟨v, hv, _, he⟩
      have : junkStore.get? (.block [120, 120, 120, 57]) = some .empty := by decide
      rw [this] at hv; cases hv; cases he
  · rw [hs', get?_deleted_block, if_neg (hnot _ (.inr (by decide)))]
    decide
  · rw [hs', get?_deleted_block, if_pos]
    refine (mem_unrefOf_iff junk_archOK.nodup hd).2 ⟨⟨.blockData [9], by decide, rfl, rfl⟩, by decide, ?_⟩
    rw [keptOf_nil, junk_bands]
    rintro ⟨b, hb, n, es, hes, e, he, a, ha, heq⟩
    rcases hhunks b hb n es hes e he a ha with h | h <;> rw [h] at heq <;> exact absurd heq (by decide)
  · refine hnr _ fun b hb n es hes e he a ha heq => ?_
    rcases hhunks b hb n es hes e he a ha with h | h <;> rw [h] at heq <;> exact absurd heq (by decide)
  · refine hnr _ fun b hb n es hes e he a ha heq => ?_
    rcases hhunks b hb n es hes e he a ha with h | h <;> rw [h] at heq <;> exact absurd heq (by decide)

/-- `gc_idempotent` applies to `junkStore` (hypotheses satisfiable). -/
example : DelArchOK junkStore [] ∧ DirsOk junkStore ∧ junkStore.get? .gcLock = none ∧ newestComplete junkStore :=
  ⟨junk_archOK, by decide, by decide, junk_newest⟩

/-- The side condition of `gc_after_delete_removes_nothing` is needed: bands 0 (complete),
1 (no tail), 2 (complete); after deleting `[2]` the newest remaining band is incomplete. -/
def gapStore : Store :=
  [ (.root, .dir), (.blockRoot, .dir),
    (.bandDir 0, .dir), (.bandHead 0, .head .ok []), (.indexDir 0, .dir), (.bandTail 0, .tail (some 0)),
    (.bandDir 1, .dir), (.bandHead 1, .head .ok []), (.indexDir 1, .dir),
    (.bandDir 2, .dir), (.bandHead 2, .head .ok []), (.indexDir 2, .dir), (.bandTail 2, .tail (some 0)) ]

theorem gap_bands : bandIdsOf gapStore = [0, 1, 2] := by
  show sortNat [0, 1, 2] = [0, 1, 2]
  exact sortNat_of_sorted (by decide)

/-- **Deleting the newest version can make the archive refuse every later delete/gc**: on
`gapStore`, `delete_bands [2]` succeeds; the following gc fails with `DeleteWithIncompleteBackup 1`
and changes nothing. -/
theorem gc_after_deleting_newest_can_refuse :
    let s1 := ((deleteBands true [2] {}).run (World.clean gapStore)).2.store
    (∃ st, ((deleteBands true [2] {}).run (World.clean gapStore)).1 = .ok st) ∧
    ((deleteBands true [] {}).run (World.clean s1)).1 = .err (.deleteWithIncompleteBackup 1) ∧
    ((deleteBands true [] {}).run (World.clean s1)).2.store = s1 := by
  intro s1
  have hnew : newestComplete gapStore := by
    intro b hb
    rw [gap_bands] at hb
    have : b = 2 := by
      have h : maxNat? [0, 1, 2] = some 2 := by decide
      rw [h] at hb; cases hb; rfl
    subst this; decide
  have hl : ∀ b, hunksListed gapStore b = [] := by
    intro b
    have : hunkDirsOf gapStore b = [] := by
      simp [hunkDirsOf, gapStore, sortNat]
    simp [hunksListed, this]
  have ok : DelArchOK gapStore [2] := ⟨by decide, by decide, by decide, by
    have : keptOf gapStore [2] = [0, 1] := by rw [keptOf, gap_bands]; decide
    rw [this]
    intro b hb
    have hb' : b = 0 ∨ b = 1 := by simpa using hb
    refine ⟨?_, ?_, ?_⟩
    · rcases hb' with rfl | rfl <;> decide
    · rcases hb' with rfl | rfl <;> decide
    · rw [hl b]; intro n hn; cases hn⟩
  obtain ⟨h1, h2, _⟩ := C05.delete_exact_store gapStore [2] {} ok (by decide) hnew rfl (by decide)
    (by rw [gap_bands]; decide)
  have hs1 : s1 = deleted gapStore [2] := h2
  have hb1 : bandIdsOf s1 = [0, 1] := by
    rw [hs1, bandIdsOf_deleted, keptOf, gap_bands]; decide
  have hroot : s1.get? .root = some .dir := by
    rw [hs1, other_unchanged gapStore (by simp [underAny, Key.isUnder, Key.parent]) (by intro h; simp)]; decide
  have hc : isComplete s1 1 = false := by
    simp only [isComplete]
    rw [hs1, kept_band_unchanged gapStore (D := [2]) (b := 1) (by decide) (by simp [Key.isUnder, Key.parent])]
    decide
  have hm : maxNat? (bandIdsOf s1) = some 1 := by rw [hb1]; decide
  refine ⟨⟨_, h1⟩, C05.delete_refuses_incomplete true s1 [] {} hroot hm hc, ?_⟩
  have := C05.delete_refuses true s1 [] {} hroot (.inl fun hn => by
    have := hn 1 hm; rw [hc] at this; cases this)
  obtain ⟨e, _, _, h3⟩ := this
  exact h3 rfl

/-- **A killed dry run can leave `GC_LOCK` behind** (the one key `dry_run_changes_nothing` exempts):
on an archive directory with nothing in it, a dry-run gc killed right after writing the lock (before
mutating micro-step 2: the lock write is micro-steps 0 and 1, the release would be 2) leaves the lock
file; every later delete then refuses until `--break-lock`. -/
theorem dry_run_killed_leaves_lock :
    ((deleteBands true [] { dryRun := true }).run
        { store := [(.root, .dir), (.blockRoot, .dir)], crashAt := some 2 }).2.store.get? .gcLock = some .lock := by
  decide +kernel

end examples

end Conserve.C05g
