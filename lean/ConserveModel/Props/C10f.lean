import ConserveModel.Proofs.ContainRestore
import ConserveModel.Proofs.ContainBackup
import ConserveModel.Props.C02h
import ConserveModel.Props.C14p
/-
C10 (full) — containment of single-file damage at the restore level, for every damage class, and
"a new backup after a deleted / emptied file completes and restores exactly".
Continues Props/C10.lean (§6b, §7), whose `c10_partial` names what was missing: (i), (ii), (iii).

§1  (i)  `good_archWF : Good H s → ArchWF s`; file entries of a `Good` archive read back.
§2  (i)  The symlink hypothesis.  `Conforms` allows a listing with an entry below a listed symlink;
    restore skips such an entry (and reports `invalidMetadata`) — damaged archive or not.  `Unshadowed s b`
    (positional: nothing below a symlink listed BEFORE it; implied by C10's `NoSymlinkAbove`) is what
    clause 2 needs; it FOLLOWS from "version `b` restored without complaint before the damage"
    (`unshadowed_of_silent_restore`), hence holds of every version a fault-free backup of a good source
    wrote (`unshadowed_of_exact`) and is kept by histories that keep its restore (`unshadowed_of_sameRestore`).
§3–4 (ii) Clause 2 for every damage class — `contained_block`, `contained_lost_hunk`,
    `contained_own_file` (head, TAIL, stray file of the version), `contained_elsewhere` (any file of any
    OTHER version, earlier or later, replaced by anything: C02h's `restore_congr`) — assembled in
    `contained_complete`.  Without `Unshadowed`: `contained_complete_weak` (an untouched file is restored
    exactly OR reported as skipped).
§5  (iii) `backup_after_loss`: after deleting or emptying ANY file but the header (block, hunk, tail,
    head, …) of a `Good` archive with `KindsOK` and `BlocksSmall`, a fault-free backup of a good source
    returns, counts no error, completes the next version, and that version restores EXACTLY the source,
    silently.  Through `backup_restore_exact_fair`, a generalisation of C01a's `backup_restore_exact`
    from `ArchiveGood` to archives whose versions need not list and whose entries may dangle.
§7  `C10StatementFinal` / `c10_statement_final`: the sentence as it is true of the model.
§8  The extra hypotheses are needed: `complete_refuted_symlink`, `complete_refuted_rewritten_hunk`
    (`C10.C10StatementComplete` is FALSE as stated), `backup_completes_refuted` (`C10.BackupCompletes`
    is false from `Good` alone).
§9  Non-vacuity on concrete stores, for every class, and on the archive a real backup wrote.

OPEN: `C10.BackupCompletes` quantifies over ALL sources; what is proved needs `SrcGood src`
(`BackupCompletesAnySourceStatement`).  Missing lemma: a fault-free run of `backupLoop`/`flushGroup`
returns for an ARBITRARY source listing (unsorted, invalid paths, `size ≠ content.length`) —
`Exact.backupMain_runs` assumes `EntryGood`, sortedness and the 2^64 bound.
-/
set_option linter.unusedSimpArgs false
namespace Conserve.C10f
open Conserve Conserve.NP Conserve.C10 Conserve.Contain

variable {H : Str → Str}

/-! ## 1. What `Good` gives -/

/-- **good_archWF** (gap (i), first half).  `C10.Good` — the documented format, a map, a tree, no
lock — implies C08's well-formedness `ArchWF`, the hypothesis of every §6/§6b theorem of Props/C10. -/
theorem good_archWF {s : Store} (g : C10.Good H s) : ArchWF s := Contain.good_archWF g

/-- Every FILE entry of any listing of a `Good` archive reads back. -/
theorem good_listed_readBack {s : Store} (g : C10.Good H s) {n : Nat} {e : IndexEntry} (he : e ∈ listSpec s n)
    (hk : e.kind = .file) : ∃ c, readBack H s e.addrs = some c := by
  obtain ⟨b, x, es, hg, _, hee⟩ := C08.listed_is_stored he
  have hb : b ∈ bandIdsOf s := bandDir_of_hunk (good_dirsOk g) hg
  exact bandOK_readBack (good_bandOK g hb) (n := x) (by simp [hunkAt, hg]) hee hk

/-- The root selection keeps the whole listing. -/
theorem rootFilter (s : Store) (n : Nat) :
    (listSpec s n).filter (fun e => isPrefixOfImpl [slash] e.apath && !(fun _ => false) e.apath) = listSpec s n := by
  rw [List.filter_eq_self]
  intro e he
  simp [isPrefix_root (C08.listed_valid he)]

/-- Where the entries of a version WITH a tail come from: its own usable hunks. -/
theorem mem_listSpec_complete {s : Store} {b : Nat} (hc : isComplete s b = true) {e : IndexEntry}
    (he : e ∈ listSpec s b) :
    ∃ n ∈ hunkNumsOf s b, ∃ es, usableHunk s b n = some es ∧ hunkAt s b n = some es ∧ e ∈ es := by
  simp only [listSpec, hc, if_true, List.append_nil, bandEntries] at he
  split at he
  · unfold ownEntries at he
    obtain ⟨es, hes, hee⟩ := List.mem_flatten.mp he
    obtain ⟨n, hn, hu⟩ := List.mem_filterMap.mp hes
    refine ⟨n, hn, es, hu, ?_, hee⟩
    unfold usableHunk at hu
    unfold hunkAt
    split at hu
    · rename_i es' hg
      by_cases hall : es'.all entryUsable = true
      · simp only [hall, if_true, Option.some.injEq] at hu; subst hu; simp [hg]
      · simp [hall] at hu
    · simp only [Option.some.injEq] at hu; subst hu; cases hee
    · cases hu
  · cases he

/-! ## 2. The hypothesis about symlinks -/

/-- No entry of version `b`'s listing lies strictly below a symlink listed BEFORE it: `restore` skips
nothing (`belowSymlink`, Restore.lean — the D11 repair: an entry below a restored symlink is not
written through the link but skipped and reported).  `Conforms` says nothing about this. -/
def Unshadowed (s : Store) (b : Nat) : Prop := Contain.Unshadowed [] (listSpec s b)

/-- `NoSymlinkAbove` (the hypothesis of Props/C10 §6b) implies it. -/
theorem unshadowed_of_noSymlinkAbove {s : Store} {b : Nat} (h : NoSymlinkAbove [] (listSpec s b)) :
    Unshadowed s b := Contain.unshadowed_of_noSymlinkAbove h

/-- **unshadowed_of_silent_restore** (gap (i), second half).  If restoring version `b` of the UNDAMAGED
archive (fault-free world) returned and reported nothing, its listing is `Unshadowed`.  So the
hypothesis is "the version restored cleanly before the damage" — what C01a's `Exact` says of every
version a fault-free backup of a walked tree wrote (`restoreSpecifiedSilent`), and what C02h's
`history_keeps_restore` carries through histories. -/
theorem unshadowed_of_silent_restore {s : Store} (wf : ArchWF s) {b : Nat} {nodes : List RNode}
    (hok : (restoreOf H s b).1 = .ok nodes) (hsilent : (restoreOf H s b).2.events = []) : Unshadowed s b := by
  have hrun : (restore H (.specified b) [slash] (fun _ => false)).run (World.clean s)
      = (.ok nodes, (restoreOf H s b).2) := Prod.ext hok rfl
  obtain ⟨_, _, hev⟩ := restore_spec H wf b [slash] (fun _ => false) hrun
  rw [rootFilter] at hev
  have hev' : evsOf (listErrors s b ++ (restoreP H s [] (listSpec s b)).2) = [] := hev.symm.trans hsilent
  have : (restoreP H s [] (listSpec s b)).2 = [] := by
    simp only [evsOf, List.reverse_eq_nil_iff, List.map_eq_nil_iff, List.append_eq_nil_iff] at hev'
    exact hev'.2
  exact unshadowed_of_silent' (H := H) _ _ this

/-! ## 3. Clause 2, one lemma for all classes -/

/-- In a listing without repeated paths an entry is determined by its path. -/
theorem eq_of_apath_nodup {l : List IndexEntry} (hn : (l.map (·.apath)).Nodup) {x y : IndexEntry}
    (hx : x ∈ l) (hy : y ∈ l) (h : x.apath = y.apath) : x = y := by
  induction l with
  | nil => cases hx
  | cons a l ih =>
    simp only [List.map_cons, List.nodup_cons, List.mem_map, not_exists, not_and] at hn
    rcases List.mem_cons.mp hx with rfl | hx'
    · rcases List.mem_cons.mp hy with rfl | hy'
      · rfl
      · exact absurd h.symm (hn.1 y hy')
    · rcases List.mem_cons.mp hy with rfl | hy'
      · exact absurd h (hn.1 x hx')
      · exact ih hn.2 hx' hy'

/-- Clause 2 WITHOUT the symlink hypothesis (the weak reading asked about in the task): a file whose
hunk and blocks are untouched is restored exactly OR the restore reports `invalidMetadata` (what the
loop reports for an entry it skips below a symlink); the "reported, never a complete node" half is
`Contained`'s. -/
def ContainedW (H : Str → Str) (s s' : Store) (k : Key) (b : Nat) : Prop :=
  ∀ nodes, (restoreOf H s' b).1 = .ok nodes →
    ∀ e ∈ listSpec s b, e.kind = .file →
      ((∃ n es, hunkAt s b n = some es ∧ e ∈ es ∧ k ≠ .hunk b n) ∧ (∀ a ∈ e.addrs, k ≠ .block a.hash) →
        ∃ c, readBack H s e.addrs = some c ∧
          ({ RNode.ofEntry e with content := c } ∈ nodes ∨
            Event.error .invalidMetadata ∈ (restoreOf H s' b).2.events)) ∧
      (readBack H s' e.addrs = none ∨ e ∉ listSpec s' b →
        (∀ nd ∈ nodes, nd.apath = e.apath → nd.complete = false) ∧
        ∃ err, Event.error err ∈ (restoreOf H s' b).2.events)

/-- What every damage class provides: `s'` is `s` with path `k` changed, both well-formed; every listed
file of `s` reads back; the damaged listing of `b` is `l' ++ ext` where `l'` is a sub-list of the old
listing that keeps every entry whose hunk is untouched; either nothing follows (`ext = []`) or
nothing was lost and no block changed; and whenever an entry was lost the listing reports an error. -/
structure CoreArgs (H : Str → Str) (s s' : Store) (k : Key) (b : Nat) (l' ext : List IndexEntry) : Prop where
  wf : ArchWF s
  wf' : ArchWF s'
  hd : Damage s s' k
  hread : ∀ e ∈ listSpec s b, e.kind = .file → ∃ c, readBack H s e.addrs = some c
  hl : listSpec s' b = l' ++ ext
  hsub : l'.Sublist (listSpec s b)
  hkeep : ∀ e ∈ listSpec s b, (∃ n es, hunkAt s b n = some es ∧ e ∈ es ∧ k ≠ .hunk b n) → e ∈ l'
  h2b : ext = [] ∨ ((∀ h, k ≠ .block h) ∧ ∀ e ∈ listSpec s b, e ∈ l')
  hrep : (∃ e ∈ listSpec s b, e ∉ l') → listErrors s' b ≠ []

/-- The "reported, never a complete node" half of clause 2, from facts about the loop that hold of
every list (`restoreP_node_from`, `restoreP_entry`).  Shared by both readings. -/
theorem core_reported {s s' : Store} {k : Key} {b : Nat} {l' ext : List IndexEntry}
    (a : CoreArgs H s s' k b l' ext) {nodes : List RNode} (hok : (restoreOf H s' b).1 = .ok nodes)
    {e : IndexEntry} (he : e ∈ listSpec s b) (hk : e.kind = .file)
    (hprem : readBack H s' e.addrs = none ∨ e ∉ listSpec s' b) :
    (∀ nd ∈ nodes, nd.apath = e.apath → nd.complete = false) ∧
    ∃ err, Event.error err ∈ (restoreOf H s' b).2.events := by
  have hrun : (restore H (.specified b) [slash] (fun _ => false)).run (World.clean s')
      = (.ok nodes, (restoreOf H s' b).2) := Prod.ext hok rfl
  obtain ⟨hn, _, hev⟩ := restore_spec H a.wf' b [slash] (fun _ => false) hrun
  rw [rootFilter] at hn hev
  have hevent : ∀ x, x ∈ listErrors s' b ∨ x ∈ (restoreP H s' [] (listSpec s' b)).2 →
      Event.error x ∈ (restoreOf H s' b).2.events := by
    intro x hx
    rw [hev, mem_evsOf]
    exact List.mem_append.mpr hx
  rcases a.h2b with hext | ⟨hnb, hall⟩
  · subst hext
    have hl' : listSpec s' b = l' := by simpa using a.hl
    constructor
    · intro nd hnd hap
      rw [hn] at hnd
      obtain ⟨x, hx, hxn⟩ := restoreP_node_from (H := H) s' _ _ nd hnd
      rw [hl'] at hx
      have hxe : x = e := eq_of_apath_nodup (C08.stitch_nodup a.wf b) (a.hsub.subset hx) he
        ((nodeP_apath hxn).symm.trans hap)
      subst hxe
      rcases hprem with hnone | hnot
      · exact nodeP_incomplete hk hnone hxn
      · exact absurd (hl' ▸ hx) hnot
    · by_cases hin : e ∈ l'
      · rcases hprem with hnone | hnot
        · obtain ⟨_, hh, herr⟩ := nodeP_file_none (H := H) hk hnone
          rcases restoreP_entry (H := H) s' (listSpec s' b) [] e (hl' ▸ hin) with hsk | ⟨_, hrep⟩
          · exact ⟨_, hevent _ (.inr hsk)⟩
          · exact ⟨_, hevent _ (.inr (hrep _ herr))⟩
        · exact absurd (hl' ▸ hin) hnot
      · have hne := a.hrep ⟨e, he, hin⟩
        cases hle : listErrors s' b with
        | nil => exact absurd hle hne
        | cons x rest => exact ⟨x, hevent x (.inl (by rw [hle]; exact List.mem_cons_self ..))⟩
  · exfalso
    rcases hprem with hnone | hnot
    · obtain ⟨c, hc⟩ := a.hread e he hk
      rw [readBack_damage_nonblock a.hd hnb] at hnone
      rw [hc] at hnone; cases hnone
    · exact hnot (a.hl ▸ List.mem_append_left _ (hall e he))

/-- **contained_core.**  Clause 2 (`C10.Contained`) of `b`, given the class facts and `Unshadowed`. -/
theorem contained_core {s s' : Store} {k : Key} {b : Nat} {l' ext : List IndexEntry}
    (a : CoreArgs H s s' k b l' ext) (hun : Unshadowed s b) : Contained H s s' k b := by
  intro nodes hok e he hk
  refine ⟨?_, core_reported a hok he hk⟩
  have hrun : (restore H (.specified b) [slash] (fun _ => false)).run (World.clean s')
      = (.ok nodes, (restoreOf H s' b).2) := Prod.ext hok rfl
  obtain ⟨hn, _, _⟩ := restore_spec H a.wf' b [slash] (fun _ => false) hrun
  rw [rootFilter, a.hl] at hn
  obtain ⟨syms', happ⟩ := restoreP_append_unshadowed (H := H) s' ext l' [] (Contain.Unshadowed.sublist hun a.hsub)
  rw [happ] at hn
  rintro ⟨⟨n, es, hh, hee, hkn⟩, hblk⟩
  obtain ⟨c, hc⟩ := a.hread e he hk
  have hc' : readBack H s' e.addrs = some c := by
    rw [damage_content_untouched H a.hd e hblk]; exact hc
  refine ⟨c, hc, ?_⟩
  rw [hn]
  exact List.mem_append_left _
    (List.mem_filterMap.mpr ⟨e, a.hkeep e he ⟨n, es, hh, hee, hkn⟩, nodeP_file_some hk hc'⟩)

/-- **contained_core_weak.**  The weak reading, WITHOUT `Unshadowed`. -/
theorem contained_core_weak {s s' : Store} {k : Key} {b : Nat} {l' ext : List IndexEntry}
    (a : CoreArgs H s s' k b l' ext) : ContainedW H s s' k b := by
  intro nodes hok e he hk
  refine ⟨?_, core_reported a hok he hk⟩
  have hrun : (restore H (.specified b) [slash] (fun _ => false)).run (World.clean s')
      = (.ok nodes, (restoreOf H s' b).2) := Prod.ext hok rfl
  obtain ⟨hn, _, hev⟩ := restore_spec H a.wf' b [slash] (fun _ => false) hrun
  rw [rootFilter] at hn hev
  rintro ⟨⟨n, es, hh, hee, hkn⟩, hblk⟩
  obtain ⟨c, hc⟩ := a.hread e he hk
  have hc' : readBack H s' e.addrs = some c := by
    rw [damage_content_untouched H a.hd e hblk]; exact hc
  refine ⟨c, hc, ?_⟩
  have hin : e ∈ listSpec s' b := a.hl ▸ List.mem_append_left _ (a.hkeep e he ⟨n, es, hh, hee, hkn⟩)
  rcases restoreP_entry (H := H) s' (listSpec s' b) [] e hin with hsk | ⟨hnode, _⟩
  · right
    rw [hev, mem_evsOf]
    exact List.mem_append_right _ hsk
  · left
    rw [hn]
    exact hnode _ (nodeP_file_some hk hc')

/-! ## 4. The damage classes -/

section classes
variable {s s' : Store} {k : Key}

/-- The damaged store of a `FileDamage` is a map. -/
theorem FileDamage.keys' (hd : FileDamage s s' k) : (s'.map (·.1)).Nodup := by
  simpa [keysNodup] using hd.2.2.2.2.1

/-- Damage to a BLOCK file: the listing of every version is unchanged. -/
theorem args_block (g : C10.Good H s) (hd : FileDamage s s' k) {h : Str} (hk : k = .block h) (b : Nat) :
    CoreArgs H s s' k b (listSpec s b) [] := by
  subst hk
  have wf := good_archWF g
  have wf' : ArchWF s' := archWF_of_nonhunk_damage wf hd.2.2.2.2.1 hd.2.2.2.2.2 hd.1 (fun _ _ e => by cases e)
  have hl := (listing_unaffected wf wf' hd.1 b (fun c _ => block_not_under_band h c)).1
  exact ⟨wf, wf', hd.1, fun e he hk => good_listed_readBack g he hk, by simp [hl], List.Sublist.refl _,
    fun e he _ => he, .inl rfl, fun ⟨e, he, hne⟩ => absurd he hne⟩

/-- A hunk file of version `b` (with a tail stating the hunk count) is lost: the listing is what the
other hunks hold, and the loss is reported. -/
theorem args_lost_hunk (g : C10.Good H s) (hd : FileDamage s s' k) {b n m : Nat} (hk : k = .hunk b n)
    (hr' : bandReadable s' b = true) (htail : s.get? (.bandTail b) = some (.tail (some m)))
    (hlost : HunkLost s' b n) : CoreArgs H s s' k b (listSpec s' b) [] := by
  subst hk
  have wf := good_archWF g
  have nd' := hd.2.2.2.2.1
  have wf' : ArchWF s' := archWF_lost_hunk wf nd' hd.2.2.2.2.2 hd.1 hlost.contributes_nothing
  have hb : b ∈ bandIdsOf s := bandIds_of_tail (good_dirsOk g) htail
  have ok := good_bandOK g hb
  have hread : bandReadable s b = true := by
    unfold bandReadable at hr' ⊢
    rw [← hd.1 (.bandHead b) (by simp), ← hd.1 (.indexDir b) (by simp)]; exact hr'
  have hn : n ∈ hunkNumsOf s b := by
    obtain ⟨v, hv, hvd⟩ := hd.2.2.1
    exact (NP.mem_hunkNumsOf wf.keys).mpr ⟨v, hv, by cases v <;> simp_all [FileVal.isDir]⟩
  obtain ⟨hl, hsub⟩ := lost_hunk_rest_listed wf.nodup nd' hd.1 hread htail hlost
  obtain ⟨_, _, hne, _⟩ := lost_hunk_reported wf.nodup nd' hd.1 hread htail (bandOK_indexCheck_none ok) hn hlost
  have hc : isComplete s b = true := by simp [isComplete, htail, FileVal.isDir]
  refine ⟨wf, wf', hd.1, fun e he hk => good_listed_readBack g he hk, by simp, hsub, ?_, .inl rfl, fun _ => hne⟩
  rintro e he ⟨n1, es1, hh1, hee1, hkn⟩
  obtain ⟨n2, hn2, es2, hu2, hh2, hee2⟩ := mem_listSpec_complete hc he
  have h12 : n1 = n2 := bandOK_hunk_unique wf.keys ok hh1 hh2 hee1 hee2
  subst h12
  have hne1 : n1 ≠ n := fun e' => hkn (by rw [e'])
  rw [hl]
  exact List.mem_flatten.mpr ⟨es2, List.mem_filterMap.mpr
    ⟨n1, List.mem_filter.mpr ⟨hn2, by simpa using hne1⟩, hu2⟩, hee2⟩

/-- Damage to a file of version `b`'s directory that is not a hunk (head, tail, stray file): the old
listing is a prefix of the new one; nothing is lost. -/
theorem args_own_file (g : C10.Good H s) (hd : FileDamage s s' k) {b m : Nat}
    (hnh : ∀ b' n, k ≠ .hunk b' n) (hnb : ∀ h, k ≠ .block h)
    (hr' : bandReadable s' b = true) (htail : s.get? (.bandTail b) = some (.tail (some m))) :
    ∃ ext, CoreArgs H s s' k b (listSpec s b) ext := by
  have wf := good_archWF g
  have wf' : ArchWF s' := archWF_of_nonhunk_damage wf hd.2.2.2.2.1 hd.2.2.2.2.2 hd.1 hnh
  obtain ⟨ext, hext⟩ := listSpec_prefix_of_damage wf.keys (FileDamage.keys' hd) hd.1 (hnh b) htail hr'
  exact ⟨ext, wf, wf', hd.1, fun e he hk => good_listed_readBack g he hk, hext.symm, List.Sublist.refl _,
    fun e he _ => he, .inr ⟨hnb, fun e he => he⟩, fun ⟨e, he, hne⟩ => absurd he hne⟩

/-- No damage at all. -/
theorem args_self (g : C10.Good H s) (k : Key) (b : Nat) : CoreArgs H s s k b (listSpec s b) [] :=
  ⟨good_archWF g, good_archWF g, Damage.refl s k, fun e he hk => good_listed_readBack g he hk, by simp,
    List.Sublist.refl _, fun e he _ => he, .inl rfl, fun ⟨e, he, hne⟩ => absurd he hne⟩

/-- Damage to any file OUTSIDE version `b`'s directory that is not a block: by C02h's frame lemma
`restore_congr` the restore of `b` returns and reports exactly what it did before; the listing and
the content of its entries are unchanged. -/
theorem same_elsewhere (g : C10.Good H s) (hd : FileDamage s s' k) {b m : Nat}
    (hout : Key.isUnder (.bandDir b) k = false) (hnb : ∀ h, k ≠ .block h)
    (htail : s.get? (.bandTail b) = some (.tail (some m))) :
    C02h.SameRestore H b s s' ∧ listSpec s' b = listSpec s b ∧
      ∀ as, readBack H s' as = readBack H s as := by
  have wf := good_archWF g
  have hc : isComplete s b = true := by simp [isComplete, htail, FileVal.isDir]
  have hband : Exact.BandSame s s' b := by
    intro k' hk'
    exact hd.1 k' (fun e => by rw [e, hout] at hk'; cases hk')
  have hroot : s'.get? .blockRoot = s.get? .blockRoot := by
    refine hd.1 _ (fun e => ?_)
    obtain ⟨v, hv, hvd⟩ := hd.2.2.1
    rw [← e, good_blockRoot g] at hv
    cases hv; exact hvd rfl
  have hsame : C02h.SameRestore H b s s' :=
    C02h.restore_congr H (by simpa [Inv.NoDupKeys] using wf.keys)
      (by simpa [Inv.NoDupKeys] using FileDamage.keys' hd) hc hband hroot
      (fun n es _ e _ a _ => by
        unfold blockContent
        rw [hd.1 (.block a.hash) (fun e' => hnb a.hash e'.symm)])
  have hsb : SameBand s s' b := hd.1.sameBand hout
  have hls : listSpec s' b = listSpec s b := by
    simp only [listSpec, hsb.isComplete, hc, if_true, List.append_nil,
      hsb.bandEntries wf.keys (FileDamage.keys' hd)]
  exact ⟨hsame, hls, readBack_damage_nonblock hd.1 hnb⟩

/-- **contained_block.**  Damage to a BLOCK file: clause 2 for every version (with or without tail). -/
theorem contained_block (g : C10.Good H s) (hd : FileDamage s s' k) {h : Str} (hk : k = .block h) (b : Nat)
    (hun : Unshadowed s b) : Contained H s s' k b :=
  contained_core (args_block g hd hk b) hun

/-- **contained_lost_hunk.**  A hunk file of version `b` (which has a tail stating the hunk count) is
deleted, emptied, or made undecodable / unusable: clause 2 for `b`. -/
theorem contained_lost_hunk (g : C10.Good H s) (hd : FileDamage s s' k) {b n m : Nat} (hk : k = .hunk b n)
    (hr' : bandReadable s' b = true) (htail : s.get? (.bandTail b) = some (.tail (some m)))
    (hlost : HunkLost s' b n) (hun : Unshadowed s b) : Contained H s s' k b :=
  contained_core (args_lost_hunk g hd hk hr' htail hlost) hun

/-- **contained_own_file.**  Damage to a file of version `b`'s directory that is not one of its hunks —
its HEAD (the version still opens: the new head is readable too), its TAIL (replaced by anything, or
deleted: the version turns incomplete and its listing is CONTINUED with entries of earlier versions
after its last own path) or a stray file: every own file entry is restored exactly; nothing is
lost, so nothing needs reporting. -/
theorem contained_own_file (g : C10.Good H s) (hd : FileDamage s s' k) {b m : Nat}
    (hnh : ∀ b' n, k ≠ .hunk b' n) (hnb : ∀ h, k ≠ .block h)
    (hr' : bandReadable s' b = true) (htail : s.get? (.bandTail b) = some (.tail (some m)))
    (hun : Unshadowed s b) : Contained H s s' k b := by
  obtain ⟨ext, a⟩ := args_own_file g hd hnh hnb hr' htail
  exact contained_core a hun

/-- **contained_elsewhere.**  Damage to any file OUTSIDE version `b`'s directory that is not a block —
a hunk (replaced by ANYTHING, also by a different decodable hunk), head or tail of ANOTHER version,
earlier or later; a stray file; a lock: the restore of `b` returns and reports exactly what it did
before (`same_elsewhere`), so every file entry is restored exactly. -/
theorem contained_elsewhere (g : C10.Good H s) (hd : FileDamage s s' k) {b m : Nat}
    (hout : Key.isUnder (.bandDir b) k = false) (hnb : ∀ h, k ≠ .block h)
    (htail : s.get? (.bandTail b) = some (.tail (some m)))
    (hun : Unshadowed s b) : Contained H s s' k b := by
  obtain ⟨hsame, hls, hrb⟩ := same_elsewhere g hd hout hnb htail
  have hself : Contained H s s k b := contained_core (args_self g k b) hun
  intro nodes hok e he hk
  have hok0 : (restoreOf H s b).1 = .ok nodes := hsame.1.symm.trans hok
  obtain ⟨h1, h2⟩ := hself nodes hok0 e he hk
  refine ⟨h1, fun hprem => ?_⟩
  have hprem0 : readBack H s e.addrs = none ∨ e ∉ listSpec s b := by
    rcases hprem with h | h
    · exact .inl (by rw [← hrb]; exact h)
    · exact .inr (by rw [← hls]; exact h)
  obtain ⟨h3, err, h4⟩ := h2 hprem0
  exact ⟨h3, err, by rw [show (restoreOf H s' b).2.events = (restoreOf H s b).2.events from hsame.2]; exact h4⟩

end classes

/-- "Damage to one of `b`'s own hunk files is a LOSS": the file is gone, zero-length, undecodable, or
holds an entry that fails `IndexEntry::check`.  (Index hunks carry no checksum; a hunk overwritten
with a different well-formed hunk cannot be told from an authentic one — see
`complete_refuted_rewritten_hunk`.) -/
def OwnHunkLost (s' : Store) (k : Key) (b : Nat) : Prop := ∀ n, k = .hunk b n → HunkLost s' b n

/-- The case split of `contained_complete`, once: the damaged path is a block, lies outside `b`'s
directory, is one of `b`'s hunks, or is another file of `b`'s directory. -/
theorem damage_cases (k : Key) (b : Nat) :
    (∃ h, k = .block h) ∨
    ((∀ h, k ≠ .block h) ∧ Key.isUnder (.bandDir b) k = false) ∨
    (∃ n, k = .hunk b n) ∨
    ((∀ h, k ≠ .block h) ∧ ∀ b' n, k ≠ .hunk b' n) := by
  by_cases hblk : ∃ h, k = .block h
  · exact .inl hblk
  · have hnb : ∀ h, k ≠ .block h := fun h e => hblk ⟨h, e⟩
    by_cases hout : Key.isUnder (.bandDir b) k = false
    · exact .inr (.inl ⟨hnb, hout⟩)
    · by_cases hh : ∃ b' n, k = .hunk b' n
      · obtain ⟨b', n, hk⟩ := hh
        have hb : b' = b := by
          subst hk
          by_cases hb : b' = b
          · exact hb
          · exact absurd (other_band_not_under (Ne.symm hb) (.hunk b' n) (by simp [Key.isUnder, Key.parent])) hout
        subst hb
        exact .inr (.inr (.inl ⟨n, hk⟩))
      · exact .inr (.inr (.inr ⟨hnb, fun b' n e => hh ⟨b', n, e⟩⟩))

/-- **contained_complete** (gap (ii)).  Clause 2 of C10 for EVERY damage class, assembled: `s` is `Good`;
one file `k` (not the header) is deleted, truncated, overwritten or bit-flipped in any way
(`FileDamage`); version `b` had a tail stating its hunk count and still opens.  Hypotheses beyond
`C10StatementComplete`'s: `Unshadowed s b` (nothing listed below an earlier listed symlink — restore
would skip it) and `OwnHunkLost` (if `k` is one of `b`'s OWN hunks, it became missing / unusable /
empty rather than a different valid hunk).  Both are necessary (`complete_refuted_symlink`,
`complete_refuted_rewritten_hunk`).  Classes: block → `contained_block`; own hunk →
`contained_lost_hunk`; own head / tail / stray file → `contained_own_file`; anything outside `b`'s
directory (other versions' hunks — replaced by anything —, heads, tails; stray files) →
`contained_elsewhere`. -/
theorem contained_complete (s s' : Store) (k : Key) (g : C10.Good H s) (hd : FileDamage s s' k) (b m : Nat)
    (hr' : bandReadable s' b = true) (htail : s.get? (.bandTail b) = some (.tail (some m)))
    (hun : Unshadowed s b) (hdet : OwnHunkLost s' k b) : Contained H s s' k b := by
  rcases damage_cases k b with ⟨h, hk⟩ | ⟨hnb, hout⟩ | ⟨n, hk⟩ | ⟨hnb, hnh⟩
  · exact contained_block g hd hk b hun
  · exact contained_elsewhere g hd hout hnb htail hun
  · exact contained_lost_hunk g hd hk hr' htail (hdet n hk) hun
  · exact contained_own_file g hd hnh hnb hr' htail hun

/-- **contained_complete_weak.**  The same WITHOUT `Unshadowed`, for the weak reading `ContainedW`: an
untouched file is restored exactly or — when the archive lists it below a symlink — the restore
reports `invalidMetadata`.  So the symlink hypothesis can be traded for "skipped entries count as
reported"; `C10.Contained` as written demands the exact restore and does need it. -/
theorem contained_complete_weak (s s' : Store) (k : Key) (g : C10.Good H s) (hd : FileDamage s s' k) (b m : Nat)
    (hr' : bandReadable s' b = true) (htail : s.get? (.bandTail b) = some (.tail (some m)))
    (hdet : OwnHunkLost s' k b) : ContainedW H s s' k b := by
  rcases damage_cases k b with ⟨h, hk⟩ | ⟨hnb, hout⟩ | ⟨n, hk⟩ | ⟨hnb, hnh⟩
  · exact contained_core_weak (args_block g hd hk b)
  · obtain ⟨hsame, hls, hrb⟩ := same_elsewhere g hd hout hnb htail
    have hself : ContainedW H s s k b := contained_core_weak (args_self g k b)
    have hev : (restoreOf H s' b).2.events = (restoreOf H s b).2.events := hsame.2
    intro nodes hok e he hk
    have hok0 : (restoreOf H s b).1 = .ok nodes := hsame.1.symm.trans hok
    obtain ⟨h1, h2⟩ := hself nodes hok0 e he hk
    refine ⟨fun hp => ?_, fun hprem => ?_⟩
    · obtain ⟨c, hc, h⟩ := h1 hp
      exact ⟨c, hc, h.imp id (fun h => by rw [hev]; exact h)⟩
    · have hprem0 : readBack H s e.addrs = none ∨ e ∉ listSpec s b := by
        rcases hprem with h | h
        · exact .inl (by rw [← hrb]; exact h)
        · exact .inr (by rw [← hls]; exact h)
      obtain ⟨h3, err, h4⟩ := h2 hprem0
      exact ⟨h3, err, by rw [hev]; exact h4⟩
  · exact contained_core_weak (args_lost_hunk g hd hk hr' htail (hdet n hk))
  · obtain ⟨ext, a⟩ := args_own_file g hd hnh hnb hr' htail
    exact contained_core_weak a

/-! ## 5. Clause 3: a new backup after a deletion or an emptying -/

/-- What C01 (a) says of a run of `backup`, minus "the backup reports nothing": on a damaged archive
the BASIS listing may report the damage (a lost hunk, an unreadable head) — the backup goes on. -/
structure BackupExact (H : Str → Str) (o : BackupOpts) (src : List SrcEntry) (s : Store)
    (r : Outcome Stats × World) : Prop where
  /-- the backup returns statistics (no error, no panic) and counts no error -/
  ok : ∃ stats, r.1 = .ok stats ∧ stats.errors = 0
  /-- nothing that was in the archive changed (a zero-length leftover may have been completed) -/
  extends_ : Extends s r.2.store
  /-- the new version has the id after the newest existing one and is complete -/
  complete : isComplete r.2.store (Exact.newBandOf s) = true
  /-- restoring that version by id yields exactly the source, entry by entry, in order … -/
  restoreSpecified :
    ((restore H (.specified (Exact.newBandOf s)) [slash] (fun _ => false)).run (World.clean r.2.store)).1
      = .ok (src.map (Exact.expectedNode o))
  /-- … reporting nothing -/
  restoreSpecifiedSilent :
    ((restore H (.specified (Exact.newBandOf s)) [slash] (fun _ => false)).run (World.clean r.2.store)).2.events = []
  /-- the same when asking for the latest complete version: it is the new one -/
  restoreLatest :
    ((restore H .latestClosed [slash] (fun _ => false)).run (World.clean r.2.store)).1
      = .ok (src.map (Exact.expectedNode o))
  restoreLatestSilent :
    ((restore H .latestClosed [slash] (fun _ => false)).run (World.clean r.2.store)).2.events = []

/-- **backup_restore_exact_fair.**  C01a's `backup_restore_exact` with `ArchiveGood` weakened to what
a damaged archive still has: `StoreOK` (a map, a tree, kinds, blocks named by their hash), `ArchWF`
(usable hunks sorted), no lock, and the tool's own assumption for the basis listing THIS run
computes (`Inv.HeuristicSound`: a basis entry that looks unchanged and whose blocks are all present
reads back to the source file).  Versions may fail to list, hunks may be missing, entries may refer
to missing blocks. -/
theorem backup_restore_exact_fair (hinj : Function.Injective H) (hlen : ∀ d, subdirNameChars ≤ (H d).length)
    (s : Store) (o : BackupOpts) (src : List SrcEntry) (ho : 0 < o.maxBlockSize) (hsrc : Exact.SrcGood src)
    (hst : Exact.StoreOK H s) (hwf : ArchWF s) (noLock : s.get? .gcLock = none)
    (hheur : Inv.NoBands s ∨ Inv.HeuristicSound H src (World.clean s)) :
    BackupExact H o src s ((backup H o src).run (World.clean s)) := by
  obtain ⟨s', hs, stats, evs, h⟩ := backup_summary_fair (o := o) hinj hlen ho hsrc hst hwf noLock hheur
  obtain ⟨h1, h2, _⟩ := h.runs.clean
  have hspec := (Exact.restore_specified_runs h.wf h.final.st (Exact.newBandOf s)).clean
  have hlatest := (Exact.restore_latest_runs h.wf h.final.st h.bandIds_mem (h.bandIds_le hst) h.head_ok
    (Exact.final_complete h.final)).clean
  rw [h.restoreSpec hsrc] at hspec hlatest
  refine ⟨⟨stats, h1, h.noErr⟩, ?_, ?_, ?_, ?_, ?_, ?_⟩
  · rw [h2]; exact h.ext
  · rw [h2]; exact Exact.final_complete h.final
  · rw [h2]; exact hspec.1
  · rw [h2]; exact hspec.2.2
  · rw [h2]; exact hlatest.1
  · rw [h2]; exact hlatest.2.2

section clause3
variable {s s' : Store} {k : Key}

/-- `C10.Good` as C13's invariant. -/
theorem good_ci (g : C10.Good H s) : Conf.CI H s :=
  ⟨g.1, good_dirsOk g, by simpa [Inv.NoDupKeys] using good_keys g⟩

/-- Deleting or emptying a FILE keeps `StoreOK`. -/
theorem storeOK_after_loss (g : C10.Good H s) (hkinds : Rng.KindsOK s) (hsmall : Exact.BlocksSmall s)
    (hd : FileDamage s s' k) (hdel : s'.get? k = none ∨ s'.get? k = some .empty) : Exact.StoreOK H s' := by
  have hst := Rng.storeOK_of_ci (good_ci g) hkinds hsmall
  obtain ⟨v0, hv0, hv0d⟩ := hd.2.2.1
  have hne : ∀ k', s.get? k' = some .dir → k' ≠ k := by
    intro k' hk' e; rw [e, hv0] at hk'; cases hk'; exact hv0d rfl
  have htr : treeShaped s' = true := hd.2.2.2.2.2
  simp only [treeShaped, List.all_eq_true] at htr
  refine ⟨by simpa [Inv.NoDupKeys] using FileDamage.keys' hd,
    fun k' v hg => htr _ (Store.mem_of_get?' hg), ?_, ?_, ?_, ?_, ?_⟩
  · intro k' v hg
    by_cases hk : k' = k
    · subst hk
      have hv : v = .empty := by
        rcases hdel with h | h
        · rw [h] at hg; cases hg
        · rw [h] at hg; cases hg; rfl
      subst hv
      have := hst.kinds k' v0 hv0
      unfold Exact.kindOk at this ⊢
      cases k' <;> first | rfl | (cases v0 <;> simp_all [FileVal.isDir])
    · rw [hd.1 k' hk] at hg; exact hst.kinds k' v hg
  · rw [hd.1 _ (hne _ hst.root)]; exact hst.root
  · rw [hd.1 _ (hne _ hst.blockRoot)]; exact hst.blockRoot
  · intro h v hg
    by_cases hk : Key.block h = k
    · left
      rcases hdel with h' | h'
      · rw [← hk] at h'; rw [h'] at hg; cases hg
      · rw [← hk] at h'; rw [h'] at hg; cases hg; rfl
    · rw [hd.1 _ hk] at hg; exact hst.blocks h v hg
  · intro h c hg
    by_cases hk : Key.block h = k
    · rcases hdel with h' | h'
      · rw [← hk] at h'; rw [h'] at hg; cases hg
      · rw [← hk] at h'; rw [h'] at hg; cases hg
    · rw [hd.1 _ hk] at hg; exact hst.small h c hg

/-- Deleting or emptying a file keeps `ArchWF`. -/
theorem archWF_after_loss (g : C10.Good H s) (hd : FileDamage s s' k)
    (hdel : s'.get? k = none ∨ s'.get? k = some .empty) : ArchWF s' := by
  have wf := good_archWF g
  by_cases hh : ∃ b n, k = .hunk b n
  · obtain ⟨b, n, rfl⟩ := hh
    refine archWF_lost_hunk wf hd.2.2.2.2.1 hd.2.2.2.2.2 hd.1 ?_
    rcases hdel with h | h
    · exact .inl (by simp [usableHunk, h])
    · exact .inr (by simp [usableHunk, h])
  · exact archWF_of_nonhunk_damage wf hd.2.2.2.2.1 hd.2.2.2.2.2 hd.1 (fun b n e => hh ⟨b, n, e⟩)

/-- **backup_after_loss** (gap (iii)).  `s` is `Good`, with directories where the layout has
directories and blocks shorter than 2^64 (`KindsOK`, `BlocksSmall` — true of every archive the tool
writes, not implied by `Conforms`).  One file — a BLOCK, a HUNK, a TAIL, a HEAD, anything but the
archive header — is DELETED or EMPTIED.  Then a fault-free backup of any good source, with any
options, onto the damaged archive returns without counting an error, changes nothing that was
there, completes the next version, and restoring that version (by id or as "latest") yields EXACTLY
`src.map expectedNode`, silently — although the basis is damaged: a file whose basis entry names a
missing block is stored afresh (`copyFile` checks `exists_.contains` for every address), entries of
a lost basis hunk are simply new.  The only assumption about file content is the tool's own, stated
on the archive BEFORE the damage (`HeuristicSoundStore H src s`). -/
theorem backup_after_loss (hinj : Function.Injective H) (hlen : ∀ d, subdirNameChars ≤ (H d).length)
    (o : BackupOpts) (src : List SrcEntry) (ho : 0 < o.maxBlockSize) (hsrc : Exact.SrcGood src)
    (g : C10.Good H s) (hkinds : Rng.KindsOK s) (hsmall : Exact.BlocksSmall s)
    (hheur : Inv.HeuristicSoundStore H src s)
    (hd : FileDamage s s' k) (hdel : s'.get? k = none ∨ s'.get? k = some .empty) :
    BackupExact H o src s' ((backup H o src).run (World.clean s')) := by
  have hst' := storeOK_after_loss g hkinds hsmall hd hdel
  have hwf' := archWF_after_loss g hd hdel
  have hlock : s'.get? .gcLock = none := by
    obtain ⟨v0, hv0, _⟩ := hd.2.2.1
    rw [hd.1 .gcLock (fun e => by rw [← e, g.2.2.2] at hv0; cases hv0)]
    exact g.2.2.2
  have hhunks : ∀ b n es, hunkAt s' b n = some es → hunkAt s b n = some es := by
    intro b n es hh
    by_cases hk : Key.hunk b n = k
    · exfalso
      unfold hunkAt at hh
      rcases hdel with h | h <;> (rw [← hk] at h; simp [h] at hh)
    · unfold hunkAt at hh ⊢
      rwa [hd.1 _ hk] at hh
  exact backup_restore_exact_fair hinj hlen s' o src ho hsrc hst' hwf' hlock
    (.inr (heuristicSound_of_damaged hinj hst'.noDup hst'.blocks hhunks (Rng.ci_noDangling (good_ci g)) hheur))

/-- Clause 3 as stated in Props/C10.lean (`BackupCompletes`: the backup returns), for good sources. -/
theorem backup_completes (hinj : Function.Injective H) (hlen : ∀ d, subdirNameChars ≤ (H d).length)
    (o : BackupOpts) (src : List SrcEntry) (ho : 0 < o.maxBlockSize) (hsrc : Exact.SrcGood src)
    (g : C10.Good H s) (hkinds : Rng.KindsOK s) (hsmall : Exact.BlocksSmall s)
    (hheur : Inv.HeuristicSoundStore H src s)
    (hd : FileDamage s s' k) (hdel : s'.get? k = none ∨ s'.get? k = some .empty) :
    ∃ st w', (backup H o src).run (World.clean s') = (.ok st, w') := by
  obtain ⟨st, hst, _⟩ := (backup_after_loss hinj hlen o src ho hsrc g hkinds hsmall hheur hd hdel).ok
  exact ⟨st, _, Prod.ext hst rfl⟩

end clause3

/-- OPEN.  Clause 3 as `C10.BackupCompletes` words it — the backup returns for EVERY source listing and
all options — under the hypotheses of `backup_after_loss` on the archive only.  Proved for good
sources (`backup_completes`); false from `Good` alone (`backup_completes_refuted`). -/
def BackupCompletesAnySourceStatement (H : Str → Str) : Prop :=
  ∀ s s' : Store, ∀ k : Key, C10.Good H s → Rng.KindsOK s → Exact.BlocksSmall s → FileDamage s s' k →
    BackupCompletes H s' k

/-! ## 6. Where `Unshadowed` comes from -/

/-- The version a fault-free backup of a good source wrote is `Unshadowed` (C01a: it restores
exactly and silently). -/
theorem unshadowed_of_exact {o : BackupOpts} {src : List SrcEntry} {s : Store} {r : Outcome Stats × World}
    (hx : C01a.Exact H o src s r) (wf : ArchWF r.2.store) : Unshadowed r.2.store (Exact.newBandOf s) :=
  unshadowed_of_silent_restore wf hx.restoreSpecified hx.restoreSpecifiedSilent

/-- … and stays so as long as its restore stays the same (C02h: `history_keeps_restore` — backups,
interrupted backups, deletes of other versions, gc). -/
theorem unshadowed_of_sameRestore {s0 s : Store} {b : Nat} (hs : C02h.SameRestore H b s0 s) {nodes : List RNode}
    (hok : (restoreOf H s0 b).1 = .ok nodes) (hsilent : (restoreOf H s0 b).2.events = []) (wf : ArchWF s) :
    Unshadowed s b :=
  unshadowed_of_silent_restore wf (hs.1.trans hok) (hs.2.trans hsilent)

/-- C13's invariant `CI` (conforms, a tree, a map — no statement about the lock) gives `ArchWF`. -/
theorem archWF_of_ci {s : Store} (hci : Conf.CI H s) : ArchWF s :=
  archWF_of_conforms hci.conf ((C09p.keysNodup_iff s).2 hci.nodup) ((C09p.treeShaped_iff s).2 hci.dirs)

/-- **unshadowed_after_history.**  The answer to "which archives satisfy the symlink hypothesis": let a
fault-free backup of a good source run on a good archive (it creates version `newBandOf s`), and let
ANY history follow — more backups of anything, complete or interrupted at any point, with any faults;
deletes of other versions.  In the archive at the end that version is `Unshadowed`
(C02h's `history_restores_source`: it still restores exactly and silently). -/
theorem unshadowed_after_history (hinj : Function.Injective H) (hlen : Conf.HashLen H) (s : Store)
    (o : BackupOpts) (src : List SrcEntry) (ho : 0 < o.maxBlockSize) (hsrc : Exact.SrcGood src)
    (hsorted : C13.SrcSorted src) (hs : Exact.ArchiveGood H src s) (hci : Conf.CI H s)
    (rest : List C13.Step) (hok : C13.HistOK rest) (hkeep : ∀ st ∈ rest, C02h.Keeps (Exact.newBandOf s) st) :
    Unshadowed (C02h.runSteps H rest ((backup H o src).run (World.clean s)).2.store) (Exact.newBandOf s) := by
  obtain ⟨h1, h2⟩ := C02h.history_restores_source H hinj hlen s o src ho hsrc hsorted hs hci rest hok hkeep
  have hci1 : Conf.CI H ((backup H o src).run (World.clean s)).2.store :=
    C13.backup_ci_all_worlds (w := World.clean s) hinj hlen hsorted.weak rfl hci
  have hv := C02h.clean_backup_versionOK H hinj hlen s o src ho hsrc hs
  obtain ⟨_, _, hciN, _⟩ := C02h.history_keeps_restore H hinj hlen rest _ hok hci1 _ hv hkeep
  exact unshadowed_of_silent_restore (archWF_of_ci hciN) h1 h2

/-! ## 7. The statement -/

section
variable (H)

/-- C10 in full, as it is TRUE of the model.  Against `C10.C10StatementComplete`: clause 2 has the two
extra hypotheses `Unshadowed` and `OwnHunkLost` (both necessary, below); clause 3 is the STRONG
reading — the new version restores exactly — for good sources, under `KindsOK`, `BlocksSmall`
(necessary: `backup_completes_refuted`) and the tool's own unchanged-file assumption on the
archive before the damage. -/
def C10StatementFinal : Prop :=
  ∀ s s' : Store, ∀ k : Key, C10.Good H s → FileDamage s s' k →
    NoCrash H ∧
    (∀ b m, bandReadable s' b = true → s.get? (.bandTail b) = some (.tail (some m)) →
      Unshadowed s b → OwnHunkLost s' k b → Contained H s s' k b) ∧
    ((s'.get? k = none ∨ s'.get? k = some .empty) → Rng.KindsOK s → Exact.BlocksSmall s →
      ∀ o src, 0 < o.maxBlockSize → Exact.SrcGood src → Inv.HeuristicSoundStore H src s →
        BackupExact H o src s' ((backup H o src).run (World.clean s')))

end

/-- **c10_statement_final.**  For every injective block hash with names of at least three
characters. -/
theorem c10_statement_final (hinj : Function.Injective H) (hlen : ∀ d, subdirNameChars ≤ (H d).length) :
    C10StatementFinal H := fun s s' k g hd =>
  ⟨c10_partial H,
   fun b m hr' htail hun hdet => contained_complete s s' k g hd b m hr' htail hun hdet,
   fun hdel hkinds hsmall o src ho hsrc hheur =>
    backup_after_loss hinj hlen o src ho hsrc g hkinds hsmall hheur hd hdel⟩

/-! ## 8. The extra hypotheses are needed -/

/-- `/a`, a symlink. -/
def symA : IndexEntry :=
  { apath := [47, 97], kind := .symlink, mtime := 0, mtimeNanos := 0, unixMode := some 511,
    user := none, group := none, addrs := [], target := some [120] }

/-- A version that lists `/`, the symlink `/a` and the (empty) file `/a/b` — which `Conforms` allows —
next to a stray file `x`. -/
def shadowed : Store :=
  [ (.root, .dir), (.header, .header [48, 46, 54]), (.blockRoot, .dir), (.other [120], .junk 0),
    (.bandDir 0, .dir), (.bandHead 0, .head .ok []), (.indexDir 0, .dir), (.hunkDir 0 0, .dir),
    (.hunk 0 0, .hunk [dirEntry [slash], symA, emptyFile [47, 97, 47, 98]]), (.bandTail 0, .tail (some 1)) ]

/-- **complete_refuted_symlink.**  `C10.C10StatementComplete` (hypotheses `Good` and `FileDamage` only) is
FALSE: `Conforms` allows a file entry below a listed symlink; restore skips it (and reports it) —
damaged or not.  Witness: delete the stray file `x` of `shadowed`; `/a/b`'s hunk and blocks are
untouched, yet it is not restored.  Not a defect of the code (no backup writes such a listing);
`Good` is too weak: `Unshadowed` is needed. -/
theorem complete_refuted_symlink : ¬ C10StatementComplete (fun c => c) := by
  intro h
  have hs : C10.Good (fun c => c) shadowed :=
    ⟨by decide +kernel, by decide +kernel, by decide +kernel, by decide +kernel⟩
  have hd : FileDamage shadowed (shadowed.erase (.other [120])) (.other [120]) :=
    ⟨damage_erase _ _, by decide, ⟨.junk 0, by decide +kernel, by decide⟩, by decide +kernel,
     by decide +kernel, by decide +kernel⟩
  obtain ⟨_, h2, _⟩ := h _ _ _ hs hd
  have hrun : (restoreOf (fun c => c) (shadowed.erase (.other [120])) 0).1
      = .ok [RNode.ofEntry (dirEntry [slash]), RNode.ofEntry symA] := okOf?_eq_some.mp (by decide +kernel)
  obtain ⟨c, _, hmem⟩ := ((h2 0 1 (by decide +kernel) (by decide +kernel)) _ hrun (emptyFile [47, 97, 47, 98])
    (by decide +kernel) rfl).1
    ⟨⟨0, [dirEntry [slash], symA, emptyFile [47, 97, 47, 98]], by decide +kernel, by decide +kernel, by decide⟩,
     fun a ha => by cases ha⟩
  simp [RNode.ofEntry, emptyFile, dirEntry, symA] at hmem

/-- … and the hypothesis fails of that archive, as it must. -/
example : ¬ Unshadowed shadowed 0 := by
  intro h
  have hl : listSpec shadowed 0 = [dirEntry [slash], symA, emptyFile [47, 97, 47, 98]] := by decide +kernel
  have := h.2
  rw [hl] at this
  have h3 := (List.pairwise_cons.mp (List.pairwise_cons.mp this).2).1 (emptyFile [47, 97, 47, 98])
    (List.mem_cons_self ..) rfl
  revert h3
  decide +kernel

/-- … while the weak reading holds of it (`contained_complete_weak` needs no symlink hypothesis): `/a/b`
is not restored, and `invalidMetadata` is reported — as the evaluated run confirms. -/
example : ContainedW (fun c => c) shadowed (shadowed.erase (.other [120])) (.other [120]) 0 ∧
    (restoreOf (fun c => c) (shadowed.erase (.other [120])) 0).2.events = [.error .invalidMetadata] :=
  ⟨contained_complete_weak (H := fun c => c) shadowed _ (.other [120])
    ⟨by decide +kernel, by decide +kernel, by decide +kernel, by decide +kernel⟩
    ⟨damage_erase _ _, by decide, ⟨.junk 0, by decide +kernel, by decide⟩, by decide +kernel,
     by decide +kernel, by decide +kernel⟩
    0 1 (by decide +kernel) (by decide +kernel) (fun n e => by cases e), by decide +kernel⟩

/-- One complete version whose only hunk holds `/` and the empty file `/f`. -/
def closed : Store :=
  [ (.root, .dir), (.header, .header [48, 46, 54]), (.blockRoot, .dir),
    (.bandDir 0, .dir), (.bandHead 0, .head .ok []), (.indexDir 0, .dir), (.hunkDir 0 0, .dir),
    (.hunk 0 0, .hunk [dirEntry [slash], emptyFile [47, 102]]), (.bandTail 0, .tail (some 1)) ]

/-- **complete_refuted_rewritten_hunk.**  `C10.C10StatementComplete` is false for a second reason, which
no hypothesis on the ARCHIVE removes: `FileDamage` includes overwriting an index hunk with a
DIFFERENT well-formed hunk.  Index hunks carry no checksum, so this cannot be told from an authentic
hunk: `/f` is gone from the listing and from the restore, and nothing is reported.  (The same
damage can also shadow files of OTHER, untouched hunks of the version by turning a directory entry
into a symlink.)  The sentence speaks of hunks that became "missing or undecodable": `OwnHunkLost`. -/
theorem complete_refuted_rewritten_hunk : ¬ C10StatementComplete (fun c => c) := by
  intro h
  have hs : C10.Good (fun c => c) closed :=
    ⟨by decide +kernel, by decide +kernel, by decide +kernel, by decide +kernel⟩
  have hd : FileDamage closed (closed.put (.hunk 0 0) (.hunk [dirEntry [slash]])) (.hunk 0 0) :=
    ⟨damage_put _ _ _, by decide, ⟨.hunk [dirEntry [slash], emptyFile [47, 102]], by decide +kernel, by decide⟩,
     by decide +kernel, by decide +kernel, by decide +kernel⟩
  obtain ⟨_, h2, _⟩ := h _ _ _ hs hd
  have hrun : (restoreOf (fun c => c) (closed.put (.hunk 0 0) (.hunk [dirEntry [slash]])) 0).1
      = .ok [RNode.ofEntry (dirEntry [slash])] := okOf?_eq_some.mp (by decide +kernel)
  obtain ⟨_, e, he⟩ := ((h2 0 1 (by decide +kernel) (by decide +kernel)) _ hrun (emptyFile [47, 102])
    (by decide +kernel) rfl).2 (.inr (by decide +kernel))
  have hev : (restoreOf (fun c => c) (closed.put (.hunk 0 0) (.hunk [dirEntry [slash]])) 0).2.events = [] := by
    decide +kernel
  rw [hev] at he
  cases he

/-- `closed` with a FILE where the next version's directory `b0001` would go, and a stray file `x`. -/
def blockedNext : Store :=
  [ (.root, .dir), (.header, .header [48, 46, 54]), (.blockRoot, .dir), (.other [120], .junk 0),
    (.bandDir 1, .junk 1),
    (.bandDir 0, .dir), (.bandHead 0, .head .ok []), (.indexDir 0, .dir), (.hunkDir 0 0, .dir),
    (.hunk 0 0, .hunk [dirEntry [slash]]), (.bandTail 0, .tail (some 1)) ]

/-- **backup_completes_refuted.**  Clause 3 needs `KindsOK`: `Conforms` only looks at `bNNNN` entries that
ARE directories, so a `Good` archive may hold a FILE named `b0001`.  `Band::create` tolerates
`AlreadyExists` from `create_dir`, then fails creating `b0001/i`: the backup ends with an error —
before and after any damage (here: a stray file deleted). -/
theorem backup_completes_refuted :
    ¬ ∀ s s' k, C10.Good (fun c => c) s → FileDamage s s' k → BackupCompletes (fun c => c) s' k := by
  intro h
  have hs : C10.Good (fun c => c) blockedNext :=
    ⟨by decide +kernel, by decide +kernel, by decide +kernel, by decide +kernel⟩
  have hd : FileDamage blockedNext (blockedNext.erase (.other [120])) (.other [120]) :=
    ⟨damage_erase _ _, by decide, ⟨.junk 0, by decide +kernel, by decide⟩, by decide +kernel,
     by decide +kernel, by decide +kernel⟩
  obtain ⟨st, w', hrun⟩ := h _ _ _ hs hd (.inl (by decide +kernel)) {} []
  have herr : ((backup (fun c => c) {} []).run (World.clean (blockedNext.erase (.other [120])))).1
      = .err (.transport .notFound) := errOf?_eq_some.mp (by decide +kernel)
  rw [hrun] at herr
  cases herr

example : ¬ Rng.KindsOK blockedNext := fun h => by
  have := h (.bandDir 1) (.junk 1) (by decide +kernel)
  revert this
  decide +kernel


/-! ## 9. Non-vacuity -/

/-- Erasing a FILE keeps the store a tree. -/
theorem treeShaped_erase_file {s : Store} (h : treeShaped s = true) {k : Key} (hk : s.get? k ≠ some .dir) :
    treeShaped (s.erase k) = true := by
  simp only [treeShaped, List.all_eq_true] at h ⊢
  intro kv hkv
  have hm := (List.mem_filter.mp hkv).1
  have := h kv hm
  unfold Store.parentOk at this ⊢
  cases hp : kv.1.parent with
  | none => rfl
  | some p =>
    simp only [hp, beq_iff_eq] at this ⊢
    rw [Store.get?_erase_ne s (fun e => hk (by rw [← e]; exact this))]
    exact this

/-- Deleting a file of a `Good` archive is `FileDamage`. -/
theorem fileDamage_erase {s : Store} (g : C10.Good H s) {k : Key} {v : FileVal} (hv : s.get? k = some v)
    (hvd : v ≠ .dir) (hk : k ≠ .header) : FileDamage s (s.erase k) k :=
  ⟨damage_erase _ _, hk, ⟨v, hv, hvd⟩, by simp, keysNodup_erase g.2.1 _,
   treeShaped_erase_file g.2.2.1 (by rw [hv]; intro e; cases e; exact hvd rfl)⟩

/-- **Block damage** (`C10.withBlock`, block `[1,2,3]` overwritten with garbage): every hypothesis of
`contained_complete` holds, so `/f` — whose content no longer reads back — has only incomplete nodes
and an error is reported (the evaluated run is in Props/C10.lean §8). -/
example : Contained (fun c => c) withBlock withBlockJunk (.block [1, 2, 3]) 0 ∧
    readBack (fun c => c) withBlockJunk fileF.addrs = none ∧ fileF ∈ listSpec withBlock 0 :=
  ⟨contained_complete (H := fun c => c) withBlock withBlockJunk (.block [1, 2, 3])
    ⟨by decide +kernel, by decide +kernel, by decide +kernel, by decide +kernel⟩
    ⟨damage_put _ _ _, by decide, ⟨.blockData [1, 2, 3], by decide +kernel, by decide⟩, by decide +kernel,
     by decide +kernel, by decide +kernel⟩
    0 1 (by decide +kernel) (by decide +kernel) (unshadowed_of_noSymlinkAbove withBlock_noSymlink)
    (fun n e => by cases e), by decide +kernel, by decide +kernel⟩

/-- **Lost hunk** (`closed`, its only hunk deleted): the hypotheses hold; `/f` has left the listing, so
the conclusion says: no node carries its path and an error is reported. -/
example : Contained (fun c => c) closed (closed.erase (.hunk 0 0)) (.hunk 0 0) 0 ∧
    emptyFile [47, 102] ∉ listSpec (closed.erase (.hunk 0 0)) 0 ∧
    (restoreOf (fun c => c) (closed.erase (.hunk 0 0)) 0).2.events = [.error .invalidMetadata] := by
  have g : C10.Good (fun c => c) closed :=
    ⟨by decide +kernel, by decide +kernel, by decide +kernel, by decide +kernel⟩
  refine ⟨contained_complete (H := fun c => c) closed _ (.hunk 0 0) g
    (fileDamage_erase g (v := .hunk [dirEntry [slash], emptyFile [47, 102]]) (by decide +kernel) (by decide) (by decide))
    0 1 (by decide +kernel) (by decide +kernel) ?_ ?_, by decide +kernel, by decide +kernel⟩
  · refine unshadowed_of_noSymlinkAbove ⟨fun _ hp => (nomatch hp), fun x hx hk => ?_⟩
    have hl : listSpec closed 0 = [dirEntry [slash], emptyFile [47, 102]] := by decide +kernel
    rw [hl] at hx
    simp only [List.mem_cons, List.not_mem_nil, or_false] at hx
    rcases hx with rfl | rfl <;> simp [dirEntry, emptyFile] at hk
  · intro n e
    cases e
    exact .inl (by decide +kernel)

/-- Two complete versions: version 0 lists `/`, `/a`, `/z`; version 1 lists `/`, `/b`. -/
def twoBands : Store :=
  [ (.root, .dir), (.header, .header [48, 46, 54]), (.blockRoot, .dir),
    (.bandDir 0, .dir), (.bandHead 0, .head .ok []), (.indexDir 0, .dir), (.hunkDir 0 0, .dir),
    (.hunk 0 0, .hunk [dirEntry [slash], emptyFile [47, 97], emptyFile [47, 122]]), (.bandTail 0, .tail (some 1)),
    (.bandDir 1, .dir), (.bandHead 1, .head .ok []), (.indexDir 1, .dir), (.hunkDir 1 0, .dir),
    (.hunk 1 0, .hunk [dirEntry [slash], emptyFile [47, 98]]), (.bandTail 1, .tail (some 1)) ]

/-- `sortNat` (merge sort) cannot be evaluated by the kernel on two elements: the band ids by hand. -/
theorem twoBands_ids : bandIdsOf twoBands = [0, 1] := by
  have : bandIdsOf twoBands = sortNat [0, 1] := by
    unfold bandIdsOf
    exact congrArg sortNat (by decide +kernel)
  rw [this]
  exact C08.sortNat_of_sorted (by decide)

/-- `twoBands` is `Good`. -/
theorem twoBands_good : C10.Good (fun c => c) twoBands := by
  refine ⟨?_, by decide +kernel, by decide +kernel, by decide +kernel⟩
  unfold Conforms
  rw [twoBands_ids]
  decide +kernel

/-- **Tail damage** (the tail of version 1 of `twoBands` deleted).  The hypotheses of `contained_complete`
hold.  Version 1 now lists its own entries `/`, `/b` and CONTINUES with `/z` of version 0 (after its
last own path); `contained_complete` says `/b` is restored exactly — and the evaluated run shows the
extra `/z`, with nothing reported: a deleted tail makes a complete version look interrupted. -/
example : Contained (fun c => c) twoBands (twoBands.erase (.bandTail 1)) (.bandTail 1) 1 ∧
    listSpec twoBands 1 = [dirEntry [slash], emptyFile [47, 98]] ∧
    listSpec (twoBands.erase (.bandTail 1)) 1 = [dirEntry [slash], emptyFile [47, 98], emptyFile [47, 122]] ∧
    okOf? (restoreOf (fun c => c) (twoBands.erase (.bandTail 1)) 1).1
      = some [RNode.ofEntry (dirEntry [slash]), RNode.ofEntry (emptyFile [47, 98]), RNode.ofEntry (emptyFile [47, 122])] ∧
    (restoreOf (fun c => c) (twoBands.erase (.bandTail 1)) 1).2.events = [] := by
  refine ⟨contained_complete (H := fun c => c) twoBands _ (.bandTail 1) twoBands_good
    (fileDamage_erase twoBands_good (v := .tail (some 1)) (by decide +kernel) (by decide) (by decide))
    1 1 (by decide +kernel) (by decide +kernel) ?_ (fun n e => by cases e),
    by decide +kernel, by decide +kernel, by decide +kernel, by decide +kernel⟩
  refine unshadowed_of_noSymlinkAbove ⟨fun _ hp => (nomatch hp), fun x hx hk => ?_⟩
  have hl : listSpec twoBands 1 = [dirEntry [slash], emptyFile [47, 98]] := by decide +kernel
  rw [hl] at hx
  simp only [List.mem_cons, List.not_mem_nil, or_false] at hx
  rcases hx with rfl | rfl <;> simp [dirEntry, emptyFile] at hk

/-- **Damage in another version** (the only hunk of version 0 of `twoBands` replaced by garbage): version 1
restores exactly as before (`contained_elsewhere`, through C02h's `restore_congr`). -/
example : Contained (fun c => c) twoBands (twoBands.put (.hunk 0 0) (.junk 3)) (.hunk 0 0) 1 :=
  contained_complete (H := fun c => c) twoBands _ (.hunk 0 0) twoBands_good
    ⟨damage_put _ _ _, by decide,
     ⟨.hunk [dirEntry [slash], emptyFile [47, 97], emptyFile [47, 122]], by decide +kernel, by decide⟩,
     by decide +kernel, by decide +kernel, by decide +kernel⟩
    1 1 (by decide +kernel) (by decide +kernel)
    (by
      refine unshadowed_of_noSymlinkAbove ⟨fun _ hp => (nomatch hp), fun x hx hk => ?_⟩
      have hl : listSpec twoBands 1 = [dirEntry [slash], emptyFile [47, 98]] := by decide +kernel
      rw [hl] at hx
      simp only [List.mem_cons, List.not_mem_nil, or_false] at hx
      rcases hx with rfl | rfl <;> simp [dirEntry, emptyFile] at hk)
    (fun n e => by cases e)

/-! ### Clause 3 on the archive a real backup wrote -/

namespace Example
open C01a.Example C02h.Example

/-- `C02h.Example.s1` — the archive after a fault-free backup of `C01a.Example.source` (files through
the combiner and in several blocks, a directory, a symlink, an empty file) — satisfies C01a's
hypotheses again … -/
theorem s1_archiveGood : Exact.ArchiveGood exH source s1 :=
  C01a.backup_keeps_archive_good_same exH exH_inj exH_len archive opts source (by decide) source_good archive_good

/-- … and is `Good` in the sense of C10. -/
theorem s1_good : C10.Good exH s1 :=
  ⟨s1_ci.conf, (C09p.keysNodup_iff s1).2 s1_ci.nodup, (C09p.treeShaped_iff s1).2 s1_ci.dirs, s1_archiveGood.noLock⟩

/-- Its version 0 is `Unshadowed`, by the theorems (C01a: it restores exactly and silently). -/
theorem s1_unshadowed : Unshadowed s1 0 := by
  have hx := C01a.backup_restore_exact exH exH_inj exH_len archive opts source (by decide) source_good archive_good
  have := unshadowed_of_exact hx (good_archWF s1_good)
  rwa [new0] at this

/-- Version 0 of `s1` has a tail. -/
theorem s1_tail : ∃ v, s1.get? (.bandTail 0) = some v ∧ v ≠ .dir := by
  have hx := C01a.backup_restore_exact exH exH_inj exH_len archive opts source (by decide) source_good archive_good
  have hc : isComplete s1 0 = true := by have := hx.complete; rwa [new0] at this
  unfold isComplete at hc
  cases hg : s1.get? (.bandTail 0) with
  | none => simp [hg] at hc
  | some v => exact ⟨v, rfl, by rintro rfl; simp [hg, FileVal.isDir] at hc⟩

/-- **Clause 3, instance.**  Delete the TAIL of the only version of `s1`; back the same source up again
(default options): by `backup_after_loss` the backup returns without counting an error, the new
version is complete, and restoring it — by id or as "latest" — yields exactly the six source entries,
silently.  All hypotheses are discharged by theorems, none by evaluating a run. -/
example : BackupExact exH {} source (s1.erase (.bandTail 0))
    ((backup exH {} source).run (World.clean (s1.erase (.bandTail 0)))) := by
  obtain ⟨v, hv, hvd⟩ := s1_tail
  exact backup_after_loss exH_inj exH_len {} source (by decide) source_good s1_good
    s1_archiveGood.st.kinds s1_archiveGood.st.small s1_archiveGood.heuristic
    (fileDamage_erase s1_good hv hvd (by decide)) (.inl (by simp))

/-- **Clause 2, instance on the same archive**: with the tail of version 0 deleted, version 0 still opens
and every file of it whose hunk and blocks are untouched — all of them — is restored exactly. -/
example : Contained exH s1 (s1.erase (.bandTail 0)) (.bandTail 0) 0 := by
  obtain ⟨v, hv, hvd⟩ := s1_tail
  have hd := fileDamage_erase s1_good hv hvd (by decide)
  have hb : 0 ∈ bandIdsOf s1 := bandIds_of_tail (good_dirsOk s1_good) hv
  -- the tail states the hunk count (`Conforms`), and it is not the zero-length leftover of a killed write
  have hx := C01a.backup_restore_exact exH exH_inj exH_len archive opts source (by decide) source_good archive_good
  obtain ⟨s', hss, stats, evs, h⟩ := Exact.backup_summary (o := opts) exH_inj exH_len (by decide) source_good archive_good
  have hs' : s1 = s' := h.runs.clean.2.1
  have htail : s1.get? (.bandTail 0) = some (.tail (some hss.length)) := by
    rw [hs']; have := h.final.tail; rwa [new0] at this
  have hr : bandReadable s1 0 = true := by
    rw [hs']; have := Exact.final_readable h.final; rwa [new0] at this
  have hr' : bandReadable (s1.erase (.bandTail 0)) 0 = true := by
    unfold bandReadable at hr ⊢
    rwa [Store.get?_erase_ne s1 (by simp), Store.get?_erase_ne s1 (by simp)]
  exact contained_complete s1 _ (.bandTail 0) s1_good hd 0 _ hr' htail s1_unshadowed (fun n e => by cases e)

/-- Some block of `s1` is REFERENCED by an entry of version 0: a block of `/a`, whose content `[1, 2]`
is not empty. -/
theorem s1_referenced_block : ∃ (h : Str) (c : Str) (n : Nat) (es : List IndexEntry) (e : IndexEntry) (a : Addr),
    s1.get? (.block h) = some (.blockData c) ∧ hunkAt s1 0 n = some es ∧ e ∈ es ∧ a ∈ e.addrs ∧ a.hash = h := by
  obtain ⟨s', hss, stats, evs, h⟩ := Exact.backup_summary (o := opts) exH_inj exH_len (by decide) source_good archive_good
  have hs' : s1 = s' := h.runs.clean.2.1
  have hrec : Exact.Paired (Exact.Records exH opts s') [root, fa, fb, dd, ll, de] hss.flatten := h.records
  generalize hfl : hss.flatten = fl at hrec
  cases hrec with
  | cons _ hrest =>
    cases hrest with
    | @cons _ e1 _ l2 hfa _ =>
      have hmem : e1 ∈ hss.flatten := by rw [hfl]; simp
      have hcont := hfa.content rfl
      -- the content is not empty, so there is an address, and it resolves
      cases haddrs : e1.addrs with
      | nil => rw [haddrs] at hcont; simp [readBack, fa] at hcont
      | cons a rest =>
        have ha : a ∈ e1.addrs := by rw [haddrs]; exact List.mem_cons_self ..
        have hres := Inv.readBack_addr_isSome exH hcont a ha
        unfold readAddrPure blockContent at hres
        obtain ⟨l, hl, hel⟩ := List.mem_flatten.mp hmem
        obtain ⟨n, hn⟩ := List.getElem?_of_mem hl
        have hh : hunkAt s' 0 n = some l := by
          have := h.final.hunk n
          rw [new0] at this
          simp [hunkAt, this, hn]
        cases hg : s'.get? (.block a.hash) with
        | none => simp [hg] at hres
        | some v =>
          cases v with
          | blockData c => exact ⟨a.hash, c, n, l, e1, a, by rw [hs']; exact hg, by rw [hs']; exact hh, hel, ha, rfl⟩
          | _ => simp [hg] at hres

/-- **Clause 3, instance with a dangling basis.**  Delete a block of `s1` that an entry of version 0
refers to: the archive now HAS a dangling reference (C01a's `ArchiveGood` fails), and the next backup
of the same source still returns, completes version 1, and version 1 restores exactly the six source
entries, silently — the file is stored afresh. -/
example : ∃ h : Str,
    ¬ NoDangling exH (s1.erase (.block h)) ∧
    BackupExact exH {} source (s1.erase (.block h)) ((backup exH {} source).run (World.clean (s1.erase (.block h)))) := by
  obtain ⟨h, c, n, es, e, a, hg, hh, he, ha, hah⟩ := s1_referenced_block
  refine ⟨h, fun hnd => ?_, ?_⟩
  · have hh' : hunkAt (s1.erase (.block h)) 0 n = some es := by
      unfold hunkAt at hh ⊢
      rwa [Store.get?_erase_ne s1 (by simp)]
    have := hnd 0 n es hh' e he a ha
    simp [readAddrPure, blockContent, hah] at this
  · exact backup_after_loss exH_inj exH_len {} source (by decide) source_good s1_good
      s1_archiveGood.st.kinds s1_archiveGood.st.small s1_archiveGood.heuristic
      (fileDamage_erase s1_good hg (by simp) (fun e => by cases e)) (.inl (by simp))

end Example


end Conserve.C10f
