import ConserveModel.Proofs.ProtocolInv5
/-
C06 — A garbage collection and a backup running together never lose data.

Statements are about the protocol skeleton (ConserveModel/Protocol.lean): one backup and one
gc / delete, advanced one storage-operation class at a time under an arbitrary schedule, over an
arbitrary archive (unboundedly many bands and blocks).  The harness (harness/src/c06.rs) validates
the abstraction: it projects real interleaved runs onto the skeleton's events and compares.

* `C06Statement` is the property at full strength.  It is FALSE of the code (defect D7: the
  interlock is check-then-act on both sides): `c06_refuted`.
* `c06_partial`: for ALL archives and ALL schedules the conclusion holds when the schedule has one
  of four safe orders (`SafeOrder`).
* `c06_old_versions_safe`, `c06_damage_confined`: with no condition on the schedule, the damage of
  D7 is confined to the version the backup is writing.
-/
namespace Conserve.C06
open Conserve.Proto

/-- All invariants together. -/
structure InvAll (c : Config) (p : State) : Prop where
  i1 : Inv1 c p
  i2 : Inv2 c p
  i3 : Inv3 c p
  i4 : Inv4 c p
  i5 : Inv5 c p

theorem InvAll.start (c : Config) : InvAll c c.start :=
  ⟨Inv1.start c, Inv2.start c, Inv3.start c, Inv4.start c, Inv5.start c⟩

theorem InvAll.presB {c : Config} {p : State} (h : InvAll c p) : InvAll c (stepB p) :=
  ⟨h.i1.presB, h.i2.presB h.i1, h.i3.presB h.i1 h.i2, h.i4.presB h.i1 h.i2 h.i3,
   h.i5.presB h.i1 h.i2 h.i3 h.i4⟩

theorem InvAll.presG {c : Config} {p : State} (h : InvAll c p) : InvAll c (stepG p) :=
  ⟨h.i1.presG, h.i2.presG h.i1, h.i3.presG h.i1 h.i2, h.i4.presG h.i1 h.i2 h.i3,
   h.i5.presG h.i1 h.i2 h.i3 h.i4⟩

/-- The invariants hold after every schedule, of any length. -/
theorem InvAll.run (c : Config) (sched : Schedule) : InvAll c (runProto sched c.start) :=
  runProto_inv (P := InvAll c) (fun _ h => h.presB) (fun _ h => h.presG) sched _ (InvAll.start c)

/-- No complete band of the archive dangles. -/
def GoodP (c : Config) : Prop :=
  ∀ b ∈ c.bands, b.complete = true → ∀ g ∈ b.refs, g ∈ c.present

instance (c : Config) : Decidable (GoodP c) := by unfold GoodP; infer_instance

/-- **C06 at full strength**: for every archive without dangling complete versions and every
interleaving of a backup with a gc / delete, once both have finished every version marked complete
has all its blocks. -/
def C06Statement : Prop :=
  ∀ (c : Config) (sched : Schedule), GoodP c →
    let s' := runProto sched c.start
    ∀ b, complete s' b → ∀ g ∈ refs s' b, g ∈ present s'

/-- Both actors have indeed finished (succeeded, refused or failed) at the end of every schedule:
the "once both have finished" of the property is not a hypothesis one could fail to meet. -/
theorem both_finished (c : Config) (sched : Schedule) :
    (runProto sched c.start).b.pc.fin = true ∧ (runProto sched c.start).g.pc.fin = true :=
  runProto_finished sched _

/-! ### The property is false of the code (D7) -/

/-- One complete version referring to block 1; block 7 is garbage; the new source needs 7. -/
def witness : Config :=
  { bands := [⟨0, true, true, [1]⟩], present := [1, 7], needed := [7] }

/-- The backup checks the lock; gc runs up to and including `check()`; the backup creates its band
and lists the blocks (7 is still there); gc removes 7; the backup deduplicates against its stale
list and completes version 1, which refers to 7. -/
def witnessSched : Schedule :=
  [false] ++ List.replicate 9 true ++ List.replicate 5 false ++ [true]

/-- **D7**: the full statement is refuted by a concrete archive and schedule. -/
theorem c06_refuted : ¬ C06Statement := by
  intro h
  have := h witness witnessSched (by decide) ⟨1, true, true, [7]⟩ (by decide) 7 (by decide)
  revert this
  decide

/-- What happens in the witness run, event by event (oldest first). -/
example : (runProto witnessSched witness.start).log.reverse =
    [.bLockCheck, .gLast, .gTailCheck, .gLockCheck, .gLockWrite, .gListKeep, .gReadRefs, .gListBlocks,
     .gStat 7, .gCheck, .bListBasis, .bListId, .bMkdir, .bHead, .bListBlocks, .gRmBlock 7,
     .bBlock 7 false, .bHunk, .bTail, .gUnlock] := by decide

/-- The shortest violating schedule the harness finds on the real code (`00` then 15 gc operations =
`B.lockCheck`, then gc up to and including `check()`, then the backup to its end, then gc) is, in
skeleton events, this one; it violates the statement in the same way. -/
example : danglingBands (runProto ([false] ++ List.replicate 9 true) witness.start) = [1] ∧
    (runProto ([false] ++ List.replicate 9 true) witness.start).log.reverse =
    [.bLockCheck, .gLast, .gTailCheck, .gLockCheck, .gLockWrite, .gListKeep, .gReadRefs, .gListBlocks,
     .gStat 7, .gCheck, .bListBasis, .bListId, .bMkdir, .bHead, .bListBlocks, .bBlock 7 false, .bHunk,
     .bTail, .gRmBlock 7, .gUnlock] := by decide

/-- Both commands report success in the witness run. -/
example : (runProto witnessSched witness.start).b.pc = .done ∧
    (runProto witnessSched witness.start).g.pc = .done := by decide

/-! ### What does hold -/

/-- One of the four orders that make the race harmless.  On the log of the run (newest first):
(i) every `G.check` has a `B.mkdir` before it (then `check()` fails, or the backup had finished
before gc looked at the newest band);
(ii) `G.lockWrite` comes before `B.lockCheck` (the backup refuses, or gc had finished);
(iii) the new source needs no block that is garbage in the initial archive (`garbage`: present and
referenced by no band that the command keeps);
(iv) no `G.rmBlock` comes after `B.listBlocks`. -/
def SafeOrder (sched : Schedule) (c : Config) : Prop :=
  let log := (runProto sched c.start).log
  mkdirBeforeCheck log = true ∨ lockWriteBeforeLockCheck log = true ∨
    (∀ g ∈ c.needed, ¬ garbage c g) ∨ rmBlocksBeforeListBlocks log = true

instance (c : Config) (g : Nat) : Decidable (garbage c g) := by unfold garbage; infer_instance
instance (sched : Schedule) (c : Config) : Decidable (SafeOrder sched c) := by
  unfold SafeOrder; infer_instance

/-- With no condition on the schedule: a complete version that is not the one the backup is
writing has all its blocks.  The damage of D7 is confined to the version being written. -/
theorem c06_damage_confined (c : Config) (sched : Schedule) (hgood : GoodP c) :
    let s' := runProto sched c.start
    ∀ b, complete s' b → ¬ isNew s' b → ∀ g ∈ refs s' b, g ∈ present s' := by
  intro s' b hb hnew g hg
  have h := InvAll.run c sched
  obtain ⟨hmem, hc⟩ := hb
  have hold : b ∈ c.bands := h.i2.old b hmem hnew
  have hg0 : g ∈ c.present := hgood b hold hc g hg
  rcases h.i3.removed g hg0 with hp | ⟨hu, hpass, htb⟩
  · exact hp
  · exfalso
    by_cases hd : b.id ∈ c.del
    · rcases h.i3.delBands hpass b hmem hd with h1 | h1
      · rw [htb] at h1; simp at h1
      · exact hnew h1
    · exact h.i3.unrefOld g hu b hold hd hg

/-- **`c06_partial`**: for all archives and all schedules (of any length), under one of the safe
orders every version marked complete at the end — old or just written — has all its blocks. -/
theorem c06_partial (c : Config) (sched : Schedule) (hgood : GoodP c) (hsafe : SafeOrder sched c) :
    let s' := runProto sched c.start
    ∀ b, complete s' b → ∀ g ∈ refs s' b, g ∈ present s' := by
  intro s' b hb g hg
  by_cases hnew : isNew s' b
  · exact (InvAll.run c sched).i5.newSafe hsafe b hb.1 hnew g hg
  · exact c06_damage_confined c sched hgood b hb hnew g hg

/-- (i) alone: `B.mkdir` before `G.check`. -/
theorem c06_partial_mkdir_before_check (c : Config) (sched : Schedule) (hgood : GoodP c)
    (h : mkdirBeforeCheck (runProto sched c.start).log = true) :
    ∀ b, complete (runProto sched c.start) b → ∀ g ∈ b.refs, g ∈ (runProto sched c.start).present :=
  c06_partial c sched hgood (Or.inl h)

/-- (ii) alone: `G.lockWrite` before `B.lockCheck`. -/
theorem c06_partial_lock_first (c : Config) (sched : Schedule) (hgood : GoodP c)
    (h : lockWriteBeforeLockCheck (runProto sched c.start).log = true) :
    ∀ b, complete (runProto sched c.start) b → ∀ g ∈ b.refs, g ∈ (runProto sched c.start).present :=
  c06_partial c sched hgood (Or.inr (Or.inl h))

/-- (iii) alone: the new source needs no garbage block — for every schedule. -/
theorem c06_partial_no_garbage_needed (c : Config) (hgood : GoodP c)
    (h : ∀ g ∈ c.needed, ¬ garbage c g) (sched : Schedule) :
    ∀ b, complete (runProto sched c.start) b → ∀ g ∈ b.refs, g ∈ (runProto sched c.start).present :=
  c06_partial c sched hgood (Or.inr (Or.inr (Or.inl h)))

/-- (iv) alone: every `G.rmBlock` before `B.listBlocks`. -/
theorem c06_partial_removals_first (c : Config) (sched : Schedule) (hgood : GoodP c)
    (h : rmBlocksBeforeListBlocks (runProto sched c.start).log = true) :
    ∀ b, complete (runProto sched c.start) b → ∀ g ∈ b.refs, g ∈ (runProto sched c.start).present :=
  c06_partial c sched hgood (Or.inr (Or.inr (Or.inr h)))

/-- **`c06_old_versions_safe`** (full strength, no condition on the schedule or the archive): a band
of the initial archive that the command does not delete is still there, unchanged, and every block
it referred to that was present is still present — gc never removes a block referenced by a band
it keeps. -/
theorem c06_old_versions_safe (c : Config) (sched : Schedule) :
    let s' := runProto sched c.start
    ∀ b ∈ c.bands, b.id ∉ c.del → b ∈ s'.bands ∧ ∀ g ∈ b.refs, g ∈ c.present → g ∈ s'.present := by
  intro s' b hb hd
  have h := InvAll.run c sched
  refine ⟨(h.i3.kept b hb hd).1, fun g hg hg0 => ?_⟩
  rcases h.i3.removed g hg0 with hp | ⟨hu, _, _⟩
  · exact hp
  · exact absurd hg (h.i3.unrefOld g hu b hb hd)

/-- In particular: every version that was complete before and is not deleted restores completely
afterwards, whatever the schedule. -/
theorem c06_old_complete_versions_restore (c : Config) (sched : Schedule) (hgood : GoodP c) :
    ∀ b ∈ c.bands, b.complete = true → b.id ∉ c.del →
      complete (runProto sched c.start) b ∧ ∀ g ∈ b.refs, g ∈ (runProto sched c.start).present := by
  intro b hb hc hd
  obtain ⟨h1, h2⟩ := c06_old_versions_safe c sched b hb hd
  exact ⟨⟨h1, hc⟩, fun g hg => h2 g hg (hgood b hb hc g hg)⟩

/-- If gc's `check()` did not pass (gc refused), no block of the archive was removed. -/
theorem c06_refused_gc_removes_nothing (c : Config) (sched : Schedule)
    (h : (runProto sched c.start).g.passed = false) :
    ∀ g ∈ c.present, g ∈ (runProto sched c.start).present := by
  intro g hg
  rcases (InvAll.run c sched).i3.removed g hg with hp | ⟨_, hpass, _⟩
  · exact hp
  · rw [h] at hpass; cases hpass

/-- Blocks are removed only from gc's `unref` list, computed before `check()`. -/
theorem c06_only_unref_removed (c : Config) (sched : Schedule) :
    ∀ g ∈ c.present, g ∉ (runProto sched c.start).present → g ∈ (runProto sched c.start).g.unref := by
  intro g hg hn
  rcases (InvAll.run c sched).i3.removed g hg with hp | ⟨hu, _, _⟩
  · exact absurd hp hn
  · exact hu

/-! ### Non-vacuity -/

/-- The witness archive is good, and its schedule has none of the safe orders. -/
example : GoodP witness := by decide
example : ¬ SafeOrder witnessSched witness := by decide
/-- Block 7 is garbage in the witness archive and the new source needs it. -/
example : garbage witness 7 ∧ 7 ∈ witness.needed := by decide

/-- (i) is satisfiable with both commands succeeding and gc passing `check()`: the backup runs
first (empty schedule = backup to its end, then gc); the new version refers to 7, gc keeps it. -/
example : SafeOrder [] witness ∧ (runProto [] witness.start).g.passed = true ∧
    danglingBands (runProto [] witness.start) = [] ∧
    (runProto [] witness.start).bands = [⟨0, true, true, [1]⟩, ⟨1, true, true, [7]⟩] := by decide

/-- (i) with a failing `check()`: gc starts, the backup creates its band, gc's `check()` refuses. -/
example : mkdirBeforeCheck (runProto (List.replicate 3 false ++ List.replicate 3 true ++ [false]) witness.start).log = true ∧
    (runProto (List.replicate 3 false ++ List.replicate 3 true ++ [false]) witness.start).g.pc = .failed ∧
    (runProto (List.replicate 3 false ++ List.replicate 3 true ++ [false]) witness.start).b.pc = .done := by decide

/-- (ii) is satisfiable: gc writes its lock first, the backup refuses, gc removes block 7. -/
example : lockWriteBeforeLockCheck (runProto (List.replicate 4 true) witness.start).log = true ∧
    (runProto (List.replicate 4 true) witness.start).b.pc = .refused ∧
    (runProto (List.replicate 4 true) witness.start).present = [1] := by decide

/-- (iii) is satisfiable under the very schedule of the witness: the source needs block 9, which is
not there, instead of the garbage block. -/
example : SafeOrder witnessSched { witness with needed := [9] } ∧
    (runProto witnessSched { witness with needed := [9] }.start).present = [9, 1] ∧
    danglingBands (runProto witnessSched { witness with needed := [9] }.start) = [] := by decide

/-- (iv) is satisfiable with a removal: gc passes `check()` in the window and removes 7 before the
backup lists the blocks; the backup writes 7 again. -/
example : rmBlocksBeforeListBlocks (runProto ([false] ++ List.replicate 10 true) witness.start).log = true ∧
    mkdirBeforeCheck (runProto ([false] ++ List.replicate 10 true) witness.start).log = false ∧
    (runProto ([false] ++ List.replicate 10 true) witness.start).present = [7, 1] ∧
    danglingBands (runProto ([false] ++ List.replicate 10 true) witness.start) = [] := by decide

/-- `c06_old_versions_safe` is not vacuous: in the witness run version 0 is kept, and it is the new
version 1 (and only it) that dangles. -/
example : danglingBands (runProto witnessSched witness.start) = [1] := by decide

/-- A delete of version 0 racing with the backup: version 0 is gone, block 1 with it, and the new
version (which needed only 7) is the one damaged. -/
example : (runProto ([false] ++ List.replicate 10 true ++ List.replicate 5 false ++ [true, true])
    { witness with del := [0] }.start).bands = [⟨1, true, true, [7]⟩] ∧
    (runProto ([false] ++ List.replicate 10 true ++ List.replicate 5 false ++ [true, true])
    { witness with del := [0] }.start).present = [] := by decide

end Conserve.C06
