import ConserveModel.Proofs.ProtocolInv6
/-
C06 — A garbage collection and a backup running together never lose data.

Statements are about the protocol skeleton (ConserveModel/Protocol.lean): one backup and one
gc / delete, advanced one storage-operation class at a time under an arbitrary schedule, over an
arbitrary archive (unboundedly many bands and blocks).  The harness (harness/src/c06.rs) validates
the abstraction: it projects real interleaved runs onto the skeleton's events and compares.

The skeleton is parametric in `Config.recheck`: `false` = the backup as it was when defect D7 was
found, `true` = the repaired backup (src/backup.rs, "backup looks for the gc lock again after
creating its band": a second lock check between `B.head` and `B.listBlocks`).

* `C06Statement` (= `C06For true`) is the property at full strength for the repaired code:
  PROVED, `c06_statement` / `c06_holds`, for all archives and all schedules.
* `c06_refuted_before_repair`: the same statement for `recheck = false` (`C06For false`) is FALSE
  (defect D7: the interlock was check-then-act on both sides).
* `c06_partial`: for ALL archives and ALL schedules and BOTH values of `recheck` the conclusion
  holds when the schedule has one of four safe orders (`SafeOrder`); only of interest for
  `recheck = false` now.
* `c06_old_versions_safe`, `c06_damage_confined`: both values of `recheck`, no condition on the
  schedule: versions other than the one being written are never damaged (for `recheck = false`
  this confines the damage of D7).
-/
namespace Conserve.C06
open Conserve.Proto

/-- All invariants together. -/
structure InvAll (c : Config) (p : State) : Prop where
  i1 : Inv1 c p
  i2 : Inv2 c p
  i3 : Inv3 c p
  i4 : Inv4 c p
  i5 : Inv5 c p
  i6 : Inv6 c p

theorem InvAll.start (c : Config) : InvAll c c.start :=
  ⟨Inv1.start c, Inv2.start c, Inv3.start c, Inv4.start c, Inv5.start c, Inv6.start c⟩

theorem InvAll.presB {c : Config} {p : State} (h : InvAll c p) : InvAll c (stepB p) :=
  ⟨h.i1.presB, h.i2.presB h.i1, h.i3.presB h.i1 h.i2, h.i4.presB h.i1 h.i2 h.i3,
   h.i5.presB h.i1 h.i2 h.i3 h.i4, h.i6.presB h.i1 h.i2 h.i3 h.i4⟩

theorem InvAll.presG {c : Config} {p : State} (h : InvAll c p) : InvAll c (stepG p) :=
  ⟨h.i1.presG, h.i2.presG h.i1, h.i3.presG h.i1 h.i2, h.i4.presG h.i1 h.i2 h.i3,
   h.i5.presG h.i1 h.i2 h.i3 h.i4, h.i6.presG h.i1 h.i2 h.i3 h.i4⟩

/-- The invariants hold after every schedule, of any length. -/
theorem InvAll.run (c : Config) (sched : Schedule) : InvAll c (runProto sched c.start) :=
  runProto_inv (P := InvAll c) (fun _ h => h.presB) (fun _ h => h.presG) sched _ (InvAll.start c)

/-- No complete band of the archive dangles. -/
def GoodP (c : Config) : Prop :=
  ∀ b ∈ c.bands, b.complete = true → ∀ g ∈ b.refs, g ∈ c.present

instance (c : Config) : Decidable (GoodP c) := by unfold GoodP; infer_instance

/-- The property at full strength for one variant of the backup (`recheck = false`: before the
repair of D7, `recheck = true`: repaired): for every archive without dangling complete versions
and every interleaving of a backup with a gc / delete, once both have finished every version marked
complete has all its blocks. -/
def C06For (recheck : Bool) : Prop :=
  ∀ (c : Config) (sched : Schedule), c.recheck = recheck → GoodP c →
    let s' := runProto sched c.start
    ∀ b, complete s' b → ∀ g ∈ refs s' b, g ∈ present s'

/-- **C06 at full strength**, for the code as it is now (the repaired backup): for every archive
without dangling complete versions and every interleaving of a backup with a gc / delete, once both
have finished every version marked complete has all its blocks. -/
def C06Statement : Prop := C06For true

/-- Both actors have indeed finished (succeeded, refused or failed) at the end of every schedule:
the "once both have finished" of the property is not a hypothesis one could fail to meet. -/
theorem both_finished (c : Config) (sched : Schedule) :
    (runProto sched c.start).b.pc.fin = true ∧ (runProto sched c.start).g.pc.fin = true :=
  runProto_finished sched _

/-! ### The property was false of the code before the repair (D7) -/

/-- One complete version referring to block 1; block 7 is garbage; the new source needs 7
(`recheck = false`: the backup before the repair). -/
def witness : Config :=
  { bands := [⟨0, true, true, [1]⟩], present := [1, 7], needed := [7] }

/-- The backup checks the lock; gc runs up to and including `check()`; the backup creates its band
and lists the blocks (7 is still there); gc removes 7; the backup deduplicates against its stale
list and completes version 1, which refers to 7. -/
def witnessSched : Schedule :=
  [false] ++ List.replicate 9 true ++ List.replicate 5 false ++ [true]

/-- **D7**: before the repair (`recheck = false`) the full statement is refuted by a concrete
archive and schedule. -/
theorem c06_refuted_before_repair : ¬ C06For false := by
  intro h
  have := h witness witnessSched rfl (by decide) ⟨1, true, true, [7]⟩ (by decide) 7 (by decide)
  revert this
  decide

/-- What happens in the witness run, event by event (oldest first). -/
example : (runProto witnessSched witness.start).log.reverse =
    [.bLockCheck, .gLast, .gTailCheck, .gLockCheck, .gLockWrite, .gListKeep, .gReadRefs, .gListBlocks,
     .gStat 7, .gCheck, .bListBasis, .bListId, .bMkdir, .bHead, .bListBlocks, .gRmBlock 7,
     .bBlock 7 false, .bHunk, .bTail, .gUnlock] := by decide

/-- The shortest violating schedule the harness finds on the real code (`00` then 15 gc operations =
`B.lockCheck`, then gc up to and including `check()`, then the backup to its end, then gc) is, in
skeleton events, this one; it violates the statement in the same way. -/
example : danglingBands (runProto ([false] ++ List.replicate 9 true) witness.start) = [1] ∧
    (runProto ([false] ++ List.replicate 9 true) witness.start).log.reverse =
    [.bLockCheck, .gLast, .gTailCheck, .gLockCheck, .gLockWrite, .gListKeep, .gReadRefs, .gListBlocks,
     .gStat 7, .gCheck, .bListBasis, .bListId, .bMkdir, .bHead, .bListBlocks, .bBlock 7 false, .bHunk,
     .bTail, .gRmBlock 7, .gUnlock] := by decide

/-- Both commands report success in the witness run. -/
example : (runProto witnessSched witness.start).b.pc = .done ∧
    (runProto witnessSched witness.start).g.pc = .done := by decide

/-! ### What does hold -/

/-- One of the four orders that make the race harmless.  On the log of the run (newest first):
(i) every `G.check` has a `B.mkdir` before it (then `check()` fails, or the backup had finished
before gc looked at the newest band);
(ii) `G.lockWrite` comes before `B.lockCheck` (the backup refuses, or gc had finished);
(iii) the new source needs no block that is garbage in the initial archive (`garbage`: present and
referenced by no band that the command keeps);
(iv) no `G.rmBlock` comes after `B.listBlocks`. -/
def SafeOrder (sched : Schedule) (c : Config) : Prop :=
  let log := (runProto sched c.start).log
  mkdirBeforeCheck log = true ∨ lockWriteBeforeLockCheck log = true ∨
    (∀ g ∈ c.needed, ¬ garbage c g) ∨ rmBlocksBeforeListBlocks log = true

instance (c : Config) (g : Nat) : Decidable (garbage c g) := by unfold garbage; infer_instance
instance (sched : Schedule) (c : Config) : Decidable (SafeOrder sched c) := by
  unfold SafeOrder; infer_instance

/-- With no condition on the schedule: a complete version that is not the one the backup is
writing has all its blocks.  The damage of D7 is confined to the version being written. -/
theorem c06_damage_confined (c : Config) (sched : Schedule) (hgood : GoodP c) :
    let s' := runProto sched c.start
    ∀ b, complete s' b → ¬ isNew s' b → ∀ g ∈ refs s' b, g ∈ present s' := by
  intro s' b hb hnew g hg
  have h := InvAll.run c sched
  obtain ⟨hmem, hc⟩ := hb
  have hold : b ∈ c.bands := h.i2.old b hmem hnew
  have hg0 : g ∈ c.present := hgood b hold hc g hg
  rcases h.i3.removed g hg0 with hp | ⟨hu, hpass, htb⟩
  · exact hp
  · exfalso
    by_cases hd : b.id ∈ c.del
    · rcases h.i3.delBands hpass b hmem hd with h1 | h1
      · rw [htb] at h1; simp at h1
      · exact hnew h1
    · exact h.i3.unrefOld g hu b hold hd hg

/-- **`c06_partial`**: for all archives and all schedules (of any length), under one of the safe
orders every version marked complete at the end — old or just written — has all its blocks. -/
theorem c06_partial (c : Config) (sched : Schedule) (hgood : GoodP c) (hsafe : SafeOrder sched c) :
    let s' := runProto sched c.start
    ∀ b, complete s' b → ∀ g ∈ refs s' b, g ∈ present s' := by
  intro s' b hb g hg
  by_cases hnew : isNew s' b
  · exact (InvAll.run c sched).i5.newSafe hsafe b hb.1 hnew g hg
  · exact c06_damage_confined c sched hgood b hb hnew g hg

/-- **`c06_holds`**: the property at FULL strength for the repaired backup (`recheck = true`), for
all archives (unboundedly many bands and blocks) and all schedules (of any length): once both
commands have finished (`both_finished`), every version marked complete — old or just written — has
all its blocks.  (The new version by `Inv6`: gc in its sweep phase and the backup between its
second lock check and its tail never coexist; the others by `c06_damage_confined`.) -/
theorem c06_holds (c : Config) (sched : Schedule) (hr : c.recheck = true) (hgood : GoodP c) :
    let s' := runProto sched c.start
    ∀ b, complete s' b → ∀ g ∈ refs s' b, g ∈ present s' := by
  intro s' b hb g hg
  by_cases hnew : isNew s' b
  · have h := InvAll.run c sched
    exact h.i6.newSafeR (by rw [h.i1.recheck]; exact hr) b hb.1 hnew g hg
  · exact c06_damage_confined c sched hgood b hb hnew g hg

/-- **C06, full strength, proved** for the code as it is now. -/
theorem c06_statement : C06Statement :=
  fun c sched hr hgood => c06_holds c sched hr hgood

/-- The same with `danglingBands`, the observation the harness compares. -/
theorem c06_no_dangling (c : Config) (sched : Schedule) (hr : c.recheck = true) (hgood : GoodP c) :
    danglingBands (runProto sched c.start) = [] := by
  have h := c06_holds c sched hr hgood
  simp only [danglingBands, List.map_eq_nil_iff, List.filter_eq_nil_iff]
  intro b hb hbad
  simp only [Bool.and_eq_true, List.any_eq_true, decide_eq_true_eq] at hbad
  obtain ⟨hc, g, hg, hgp⟩ := hbad
  exact hgp (h b ⟨hb, hc⟩ g hg)

/-- The invariants hold at every point of every run. -/
theorem InvAll.steps (c : Config) (sched : Schedule) : InvAll c (runSteps sched c.start) :=
  runSteps_inv (P := InvAll c) (fun _ h => h.presB) (fun _ h => h.presG) sched _ (InvAll.start c)

/-- **Mutual exclusion** (the reason `c06_holds` is true): at every point of every run of the
repaired protocol, while gc is between a `check()` that passed and its unlock (the only phase in
which bands and blocks are removed), the backup is not between its second lock check and its tail:
it has not listed the blocks yet (and will refuse when it looks for the lock), or it had finished
before gc looked at the newest band. -/
theorem c06_exclusive (c : Config) (sched : Schedule) (hr : c.recheck = true) :
    let s := runSteps sched c.start
    s.g.pc = .sweep → s.b.pc ≠ .listBlocks ∧ s.b.pc ≠ .blocks ∧ s.b.pc ≠ .tail := by
  intro s hs
  have h := InvAll.steps c sched
  exact h.i6.exclusive (by rw [h.i1.recheck]; exact hr) hs

/-- Without the second lock check the exclusion fails: in the witness run gc is about to remove
block 7 while the backup is about to deduplicate against it. -/
example : (runSteps (witnessSched.take 15) witness.start).g.pc = .sweep ∧
    (runSteps (witnessSched.take 15) witness.start).g.todoBlocks = [7] ∧
    (runSteps (witnessSched.take 15) witness.start).b.pc = .blocks ∧
    (runSteps (witnessSched.take 15) witness.start).b.exists_ = [1, 7] := by decide

/-- (i) alone: `B.mkdir` before `G.check`. -/
theorem c06_partial_mkdir_before_check (c : Config) (sched : Schedule) (hgood : GoodP c)
    (h : mkdirBeforeCheck (runProto sched c.start).log = true) :
    ∀ b, complete (runProto sched c.start) b → ∀ g ∈ b.refs, g ∈ (runProto sched c.start).present :=
  c06_partial c sched hgood (Or.inl h)

/-- (ii) alone: `G.lockWrite` before `B.lockCheck`. -/
theorem c06_partial_lock_first (c : Config) (sched : Schedule) (hgood : GoodP c)
    (h : lockWriteBeforeLockCheck (runProto sched c.start).log = true) :
    ∀ b, complete (runProto sched c.start) b → ∀ g ∈ b.refs, g ∈ (runProto sched c.start).present :=
  c06_partial c sched hgood (Or.inr (Or.inl h))

/-- (iii) alone: the new source needs no garbage block — for every schedule. -/
theorem c06_partial_no_garbage_needed (c : Config) (hgood : GoodP c)
    (h : ∀ g ∈ c.needed, ¬ garbage c g) (sched : Schedule) :
    ∀ b, complete (runProto sched c.start) b → ∀ g ∈ b.refs, g ∈ (runProto sched c.start).present :=
  c06_partial c sched hgood (Or.inr (Or.inr (Or.inl h)))

/-- (iv) alone: every `G.rmBlock` before `B.listBlocks`. -/
theorem c06_partial_removals_first (c : Config) (sched : Schedule) (hgood : GoodP c)
    (h : rmBlocksBeforeListBlocks (runProto sched c.start).log = true) :
    ∀ b, complete (runProto sched c.start) b → ∀ g ∈ b.refs, g ∈ (runProto sched c.start).present :=
  c06_partial c sched hgood (Or.inr (Or.inr (Or.inr h)))

/-- **`c06_old_versions_safe`** (full strength, no condition on the schedule or the archive): a band
of the initial archive that the command does not delete is still there, unchanged, and every block
it referred to that was present is still present — gc never removes a block referenced by a band
it keeps. -/
theorem c06_old_versions_safe (c : Config) (sched : Schedule) :
    let s' := runProto sched c.start
    ∀ b ∈ c.bands, b.id ∉ c.del → b ∈ s'.bands ∧ ∀ g ∈ b.refs, g ∈ c.present → g ∈ s'.present := by
  intro s' b hb hd
  have h := InvAll.run c sched
  refine ⟨(h.i3.kept b hb hd).1, fun g hg hg0 => ?_⟩
  rcases h.i3.removed g hg0 with hp | ⟨hu, _, _⟩
  · exact hp
  · exact absurd hg (h.i3.unrefOld g hu b hb hd)

/-- In particular: every version that was complete before and is not deleted restores completely
afterwards, whatever the schedule. -/
theorem c06_old_complete_versions_restore (c : Config) (sched : Schedule) (hgood : GoodP c) :
    ∀ b ∈ c.bands, b.complete = true → b.id ∉ c.del →
      complete (runProto sched c.start) b ∧ ∀ g ∈ b.refs, g ∈ (runProto sched c.start).present := by
  intro b hb hc hd
  obtain ⟨h1, h2⟩ := c06_old_versions_safe c sched b hb hd
  exact ⟨⟨h1, hc⟩, fun g hg => h2 g hg (hgood b hb hc g hg)⟩

/-- If gc's `check()` did not pass (gc refused), no block of the archive was removed. -/
theorem c06_refused_gc_removes_nothing (c : Config) (sched : Schedule)
    (h : (runProto sched c.start).g.passed = false) :
    ∀ g ∈ c.present, g ∈ (runProto sched c.start).present := by
  intro g hg
  rcases (InvAll.run c sched).i3.removed g hg with hp | ⟨_, hpass, _⟩
  · exact hp
  · rw [h] at hpass; cases hpass

/-- Blocks are removed only from gc's `unref` list, computed before `check()`. -/
theorem c06_only_unref_removed (c : Config) (sched : Schedule) :
    ∀ g ∈ c.present, g ∉ (runProto sched c.start).present → g ∈ (runProto sched c.start).g.unref := by
  intro g hg hn
  rcases (InvAll.run c sched).i3.removed g hg with hp | ⟨hu, _, _⟩
  · exact absurd hp hn
  · exact hu

/-! ### Non-vacuity -/

/-- The witness archive with the repaired backup. -/
def witnessR : Config := { witness with recheck := true }

example : GoodP witnessR ∧ witnessR.recheck = true := by decide

/-- Under the schedule that broke the old code the repaired backup finds the lock at its second
check and refuses; its band 1 stays behind with a head and no tail (not complete); gc succeeds and
removes the garbage block 7; nothing dangles. -/
example : (runProto witnessSched witnessR.start).b.pc = .refused2 ∧
    (runProto witnessSched witnessR.start).g.pc = .done ∧
    danglingBands (runProto witnessSched witnessR.start) = [] ∧
    (runProto witnessSched witnessR.start).bands = [⟨0, true, true, [1]⟩, ⟨1, true, false, []⟩] ∧
    (runProto witnessSched witnessR.start).present = [1] ∧
    (runProto witnessSched witnessR.start).log.reverse =
    [.bLockCheck, .gLast, .gTailCheck, .gLockCheck, .gLockWrite, .gListKeep, .gReadRefs, .gListBlocks,
     .gStat 7, .gCheck, .bListBasis, .bListId, .bMkdir, .bHead, .bLockCheck2, .gRmBlock 7,
     .gUnlock] := by decide

/-- The shortest violating schedule the harness had found on the old code: same outcome. -/
example : (runProto ([false] ++ List.replicate 9 true) witnessR.start).b.pc = .refused2 ∧
    (runProto ([false] ++ List.replicate 9 true) witnessR.start).g.pc = .done ∧
    danglingBands (runProto ([false] ++ List.replicate 9 true) witnessR.start) = [] := by decide

/-- Both commands succeed, one after the other (backup first): the new version refers to 7 and gc
keeps 7. -/
example : (runProto [] witnessR.start).b.pc = .done ∧ (runProto [] witnessR.start).g.pc = .done ∧
    (runProto [] witnessR.start).g.passed = true ∧
    (runProto [] witnessR.start).bands = [⟨0, true, true, [1]⟩, ⟨1, true, true, [7]⟩] ∧
    (runProto [] witnessR.start).present = [1, 7] := by decide

/-- Both commands succeed in a true interleaving inside the old window: the backup checks the lock,
gc runs to its end (`check()` passes before the backup's `mkdir`, 7 is removed, the lock is
released), the backup's second lock check finds no lock, it lists the blocks (7 is gone) and writes
7 again. -/
example : (runProto ([false] ++ List.replicate 11 true) witnessR.start).b.pc = .done ∧
    (runProto ([false] ++ List.replicate 11 true) witnessR.start).g.pc = .done ∧
    mkdirBeforeCheck (runProto ([false] ++ List.replicate 11 true) witnessR.start).log = false ∧
    (runProto ([false] ++ List.replicate 11 true) witnessR.start).bands =
      [⟨0, true, true, [1]⟩, ⟨1, true, true, [7]⟩] ∧
    (runProto ([false] ++ List.replicate 11 true) witnessR.start).present = [7, 1] := by decide

/-- gc refuses: it starts after the backup created its band (`DeleteWithIncompleteBackup`), or its
`check()` sees the new band. -/
example : (runProto (List.replicate 4 false ++ [true, true]) witnessR.start).g.pc = .refused ∧
    (runProto (List.replicate 4 false ++ [true, true]) witnessR.start).b.pc = .done ∧
    (runProto (List.replicate 3 false ++ List.replicate 3 true ++ [false]) witnessR.start).g.pc = .failed ∧
    (runProto (List.replicate 3 false ++ List.replicate 3 true ++ [false]) witnessR.start).b.pc = .done := by
  decide

/-- The second lock check is what makes the difference: same archive, same schedule, `recheck`
off / on. -/
example : danglingBands (runProto witnessSched witness.start) = [1] ∧
    danglingBands (runProto witnessSched witnessR.start) = [] := by decide

/-! What the repair costs (no data is lost; availability only). -/

/-- Both commands can refuse each other: the backup allocates its id, gc writes its lock, the backup
creates its band and finds the lock at its second check (refuses), gc's `check()` finds the new band
(refuses).  Nothing was removed; band 1 stays behind with a head and no tail. -/
example : (runProto (List.replicate 3 false ++ List.replicate 4 true) witnessR.start).b.pc = .refused2 ∧
    (runProto (List.replicate 3 false ++ List.replicate 4 true) witnessR.start).g.pc = .failed ∧
    (runProto (List.replicate 3 false ++ List.replicate 4 true) witnessR.start).bands =
      [⟨0, true, true, [1]⟩, ⟨1, true, false, []⟩] ∧
    (runProto (List.replicate 3 false ++ List.replicate 4 true) witnessR.start).present = [1, 7] ∧
    (runProto (List.replicate 3 false ++ List.replicate 4 true) witnessR.start).lock = false := by decide

/-- The band a refusing backup leaves behind makes every later gc refuse
(`DeleteWithIncompleteBackup`) until a later backup has completed a newer band … -/
example : (runProto (List.replicate 20 true)
      { witnessR with bands := [⟨0, true, true, [1]⟩, ⟨1, true, false, []⟩], needed := [] }.start).g.pc = .refused := by
  decide

/-- … after which gc works again and keeps what the new version refers to (the leftover band 1 is
kept, it refers to nothing). -/
example : (runProto [] { witnessR with bands := [⟨0, true, true, [1]⟩, ⟨1, true, false, []⟩] }.start).g.pc = .done ∧
    (runProto [] { witnessR with bands := [⟨0, true, true, [1]⟩, ⟨1, true, false, []⟩] }.start).bands =
      [⟨0, true, true, [1]⟩, ⟨1, true, false, []⟩, ⟨2, true, true, [7]⟩] ∧
    (runProto [] { witnessR with bands := [⟨0, true, true, [1]⟩, ⟨1, true, false, []⟩] }.start).present = [1, 7] := by
  decide

/-- gc starting between the backup's `mkdir` and its head write (covered by `c06_holds`, every
schedule): gc sees a newest band without a tail and refuses; had it already passed `G.tailCheck`, its
reference scan fails on the band without a head (`Band::open`), or `check()` sees the new band. -/
example : (runProto (List.replicate 4 false ++ List.replicate 2 true) witnessR.start).g.pc = .refused ∧
    (runProto (List.replicate 3 false ++ List.replicate 4 true ++ [false] ++ List.replicate 2 true) witnessR.start).g.pc = .failed ∧
    (runProto (List.replicate 3 false ++ List.replicate 4 true ++ [false] ++ List.replicate 2 true) witnessR.start).b.pc = .refused2 ∧
    (runProto (List.replicate 3 false ++ List.replicate 4 true ++ [false] ++ List.replicate 2 true) witnessR.start).present = [1, 7] := by
  decide


/-- A delete of the version the backup takes as its basis, finished before the backup allocates its
id: the backup reuses id 0 and nothing dangles; one operation earlier the lock is still there and
the backup refuses.  (The skeleton does not model the basis: every reference of the new version
goes through `B.block`, whatever the basis contributes.) -/
example : (runProto ([false, false] ++ List.replicate 14 true) { witnessR with del := [0] }.start).bands =
      [⟨0, true, true, [7]⟩] ∧
    (runProto ([false, false] ++ List.replicate 14 true) { witnessR with del := [0] }.start).present = [7] ∧
    (runProto ([false, false] ++ List.replicate 14 true) { witnessR with del := [0] }.start).b.pc = .done ∧
    (runProto ([false, false] ++ List.replicate 14 true) { witnessR with del := [0] }.start).g.pc = .done ∧
    (runProto ([false, false] ++ List.replicate 12 true) { witnessR with del := [0] }.start).bands =
      [⟨0, true, false, []⟩] ∧
    (runProto ([false, false] ++ List.replicate 12 true) { witnessR with del := [0] }.start).b.pc = .refused2 := by
  decide

/-! The remaining examples are about the backup before the repair (`witness`, `recheck = false`). -/

/-- The witness archive is good, and its schedule has none of the safe orders. -/
example : GoodP witness := by decide
example : ¬ SafeOrder witnessSched witness := by decide
/-- Block 7 is garbage in the witness archive and the new source needs it. -/
example : garbage witness 7 ∧ 7 ∈ witness.needed := by decide

/-- (i) is satisfiable with both commands succeeding and gc passing `check()`: the backup runs
first (empty schedule = backup to its end, then gc); the new version refers to 7, gc keeps it. -/
example : SafeOrder [] witness ∧ (runProto [] witness.start).g.passed = true ∧
    danglingBands (runProto [] witness.start) = [] ∧
    (runProto [] witness.start).bands = [⟨0, true, true, [1]⟩, ⟨1, true, true, [7]⟩] := by decide

/-- (i) with a failing `check()`: gc starts, the backup creates its band, gc's `check()` refuses. -/
example : mkdirBeforeCheck (runProto (List.replicate 3 false ++ List.replicate 3 true ++ [false]) witness.start).log = true ∧
    (runProto (List.replicate 3 false ++ List.replicate 3 true ++ [false]) witness.start).g.pc = .failed ∧
    (runProto (List.replicate 3 false ++ List.replicate 3 true ++ [false]) witness.start).b.pc = .done := by decide

/-- (ii) is satisfiable: gc writes its lock first, the backup refuses, gc removes block 7. -/
example : lockWriteBeforeLockCheck (runProto (List.replicate 4 true) witness.start).log = true ∧
    (runProto (List.replicate 4 true) witness.start).b.pc = .refused ∧
    (runProto (List.replicate 4 true) witness.start).present = [1] := by decide

/-- (iii) is satisfiable under the very schedule of the witness: the source needs block 9, which is
not there, instead of the garbage block. -/
example : SafeOrder witnessSched { witness with needed := [9] } ∧
    (runProto witnessSched { witness with needed := [9] }.start).present = [9, 1] ∧
    danglingBands (runProto witnessSched { witness with needed := [9] }.start) = [] := by decide

/-- (iv) is satisfiable with a removal: gc passes `check()` in the window and removes 7 before the
backup lists the blocks; the backup writes 7 again. -/
example : rmBlocksBeforeListBlocks (runProto ([false] ++ List.replicate 10 true) witness.start).log = true ∧
    mkdirBeforeCheck (runProto ([false] ++ List.replicate 10 true) witness.start).log = false ∧
    (runProto ([false] ++ List.replicate 10 true) witness.start).present = [7, 1] ∧
    danglingBands (runProto ([false] ++ List.replicate 10 true) witness.start) = [] := by decide

/-- `c06_old_versions_safe` is not vacuous: in the witness run version 0 is kept, and it is the new
version 1 (and only it) that dangles. -/
example : danglingBands (runProto witnessSched witness.start) = [1] := by decide

/-- A delete of version 0 racing with the backup: version 0 is gone, block 1 with it, and the new
version (which needed only 7) is the one damaged. -/
example : (runProto ([false] ++ List.replicate 10 true ++ List.replicate 5 false ++ [true, true])
    { witness with del := [0] }.start).bands = [⟨1, true, true, [7]⟩] ∧
    (runProto ([false] ++ List.replicate 10 true ++ List.replicate 5 false ++ [true, true])
    { witness with del := [0] }.start).present = [] := by decide

end Conserve.C06
