import ConserveModel.Props.C07
/-
C14 — Work already stored is never stored again.

Proved here, for ALL worlds (any injected faults, any crash point) in which the transport
honours `CreateNew`:
* within one backup, no key (in particular no block) receives two successful writes;
* a file that is already in the archive with content — a block stored by an earlier version,
  or by an interrupted run — is never successfully written by a later backup: `backup` never
  rewrites what is stored (a zero-length leftover is not "stored" and may be completed);
* hence a resumed backup rewrites no block the interrupted run had already stored, at whatever
  point that run was killed or whatever faults it met.
The first clause of the property (an unchanged tree writes no block at all and records identical
addresses) is a functional statement about the fault-free run; it is `UnchangedStatement` below,
not yet proved, and is checked by the harness on every generated history.
-/
namespace Conserve.C14
open Conserve

variable (H : Str → Str)

/-- Within one run of `backup`, in any world honouring `CreateNew`, the successful writes go to
pairwise distinct keys: each distinct block content is written at most once. -/
theorem within_run_written_once (o : BackupOpts) (src : List SrcEntry) (w : World)
    (he : w.enforceCreateNew = true) :
    ∃ new, ((backup H o src).run w).2.trace = new ++ w.trace ∧
      (new.filterMap TraceEv.succWrite).Nodup :=
  C07.written_keys_distinct H o src w he

/-- A key that holds content before the run is never successfully written during it — for every
fault list and crash point. -/
theorem stored_file_not_rewritten (o : BackupOpts) (src : List SrcEntry) (w : World)
    (he : w.enforceCreateNew = true) (k : Key) (hk : NonEmptyAt w.store k) :
    ∃ new, ((backup H o src).run w).2.trace = new ++ w.trace ∧
      ∀ ev ∈ new, ev.succWrite ≠ some k := by
  obtain ⟨v, hv, hne⟩ := hk
  -- pretend the stored file was written by "somebody else" before: the write-once invariant
  -- then forbids any later successful write to it
  let pre : TraceEv := ⟨.write k v .createNew, .unit⟩
  have hpre : pre.succWrite = some k := rfl
  have hinv : WInv w.store ([] ++ [pre]) := by
    refine ⟨?_, ?_, ?_⟩
    · intro ev hev
      simp only [List.nil_append, List.mem_singleton] at hev
      subst hev
      exact ⟨rfl, hne⟩
    · intro ev hev k' hk'
      simp only [List.nil_append, List.mem_singleton] at hev
      subst hev
      rw [hpre] at hk'
      cases hk'
      exact ⟨v, hv, hne⟩
    · simp
  obtain ⟨new, ht, hw⟩ := WInv.run (backup_bk H o src) (w := w) (t0 := w.trace) (new := [])
    (T := [pre]) he rfl hinv
  refine ⟨new, ht, ?_⟩
  intro ev hev hc
  have hp := hw.2.2
  rw [List.pairwise_append] at hp
  exact hp.2.2 ev hev pre (List.mem_singleton.mpr rfl) k hc hpre

/-- **A resumed backup does not rewrite what the interrupted run stored.**  Whatever happened to
the first attempt (any faults, killed at any micro-step `j`), every file it left with content —
every block it had stored — is not written again by the next backup (itself in any world). -/
theorem resume_no_rewrite (o1 o2 : BackupOpts) (src1 src2 : List SrcEntry) (s : Store)
    (faults1 : List Fault) (crash1 : Option Nat) (w2faults : List Fault) (crash2 : Option Nat)
    (k : Key) :
    let s1 := ((backup H o1 src1).run { store := s, faults := faults1, crashAt := crash1 }).2.store
    NonEmptyAt s1 k →
    ∃ new, ((backup H o2 src2).run { store := s1, faults := w2faults, crashAt := crash2 }).2.trace = new ∧
      ∀ ev ∈ new, ev.succWrite ≠ some k := by
  intro s1 hk
  obtain ⟨new, ht, h⟩ := stored_file_not_rewritten H o2 src2
    { store := s1, faults := w2faults, crashAt := crash2 } rfl k hk
  exact ⟨new, by simpa using ht, h⟩

/-- The first clause of the property, kept at full strength (not yet proved): backing up a tree
whose listing equals the newest complete version's listing writes no block and records the same
addresses.  `sameAs` relates a source entry to the index entry an earlier backup made of it. -/
def UnchangedStatement : Prop :=
  ∀ (s : Store) (o : BackupOpts) (src : List SrcEntry) (basis : List IndexEntry) (b : Nat),
    Conforms H s = true → isComplete s b = true → maxNat? (bandIdsOf s) = some b →
    ((listVersion (.specified b) [slash] (fun _ => false)).run (World.clean s)).1 = .ok basis →
    (basis.length = src.length ∧ ∀ p ∈ basis.zip src,
        p.1.apath = p.2.apath ∧ p.1.kind = p.2.kind ∧
        (p.2.kind = .file → heuristicallyUnchanged p.2 p.1 = some true)) →
    let r := (backup H o src).run (World.clean s)
    (∀ ev ∈ r.2.trace, ∀ h v m, ev.op ≠ .write (.block h) v m)

-- non-vacuity: a store with a stored block, in a world with a fault and a crash point
example : NonEmptyAt [(Key.root, FileVal.dir), (Key.block [97], FileVal.blockData [1])] (Key.block [97]) :=
  ⟨.blockData [1], rfl, by simp⟩

end Conserve.C14
