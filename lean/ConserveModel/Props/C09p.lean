import ConserveModel.Props.C09
import ConserveModel.Props.C13
import ConserveModel.Proofs.ProducedHeads
import ConserveModel.Proofs.ProducedRefute
/-
C09, first sentence — "On any archive produced by fault-free operations (completed and
interrupted-with-header backups, deletes, gc) validation reports no error" — PROVED, by putting
together `C09.validate_silent_on_good` (what `validate` does on a healthy archive) and the writer
invariants: C13's `CI = Conforms ∧ DirsOk ∧ NoDupKeys` (kept by `backup` in every world and by
`delete_bands`) and, new here, `entriesInRange` (Proofs/ProducedRange.lean, ProducedBackup.lean) and
"every version directory has a readable head" (Proofs/ProducedOps.lean, ProducedHeads.lean).

What is assumed, and why:
* `H` injective and `HashLen H` (names of at least three characters), as in C13.
* Each backup step's source listing is what the walk yields — strictly increasing valid paths, a
  target exactly for symlinks (`C13.SrcSortedWeak`; C11 proves the walk is) — and is in range
  (`SrcInRange`): modification times jiff can represent, file contents adding up to less than 2^64
  bytes.  `C09.Produced` quantifies over ARBITRARY lists of `SrcEntry`; for those the statement is
  FALSE in the model (`silent_on_produced_refuted_unrepresentable_mtime`,
  `silent_on_produced_refuted_invalid_path`): a source entry whose time is outside jiff's range, or
  whose path is not a valid apath, is recorded as it is, and `validate` (which runs
  `IndexEntry::check` on what it reads) reports `invalidMetadata`.  Such entries cannot come out of
  the real walk; the restriction is to `ProducedOK`.  (Mere unsortedness was not found to make
  `validate` speak — the listing skips entries that do not sort after the last one taken — but an
  archive written from an unsorted listing does not conform to the format, so the proof via `Good`
  does not cover it.)
* `AllHeadsReadable` — "interrupted-WITH-header": a backup killed between `mkdir bNNNN` and the
  completion of the head write leaves a version directory without (complete) head, which `validate`
  reports (`bandHeadMissing` / a decode error): outside the promise.  In `silent_on_produced` it is a
  hypothesis on the archive; in `silent_on_produced_with_header` it is a CONCLUSION, for histories
  whose crash points lie at least four mutating micro-steps into the backup (`mkdir bNNNN`,
  `mkdir bNNNN/i`, create the head file, fill it): `ProducedH`.
* `silent_on_reachable`: the same for histories whose steps run in ARBITRARY worlds (injected
  faults too, `C13.Step`), with `AllHeadsReadable` as hypothesis.
-/
namespace Conserve.C09p
open Conserve Conserve.Inv Conserve.Conf Conserve.Rng

variable {H : Str → Str}

/-! ## 1. The predicates of C13 and of C09 -/

/-- `NoDupKeys` (Prop, C13) is `keysNodup` (Bool, C09). -/
theorem keysNodup_iff (s : Store) : keysNodup s = true ↔ NoDupKeys s := by
  simp [keysNodup, NoDupKeys]

/-- `DirsOk` (Prop, C13) is `treeShaped` (Bool, C09). -/
theorem treeShaped_iff (s : Store) : treeShaped s = true ↔ DirsOk s := by
  simp only [treeShaped, List.all_eq_true, DirsOk]

/-- The archive C09's histories start from is the one C13's start from. -/
theorem initArchive_eq : C09.initArchive = C13.emptyArchive := rfl

/-- **`good_of_ci`.**  C13's invariant, a readable head in every version directory, and stored
values in range make a healthy archive in the sense of C09. -/
theorem good_of_ci {s : Store} (hci : CI H s) (hh : AllHeadsReadable s) (hr : entriesInRange s = true) :
    Good H s :=
  ⟨hci.conf, (keysNodup_iff s).2 hci.nodup, (treeShaped_iff s).2 hci.dirs, hh, hr⟩

/-- … and conversely a healthy archive satisfies C13's invariant. -/
theorem ci_of_good {s : Store} (g : Good H s) : CI H s :=
  ⟨g.conforms, (treeShaped_iff s).1 g.tree, (keysNodup_iff s).1 g.nodup⟩

/-! ## 2. `entriesInRange` is kept by the writers -/

/-- **`backup_keeps_inRange`.**  In EVERY world (any faults, any crash point, dead or alive), for
every hash function and all options: if every stored index entry has a representable time and
addresses that do not overflow `u64`, the same holds after `backup` — whatever was written, however
the run ended — provided the source's times are representable and its file contents add up to less
than 2^64 bytes.  (Times: `metadata_from` splits the nanoseconds with `fdiv`/`fmod`; addresses: a
whole-file block starts at 0 and is no longer than the file, a combined block's `start + len` is at
most the length of the combiner's buffer, a concatenation of file contents; basis addresses were in
range before.) -/
theorem backup_keeps_inRange (o : BackupOpts) {src : List SrcEntry} (hsrc : SrcInRange src) (w : World)
    (h : entriesInRange w.store = true) : entriesInRange ((backup H o src).run w).2.store = true :=
  backup_ir H o hsrc w h

/-- **`delete_keeps_inRange`.**  `delete_bands` (either mode), in every world: it writes no index hunk. -/
theorem delete_keeps_inRange (strict : Bool) (D : List Nat) (o : DeleteOpts) (w : World)
    (h : entriesInRange w.store = true) : entriesInRange ((deleteBands strict D o).run w).2.store = true :=
  delete_ir strict D o w h

/-- The source condition follows from `C01a.SrcGood`'s: for files `size = content.length`, and the
sizes add up to less than 2^64. -/
theorem srcInRange_of_sizes {src : List SrcEntry}
    (hm : ∀ sf ∈ src, -377705023201 * nanosPerSec ≤ sf.mtimeNs ∧ sf.mtimeNs < 253402207201 * nanosPerSec)
    (hwf : ∀ sf ∈ src, sf.kind = .file → sf.size = sf.content.length)
    (hb : (src.map (·.size)).sum < 18446744073709551616) : SrcInRange src := by
  refine ⟨hm, Nat.lt_of_le_of_lt ?_ hb⟩
  unfold srcBytes
  clear hb hm
  induction src with
  | nil => simp
  | cons sf l ih =>
    simp only [List.map_cons, List.sum_cons]
    have h1 : fileBytes sf ≤ sf.size := by
      unfold fileBytes
      split
      · rename_i hk; rw [hwf sf (List.mem_cons_self ..) hk]; exact Nat.le_refl _
      · exact Nat.zero_le _
    have h2 := ih (fun x hx => hwf x (List.mem_cons_of_mem _ hx))
    omega

/-- … in particular from `C01a.SrcGood`. -/
theorem srcInRange_of_srcGood {src : List SrcEntry} (h : Exact.SrcGood src) : SrcInRange src :=
  srcInRange_of_sizes h.mtimes h.wf h.bytes

/-! ## 3. Archives produced by fault-free operations -/

/-- `C09.Produced`, with what is assumed of a backup step's source listing: it is what the source
walk yields (`C13.SrcSortedWeak`) and it is in range (`SrcInRange`).  Any crash point. -/
inductive ProducedOK (H : Str → Str) : Store → Prop
  | init : ProducedOK H C09.initArchive
  | backup {s : Store} (o : BackupOpts) (src : List SrcEntry) (crashAt : Option Nat) :
      C13.SrcSortedWeak src → SrcInRange src → ProducedOK H s →
      ProducedOK H ((backup H o src).run { store := s, crashAt := crashAt }).2.store
  | delete {s : Store} (D : List Nat) (o : DeleteOpts) : ProducedOK H s →
      ProducedOK H ((deleteBands true D o).run (World.clean s)).2.store

/-- `ProducedOK` archives are `C09.Produced` archives. -/
theorem ProducedOK.produced {s : Store} (h : ProducedOK H s) : C09.Produced H s := by
  induction h with
  | init => exact .init
  | backup o src c _ _ _ ih => exact .backup o src c ih
  | delete D o _ ih => exact .delete D o ih

/-- A backup step whose source is the walk of a well-formed tree (any exclusions): sortedness and
validity are C11's; what remains is the range condition on the tree's metadata. -/
theorem ProducedOK.backup_tree {s : Store} (o : BackupOpts) (T : Node) (excl : Str → Bool) (crashAt : Option Nat)
    (hwf : T.WF = true) (hr : SrcInRange (C11.walk T excl)) (h : ProducedOK H s) :
    ProducedOK H ((Conserve.backup H o (C11.walk T excl)).run { store := s, crashAt := crashAt }).2.store :=
  .backup o _ crashAt (C13.walk_srcSorted T excl hwf).weak hr h

/-- **The writers keep the invariant**: every `ProducedOK` archive satisfies C13's `CI` and has all
stored values in range. -/
theorem producedOK_inv (hinj : Function.Injective H) (hlen : HashLen H) {s : Store} (h : ProducedOK H s) :
    CI H s ∧ entriesInRange s = true := by
  induction h with
  | init => exact ⟨C13.emptyArchive_ci, by decide⟩
  | backup o src c hsrc hrng _ ih =>
    exact ⟨C13.backup_ci_all_worlds (w := { store := _, crashAt := c }) hinj hlen hsrc rfl ih.1,
      backup_ir H o hrng _ ih.2⟩
  | delete D o _ ih =>
    exact ⟨C13.delete_ci D o _ ih.1, delete_ir true D o _ ih.2⟩

/-- What `C09.silent_on_produced_partial` asks for, for `ProducedOK` archives. -/
theorem produced_invariant (hinj : Function.Injective H) (hlen : HashLen H) {s : Store} (h : ProducedOK H s) :
    Conforms H s = true ∧ keysNodup s = true ∧ treeShaped s = true ∧ entriesInRange s = true :=
  let ⟨hci, hr⟩ := producedOK_inv hinj hlen h
  ⟨hci.conf, (keysNodup_iff s).2 hci.nodup, (treeShaped_iff s).2 hci.dirs, hr⟩

/-- A `ProducedOK` archive in which every version directory has a readable head is healthy. -/
theorem produced_good (hinj : Function.Injective H) (hlen : HashLen H) {s : Store} (h : ProducedOK H s)
    (hh : AllHeadsReadable s) : Good H s :=
  let ⟨hci, hr⟩ := producedOK_inv hinj hlen h
  good_of_ci hci hh hr

/-- **`silent_on_produced`** — C09, first sentence.  For every injective hash with names of at
least three characters: on every archive produced from the empty one by backups (any options; a
sorted, valid, in-range source listing; completed, or interrupted at ANY micro-step) and deletes /
gc, in which every version directory has a readable head ("interrupted-with-header"), full and quick
validation in the fault-free world run to the end, change nothing and emit NO event. -/
theorem silent_on_produced (hinj : Function.Injective H) (hlen : HashLen H) (s : Store)
    (h : ProducedOK H s) (hh : AllHeadsReadable s) (quick : Bool) :
    ((validate H quick).run (World.clean s)).1 = .ok () ∧
    ((validate H quick).run (World.clean s)).2.store = s ∧
    ((validate H quick).run (World.clean s)).2.events = [] :=
  C09.validate_silent_on_good H (produced_good hinj hlen h hh) quick

/-- The same through `conserve validate` (`Archive::open`, then `validate`). -/
theorem check_silent_on_produced (hinj : Function.Injective H) (hlen : HashLen H) (s : Store)
    (h : ProducedOK H s) (hh : AllHeadsReadable s) (quick : Bool) :
    ((check H quick).run (World.clean s)).1 = .ok () ∧
    ((check H quick).run (World.clean s)).2.events = [] :=
  C09.check_silent_on_good H (produced_good hinj hlen h hh) quick

/-- `C09.SilentOnProducedStatement` with `ProducedOK` in place of `Produced`. -/
def SilentOnProducedOKStatement (H : Str → Str) : Prop :=
  ∀ s, ProducedOK H s → AllHeadsReadable s → ∀ quick,
    ((validate H quick).run (World.clean s)).1 = .ok () ∧
    ((validate H quick).run (World.clean s)).2.events = []

/-- `SilentOnProducedOKStatement` holds (it is `silent_on_produced` without the store clause). -/
theorem silent_on_producedOK_statement (hinj : Function.Injective H) (hlen : HashLen H) :
    SilentOnProducedOKStatement H := fun s h hh quick =>
  let r := silent_on_produced hinj hlen s h hh quick
  ⟨r.1, r.2.2⟩

/-! ### The unrestricted statement is false -/

/-- The root directory with a modification time one second past what jiff can represent
(`9999-12-30T22:00:00Z` + 1 s). -/
def lateRoot : SrcEntry :=
  { apath := [47], kind := .dir, mtimeNs := 253402207201000000000, unixMode := 493, user := none, group := none }

/-- A directory entry whose path lacks the leading slash: not a valid apath. -/
def badPathEntry : SrcEntry :=
  { apath := [97], kind := .dir, mtimeNs := 0, unixMode := 493, user := none, group := none }

/-- **`silent_on_produced_refuted_unrepresentable_mtime`.**  `C09.SilentOnProducedStatement`, which
quantifies over ARBITRARY source listings, is false in the model, for every hash with names of at
least three characters.  Witness: one fault-free, complete backup of `[lateRoot]` into the empty
archive.  `metadata_from` records the time as it is; the version has a readable head; `validate` runs
`IndexEntry::check` on what it reads and reports `invalidMetadata`.  (A model-level fact: the real
walk cannot yield such an entry — `SystemTime → jiff::Timestamp` fails first — which is why
`ProducedOK` asks for `SrcInRange`.) -/
theorem silent_on_produced_refuted_unrepresentable_mtime (hlen : HashLen H) :
    ¬ C09.SilentOnProducedStatement H := by
  intro h
  obtain ⟨hh, hev⟩ := bad_entry_reported hlen lateRoot rfl (by decide) (by decide)
  exact hev true (h _ (C09.Produced.backup {} [lateRoot] none .init) hh true).2

/-- **`silent_on_produced_refuted_invalid_path`.**  The same with a source entry whose path is not
a valid apath (`ProducedOK` asks for `C13.SrcSortedWeak`, which includes validity). -/
theorem silent_on_produced_refuted_invalid_path (hlen : HashLen H) :
    ¬ C09.SilentOnProducedStatement H := by
  intro h
  obtain ⟨hh, hev⟩ := bad_entry_reported hlen badPathEntry rfl (by decide) (by decide)
  exact hev true (h _ (C09.Produced.backup {} [badPathEntry] none .init) hh true).2

/-- Neither witness is a `ProducedOK` step: `lateRoot` is not in range, `badPathEntry` not valid. -/
theorem witnesses_excluded : ¬ SrcInRange [lateRoot] ∧ ¬ C13.SrcSortedWeak [badPathEntry] := by
  constructor
  · intro h
    have := (h.mtimes lateRoot (List.mem_singleton.mpr rfl)).2
    revert this
    decide
  · intro h
    have := (h.2 badPathEntry (List.mem_singleton.mpr rfl)).1
    revert this
    decide

/-! ### Interrupted WITH header: the crash point lies after the head write -/

/-- The crash point, if any, is at least four mutating micro-steps into the backup: after
`mkdir bNNNN`, `mkdir bNNNN/i`, and both micro-steps of the head write. -/
def AfterHead (crashAt : Option Nat) : Prop := ∀ j, crashAt = some j → 4 ≤ j

/-- `ProducedOK` with crash points restricted to those after the head write. -/
inductive ProducedH (H : Str → Str) : Store → Prop
  | init : ProducedH H C09.initArchive
  | backup {s : Store} (o : BackupOpts) (src : List SrcEntry) (crashAt : Option Nat) :
      AfterHead crashAt → C13.SrcSortedWeak src → SrcInRange src → ProducedH H s →
      ProducedH H ((backup H o src).run { store := s, crashAt := crashAt }).2.store
  | delete {s : Store} (D : List Nat) (o : DeleteOpts) : ProducedH H s →
      ProducedH H ((deleteBands true D o).run (World.clean s)).2.store

/-- `ProducedH` archives are `ProducedOK` archives. -/
theorem ProducedH.ok {s : Store} (h : ProducedH H s) : ProducedOK H s := by
  induction h with
  | init => exact .init
  | backup o src c _ h1 h2 _ ih => exact .backup o src c h1 h2 ih
  | delete D o _ ih => exact .delete D o ih

/-- The empty archive has no version directory. -/
theorem initArchive_headsOK : HeadsOK C09.initArchive := by
  intro b hb
  have := Store.mem_of_get?' hb
  simp [C09.initArchive] at this

/-- **Every version directory of a `ProducedH` archive has a readable head and an index
directory**: a backup either fails before its directory exists, or gets as far as the head; delete
removes a version directory with everything below it. -/
theorem producedH_heads (hinj : Function.Injective H) (hlen : HashLen H) {s : Store} (h : ProducedH H s) :
    AllHeadsReadable s := by
  have key : HeadsOK s := by
    induction h with
    | init => exact initArchive_headsOK
    | backup o src c hc _ _ hp ih =>
      have hci := (producedOK_inv hinj hlen hp.ok).1
      refine backup_headsOK H o src { store := _, crashAt := c } ⟨rfl, rfl, rfl, ?_⟩ hci.nodup hci.dirs ih
      intro j hj
      have := hc j hj
      simp only [Nat.zero_add]
      exact this
    | delete D o _ ih => exact delete_headsOK true D o _ ih
  exact (headsOK_iff (producedOK_inv hinj hlen h.ok).1.nodup).1 key

/-- **`silent_on_produced_with_header`** — C09, first sentence, with "interrupted-with-header" as
a restriction on the crash points rather than a hypothesis on the archive: on every archive
produced by backups that complete or are killed after their head write, and deletes / gc, full and
quick validation emit no event. -/
theorem silent_on_produced_with_header (hinj : Function.Injective H) (hlen : HashLen H) (s : Store)
    (h : ProducedH H s) (quick : Bool) :
    ((validate H quick).run (World.clean s)).1 = .ok () ∧
    ((validate H quick).run (World.clean s)).2.store = s ∧
    ((validate H quick).run (World.clean s)).2.events = [] :=
  silent_on_produced hinj hlen s h.ok (producedH_heads hinj hlen h) quick

/-- A `ProducedH` archive is healthy (`C09.Good`): every theorem of C09 §3–§5 about damage to a
healthy archive applies to it. -/
theorem producedH_good (hinj : Function.Injective H) (hlen : HashLen H) {s : Store} (h : ProducedH H s) :
    Good H s := produced_good hinj hlen h.ok (producedH_heads hinj hlen h)

/-! ### Histories in arbitrary worlds -/

/-- The in-range condition on the steps of a `C13` history. -/
def StepInRange : C13.Step → Prop
  | .backup _ src _ => SrcInRange src
  | .delete _ _ _ => True

/-- One step of a `C13` history, in its own (arbitrary) world, keeps `entriesInRange`. -/
theorem step_inRange (st : C13.Step) (s : Store) (hok : StepInRange st) (h : entriesInRange s = true) :
    entriesInRange (st.run H s) = true := by
  cases st with
  | backup o src w => exact backup_ir H o hok { w with store := s } h
  | delete D opts w => exact delete_ir true D opts { w with store := s } h

/-- **`silent_on_reachable`.**  Over any history of backup attempts and deletes from the empty
archive, each step in an ARBITRARY world that enforces `CreateNew` (injected faults, a crash point,
dead or alive) with a sorted, valid, in-range source listing: on every archive visited in which
every version directory has a readable head, full and quick validation emit no event. -/
theorem silent_on_reachable (hinj : Function.Injective H) (hlen : HashLen H) (hist : List C13.Step)
    (hok : C13.HistOK hist) (hrng : ∀ st ∈ hist, StepInRange st) :
    ∀ s' ∈ C13.states H hist C13.emptyArchive, AllHeadsReadable s' → ∀ quick,
      ((validate H quick).run (World.clean s')).1 = .ok () ∧
      ((validate H quick).run (World.clean s')).2.events = [] := by
  have key : ∀ (hist : List C13.Step), C13.HistOK hist → (∀ st ∈ hist, StepInRange st) → ∀ (s : Store),
      CI H s → entriesInRange s = true →
      ∀ s' ∈ C13.states H hist s, CI H s' ∧ entriesInRange s' = true := by
    intro hist
    induction hist with
    | nil =>
      intro _ _ s hci hr s' hs'
      simp only [C13.states, List.mem_singleton] at hs'
      subst hs'; exact ⟨hci, hr⟩
    | cons st rest ih =>
      intro hok hrng s hci hr s' hs'
      simp only [C13.states, List.mem_cons] at hs'
      rcases hs' with rfl | hs'
      · exact ⟨hci, hr⟩
      · exact ih (fun st' h' => hok st' (List.mem_cons_of_mem _ h'))
          (fun st' h' => hrng st' (List.mem_cons_of_mem _ h')) _
          (C13.step_ci hinj hlen st s (hok st (List.mem_cons_self ..)) hci)
          (step_inRange st s (hrng st (List.mem_cons_self ..)) hr) s' hs'
  intro s' hs' hh quick
  obtain ⟨hci, hr⟩ := key hist hok hrng _ C13.emptyArchive_ci (by decide) s' hs'
  have := C09.validate_silent_on_good H (good_of_ci hci hh hr) quick
  exact ⟨this.1, this.2.2⟩

/-! ## Non-vacuity: the hypotheses hold of concrete histories -/

namespace Example

/-- The hash of `C13.Example`: injective, names of at least three characters. -/
abbrev exH : Str → Str := C13.Example.exH

/-- The source of `C04.Example` (`/`, `/a`, `/b`) is in range. -/
theorem source_inRange : SrcInRange C04.Example.source := by
  refine ⟨?_, by decide⟩
  intro sf hsf
  simp only [C04.Example.source, List.mem_cons, List.not_mem_nil, or_false] at hsf
  rcases hsf with rfl | rfl | rfl <;> exact ⟨by decide, by decide⟩

/-- … and sorted and valid (`C13.Example.source_sorted`). -/
theorem source_weak : C13.SrcSortedWeak C04.Example.source := C13.Example.source_sorted.weak

/-- A first, complete backup into the empty archive … -/
def s1 : Store :=
  ((backup exH C04.Example.opts C04.Example.source).run { store := C09.initArchive, crashAt := none }).2.store

/-- … a second one killed at micro-step 9 (after its head write: the version is "interrupted with
header") … -/
def s2 : Store :=
  ((backup exH C04.Example.opts C04.Example.source).run { store := s1, crashAt := some 9 }).2.store

/-- … and the first version deleted. -/
def s3 : Store := ((deleteBands true [0] {}).run (World.clean s2)).2.store

/-- `s1` is produced (no crash point). -/
theorem s1_produced : ProducedH exH s1 := by
  unfold s1
  exact ProducedH.backup (s := C09.initArchive) C04.Example.opts C04.Example.source none
    (fun _ h => nomatch h) source_weak source_inRange .init

/-- `s2` is produced: crash point 9 lies after the head write. -/
theorem s2_produced : ProducedH exH s2 := by
  unfold s2
  exact ProducedH.backup (s := s1) C04.Example.opts C04.Example.source (some 9)
    (fun j h => by cases h; decide) source_weak source_inRange s1_produced

/-- `s3` is produced. -/
theorem s3_produced : ProducedH exH s3 := by
  unfold s3
  exact ProducedH.delete (s := s2) [0] {} s2_produced

/-- Both validations are silent on the archive with a complete and an interrupted version … -/
example (quick : Bool) : ((validate exH quick).run (World.clean s2)).2.events = [] :=
  (silent_on_produced_with_header C13.Example.exH_inj C13.Example.exH_len s2 s2_produced quick).2.2

/-- … and after the delete; the archives are healthy, so the damage theorems of C09 apply to them. -/
example (quick : Bool) : ((validate exH quick).run (World.clean s3)).2.events = [] :=
  (silent_on_produced_with_header C13.Example.exH_inj C13.Example.exH_len s3 s3_produced quick).2.2

example : Good exH s2 := producedH_good C13.Example.exH_inj C13.Example.exH_len s2_produced

/-- A backup killed at micro-step 1 (between `mkdir b0001` and `mkdir b0001/i`): still `ProducedOK`, the
format invariant and the range invariant hold; silence then needs `AllHeadsReadable` as a hypothesis. -/
def s2' : Store :=
  ((backup exH C04.Example.opts C04.Example.source).run { store := s1, crashAt := some 1 }).2.store

/-- `s2'` is `ProducedOK` (but not `ProducedH`: crash point 1 lies before the head write). -/
theorem s2'_produced : ProducedOK exH s2' := by
  unfold s2'
  exact ProducedOK.backup (s := s1) C04.Example.opts C04.Example.source (some 1) source_weak source_inRange
    s1_produced.ok

example : Conforms exH s2' = true ∧ entriesInRange s2' = true :=
  let ⟨h1, _, _, h4⟩ := produced_invariant C13.Example.exH_inj C13.Example.exH_len s2'_produced
  ⟨h1, h4⟩

/-- A history in faulty worlds (`C13.Example.world`: two injected faults and a crash point). -/
example : ∀ s' ∈ C13.states exH [.backup C04.Example.opts C04.Example.source C13.Example.world,
      .delete [0] {} (World.clean [])] C13.emptyArchive,
    AllHeadsReadable s' → ∀ quick, ((validate exH quick).run (World.clean s')).1 = .ok () ∧
      ((validate exH quick).run (World.clean s')).2.events = [] :=
  silent_on_reachable C13.Example.exH_inj C13.Example.exH_len _
    (by
      intro st hst
      simp only [List.mem_cons, List.not_mem_nil, or_false] at hst
      rcases hst with rfl | rfl
      · exact ⟨C13.Example.source_sorted, rfl⟩
      · trivial)
    (by
      intro st hst
      simp only [List.mem_cons, List.not_mem_nil, or_false] at hst
      rcases hst with rfl | rfl
      · exact source_inRange
      · trivial)

end Example

end Conserve.C09p
