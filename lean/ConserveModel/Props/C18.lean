import ConserveModel.Proofs.Diff
import ConserveModel.Props.C01b
/-
C18 — Diff and change reports agree with the real differences.

"Comparing a version with the very tree it was made from reports no change; after any further
modification of the tree the comparison reports exactly the paths that were added, removed, or
whose kind, size, mtime (files), mode, owner or link target differ, each with the right
classification, and the changes reported by the next backup name the same added, changed and
deleted files."

Model: Diff.lean (code side), DiffSpec.lean (specification side).  `A` is the listing of the
stored version, `B` the walk of the live tree; both are strictly sorted by apath (C08, C11).
Outside the quantifier: `BackupOptions.owner = false` (the stored owner is then `None`, every
entry of an owned tree compares as changed), exclusions, and index entries that make
`IndexEntry::mtime()` / `EntryMetadata::from` panic (`diffChecked_ok` gives the exact condition).
-/
namespace Conserve.C18
open Conserve Conserve.C11 Conserve.DM

/-! ### 1. The metadata comparison -/

/-- What `diff_metadata` decides, derived from the code: `Unchanged` iff kind, owner (user and
group) and mode agree, and — only if the (stored) entry is a file — size and mtime agree, and —
only if it is a symlink — the targets agree. -/
theorem diffMetadata_spec (a b : EntryMeta) :
    diffMetadata a b = .unchanged ↔
      a.kind = b.kind ∧ a.user = b.user ∧ a.group = b.group ∧ a.mode = b.mode ∧
        (a.kind = .file → a.size = b.size ∧ a.mtime = b.mtime) ∧
        (a.kind = .symlink → a.target = b.target) := by
  unfold diffMetadata
  split
  · rename_i hc
    simp only [bne_iff_ne, ne_eq, Prod.mk.injEq, beq_iff_eq, Bool.or_eq_true,
      Bool.and_eq_true] at hc
    simp only [reduceCtorEq, false_iff]
    rintro ⟨h1, h2, h3, h4, h5, h6⟩
    rcases hc with (((hc | hc) | hc) | ⟨hf, hc⟩) | ⟨hs, hc⟩
    · exact hc h1
    · exact hc ⟨h2, h3⟩
    · exact hc h4
    · rcases hc with hc | hc
      · exact hc (h5 hf).1
      · exact hc (h5 hf).2
    · exact hc (h6 hs)
  · rename_i hc
    simp only [bne_iff_ne, ne_eq, Prod.mk.injEq, beq_iff_eq, Bool.or_eq_true, Bool.and_eq_true,
      not_or, not_and, Decidable.not_not, Classical.not_imp] at hc
    simp only [true_iff]
    obtain ⟨⟨⟨⟨h1, h2⟩, h3⟩, h4⟩, h5⟩ := hc
    exact ⟨h1, h2.1, h2.2, h3, h4, h5⟩

/-- The property's reading — a path present on both sides is reported as changed iff its
"kind, size, mtime (files), mode, owner or link target differ" — on the two entry types:
sizes are the stored byte count `Σ addr.len` against `st_size`, mtimes are instants. -/
def PropertyUnchanged (a : IndexEntry) (b : SrcEntry) : Prop :=
  a.kind = b.kind ∧ a.user = b.user ∧ a.group = b.group ∧ a.unixMode = some b.unixMode ∧
    (b.kind = .file → a.size = b.size ∧ a.ts = b.mtimeNs) ∧
    (b.kind = .symlink → a.target = b.target)

/-- The code decides exactly the property's notion of "unchanged" — no discrepancy.  In
particular the size comparison is guarded by `kind == File`, so the fact that
`IndexEntry::size()` is `Some(Σ len)` for directories and symlinks while the source side
reports `None` never shows (see `dir_size_not_compared`). -/
theorem diffMetadata_entries (a : IndexEntry) (b : SrcEntry) :
    diffMetadata a.meta b.meta = .unchanged ↔ PropertyUnchanged a b := by
  rw [diffMetadata_spec]
  unfold PropertyUnchanged IndexEntry.meta SrcEntry.meta
  simp only
  constructor
  · rintro ⟨h1, h2, h3, h4, h5, h6⟩
    refine ⟨h1, h2, h3, h4, ?_, ?_⟩
    · intro hf
      have := h5 (h1.trans hf)
      simpa [hf] using this
    · intro hs
      have := h6 (h1.trans hs)
      simpa [hs] using this
  · rintro ⟨h1, h2, h3, h4, h5, h6⟩
    refine ⟨h1, h2, h3, h4, ?_, ?_⟩
    · intro hf
      have hf' := h1.symm.trans hf
      simpa [hf'] using h5 hf'
    · intro hs
      have hs' := h1.symm.trans hs
      simpa [hs'] using h6 hs'

/-- Everything not mentioned is ignored: a directory's or symlink's mtime, and the stored
byte count of a non-file. -/
theorem dir_mtime_ignored (a : IndexEntry) (b : SrcEntry) (t : Int) (h : b.kind ≠ .file) :
    diffMetadata a.meta { b with mtimeNs := t }.meta = diffMetadata a.meta b.meta := by
  unfold diffMetadata IndexEntry.meta SrcEntry.meta
  by_cases hk : a.kind = b.kind
  · have : a.kind ≠ .file := hk ▸ h
    simp [this]
  · simp [hk]

/-! ### 2. The merge -/

/-- On strictly sorted inputs the two-cursor merge yields a strictly sorted stream that
consists exactly of `Left a` for the `a ∈ A` whose path is not in `B`, `Right b` for the
`b ∈ B` whose path is not in `A`, and `Both a b` for the pairs with equal paths: the
classification deleted / added / present-in-both is set difference / intersection on paths. -/
theorem merge_classifies {A : List IndexEntry} {B : List SrcEntry}
    (hA : SortedA A) (hB : SortedB B) :
    ((mergeEntries A B).Pairwise fun m m' => apathCmp m.apath m'.apath = .lt) ∧
    (∀ a, .left a ∈ mergeEntries A B ↔ a ∈ A ∧ ∀ b ∈ B, b.apath ≠ a.apath) ∧
    (∀ b, .right b ∈ mergeEntries A B ↔ b ∈ B ∧ ∀ a ∈ A, a.apath ≠ b.apath) ∧
    (∀ a b, .both a b ∈ mergeEntries A B ↔ a ∈ A ∧ b ∈ B ∧ a.apath = b.apath) :=
  ⟨merge_sorted hA hB, fun a => merge_mem_iff hA hB (.left a),
    fun b => merge_mem_iff hA hB (.right b), fun a b => merge_mem_iff hA hB (.both a b)⟩

/-! ### 3. A version against the tree it was made from -/

theorem toIndex_exact : EncExact toIndex := by
  intro t p h
  rw [C01b.toIndex_eq_floor] at h
  cases h
  simp only [nsPerSec]; omega

/-- Also for the write side before commit 6ea0861, wherever it did not panic. -/
theorem toIndexPre_exact : EncExact toIndexPre := by
  intro t p h
  by_cases hc : 0 ≤ t ∨ t % 1000000000 = 0
  · rw [C01b.toIndexPre_ok t hc] at h
    cases h
    simp only [nsPerSec]; omega
  · have := (C01b.toIndexPre_panics_iff t).2 (by omega)
    rw [this] at h; cases h

/-- An entry made from a source entry compares as unchanged with it. -/
theorem madeFrom_unchanged {enc : Int → Outcome (Int × Nat)} (henc : EncExact enc)
    {e : IndexEntry} {s : SrcEntry} (h : MadeFromWith enc e s) :
    e.apath = s.apath ∧ diffMetadata e.meta s.meta = .unchanged := by
  obtain ⟨m, hm, he, hsz⟩ := h
  unfold metadataFromWith at hm
  cases hp : enc s.mtimeNs with
  | panic site => simp [hp, Outcome.bind] at hm
  | ok p =>
    simp only [hp, Outcome.bind, Outcome.ok.injEq] at hm
    have ht := henc _ _ hp
    subst hm
    simp only at he
    refine ⟨by rw [he], ?_⟩
    rw [diffMetadata_entries]
    unfold PropertyUnchanged IndexEntry.ts
    rw [he]
    refine ⟨rfl, rfl, rfl, rfl, fun hf => ⟨?_, ht⟩, fun hs => ?_⟩
    · have := hsz hf; rw [he] at this; exact this
    · simp [SrcEntry.meta, hs]

/-- **Comparing a version with the very tree it was made from reports no change**: every path
is reported `Unchanged` with `include_unchanged`, and nothing at all without.  (`Pointwise`:
the listing and the walk correspond entry by entry, which is C01 a / C08.)  Holds for any
exact mtime encoding (`EncExact`): the present one and the one before commit 6ea0861. -/
theorem diff_self_clean {enc : Int → Outcome (Int × Nat)} (henc : EncExact enc)
    {A : List IndexEntry} {B : List SrcEntry} (h : Pointwise (MadeFromWith enc) A B) :
    diff A B true = A.map (fun a => (a.apath, ChangeKind.unchanged)) ∧ diff A B false = [] := by
  unfold diff
  induction h with
  | nil => simp [mergeEntries, diffLoop]
  | @cons a b as bs hab _ ih =>
    obtain ⟨hp, hd⟩ := madeFrom_unchanged henc hab
    have hc : apathCmp a.apath b.apath = .eq := (cmp_eq_iff _ _).2 hp
    rw [mergeEntries]
    simp only [hc, diffLoop, Matched.toEntryChange, hd, List.map_cons]
    simp [ih.1, ih.2]

/-- The instance for the code as it stands. -/
theorem diff_self_clean_current {A : List IndexEntry} {B : List SrcEntry}
    (h : Pointwise MadeFrom A B) :
    diff A B true = A.map (fun a => (a.apath, ChangeKind.unchanged)) ∧ diff A B false = [] :=
  diff_self_clean toIndex_exact h

/-! ### 4. Any two trees -/

/-- **After any modification the comparison reports exactly the real differences**: the
report is the declarative one — all paths of either tree in apath order, each classified
deleted / added / changed / unchanged from the two path-indexed maps, unchanged ones dropped
unless requested. -/
theorem diff_exact {A : List IndexEntry} {B : List SrcEntry} (hA : SortedA A) (hB : SortedB B)
    (inc : Bool) : diff A B inc = specDiff A B inc :=
  sorted_ext (diff_sorted hA hB inc) (specDiff_sorted hA hB inc) fun x => by
    obtain ⟨p, k⟩ := x
    rw [diff_mem_iff hA hB, specDiff_mem_iff]

/-- Unfolded: what is reported for a path, and when. -/
theorem diff_reports {A : List IndexEntry} {B : List SrcEntry} (hA : SortedA A) (hB : SortedB B)
    (inc : Bool) (p : Str) (k : ChangeKind) :
    (p, k) ∈ diff A B inc ↔
      (inc = true ∨ k ≠ .unchanged) ∧
      ((k = .deleted ∧ (∃ a ∈ A, a.apath = p) ∧ ∀ b ∈ B, b.apath ≠ p) ∨
       (k = .added ∧ (∃ b ∈ B, b.apath = p) ∧ ∀ a ∈ A, a.apath ≠ p) ∨
       (∃ a ∈ A, ∃ b ∈ B, a.apath = p ∧ b.apath = p ∧
          ((k = .unchanged ∧ PropertyUnchanged a b) ∨ (k = .changed ∧ ¬ PropertyUnchanged a b)))) := by
  rw [diff_mem_iff hA hB, ← classified_iff_classify hA hB]
  have hk : keep inc k = true ↔ (inc = true ∨ k ≠ .unchanged) := by simp [keep]
  rw [hk, and_comm]
  apply and_congr_right; intro _
  constructor
  · rintro ⟨m, hm, e⟩
    cases m with
    | left a =>
      simp only [Matched.toEntryChange, Prod.mk.injEq] at e
      obtain ⟨rfl, rfl⟩ := e
      exact .inl ⟨rfl, ⟨a, hm.1, rfl⟩, hm.2⟩
    | right b =>
      simp only [Matched.toEntryChange, Prod.mk.injEq] at e
      obtain ⟨rfl, rfl⟩ := e
      exact .inr (.inl ⟨rfl, ⟨b, hm.1, rfl⟩, hm.2⟩)
    | both a b =>
      simp only [Matched.toEntryChange, Prod.mk.injEq] at e
      obtain ⟨rfl, rfl⟩ := e
      refine .inr (.inr ⟨a, hm.1, b, hm.2.1, rfl, hm.2.2.symm, ?_⟩)
      by_cases hu : diffMetadata a.meta b.meta = .unchanged
      · exact .inl ⟨hu, (diffMetadata_entries a b).1 hu⟩
      · refine .inr ⟨?_, fun h => hu ((diffMetadata_entries a b).2 h)⟩
        unfold diffMetadata at hu ⊢
        split <;> simp_all
  · rintro (⟨rfl, ⟨a, ha, rfl⟩, h⟩ | ⟨rfl, ⟨b, hb, rfl⟩, h⟩ | ⟨a, ha, b, hb, rfl, e, h⟩)
    · exact ⟨.left a, ⟨ha, h⟩, rfl⟩
    · exact ⟨.right b, ⟨hb, h⟩, rfl⟩
    · refine ⟨.both a b, ⟨ha, hb, e.symm⟩, ?_⟩
      simp only [Matched.toEntryChange, Prod.mk.injEq, true_and]
      rcases h with ⟨rfl, h⟩ | ⟨rfl, h⟩
      · exact (diffMetadata_entries a b).2 h
      · have hu : diffMetadata a.meta b.meta ≠ .unchanged :=
          fun x => h ((diffMetadata_entries a b).1 x)
        unfold diffMetadata at hu ⊢
        split <;> simp_all

/-! ### 5. No panic on well-formed listings -/

/-- The only panics on the way (`Kind::Unknown`, a symlink without target, a stored mtime that
`Timestamp::new` refuses) need an index entry no backup writes; without one, the real `diff`
returns exactly the pure `diff`. -/
theorem diffChecked_ok {A : List IndexEntry} {B : List SrcEntry}
    (hA : ∀ a ∈ A, a.panicSite = none) (hB : ∀ b ∈ B, b.panicSite = none) (inc : Bool) :
    diffChecked A B inc = .ok (diff A B inc) := by
  unfold diffChecked diff
  have key : ∀ ms : List Matched, (∀ m ∈ ms, m.toEntryChangeChecked = .ok m.toEntryChange) →
      diffLoopChecked inc ms = .ok (diffLoop inc ms) := by
    intro ms
    induction ms with
    | nil => intro _; rfl
    | cons m ms ih =>
      intro h
      have h1 := h m (by simp)
      have h2 := ih fun x hx => h x (by simp [hx])
      simp only [diffLoopChecked, h1, h2, Outcome.bind, diffLoop]
  apply key
  intro m hm
  obtain ⟨hl, hr, hb⟩ := merge_mem_sides hm
  cases m with
  | left a => simp [Matched.toEntryChangeChecked, hA a (hl a rfl)]
  | right b => simp [Matched.toEntryChangeChecked, hB b (hr b rfl)]
  | both a b => simp [Matched.toEntryChangeChecked, hA a (hb a b rfl).1, hB b (hb a b rfl).2]

/-- Exactly which index entries are harmless. -/
theorem panicSite_none_iff (e : IndexEntry) :
    e.panicSite = none ↔
      e.kind ≠ .unknown ∧ (e.kind = .symlink → e.target ≠ none) ∧
        e.mtimeNanos ≤ 999999999 ∧ secMin ≤ e.mtime ∧ e.mtime ≤ secMax := by
  unfold IndexEntry.panicSite indexMtime
  by_cases h1 : e.kind = .unknown
  · simp [h1]
  · by_cases h2 : e.kind = .symlink ∧ e.target = none
    · simp [h2]
    · have h2' : (e.kind = .symlink → e.target ≠ none) := fun a b => h2 ⟨a, b⟩
      by_cases h3 : e.mtimeNanos ≥ 2147483648
      · simp only [h1, h2, h3, if_true, if_false]
        constructor
        · intro x; cases x
        · intro ⟨_, _, x, _⟩; omega
      · by_cases h4 : e.mtime < secMin ∨ secMax < e.mtime ∨ e.mtimeNanos > 999999999
        · simp only [h1, h2, h3, h4, if_true, if_false]
          constructor
          · intro x; cases x
          · intro ⟨_, _, x, y, z⟩; omega
        · simp only [h1, h2, h3, h4, if_false, true_iff]
          exact ⟨h1, h2', by omega, by omega, by omega⟩

/-- Entries written by a backup from a representable source entry are harmless, so comparing a
version with the tree it was made from neither panics nor reports anything
(`diffChecked_ok` + `diff_self_clean`). -/
theorem madeFrom_panicSite_none {e : IndexEntry} {s : SrcEntry} (h : MadeFrom e s)
    (hs : s.panicSite = none) (hr : inRange s.mtimeNs) : e.panicSite = none := by
  obtain ⟨m, hm, he, _⟩ := h
  unfold metadataFromWith at hm
  rw [C01b.toIndex_eq_floor] at hm
  simp only [Outcome.bind, Outcome.ok.injEq] at hm
  subst hm
  rw [panicSite_none_iff]
  have hk : e.kind = s.kind := congrArg IndexEntry.kind he
  have ht : e.target = s.meta.target := congrArg IndexEntry.target he
  have hsec : e.mtime = s.mtimeNs / 1000000000 := congrArg IndexEntry.mtime he
  have hn : e.mtimeNanos = (s.mtimeNs % 1000000000).toNat := congrArg IndexEntry.mtimeNanos he
  unfold SrcEntry.panicSite at hs
  have h1 : s.kind ≠ .unknown := by
    intro x; simp [x] at hs
  have h2 : ¬ (s.kind = .symlink ∧ s.target = none) := by
    intro x; simp [x] at hs
  rw [C01b.inRange_iff] at hr
  refine ⟨hk ▸ h1, ?_, ?_, ?_, ?_⟩
  · intro hsym
    rw [ht]
    have : s.kind = .symlink := hk ▸ hsym
    simp only [SrcEntry.meta, this, if_true]
    exact fun x => h2 ⟨this, x⟩
  · rw [hn]; omega
  · rw [hsec]; unfold secMin; omega
  · rw [hsec]; unfold secMax; omega

/-! ### 6. The events of the next backup -/

/-- An index entry is canonical when some backup of the present code wrote it. -/
def Canonical (a : IndexEntry) : Prop := ∃ s, MadeFrom a s

/-- The fields of an entry some backup wrote. -/
theorem canonical_fields {a : IndexEntry} (h : Canonical a) :
    ∃ (s0 : SrcEntry) (p0 : Int × Nat), toIndex s0.mtimeNs = .ok p0 ∧ a.kind = s0.kind ∧ a.mtime = p0.1 ∧
      a.mtimeNanos = p0.2 ∧ a.target = s0.meta.target := by
  obtain ⟨s0, m0, hm0, ha, _⟩ := h
  unfold metadataFromWith at hm0
  cases hp0 : toIndex s0.mtimeNs with
  | panic site => simp [hp0, Outcome.bind] at hm0
  | ok p0 =>
    simp only [hp0, Outcome.bind, Outcome.ok.injEq] at hm0
    subst hm0
    exact ⟨s0, p0, hp0, congrArg IndexEntry.kind ha, congrArg IndexEntry.mtime ha,
      congrArg IndexEntry.mtimeNanos ha, congrArg IndexEntry.target ha⟩

theorem diffMetadata_changed_of_ne {a b : EntryMeta} (h : diffMetadata a b ≠ .unchanged) :
    diffMetadata a b = .changed := by
  unfold diffMetadata at h ⊢
  split
  · rfl
  · rename_i hc; simp [hc] at h

/-- For one merged pair, the event the next backup reports is the classification `diff` gives —
for every path missing from the source (`Deleted`, any kind) and for every path that is now a
FILE (`Added`, `Changed`, and `Unchanged` for the counters); for paths that are now
directories or symlinks the backup reports nothing at all (backup.rs `copy_dir`,
`copy_symlink`: "TODO: Emit the actual change"). -/
theorem backup_event_agrees (m : Matched)
    (hp : ∀ a b, m = .both a b → a.apath = b.apath ∧ Canonical a) :
    backupEvent m = .ok (if reportedByBackup m then some m.toEntryChange else none) := by
  cases m with
  | left a => rfl
  | right b =>
    simp only [backupEvent, reportedByBackup, Matched.toEntryChange, beq_iff_eq]
  | both a b =>
    obtain ⟨hap, hcan⟩ := hp a b rfl
    simp only [backupEvent, reportedByBackup, Matched.toEntryChange, beq_iff_eq]
    by_cases hf : b.kind = .file
    · simp only [hf, if_true]
      obtain ⟨s0, p0, hp0, hk0, hm0, hn0, htg0⟩ := canonical_fields hcan
      have ht0 := toIndex_exact _ _ hp0
      cases hpb : toIndex b.mtimeNs with
      | panic site => rw [C01b.toIndex_eq_floor] at hpb; cases hpb
      | ok pb =>
        by_cases hh : heuristicallyUnchanged a b = true
        · simp only [hh, if_true, metadataFrom, metadataFromWith, hpb, Outcome.bind]
          congr 3
          simp only [heuristicallyUnchanged, Bool.and_eq_true, beq_iff_eq] at hh
          obtain ⟨⟨hk, hts⟩, hsz⟩ := hh
          -- same instant, hence the same stored pair
          have hpair : pb = p0 := by
            have e1 : a.ts = s0.mtimeNs := by
              unfold IndexEntry.ts; rw [hm0, hn0]; exact ht0
            have e2 : s0.mtimeNs = b.mtimeNs := by rw [← e1, hts]
            rw [e2, hpb] at hp0; cases hp0; rfl
          have hkind : s0.kind = .file := by rw [← hk0, hk, hf]
          have htgt : a.target = none := by rw [htg0]; simp [SrcEntry.meta, hkind]
          have hbt : b.meta.target = none := by simp [SrcEntry.meta, hf]
          have hsize : a.size = b.size := by
            simpa [IndexEntry.meta, SrcEntry.meta, hf] using hsz
          by_cases hu : diffMetadata a.meta b.meta = .unchanged
          · rw [hu]
            obtain ⟨_, h2, h3, h4, _, _⟩ := (diffMetadata_entries a b).1 hu
            have : (IndexEntry.mk b.apath b.kind pb.1 pb.2 (some b.unixMode) b.user b.group
                a.addrs b.meta.target) = a := by
              rw [hpair, hbt]
              cases a
              simp only [IndexEntry.mk.injEq] at *
              simp_all
            simp [this]
          · have hne : ¬ ((IndexEntry.mk b.apath b.kind pb.1 pb.2 (some b.unixMode) b.user
                b.group a.addrs b.meta.target) = a) := by
              intro e
              apply hu
              rw [diffMetadata_entries]
              refine ⟨hk, ?_, ?_, ?_, fun _ => ⟨hsize, hts⟩, fun hs => by rw [hf] at hs; cases hs⟩
              · rw [← e]
              · rw [← e]
              · rw [← e]
            rw [diffMetadata_changed_of_ne hu]
            simp [hne]
        · simp only [hh]
          simp only [Bool.false_eq_true, if_false]
          congr 3
          -- the heuristic failed: kind, mtime or size differ, so diff says changed too
          have : diffMetadata a.meta b.meta ≠ .unchanged := by
            intro hu
            obtain ⟨h1, _, _, _, h5, _⟩ := (diffMetadata_entries a b).1 hu
            obtain ⟨h5a, h5b⟩ := h5 hf
            apply hh
            simp [heuristicallyUnchanged, h1, h5b, IndexEntry.meta, SrcEntry.meta, hf, h5a]
          rw [diffMetadata_changed_of_ne this]
    · simp [hf]

/-- **The changes reported by the next backup name the same added, changed and deleted
files**: the event stream is the merge restricted to reported pairs (deleted paths and paths
that are now files), each with the classification `diff` gives it.  Hypotheses: sorted
listings and a basis written by a backup (`Canonical`).  (`metadata_from` cannot panic any
more, C01 b `toIndex_eq_floor`.) -/
theorem backup_events_agree {A : List IndexEntry} {B : List SrcEntry}
    (hA : SortedA A) (hB : SortedB B) (hc : ∀ a ∈ A, Canonical a) :
    backupEvents A B =
      .ok (((mergeEntries A B).filter reportedByBackup).map Matched.toEntryChange) := by
  unfold backupEvents
  have key : ∀ ms : List Matched,
      (∀ m ∈ ms, backupEvent m = .ok (if reportedByBackup m then some m.toEntryChange else none)) →
      backupEventsLoop ms = .ok ((ms.filter reportedByBackup).map Matched.toEntryChange) := by
    intro ms
    induction ms with
    | nil => intro _; rfl
    | cons m ms ih =>
      intro h
      have h1 := h m (by simp)
      have h2 := ih fun x hx => h x (by simp [hx])
      simp only [backupEventsLoop, h1, h2, Outcome.bind, List.filter_cons]
      by_cases hr : reportedByBackup m = true <;> simp [hr]
  apply key
  intro m hm
  apply backup_event_agrees
  rintro a b rfl
  obtain ⟨h1, h2, h3⟩ := (merge_mem_iff hA hB _).1 hm
  exact ⟨h3, hc a h1⟩

/-! ### Non-vacuity and witnesses -/

section Examples
-- "/", "/a", "/b", "/c"; modes are decimal: 0o755 = 493, 0o644 = 420, 0o777 = 511
def root : Str := [47]
def pa : Str := [47, 97]
def pb : Str := [47, 98]
def pc : Str := [47, 99]

def srcRoot : SrcEntry :=
  { apath := root, kind := .dir, mtimeNs := 5000000000, unixMode := 493,
    user := some [114], group := some [114] }
def srcA : SrcEntry :=
  { apath := pa, kind := .file, mtimeNs := 1700000000123456789, unixMode := 420,
    user := some [114], group := some [114], size := 3, content := [1, 2, 3] }
def srcB : SrcEntry :=
  { apath := pb, kind := .symlink, mtimeNs := 7, unixMode := 511,
    user := some [114], group := some [114], target := some [120] }

def ixRoot : IndexEntry :=
  { apath := root, kind := .dir, mtime := 5, mtimeNanos := 0,
    unixMode := some 493, user := some [114], group := some [114], addrs := [], target := none }
def ixA : IndexEntry :=
  { apath := pa, kind := .file, mtime := 1700000000, mtimeNanos := 123456789,
    unixMode := some 420, user := some [114], group := some [114],
    addrs := [{ hash := [], start := 0, len := 2 }, { hash := [], start := 5, len := 1 }],
    target := none }
def ixB : IndexEntry :=
  { apath := pb, kind := .symlink, mtime := 0, mtimeNanos := 7,
    unixMode := some 511, user := some [114], group := some [114], addrs := [],
    target := some [120] }

example : SortedA [ixRoot, ixA, ixB] := by unfold SortedA; decide
example : SortedB [srcRoot, srcA, srcB] := by unfold SortedB; decide
theorem ex_madeA : MadeFrom ixA srcA := ⟨{ ixA with addrs := [] }, by decide, by decide, by decide⟩
theorem ex_madeB : MadeFrom ixB srcB := ⟨ixB, by decide, by decide, by decide⟩
theorem ex_madeRoot : MadeFrom ixRoot srcRoot := ⟨ixRoot, by decide, by decide, by decide⟩
example : Pointwise MadeFrom [ixRoot, ixA, ixB] [srcRoot, srcA, srcB] :=
  .cons ex_madeRoot (.cons ex_madeA (.cons ex_madeB .nil))
example : ∀ a ∈ [ixRoot, ixA, ixB], Canonical a := by
  intro a ha
  simp only [List.mem_cons, List.not_mem_nil, or_false] at ha
  rcases ha with rfl | rfl | rfl
  · exact ⟨_, ex_madeRoot⟩
  · exact ⟨_, ex_madeA⟩
  · exact ⟨_, ex_madeB⟩
-- the tree a version was made from: all unchanged / nothing
example : diff [ixRoot, ixA, ixB] [srcRoot, srcA, srcB] true =
    [(root, .unchanged), (pa, .unchanged), (pb, .unchanged)] := by decide +kernel
example : diff [ixRoot, ixA, ixB] [srcRoot, srcA, srcB] false = [] := by decide +kernel
-- a modified tree: /a touched (mtime only), /b removed, /c added
def srcA' : SrcEntry := { srcA with mtimeNs := 1700000001000000000 }
def srcC : SrcEntry :=
  { apath := pc, kind := .dir, mtimeNs := 0, unixMode := 448, user := none, group := none }
example : diff [ixRoot, ixA, ixB] [srcRoot, srcA', srcC] false =
    [(pa, .changed), (pb, .deleted), (pc, .added)] := by decide +kernel
example : specDiff [ixRoot, ixA, ixB] [srcRoot, srcA', srcC] false =
    [(pa, .changed), (pb, .deleted), (pc, .added)] := by
  rw [← diff_exact (by unfold SortedA; decide) (by unfold SortedB; decide)]
  decide +kernel
-- the next backup's events: /c is a directory, so no event for it
example : backupEvents [ixRoot, ixA, ixB] [srcRoot, srcA', srcC] =
    .ok [(pa, .changed), (pb, .deleted)] := by decide +kernel
-- each single attribute matters, with the right guard
example : diffMetadata ixA.meta { srcA with unixMode := 384 }.meta = .changed := by decide
example : diffMetadata ixA.meta { srcA with group := some [120] }.meta = .changed := by decide
example : diffMetadata ixA.meta { srcA with size := 4 }.meta = .changed := by decide
example : diffMetadata ixA.meta { srcA with kind := .dir }.meta = .changed := by decide
example : diffMetadata ixB.meta { srcB with target := some [121] }.meta = .changed := by decide
example : diffMetadata ixB.meta { srcB with mtimeNs := 99 }.meta = .unchanged := by decide
example : diffMetadata ixRoot.meta { srcRoot with mtimeNs := 99 }.meta = .unchanged := by decide
/-- `IndexEntry::size()` is `Some(Σ len)` even for a directory (here 3 bytes of addresses, which
no backup writes) while the source reports `None`; the comparison never looks. -/
theorem dir_size_not_compared :
    diffMetadata { ixRoot with addrs := [{ hash := [], start := 0, len := 3 }] }.meta srcRoot.meta
      = .unchanged := by decide
/-- NOT detected (and not claimed by the property): content rewritten with the same length and
the mtime put back.  `diff` compares metadata only. -/
theorem same_size_rewrite_unseen :
    diffMetadata ixA.meta { srcA with content := [9, 9, 9] }.meta = .unchanged := by decide
-- panics are reachable only through odd index entries
example : diffChecked [{ ixA with mtimeNanos := 1000000000 }] [srcA] true = .panic siteDecNew := by
  decide +kernel
example : diffChecked [{ ixB with target := none }] [] true = .panic siteTargetNone := by
  decide +kernel
example : ixA.panicSite = none ∧ srcA.panicSite = none := by decide
end Examples

end Conserve.C18
