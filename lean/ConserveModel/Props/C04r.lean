import ConserveModel.Proofs.FaultRestore
import ConserveModel.Proofs.NoPanicBackup
import ConserveModel.Proofs.FaultSpent
import ConserveModel.Props.C02h
/-
C04, the RESTORE half — "Whatever storage operations fail during a backup … every file entry that ends
up recorded in any version restores to exactly the bytes that file had in the source, never another
file's bytes and never a dangling reference.  If the backup reports complete success (no error returned
and none counted) the version restores the whole source exactly; if anything was skipped, an error is
reported."

Props/C04.lean proved the store-level facts (`Extends`, `NoDangling`, `readBack` of every recorded file
entry) for every world.  This file lifts them through `restore`:

* `fault_recorded_restores` (1a) — EVERY world that honours `CreateNew` (any fault list, any crash
  point): on the archive the run leaves, every file entry recorded in the new version is read by
  restore's own block reader to exactly its source file's bytes, with no error; and every FILE node that
  restoring the new version (fault-free) yields for a path the new version recorded carries those bytes
  and is complete.  If the new version has a tail, that is every file node.  `fault_restore_returns`: that
  restore returns nodes whenever the new version's head opens.
* `fault_success_is_exact` (1b) — any fault list, no crash point: if `backup` returns statistics with
  `errors = 0`, the new version is complete and restores (by id and as "latest") to exactly
  `src.map (expectedNode o)`, reporting nothing.  NO hypothesis about emitted events is needed: faults
  on the READ side of the prelude (the first look at the lock, the basis listing) can be swallowed or
  only reported, but then the basis is merely shorter/different and every file is stored again; every
  fault on the WRITE side is either counted (`copy_entry`) or aborts the backup (`flush_group`,
  `finish_hunk`, `Band::close`, `Band::create`, `list_blocks`).  So the statement is TRUE in the model:
  no fault is swallowed into a false success.
* `fault_skipped_is_reported` (1c) — the contrapositive, with the outcome spelled out: a backup never
  panics (C10), so it either fails, or returns statistics; and if the new version does not restore to
  exactly the source — in particular if some source entry is missing from it — then `errors > 0`.

Non-vacuity includes a world in which a fault DOES fire and is swallowed (`Example.swallowWorld`: the first
look at `GC_LOCK` fails with `NotFound`; `swallow_run` shows the backup still returns statistics without
errors — by `Fault.unfaulted_of_spent` + `Fault.sim`, not by evaluation — and 1b gives the exact restore).

Proof of 1b (Proofs/FaultSim.lean, FaultStrict.lean, FaultFinal.lean, FaultRestore.lean): `Strict` —
"returned without an error value ⇒ no operation of the run hit a fault" — is shown for every piece of
the writer, and for the main loop with "no error counted"; an unfaulted run in a world with faults is,
step by step, the run in the fault-free world (`Fault.sim`), so C01a's analysis of the fault-free main
part applies to it verbatim.
-/
namespace Conserve.C04r
open Conserve Conserve.Exact Conserve.Inv Conserve.Conf Conserve.Fault Conserve.Hist

variable {H : Str → Str}

/-! ## Hypotheses -/

/-- What 1b/1c assume of the archive the backup starts from: `C01a.ArchiveGood` WITHOUT "no `GC_LOCK`"
and WITHOUT "every version lists without complaint" — a map and a tree with directories where the
layout has them and content-addressed blocks (`StoreOK`); usable hunks strictly increasing in every
version; no dangling reference; the tool's own "looks unchanged ⇒ is unchanged" assumption. -/
structure GoodStart (H : Str → Str) (src : List SrcEntry) (s : Store) : Prop where
  st : StoreOK H s
  sorted : ∀ b n v, s.get? (.hunk b n) = some v → strictlySorted ((ownEntries s b).map (·.apath)) = true
  noDangling : NoDangling H s
  heuristic : HeuristicSoundStore H src s

theorem GoodStart.of_archiveGood {src : List SrcEntry} {s : Store} (h : ArchiveGood H src s) :
    GoodStart H src s := ⟨h.st, h.sorted, h.noDangling, h.heuristic⟩

theorem GoodStart.wf {src : List SrcEntry} {s : Store} (h : GoodStart H src s) : ArchWF s :=
  archWF_of h.st h.sorted

/-- The worlds of 1b/1c: ANY fault list (any operation, any error kind, any number), any trace and
step count so far; no crash point, alive, `CreateNew` honoured. -/
abbrev FaultWorld (w : World) (s : Store) : Prop := LiveAt w s

theorem faultWorld_of_faults (s : Store) (fs : List Fault) : FaultWorld { store := s, faults := fs } s :=
  ⟨⟨rfl, rfl, rfl⟩, rfl⟩

/-- The restore the statements are about: version `b`, whole tree, nothing excluded, fault-free. -/
abbrev restoreOf (H : Str → Str) (b : Nat) (s : Store) : Outcome (List RNode) × World :=
  (restore H (.specified b) [slash] (fun _ => false)).run (World.clean s)

/-! ## 1b — success with no error counted is exact, under any faults -/

/-- The C04 setting from `GoodStart`, for any world on that store. -/
theorem setting_of {o : BackupOpts} {src : List SrcEntry} {s : Store} {w : World} (hinj : Function.Injective H)
    (ho : 0 < o.maxBlockSize) (hsrc : SrcGood src) (hs : GoodStart H src s) (hw : FaultWorld w s) :
    C04.Setting H o src w := by
  obtain ⟨hl, rfl⟩ := hw
  exact C04.Setting.of_store hinj ho hsrc.wf hl.ecn hs.st.noDup hs.st.blocks hs.noDangling hs.heuristic

/-- **`fault_success_is_exact`.**  `H` injective with names of at least three characters, positive
block size, a good source listing (`SrcGood`), a good starting archive (`GoodStart`), a world with ANY
fault list and no crash point.  If the run returns `.ok stats` with `stats.errors = 0`, then on the
archive it leaves: nothing that was there changed; the new version `newBandOf s` is complete; its
listing records the source entry by entry; restoring it — by id, or as the latest complete version — in
the fault-free world returns EXACTLY `src.map (expectedNode o)` and reports nothing. -/
theorem fault_success_is_exact (H : Str → Str) (hinj : Function.Injective H)
    (hlen : ∀ d, subdirNameChars ≤ (H d).length) (s : Store) (o : BackupOpts) (src : List SrcEntry)
    (ho : 0 < o.maxBlockSize) (hsrc : SrcGood src) (hs : GoodStart H src s) (w : World) (hw : FaultWorld w s)
    (stats : Stats) (hrun : ((backup H o src).run w).1 = .ok stats) (herr : stats.errors = 0) :
    Extends s ((backup H o src).run w).2.store ∧
      FinalFacts H o src s ((backup H o src).run w).2.store := by
  have hset := setting_of (o := o) hinj ho hsrc hs hw
  obtain ⟨hsf, hf⟩ := backup_faulty_final hlen ho hsrc hs.st hw hrun herr
  have hws : w.store = s := hw.store
  refine ⟨hws ▸ C04.faults_extends hset, final_exact hf hsrc hs.st hs.wf ?_⟩
  intro n es hh
  have h0 : hunkAt w.store (newBandOf s) n = none := by
    rw [hws]
    simp [hunkAt, fresh_under_new hs.st (k := .hunk (newBandOf s) n) (by simp [Key.isUnder, Key.parent])]
  exact C04.faults_recorded_content hset (newBandOf s) n es h0 hh

/-- The same for the world written out: archive `s`, fault list `fs`, nothing else. -/
theorem fault_success_is_exact_faults (H : Str → Str) (hinj : Function.Injective H)
    (hlen : ∀ d, subdirNameChars ≤ (H d).length) (s : Store) (o : BackupOpts) (src : List SrcEntry)
    (ho : 0 < o.maxBlockSize) (hsrc : SrcGood src) (hs : GoodStart H src s) (fs : List Fault)
    (stats : Stats) (hrun : ((backup H o src).run { store := s, faults := fs }).1 = .ok stats)
    (herr : stats.errors = 0) :
    (restoreOf H (newBandOf s) ((backup H o src).run { store := s, faults := fs }).2.store).1
        = .ok (src.map (expectedNode o)) ∧
      (restoreOf H (newBandOf s) ((backup H o src).run { store := s, faults := fs }).2.store).2.events = [] := by
  obtain ⟨_, hf⟩ := fault_success_is_exact H hinj hlen s o src ho hsrc hs _ (faultWorld_of_faults s fs) stats hrun herr
  exact ⟨hf.restoreSpecified, hf.restoreSpecifiedSilent⟩

/-! ## 1c — if anything was skipped, an error is reported -/

/-- `backup` never panics, in any world (C10): it fails or returns statistics. -/
theorem backup_fails_or_returns (H : Str → Str) (o : BackupOpts) (src : List SrcEntry) (w : World) :
    (∃ e, ((backup H o src).run w).1 = .err e) ∨ (∃ stats, ((backup H o src).run w).1 = .ok stats) := by
  rcases (NP.noPanic_iff _).1 (NP.backup_safe H o src).noPanic w with h | h
  · exact Or.inr h
  · exact Or.inl h

/-- **`fault_skipped_is_reported`.**  Same setting as 1b.  If restoring the new version on the archive
the run leaves does NOT return exactly the source, then the run failed (`.err`), or it returned
statistics that count at least one error.  (Panics are impossible; error EVENTS need not be consulted.) -/
theorem fault_skipped_is_reported (H : Str → Str) (hinj : Function.Injective H)
    (hlen : ∀ d, subdirNameChars ≤ (H d).length) (s : Store) (o : BackupOpts) (src : List SrcEntry)
    (ho : 0 < o.maxBlockSize) (hsrc : SrcGood src) (hs : GoodStart H src s) (w : World) (hw : FaultWorld w s)
    (hmiss : (restoreOf H (newBandOf s) ((backup H o src).run w).2.store).1 ≠ .ok (src.map (expectedNode o))) :
    (∃ e, ((backup H o src).run w).1 = .err e) ∨
      (∃ stats, ((backup H o src).run w).1 = .ok stats ∧ 0 < stats.errors) := by
  rcases backup_fails_or_returns H o src w with h | ⟨stats, h⟩
  · exact Or.inl h
  · refine Or.inr ⟨stats, h, Nat.pos_of_ne_zero fun h0 => hmiss ?_⟩
    exact (fault_success_is_exact H hinj hlen s o src ho hsrc hs w hw stats h h0).2.restoreSpecified

/-- In the words of the property: if some source entry `sf` is missing from what the new version
restores to (the restore fails, or returns nodes among which `expectedNode o sf` does not occur), an
error was returned or counted. -/
theorem fault_missing_entry_is_reported (H : Str → Str) (hinj : Function.Injective H)
    (hlen : ∀ d, subdirNameChars ≤ (H d).length) (s : Store) (o : BackupOpts) (src : List SrcEntry)
    (ho : 0 < o.maxBlockSize) (hsrc : SrcGood src) (hs : GoodStart H src s) (w : World) (hw : FaultWorld w s)
    (sf : SrcEntry) (hsf : sf ∈ src)
    (hmiss : ∀ nodes, (restoreOf H (newBandOf s) ((backup H o src).run w).2.store).1 = .ok nodes →
      expectedNode o sf ∉ nodes) :
    (∃ e, ((backup H o src).run w).1 = .err e) ∨
      (∃ stats, ((backup H o src).run w).1 = .ok stats ∧ 0 < stats.errors) := by
  apply fault_skipped_is_reported H hinj hlen s o src ho hsrc hs w hw
  intro h
  exact hmiss _ h (List.mem_map.mpr ⟨sf, hsf, rfl⟩)

/-! ## 1a — whatever failed, what was recorded restores to the source's bytes -/

/-- The entries recorded in the hunks of version `b` that the listing can use. -/
theorem mem_ownEntries {s : Store} {b : Nat} {e : IndexEntry} (he : e ∈ ownEntries s b) :
    ∃ n es, hunkAt s b n = some es ∧ e ∈ es := by
  unfold ownEntries at he
  obtain ⟨es, hes, hee⟩ := List.mem_flatten.mp he
  obtain ⟨n, _, hn⟩ := List.mem_filterMap.mp hes
  unfold usableHunk at hn
  split at hn
  · rename_i es' hg
    split at hn
    · cases hn; exact ⟨n, es, by simp [hunkAt, hg], hee⟩
    · cases hn
  · cases hn; cases hee
  · cases hn

/-- `nodeOf` keeps path and kind. -/
theorem nodeOf_apath (s : Store) (e : IndexEntry) : (nodeOf H s e).apath = e.apath := by
  unfold nodeOf; split <;> rfl
theorem nodeOf_kind (s : Store) (e : IndexEntry) : (nodeOf H s e).kind = e.kind := by
  unfold nodeOf; split <;> rfl

/-- What 1a concludes about the archive `s'` a run left, for the new version `nb`. -/
structure RecordedRestores (H : Str → Str) (src : List SrcEntry) (s' : Store) (nb : Nat) : Prop where
  /-- every file entry recorded in the new version's (usable) hunks belongs to the source file with its
  path, and restore's block reader returns exactly that file's bytes for it, without error -/
  entries : ∀ e ∈ ownEntries s' nb, e.kind = .file →
    ∃ sf ∈ src, sf.apath = e.apath ∧ sf.kind = .file ∧
      readBack H s' e.addrs = some sf.content ∧ readContentP H s' e.addrs [] = (sf.content, none)
  /-- every FILE node a fault-free restore of the new version yields for a path the new version recorded
  (every file node, if the new version has a tail) has exactly the source file's bytes and is complete -/
  nodes : ∀ nodes, (restoreOf H nb s').1 = .ok nodes → ∀ nd ∈ nodes, nd.kind = .file →
    (nd.apath ∈ (bandEntries s' nb).map (·.apath) ∨ isComplete s' nb = true) →
    ∃ sf ∈ src, sf.apath = nd.apath ∧ sf.kind = .file ∧ nd.content = sf.content ∧ nd.complete = true

/-- **`fault_recorded_restores`.**  ANY world that honours `CreateNew` — any fault list AND any crash
point, dead or alive.  `H` injective with names of at least three characters; positive block size; for
source files `st_size` is the length of what reading returns (`SrcWF`); the source listing is strictly
increasing, valid, with a target exactly for symlinks (`SrcSortedWeak`, what the walk yields); the
starting archive satisfies C13's invariant (`CI`: conforms, a tree, a map), has no dangling reference
and satisfies the tool's own unchanged-file assumption.  Then, however the run ended (statistics,
error, killed), `RecordedRestores` holds of the archive it leaves and the version id it uses. -/
theorem fault_recorded_restores (H : Str → Str) (hinj : Function.Injective H) (hlen : HashLen H)
    (o : BackupOpts) (src : List SrcEntry) (ho : 0 < o.maxBlockSize) (hwf : SrcWF src)
    (hsw : C13.SrcSortedWeak src) (w : World) (he : w.enforceCreateNew = true) (hci : CI H w.store)
    (hd : NoDangling H w.store) (hheur : HeuristicSoundStore H src w.store) :
    RecordedRestores H src ((backup H o src).run w).2.store (newBandOf w.store) := by
  have hbg : BlocksGood H w.store := by
    have := hci.conf
    simp only [Conforms, Bool.and_eq_true] at this
    exact blocksGood_of_conform H this.1.2
  have hset : C04.Setting H o src w := C04.Setting.of_store hinj ho hwf he hci.nodup hbg hd hheur
  have hci' : CI H ((backup H o src).run w).2.store := C13.backup_ci_all_worlds hinj hlen hsw he hci
  have wf' : ArchWF ((backup H o src).run w).2.store := archWF_of_ci hci'
  have hn' : UniqueKeys ((backup H o src).run w).2.store := (uniqueKeys_iff_nodup _).2 hci'.nodup
  -- nothing of the new version's index was there before
  have hnew : ∀ n, hunkAt w.store (newBandOf w.store) n = none := by
    intro n
    cases hg : w.store.get? (.hunk (newBandOf w.store) n) with
    | none => simp [hunkAt, hg]
    | some v =>
      have := nextBandId_gt (bandIdsOf w.store) _ (bandDir_of_hunk hci.dirs hg)
      exact absurd this (Nat.lt_irrefl _)
  have hentries : ∀ e ∈ ownEntries ((backup H o src).run w).2.store (newBandOf w.store), e.kind = .file →
      ∃ sf ∈ src, sf.apath = e.apath ∧ sf.kind = .file ∧
        readBack H ((backup H o src).run w).2.store e.addrs = some sf.content ∧
        readContentP H ((backup H o src).run w).2.store e.addrs [] = (sf.content, none) := by
    intro e hee hk
    obtain ⟨n, es, hh, hmem⟩ := mem_ownEntries hee
    obtain ⟨sf, hsf, hap, hkf, hrb⟩ := C04.faults_recorded_content_exact hset _ n es (hnew n) hh e hmem hk
    exact ⟨sf, hsf, hap, hkf, hrb, by simpa using readContentP_of_readBack hrb []⟩
  refine ⟨hentries, ?_⟩
  intro nodes hres nd hnd hkind hfrom
  -- the restore is `restoreRaw`, its listing is `listSpec`
  have hraw := (restore_raw_runs (H := H) hn' (newBandOf w.store)).clean.1
  rw [restoreOf, hraw] at hres
  unfold restoreRaw at hres
  split at hres
  · cases hres
  · cases hres
  · split at hres
    · rw [stitchAllP_fst wf'] at hres
      split at hres
      · rename_i es hfil
        obtain ⟨e', he', hnode⟩ := restoreP_node_inv es [] nodes hres nd hnd
        have hlisted : e' ∈ listSpec ((backup H o src).run w).2.store (newBandOf w.store) :=
          mem_of_filterP hfil e' he'
        have hk' : e'.kind = .file := by rw [← nodeOf_kind (H := H), ← hnode]; exact hkind
        have hap' : nd.apath = e'.apath := by rw [hnode, nodeOf_apath]
        -- the entry comes from the new version itself
        have hown : e' ∈ bandEntries ((backup H o src).run w).2.store (newBandOf w.store) := by
          rcases hfrom with hp | hc
          · obtain ⟨e'', he'', hpe⟩ := List.mem_map.mp hp
            obtain ⟨⟨b, ⟨hb, htaken⟩, _⟩, hprov⟩ := (C08.stitch_provenance wf' _).2 e' hlisted
            rcases Nat.lt_or_ge b (newBandOf w.store) with hlt | hge
            · have := (hprov b hb htaken).2 _ (List.mem_cons_self ..) hlt e'' he''
              rw [hpe, hap'] at this
              exact absurd this (C11.cmp_irrefl _)
            · have : b = newBandOf w.store := Nat.le_antisymm (Exact.mem_chain_le hb) hge
              subst this
              exact (C08.mem_takenFrom.mp htaken).1
          · simpa [listSpec, hc] using hlisted
        have hown' : e' ∈ ownEntries ((backup H o src).run w).2.store (newBandOf w.store) := by
          unfold bandEntries at hown
          split at hown
          · exact hown
          · cases hown
        obtain ⟨sf, hsf, hap, hkf, _, hrc⟩ := hentries e' hown' hk'
        refine ⟨sf, hsf, hap.trans hap'.symm, hkf, ?_, ?_⟩
        · rw [hnode]; simp [nodeOf, hk', hrc]
        · rw [hnode]; simp [nodeOf, hk', hrc]
      · cases hres
      · cases hres
    · cases hres

/-- **The restore of the new version returns.**  Same setting as `fault_recorded_restores` (EVERY world).
If the new version's head opens on the archive the run leaves (`headOutcome … = ok`: the run got past
`Band::create`), restoring it in the fault-free world returns nodes: it neither fails nor panics — so
`RecordedRestores.nodes` is not vacuous.  (Without a head, `restore` refuses the version.) -/
theorem fault_restore_returns (H : Str → Str) (hinj : Function.Injective H) (hlen : HashLen H)
    (o : BackupOpts) (src : List SrcEntry) (hsw : C13.SrcSortedWeak src) (w : World)
    (he : w.enforceCreateNew = true) (hci : CI H w.store)
    (hh : headOutcome ((backup H o src).run w).2.store (newBandOf w.store) = .ok ()) :
    ∃ nodes, (restoreOf H (newBandOf w.store) ((backup H o src).run w).2.store).1 = .ok nodes := by
  have hci' : CI H ((backup H o src).run w).2.store := C13.backup_ci_all_worlds hinj hlen hsw he hci
  have hn' : UniqueKeys ((backup H o src).run w).2.store := (uniqueKeys_iff_nodup _).2 hci'.nodup
  obtain ⟨nodes, hn⟩ := restoreRaw_ok (H := H) hci' hh
  exact ⟨nodes, by rw [restoreOf, (restore_raw_runs (H := H) hn' (newBandOf w.store)).clean.1, hn]⟩

/-! ## Non-vacuity -/

namespace Example
open C01a.Example

/-- The freshly initialised archive of C01a's example is a good start for its example source. -/
theorem archive_start : GoodStart exH source archive :=
  GoodStart.of_archiveGood (ArchiveGood.of_noBands archive_ok archive_noBands archive_noLock source)

/-- A world with injected faults on that archive (a failing block write, a failing hunk write, a
refused directory creation): the hypotheses of 1b/1c about the world hold. -/
def faults : List Fault :=
  [{ at_ := { verb := .write, key := .block (exH [1, 2]), nth := 0 }, kind := .other },
   { at_ := { verb := .write, key := .hunk 0 1, nth := 0 }, kind := .permissionDenied },
   { at_ := { verb := .createDir, key := .blockDir [3, 4, 5], nth := 1 }, kind := .alreadyExists }]

example : FaultWorld { store := archive, faults := faults } archive := faultWorld_of_faults _ _

/-- 1c applies to that world (whatever that run does — it cannot be evaluated by the kernel —
if its new version does not restore to the source, an error was returned or counted). -/
example (hmiss : (restoreOf exH (newBandOf archive)
      ((backup exH opts source).run { store := archive, faults := faults }).2.store).1 ≠
        .ok (source.map (expectedNode opts))) :
    (∃ e, ((backup exH opts source).run { store := archive, faults := faults }).1 = .err e) ∨
      (∃ stats, ((backup exH opts source).run { store := archive, faults := faults }).1 = .ok stats ∧
        0 < stats.errors) :=
  fault_skipped_is_reported exH exH_inj exH_len archive opts source (by decide) source_good archive_start _
    (faultWorld_of_faults _ _) hmiss

/-- 1b's hypotheses are jointly satisfiable: the fault-free world is a `FaultWorld`, and there the run
returns statistics without errors (C01a), so the theorem applies and gives C01a's conclusion back. -/
example : FinalFacts exH opts source archive ((backup exH opts source).run (World.clean archive)).2.store := by
  have e := C01a.backup_restore_exact_nobasis exH exH_inj exH_len archive opts source (by decide) source_good
    archive_ok archive_noBands archive_noLock
  obtain ⟨stats, hrun, herr⟩ := e.ok
  exact (fault_success_is_exact exH exH_inj exH_len archive opts source (by decide) source_good archive_start
    (World.clean archive) ⟨⟨rfl, rfl, rfl⟩, rfl⟩ stats hrun herr).2

/-- … and on the archive a first backup leaves (an archive WITH a basis version), for any fault list:
`GoodStart` holds there (C01a: the archive is good again for the same source). -/
theorem s1_start : GoodStart exH source ((backup exH opts source).run (World.clean archive)).2.store :=
  GoodStart.of_archiveGood (C01a.backup_keeps_archive_good_same exH exH_inj exH_len archive opts source (by decide)
    source_good (ArchiveGood.of_noBands archive_ok archive_noBands archive_noLock source))

example (fs : List Fault) (stats : Stats)
    (hrun : ((backup exH {} source).run
      { store := ((backup exH opts source).run (World.clean archive)).2.store, faults := fs }).1 = .ok stats)
    (herr : stats.errors = 0) :
    (restoreOf exH (newBandOf ((backup exH opts source).run (World.clean archive)).2.store)
      ((backup exH {} source).run
        { store := ((backup exH opts source).run (World.clean archive)).2.store, faults := fs }).2.store).1
      = .ok (source.map (expectedNode {})) :=
  (fault_success_is_exact_faults exH exH_inj exH_len _ {} source (by decide) source_good s1_start fs stats hrun
    herr).1

/-- 1a applies to the empty archive and EVERY world on it — e.g. the faulty one above killed at
micro-step 11. -/
example : RecordedRestores exH source
    ((backup exH opts source).run { store := archive, faults := faults, crashAt := some 11 }).2.store
    (newBandOf archive) :=
  fault_recorded_restores exH exH_inj (fun c => exH_len c) opts source (by decide) source_good.wf
    C02h.Example.source_sorted.weak { store := archive, faults := faults, crashAt := some 11 } rfl
    C13.emptyArchive_ci
    (fun b n es h => by
      have h' : hunkAt C04.Example.archive b n = some es := h
      rw [C04.Example.archive_noHunks] at h'; cases h')
    (fun b n es h => by
      have h' : hunkAt C04.Example.archive b n = some es := h
      rw [C04.Example.archive_noHunks] at h'; cases h')

/-! A world in which a fault DOES fire and is swallowed: the first look at `GC_LOCK` fails with
`NotFound`, which `Transport::is_file` takes for "no such file".  The backup goes on, hits no other
fault, and — rightly — reports success; 1b applies to it. -/

def lockFault : Fault := { at_ := { verb := .metadata, key := .gcLock, nth := 0 }, kind := .notFound }
def swallowWorld : World := { store := archive, faults := [lockFault] }

/-- The world after the faulted first look at the lock, and its fault-free twin. -/
def swallowWorld1 : World := { swallowWorld with trace := [⟨.metadata .gcLock, .err .notFound⟩] }
def cleanWorld1 : World := { World.clean archive with trace := [⟨.metadata .gcLock, .err .notFound⟩] }

theorem swallow_first : gcIsLocked.run swallowWorld = (.ok false, swallowWorld1) := by rfl
theorem clean_first : gcIsLocked.run (World.clean archive) = (.ok false, cleanWorld1) := by rfl

theorem swallow_spent : Fault.Spent swallowWorld1 := by
  intro f hf
  simp only [swallowWorld1, swallowWorld, List.mem_singleton] at hf
  subst hf
  decide

/-- In that world the backup returns the same statistics as in the fault-free world: no error counted. -/
theorem swallow_run : ∃ stats, ((backup exH opts source).run swallowWorld).1 = .ok stats ∧ stats.errors = 0 := by
  have e := C01a.backup_restore_exact_nobasis exH exH_inj exH_len archive opts source (by decide) source_good
    archive_ok archive_noBands archive_noLock
  obtain ⟨stats, hrun, herr⟩ := e.ok
  refine ⟨stats, ?_, herr⟩
  rw [← hrun, backup_eq]
  unfold backupPrelude
  rw [Prog.inv_bind_assoc, Prog.run_bind, Prog.run_bind, swallow_first, clean_first]
  exact (sim _ (w := swallowWorld1) (c := cleanWorld1) ⟨rfl, rfl, rfl⟩ ⟨rfl, rfl, rfl, rfl⟩ rfl
    (unfaulted_of_spent _ ⟨rfl, rfl, rfl⟩ swallow_spent)).1

/-- 1b in a world where a fault fired and was swallowed: the version restores exactly. -/
example : (restoreOf exH (newBandOf archive) ((backup exH opts source).run swallowWorld).2.store).1
    = .ok (source.map (expectedNode opts)) := by
  obtain ⟨stats, hrun, herr⟩ := swallow_run
  exact (fault_success_is_exact exH exH_inj exH_len archive opts source (by decide) source_good archive_start
    swallowWorld ⟨⟨rfl, rfl, rfl⟩, rfl⟩ stats hrun herr).2.restoreSpecified

end Example

end Conserve.C04r
