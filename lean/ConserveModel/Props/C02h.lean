import ConserveModel.Proofs.HistRestore
import ConserveModel.Proofs.HistFrame
import ConserveModel.Proofs.HistLatest
import ConserveModel.Props.C01a
import ConserveModel.Props.C05
import ConserveModel.Props.C13
/-
C02 (run level) — Every completed version keeps restoring to exactly the tree it was made from.

"Across any sequence of operations (backups, interrupted backups, deletes of other versions, gc)
every version that was completed and not deleted keeps restoring to exactly the tree it was made
from, and 'latest complete' selects the newest of them."

This file proves the run-level half that Props/C02.lean left open (`C02.InvStatement`):

1. `restore_congr` — the frame lemma: what `restore(Specified(b))` returns and reports is a function
   of the keys at or under `b`'s directory, of whether `d/` is a directory, and of the content of the
   blocks `b`'s entries name.  Hypotheses: both stores are maps (`NoDupKeys`).  NOTHING else: no tree
   shape, no readable head, no sorted index, no intact blocks — it holds for damaged archives too.
2. `backup_any_world_keeps_restore` — a backup in ANY world (any faults, any crash point, dead or
   alive) that honours `CreateNew` keeps the restore (result and events) of every complete version
   whose blocks are present (`RefsPresent`; the archive a map with `d/` a directory; nothing about `H`,
   the options or the source).  `backup_any_world_keeps_restore_ci`: the same from `CI` and `NoDangling`.
3. `delete_keeps_restore` (= `C05.delete_keeps_restore_Statement`, proved as stated there) and
   `delete_any_world_keeps_restore`: deleting OTHER versions, in any world, keeps it too.
4. `history_keeps_restore`, `history_restores_source`, `latest_complete_spec`,
   `latest_complete_after_history`: induction over histories of `C13.Step`s.
5. `crashed_backup_keeps_latest` — C03's restore half: after a backup killed anywhere, "latest
   complete" restores to the same as before, unless the run got as far as creating the new tail file.
6. `InvStatementGood` (proved: `inv_statement_good`) and `inv_statement_refuted`: the literal
   `C02.InvStatement` is false in the model.

Helper files: Proofs/HistCongr.lean (the listing reads only the version's keys), Proofs/HistRestore.lean
(`restoreRaw`: restore as a pure function of any map; `restoreRaw_same`), Proofs/HistFrame.lean (`BSat`;
`backup_bandSame`, `backup_headRel`: what a backup can touch, in every world), Proofs/HistLatest.lean
(`latestP`, `restoreLatestRaw`, which version is selected).
-/
namespace Conserve.C02h
open Conserve Conserve.Exact Conserve.Hist Conserve.Inv Conserve.Conf

variable {H : Str → Str}

/-- The restore the property is about: a given version, the whole tree, nothing excluded, in the
fault-free world on archive `s`. -/
abbrev restoreOf (H : Str → Str) (b : Nat) (s : Store) : Outcome (List RNode) × World :=
  (restore H (.specified b) [slash] (fun _ => false)).run (World.clean s)

/-- Same result (the same nodes with the same contents, or the same error) and same reported events. -/
def SameRestore (H : Str → Str) (b : Nat) (s s' : Store) : Prop :=
  (restoreOf H b s').1 = (restoreOf H b s).1 ∧ (restoreOf H b s').2.events = (restoreOf H b s).2.events

/-- Restoring twice from the same archive gives the same. -/
theorem SameRestore.refl (H : Str → Str) (b : Nat) (s : Store) : SameRestore H b s s := ⟨rfl, rfl⟩

/-- `SameRestore` composes along a history. -/
theorem SameRestore.trans {b : Nat} {s s' s'' : Store} (h1 : SameRestore H b s s') (h2 : SameRestore H b s' s'') :
    SameRestore H b s s'' := ⟨h2.1.trans h1.1, h2.2.trans h1.2⟩

/-- The two ways the development writes "the store is a map" agree. -/
theorem uniqueKeys_of_noDup {s : Store} (h : NoDupKeys s) : UniqueKeys s := (uniqueKeys_iff_nodup s).2 h

/-! ## 1. The frame lemma -/

/-- **`restore_congr`.**  Let `s` and `s'` be maps (no path twice — a property of the representation,
true of every reachable store).  If `b` has a tail in `s` and `s'` agrees with `s` on
* every key at or under `b`'s directory (`BandSame`: head, tail, `i/`, `i/DDDDD/`, the hunk files —
  hence, as sets, on the directory listings; the ORDER of the listings may differ),
* whether `d/` is a directory (`list_blocks` fails iff it is not), and
* `blockContent` — present, decompresses, hashes to its name — of every block named by an entry of a
  hunk file of `b`,
then `restore(Specified(b), "/", no exclusions)` gives the same result and reports the same events on
`s'` as on `s`.  No well-formedness of either archive is assumed: `b`'s head may be unreadable, hunks
missing or undecodable, blocks missing or corrupt — then both restores fail / complain alike.
(The archive header and the root listing are not read by a restore of a given version.) -/
theorem restore_congr (H : Str → Str) {s s' : Store} {b : Nat} (hs : NoDupKeys s) (hs' : NoDupKeys s')
    (hc : isComplete s b = true) (hband : BandSame s s' b)
    (hroot : s'.get? .blockRoot = s.get? .blockRoot)
    (hblocks : ∀ n es, hunkAt s b n = some es → ∀ e ∈ es, ∀ a ∈ e.addrs,
      blockContent H s' a.hash = blockContent H s a.hash) :
    SameRestore H b s s' := by
  have h := (restore_raw_runs (H := H) (uniqueKeys_of_noDup hs) b).clean
  have h' := (restore_raw_runs (H := H) (uniqueKeys_of_noDup hs') b).clean
  have heq : restoreRaw H s' b = restoreRaw H s b :=
    restoreRaw_same hs hs' hband (fun hn => by rw [hc] at hn; cases hn) hroot
      (fun e he a ha => by
        obtain ⟨n, es, hh, hee⟩ := mem_stitchAllP_complete hc he
        exact hblocks n es hh e hee a ha)
  exact ⟨by rw [restoreOf, restoreOf, h'.1, h.1, heq], by rw [restoreOf, restoreOf, h'.2.2, h.2.2, heq]⟩

/-- The same for ANY version id `b`, complete or not: a version without tail is listed by stitching
it with the earlier versions, so the stores must agree on the whole chain `chain s b` (StitchSpec.lean:
`b`, then each nearest earlier version that has a head, up to the first that has a tail) — the keys
under each of its versions' directories and the blocks they name — and no version without a head
file below `b` may have one in `s'`, and (`hlost`, since the repair of `previous_existing_band`, which
reports an id it walks past if the head is gone but index hunk 0 is there) such a version has "lost
its head" in both stores or in neither. -/
theorem restore_congr_chain (H : Str → Str) {s s' : Store} {b : Nat} (hs : NoDupKeys s) (hs' : NoDupKeys s')
    (hsame : ∀ c ∈ chain s b, BandSame s s' c)
    (hnone : ∀ b', b' < b → bandPresent s b' = false → bandPresent s' b' = false)
    (hlost : ∀ b', b' < b → bandPresent s b' = false → headLost s' b' = headLost s b')
    (hroot : s'.get? .blockRoot = s.get? .blockRoot)
    (hblocks : ∀ c ∈ chain s b, ∀ n es, hunkAt s c n = some es → ∀ e ∈ es, ∀ a ∈ e.addrs,
      blockContent H s' a.hash = blockContent H s a.hash) :
    SameRestore H b s s' := by
  have h := (restore_raw_runs (H := H) (uniqueKeys_of_noDup hs) b).clean
  have h' := (restore_raw_runs (H := H) (uniqueKeys_of_noDup hs') b).clean
  have heq : restoreRaw H s' b = restoreRaw H s b :=
    restoreRaw_same hs hs' (hsame b (List.mem_cons_self ..))
      (fun hinc => chainSame_of_chainBelow b
        (fun c hc => hsame c (by simp only [chain, hinc]; exact List.mem_cons_of_mem _ hc)) hnone hlost)
      hroot
      (fun e he a ha => by
        obtain ⟨c, hc, n, es, hh, hee⟩ := mem_stitchAllP he
        exact hblocks c hc n es hh e hee a ha)
  exact ⟨by rw [restoreOf, restoreOf, h'.1, h.1, heq], by rw [restoreOf, restoreOf, h'.2.2, h.2.2, heq]⟩

/-! ## 2. Backups, in every world -/

/-- Every block named by an entry of a hunk file of `b` is present and not the zero-length leftover
of a killed write.  (Weaker than `NoDangling`: the block may be corrupt or too short — then the
restore complains, before and after.) -/
def RefsPresent (s : Store) (b : Nat) : Prop :=
  ∀ n es, hunkAt s b n = some es → ∀ e ∈ es, ∀ a ∈ e.addrs,
    ∃ v, s.get? (.block a.hash) = some v ∧ v ≠ .empty

/-- `NoDangling` (C03/C04/C05) gives `RefsPresent` for every version. -/
theorem refsPresent_of_noDangling {s : Store} (h : NoDangling H s) (b : Nat) : RefsPresent s b := by
  intro n es hh e he a ha
  have := h b n es hh e he a ha
  unfold readAddrPure blockContent at this
  cases hg : s.get? (.block a.hash) with
  | none => simp [hg] at this
  | some v =>
    refine ⟨v, rfl, ?_⟩
    rintro rfl
    simp [hg] at this

/-- A block that is there (with content) is the same block in every store that extends this one. -/
theorem blockContent_of_extends {s s' : Store} (hx : Extends s s') {h : Str} {v : FileVal}
    (hv : s.get? (.block h) = some v) (hne : v ≠ .empty) : blockContent H s' h = blockContent H s h := by
  simp only [blockContent, hx.keeps hv hne, hv]

/-- **`backup_any_world_keeps_restore`.**  Take ANY world `w` — any list of injected faults (on any
operation, of any kind), any crash point `crashAt := some j` (a write is two micro-steps), already
dead or not — that honours `CreateNew`, any options, any source listing.  If the archive `w.store`
is a map in which `d/` is a directory, and version `b` has a directory and a tail and its blocks are
present, then after
`backup` ran in `w` (however it ended: success, error, panic, killed at micro-step `j`) restoring `b`
gives the same result and the same events as before.  This is `C01a.later_backup_keeps_restore`
without "fault-free", without `ArchiveGood`, `SrcGood`, the injectivity of `H` or any condition on the
options.  (The keys under `b`'s directory are untouched in every world — `Hist.backup_bandSame`, which
does not even need `CreateNew`; `CreateNew` is what keeps existing blocks from being overwritten.
`hroot` is only used to know that `d/` itself is left alone: an existing directory is kept by
`Extends`; that a backup never CREATES `d/` is true but not proved.) -/
theorem backup_any_world_keeps_restore (H : Str → Str) (o : BackupOpts) (src : List SrcEntry) (w : World)
    (b : Nat) (he : w.enforceCreateNew = true) (hn : NoDupKeys w.store)
    (hroot : w.store.get? .blockRoot = some .dir)
    (hdir : w.store.get? (.bandDir b) = some .dir) (hc : isComplete w.store b = true)
    (hrefs : RefsPresent w.store b) :
    SameRestore H b w.store ((backup H o src).run w).2.store := by
  have hx : Extends w.store ((backup H o src).run w).2.store :=
    Prog.run_extends (backup_createOnly H o src) w he
  refine restore_congr H hn (Prog.run_noDupKeys _ w hn) hc (backup_bandSame H o src w hdir) ?_ ?_
  · rw [hroot]; exact hx.keeps hroot (by simp)
  · intro n es hh e hee a ha
    obtain ⟨v, hv, hne⟩ := hrefs n es hh e hee a ha
    exact blockContent_of_extends hx hv hne

/-- The same from the invariants the other properties maintain: `CI` (C13: conforms, a tree, a map —
kept by every backup and delete in every world) and `NoDangling` (C03/C04: kept by every backup in
every world, C05: by every delete). -/
theorem backup_any_world_keeps_restore_ci (H : Str → Str) (o : BackupOpts) (src : List SrcEntry) (w : World)
    (b : Nat) (he : w.enforceCreateNew = true) (hci : CI H w.store) (hnd : NoDangling H w.store)
    (hc : isComplete w.store b = true) :
    SameRestore H b w.store ((backup H o src).run w).2.store := by
  have hroot : w.store.get? .blockRoot = some .dir := by
    have := hci.conf
    simp only [Conforms, Bool.and_eq_true, beq_iff_eq] at this
    exact this.1.1.2
  have hdir : w.store.get? (.bandDir b) = some .dir := by
    unfold isComplete at hc
    cases hg : w.store.get? (.bandTail b) with
    | none => simp [hg] at hc
    | some v =>
      have := hci.dirs.parent_of_get? hg
      simpa [Store.parentOk, Key.parent] using this
  exact backup_any_world_keeps_restore H o src w b he hci.nodup hroot hdir hc (refsPresent_of_noDangling hnd b)

/-! ## 3. Deletes of other versions, in every world -/

/-- `d/` is not under any version's directory. -/
theorem underAny_blockRoot (D : List Nat) : underAny D .blockRoot = false := by
  simp [underAny, Key.isUnder, Key.parent]

/-- **`delete_any_world_keeps_restore`.**  ANY world (faults on any operation, any crash point — the
delete may be killed midway, between removing versions and collecting blocks, or fail and drop its
lock), `delete_bands D` in strict mode (the code as repaired, C05), any options.  If the archive is a
map and a tree, then every version `b` OUTSIDE `D` that has a tail restores afterwards exactly as it
did before (result and events).  Nothing else is assumed: no readability, no lock state, no
condition on `D`, no `NoDangling`. -/
theorem delete_any_world_keeps_restore (H : Str → Str) (D : List Nat) (o : DeleteOpts) (w : World) (b : Nat)
    (hn : NoDupKeys w.store) (hd : DirsOk w.store) (hb : b ∉ D) (hc : isComplete w.store b = true) :
    SameRestore H b w.store ((deleteBands true D o).run w).2.store := by
  have hk := C05.delete_safe_any_world H D o w hd
  refine restore_congr H hn (Prog.run_noDupKeys _ w hn) hc (hk.keys b hb) ?_ ?_
  · exact C05.delete_frame_any_world true D o w .blockRoot (by simp) (underAny_blockRoot D) (by simp)
  · intro n es hh e hee a ha
    simp only [blockContent, hk.blocks a.hash ⟨b, hb, n, es, hh, e, hee, a, ha, rfl⟩]

/-- C05's chain is the chain of the listing rule. -/
theorem c05_chainBelow_eq (s : Store) (b : Nat) : C05.chainBelow s b = chainBelow s b := by
  induction b with
  | zero => rfl
  | succ b ih =>
    have hp : fileAt s (.bandHead b) = bandPresent s b := rfl
    simp only [C05.chainBelow, chainBelow, hp, ih]
    split
    · split <;> rfl
    · rfl

/-- … and so is C05's `stitchChain`. -/
theorem c05_stitchChain_eq (s : Store) (b : Nat) : C05.stitchChain s b = chain s b := by
  simp only [C05.stitchChain, chain, c05_chainBelow_eq]
  split <;> rfl

/-- For an id without head file, "lost its head" is "holds index hunk 0". -/
theorem headLost_absent {s : Store} {b : Nat} (hp : bandPresent s b = false) :
    headLost s b = fileAt s (.hunk b 0) := by
  simp only [headLost, hp, Bool.not_false, Bool.true_and, fileAt]
  rfl

/-- **`delete_keeps_restore`: `C05.delete_keeps_restore_Statement` holds, exactly as stated there.**
After a successful real delete on a readable archive, restoring a kept version `b` whose whole
stitch chain is kept — `b` itself if it is complete; for an incomplete `b` also the earlier versions
its listing continues into — gives the same result and the same reported errors as before. -/
theorem delete_keeps_restore : C05.delete_keeps_restore_Statement := by
  intro H s D o b ok hdirs hfree hnew hdry hnd hex hchain hlostD s' r r'
  have hn : NoDupKeys s := (uniqueKeys_iff_nodup s).1 ok.nodup
  have hk := C05.delete_safe_any_world H D o (World.clean s) hdirs
  have hstore : s' = deleted s D := (C05.delete_exact_store s D o ok hfree hnew hdry hnd hex).2.1
  rw [c05_stitchChain_eq] at hchain
  have hres : SameRestore H b s s' := by
    refine restore_congr_chain H hn (Prog.run_noDupKeys _ (World.clean s) hn)
      (fun c hc => hk.keys c (hchain c hc)) ?_ ?_ ?_ ?_
    · intro b' _ hno
      show bandPresent s' b' = false
      have hg : (deleted s D).get? (.bandHead b') = none ∨
          (deleted s D).get? (.bandHead b') = s.get? (.bandHead b') := by
        rw [get?_deleted]; split <;> simp
      rw [hstore]
      rcases hg with hg | hg
      · simp only [bandPresent, hg]
      · simp only [bandPresent, hg]; exact hno
    · intro b' hlt hno
      show headLost s' b' = headLost s b'
      have hno' : bandPresent (deleted s D) b' = false := by
        have hg : (deleted s D).get? (.bandHead b') = none ∨
            (deleted s D).get? (.bandHead b') = s.get? (.bandHead b') := by
          rw [get?_deleted]; split <;> simp
        rcases hg with hg | hg
        · simp only [bandPresent, hg]
        · simp only [bandPresent, hg]; exact hno
      have hk0 : (deleted s D).get? (.hunk b' 0) = none ∨
          (deleted s D).get? (.hunk b' 0) = s.get? (.hunk b' 0) := by
        rw [get?_deleted]; split <;> simp
      rw [hstore, headLost_absent hno', headLost_absent hno]
      by_cases hbD : b' ∈ D
      · have hs0 : fileAt s (.hunk b' 0) = false := hlostD b' hbD hlt hno
        rw [hs0]
        rcases hk0 with hk0 | hk0
        · simp only [fileAt, hk0]
        · simp only [fileAt, hk0]; exact hs0
      · have := (hk.keys b' hbD) (.hunk b' 0) (by simp [Key.isUnder, Key.parent])
        rw [← hstore]
        simp only [fileAt]
        rw [this]
        rfl
    · exact C05.delete_frame_any_world true D o (World.clean s) .blockRoot (by simp) (underAny_blockRoot D) (by simp)
    · intro c hc n es hh e hee a ha
      have hb : s'.get? (.block a.hash) = s.get? (.block a.hash) :=
        hk.blocks a.hash ⟨c, hchain c hc, n, es, hh, e, hee, a, ha, rfl⟩
      simp only [blockContent, hb]
  exact hres

/-! ## 4. Histories -/

/-- What the invariant says about version `b`: it has a tail, and the blocks its entries name are present. -/
structure VersionOK (s : Store) (b : Nat) : Prop where
  complete : isComplete s b = true
  refs : RefsPresent s b

/-- The step does not delete version `b` (backups never do). -/
def Keeps (b : Nat) : C13.Step → Prop
  | .backup _ _ _ => True
  | .delete D _ _ => b ∉ D

/-- The archive after a history of steps (`C13.Step`: a backup or a strict `delete_bands`, each in a
world of its own — any faults, any crash point). -/
def runSteps (H : Str → Str) : List C13.Step → Store → Store
  | [], s => s
  | st :: rest, s => runSteps H rest (st.run H s)

/-- A conforming archive has `d/`. -/
theorem ci_blockRoot {s : Store} (hci : CI H s) : s.get? .blockRoot = some .dir := by
  have := hci.conf
  simp only [Conforms, Bool.and_eq_true, beq_iff_eq] at this
  exact this.1.1.2

/-- A conforming archive has its directory. -/
theorem ci_root {s : Store} (hci : CI H s) : s.get? .root = some .dir := by
  have := hci.conf
  simp only [Conforms, Bool.and_eq_true, beq_iff_eq] at this
  exact this.1.1.1.2

/-- In a tree, a version with a tail file has a directory. -/
theorem dir_of_complete {s : Store} (hd : DirsOk s) {b : Nat} (hc : isComplete s b = true) :
    s.get? (.bandDir b) = some .dir := by
  unfold isComplete at hc
  cases hg : s.get? (.bandTail b) with
  | none => simp [hg] at hc
  | some v =>
    have := hd.parent_of_get? hg
    simpa [Store.parentOk, Key.parent] using this

/-- The invariant for version `b` survives a step that keeps its keys and blocks. -/
theorem VersionOK.of_same {s s' : Store} {b : Nat} (hv : VersionOK s b) (hsame : BandSame s s' b)
    (hblocks : ∀ n es, hunkAt s b n = some es → ∀ e ∈ es, ∀ a ∈ e.addrs, ∀ v,
      s.get? (.block a.hash) = some v → v ≠ .empty → s'.get? (.block a.hash) = some v) : VersionOK s' b := by
  refine ⟨by rw [isComplete_same hsame]; exact hv.complete, ?_⟩
  intro n es hh e he a ha
  have hh0 : hunkAt s b n = some es := by simpa only [hunkAt, hsame.hunk n] using hh
  obtain ⟨v, hv1, hv2⟩ := hv.refs n es hh0 e he a ha
  exact ⟨v, hblocks n es hh0 e he a ha v hv1 hv2, hv2⟩

/-- **One step.**  Whatever the step is — a backup with any options and source, complete, failing or
killed at any micro-step; a delete of OTHER versions, complete, failing or killed midway — in whatever
world: version `b` restores as before, its keys are untouched, and the invariant holds again. -/
theorem step_keeps_restore (H : Str → Str) (st : C13.Step) (s : Store) (hok : st.OK) (hci : CI H s) (b : Nat)
    (hk : Keeps b st) (hv : VersionOK s b) :
    SameRestore H b s (st.run H s) ∧ BandSame s (st.run H s) b ∧ VersionOK (st.run H s) b := by
  have hdir := dir_of_complete hci.dirs hv.complete
  cases st with
  | backup o src w =>
    obtain ⟨_, he⟩ := hok
    have hsame := backup_bandSame H o src { w with store := s } hdir
    have hx : Extends s ((backup H o src).run { w with store := s }).2.store :=
      Prog.run_extends (backup_createOnly H o src) { w with store := s } he
    refine ⟨backup_any_world_keeps_restore H o src { w with store := s } b he hci.nodup (ci_blockRoot hci) hdir
      hv.complete hv.refs, hsame, hv.of_same hsame ?_⟩
    intro n es _ e _ a _ v hv1 hv2
    exact hx.keeps hv1 hv2
  | delete D o w =>
    have hkept := C05.delete_safe_any_world H D o { w with store := s } hci.dirs
    refine ⟨delete_any_world_keeps_restore H D o { w with store := s } b hci.nodup hci.dirs hk hv.complete,
      hkept.keys b hk, hv.of_same (hkept.keys b hk) ?_⟩
    intro n es hh e he a ha v hv1 _
    have : (C13.Step.run H (.delete D o w) s).get? (.block a.hash) = s.get? (.block a.hash) :=
      hkept.blocks a.hash ⟨b, hk, n, es, hh, e, he, a, ha, rfl⟩
    rw [this]; exact hv1

/-- **`history_keeps_restore`.**  From any archive satisfying `CI` (C13: conforms to the format, is a
tree and a map), through ANY history of steps — backups (any options, sorted valid sources, any world
that honours `CreateNew`: faults, killed at any micro-step) and strict deletes (any world) — every
version `b` that had a tail and whose blocks were present at the start, and that no delete step names,
restores at the end exactly as it did at the start: the same result (the same nodes with the same
contents, or the same error) and the same reported events.  Also: its keys are untouched, and the
invariants (`CI`, `VersionOK`) hold at the end. -/
theorem history_keeps_restore (H : Str → Str) (hinj : Function.Injective H) (hlen : HashLen H)
    (hist : List C13.Step) :
    ∀ (s : Store), C13.HistOK hist → CI H s → ∀ (b : Nat), VersionOK s b → (∀ st ∈ hist, Keeps b st) →
      SameRestore H b s (runSteps H hist s) ∧ BandSame s (runSteps H hist s) b ∧
        CI H (runSteps H hist s) ∧ VersionOK (runSteps H hist s) b := by
  induction hist with
  | nil => intro s _ hci b hv _; exact ⟨SameRestore.refl H b s, BandSame.refl s b, hci, hv⟩
  | cons st rest ih =>
    intro s hok hci b hv hk
    have hst := hok st (List.mem_cons_self ..)
    obtain ⟨h1, h2, h3⟩ := step_keeps_restore H st s hst hci b (hk st (List.mem_cons_self ..)) hv
    have hci1 := C13.step_ci hinj hlen st s hst hci
    obtain ⟨i1, i2, i3, i4⟩ := ih (st.run H s) (fun st' h' => hok st' (List.mem_cons_of_mem _ h')) hci1 b h3
      (fun st' h' => hk st' (List.mem_cons_of_mem _ h'))
    exact ⟨h1.trans i1, h2.trans i2, i3, i4⟩

/-- A fault-free backup of a good source into a good archive leaves a version satisfying the invariant. -/
theorem clean_backup_versionOK (H : Str → Str) (hinj : Function.Injective H) (hlen : HashLen H) (s : Store)
    (o : BackupOpts) (src : List SrcEntry) (ho : 0 < o.maxBlockSize) (hsrc : SrcGood src)
    (hs : ArchiveGood H src s) :
    VersionOK ((backup H o src).run (World.clean s)).2.store (newBandOf s) := by
  obtain ⟨s', hss, stats, evs, h⟩ := backup_summary (o := o) hinj hlen ho hsrc hs
  obtain ⟨_, h2, _⟩ := h.runs.clean
  rw [h2]
  exact ⟨final_complete h.final, refsPresent_of_noDangling h.noDangling _⟩

/-- **`history_restores_source`: a version keeps restoring to its own source until it is deleted.**
Let a fault-free backup of a good source `src` (options `o`) run on a good archive `s`
(`C01a.backup_restore_exact`: it creates version `newBandOf s`), and let ANY history follow — more
backups, of anything, complete or interrupted at any point, with any faults; deletes of other
versions, complete or interrupted.  At the end, restoring that version yields EXACTLY
`src.map (expectedNode o)` — the same paths, kinds, bytes, targets, times, modes and owners — and
reports nothing. -/
theorem history_restores_source (H : Str → Str) (hinj : Function.Injective H) (hlen : HashLen H) (s : Store)
    (o : BackupOpts) (src : List SrcEntry) (ho : 0 < o.maxBlockSize) (hsrc : SrcGood src)
    (hsorted : C13.SrcSorted src) (hs : ArchiveGood H src s) (hci : CI H s)
    (rest : List C13.Step) (hok : C13.HistOK rest) (hkeep : ∀ st ∈ rest, Keeps (newBandOf s) st) :
    let sN := runSteps H rest ((backup H o src).run (World.clean s)).2.store
    (restoreOf H (newBandOf s) sN).1 = .ok (src.map (expectedNode o)) ∧
      (restoreOf H (newBandOf s) sN).2.events = [] := by
  intro sN
  have e1 := C01a.backup_restore_exact H hinj hlen s o src ho hsrc hs
  have hci1 : CI H ((backup H o src).run (World.clean s)).2.store :=
    C13.backup_ci_all_worlds (w := World.clean s) hinj hlen hsorted.weak rfl hci
  have hv := clean_backup_versionOK H hinj hlen s o src ho hsrc hs
  obtain ⟨hsame, _, _, _⟩ := history_keeps_restore H hinj hlen rest _ hok hci1 _ hv hkeep
  exact ⟨hsame.1.trans e1.restoreSpecified, hsame.2.trans e1.restoreSpecifiedSilent⟩

/-! ### "Latest complete" -/

/-- **`latest_complete_spec`: what `Archive::last_complete_band` selects.**  On any archive whose
directory exists: it returns `b` iff `b` is the id of a version directory whose head opens
(`headOutcome … = ok`: decodes, supported format version, no unknown flags) and which has a tail, and
every LARGER id of a version directory is skipped — its head file is missing, or zero-length / undecodable,
or it opens but the version has no tail (`Hist.Skipped`).  So the newest complete version is selected,
and directories left by interrupted backups (no head, zero-length head, no tail) do not matter.
(A newer head that decodes but is refused — unsupported version or flags — makes the call FAIL; it is
neither skipped nor selected.) -/
theorem latest_complete_spec (s : Store) (hroot : s.get? .root = some .dir) (b : Nat) :
    (lastCompleteBand.run (World.clean s)).1 = .ok (some b) ↔
      b ∈ bandIdsOf s ∧ headOutcome s b = .ok () ∧ isComplete s b = true ∧
        ∀ x ∈ bandIdsOf s, b < x → Skipped s x := by
  rw [(lastCompleteBand_runsAt s).clean.1]
  exact latestP_eq_some_iff hroot b

/-- The restore of "the latest complete version" is the restore of the version selected. -/
theorem restore_latest_eq_specified (H : Str → Str) {s : Store} (hn : NoDupKeys s) {b : Nat}
    (hl : (lastCompleteBand.run (World.clean s)).1 = .ok (some b)) :
    ((restore H .latestClosed [slash] (fun _ => false)).run (World.clean s)).1 = (restoreOf H b s).1 ∧
    ((restore H .latestClosed [slash] (fun _ => false)).run (World.clean s)).2.events =
      (restoreOf H b s).2.events := by
  rw [(lastCompleteBand_runsAt s).clean.1] at hl
  have h1 := (restore_latest_raw_runs (H := H) (uniqueKeys_of_noDup hn)).clean
  have h2 := (restore_raw_runs (H := H) (uniqueKeys_of_noDup hn) b).clean
  have heq : restoreLatestRaw H s = restoreRaw H s b := by simp only [restoreLatestRaw, hl]
  exact ⟨by rw [h1.1, restoreOf, h2.1, heq], by rw [h1.2.2, restoreOf, h2.2.2, heq]⟩

/-- **`latest_complete_after_history`.**  After any history (as in `history_keeps_restore`), if version
`b` — complete at the start, never deleted — is at the end the newest version that is not skipped
(every larger id at the end has no head, an undecodable head, or no tail), then
`restore(LatestClosed)` at the end selects `b` and gives exactly what restoring `b` gave at the START:
the same result and the same events. -/
theorem latest_complete_after_history (H : Str → Str) (hinj : Function.Injective H) (hlen : HashLen H)
    (hist : List C13.Step) (s : Store) (hok : C13.HistOK hist) (hci : CI H s) (b : Nat) (hv : VersionOK s b)
    (hhead : headOutcome s b = .ok ()) (hkeep : ∀ st ∈ hist, Keeps b st)
    (hnewer : ∀ x ∈ bandIdsOf (runSteps H hist s), b < x → Skipped (runSteps H hist s) x) :
    (lastCompleteBand.run (World.clean (runSteps H hist s))).1 = .ok (some b) ∧
    ((restore H .latestClosed [slash] (fun _ => false)).run (World.clean (runSteps H hist s))).1 =
      (restoreOf H b s).1 ∧
    ((restore H .latestClosed [slash] (fun _ => false)).run (World.clean (runSteps H hist s))).2.events =
      (restoreOf H b s).2.events := by
  obtain ⟨hsame, hband, hciN, hvN⟩ := history_keeps_restore H hinj hlen hist s hok hci b hv hkeep
  have hsel : (lastCompleteBand.run (World.clean (runSteps H hist s))).1 = .ok (some b) := by
    rw [latest_complete_spec _ (ci_root hciN)]
    refine ⟨mem_bandIdsOf_of_get? (dir_of_complete hciN.dirs hvN.complete), ?_, hvN.complete, hnewer⟩
    simp only [headOutcome, hband.head] at hhead ⊢
    exact hhead
  obtain ⟨h1, h2⟩ := restore_latest_eq_specified H hciN.nodup hsel
  exact ⟨hsel, h1.trans hsame.1, h2.trans hsame.2⟩

/-! ## 5. C03's restore half: a killed backup does not change what "latest" restores to -/

/-- **`crashed_backup_keeps_latest`.**  Let `restore(LatestClosed)` select version `b` on the archive
`w.store` (a complete version exists and the selection succeeds), `b`'s blocks being present.  Run
`backup` in ANY world on that archive — killed before any micro-step `j`, or with any faults.  Then
EITHER the run got as far as creating the tail file of a NEW version (some id that had no directory
before now has a tail — possibly zero-length: `BANDTAIL` is the last thing a backup writes, so all of
that version's data is in place, and `Band::is_closed` only asks whether the file exists),
OR `restore(LatestClosed)` on the archive the run leaves gives exactly the same result and events as
before: the half-written version — directory without head, zero-length head, hunks without tail — is
skipped.  (The first alternative cannot be dropped: in the model a write is "create the file empty,
then fill it" (`World.exec`), so a backup killed between the two micro-steps of the tail write leaves a
zero-length tail, and `last_complete_band` then selects the new version — whose hunks and blocks are all
written.  That run is described here, not proved.) -/
theorem crashed_backup_keeps_latest (H : Str → Str) (hinj : Function.Injective H) (hlen : HashLen H)
    (o : BackupOpts) (src : List SrcEntry) (hsrc : C13.SrcSortedWeak src) (w : World)
    (he : w.enforceCreateNew = true) (hci : CI H w.store) (b : Nat)
    (hl : (lastCompleteBand.run (World.clean w.store)).1 = .ok (some b)) (hrefs : RefsPresent w.store b) :
    let s' := ((backup H o src).run w).2.store
    (∃ nb, nb ∉ bandIdsOf w.store ∧ isComplete s' nb = true) ∨
    (((restore H .latestClosed [slash] (fun _ => false)).run (World.clean s')).1 =
        ((restore H .latestClosed [slash] (fun _ => false)).run (World.clean w.store)).1 ∧
     ((restore H .latestClosed [slash] (fun _ => false)).run (World.clean s')).2.events =
        ((restore H .latestClosed [slash] (fun _ => false)).run (World.clean w.store)).2.events) := by
  intro s'
  have hci' : CI H s' := C13.backup_ci_all_worlds hinj hlen hsrc he hci
  obtain ⟨_, hhead, hc, hnew⟩ := (latest_complete_spec w.store (ci_root hci) b).1 hl
  by_cases hex : ∃ nb, nb ∉ bandIdsOf w.store ∧ isComplete s' nb = true
  · exact Or.inl hex
  right
  have hdir := dir_of_complete hci.dirs hc
  have hsame : BandSame w.store s' b := backup_bandSame H o src w hdir
  have hc' : isComplete s' b = true := by rw [isComplete_same hsame]; exact hc
  have hsel : (lastCompleteBand.run (World.clean s')).1 = .ok (some b) := by
    rw [latest_complete_spec _ (ci_root hci')]
    refine ⟨mem_bandIdsOf_of_get? (dir_of_complete hci'.dirs hc'), ?_, hc', ?_⟩
    · simp only [headOutcome, hsame.head] at hhead ⊢; exact hhead
    · intro x hx hlt
      by_cases hxs : x ∈ bandIdsOf w.store
      · have hdx : w.store.get? (.bandDir x) = some .dir := hci.nodup.get?_of_mem (mem_bandIdsOf'.1 hxs)
        exact (skipped_same (backup_bandSame H o src w hdx)).2 (hnew x hxs hlt)
      · have hnone : w.store.get? (.bandHead x) = none := by
          cases hg : w.store.get? (.bandHead x) with
          | none => rfl
          | some v =>
            have := hci.dirs.parent_of_get? hg
            exact absurd (mem_bandIdsOf_of_get? (by simpa [Store.parentOk, Key.parent] using this)) hxs
        have hr : s'.get? (.bandHead x) = w.store.get? (.bandHead x) ∨ s'.get? (.bandHead x) = some .empty ∨
            s'.get? (.bandHead x) = some (.head .ok []) ∨ s'.get? (.bandHead x) = some .dir :=
          backup_headRel H o src w x
        rcases hr with h | h | h | h
        · rw [hnone] at h
          exact Or.inl (by simp only [headOutcome, h])
        · exact Or.inr (Or.inl (by simp only [headOutcome, h]))
        · refine Or.inr (Or.inr ⟨by simp [headOutcome, h], ?_⟩)
          cases hcx : isComplete s' x with
          | false => rfl
          | true => exact absurd ⟨x, hxs, hcx⟩ hex
        · have hconf := hci'.conf
          simp only [Conforms, Bool.and_eq_true, List.all_eq_true] at hconf
          have hb := hconf.2 x hx
          simp only [bandConforms, Bool.and_eq_true] at hb
          have := hb.2
          rw [h] at this
          cases this
  have hkeep := backup_any_world_keeps_restore H o src w b he hci.nodup (ci_blockRoot hci) hdir hc hrefs
  obtain ⟨a1, a2⟩ := restore_latest_eq_specified H hci'.nodup hsel
  obtain ⟨b1, b2⟩ := restore_latest_eq_specified H hci.nodup hl
  exact ⟨a1.trans (hkeep.1.trans b1.symm), a2.trans (hkeep.2.trans b2.symm)⟩

/-! ## 6. The property restated, and the literal statement refuted -/

/-- **`C02.InvStatement` with the hypotheses it needs** (same histories: `C07.Attempt` — backups with
any options, sources, fault lists and crash points; result AND events): the archive is a map, `d/` is
a directory, version `b` has a directory and a tail, and the blocks its entries name are present.
Nothing is assumed about `H`, the options, the sources, or the rest of the archive.  (Histories with
deletes: `history_keeps_restore`.) -/
def InvStatementGood (H : Str → Str) : Prop :=
  ∀ (s : Store) (b : Nat) (hist : List C07.Attempt),
    NoDupKeys s → s.get? .blockRoot = some .dir → s.get? (.bandDir b) = some .dir →
    isComplete s b = true → RefsPresent s b →
    SameRestore H b s (C07.runHistory H hist s)

/-- **The restated property holds**, for every `H`: by induction over the attempts, each step being
`backup_any_world_keeps_restore`; the hypotheses are re-established by the frame (`backup_bandSame`,
`Extends`, `Prog.run_noDupKeys`). -/
theorem inv_statement_good (H : Str → Str) : InvStatementGood H := by
  intro s b hist
  induction hist generalizing s with
  | nil => intro _ _ _ _ _; exact SameRestore.refl H b s
  | cons a rest ih =>
    intro hn hroot hdir hc hrefs
    let w : World := { store := s, faults := a.faults, crashAt := a.crashAt }
    have hx : Extends s ((backup H a.opts a.src).run w).2.store :=
      Prog.run_extends (backup_createOnly H a.opts a.src) w rfl
    have hsame : BandSame s ((backup H a.opts a.src).run w).2.store b := backup_bandSame H a.opts a.src w hdir
    have h1 := backup_any_world_keeps_restore H a.opts a.src w b rfl hn hroot hdir hc hrefs
    have hv : VersionOK ((backup H a.opts a.src).run w).2.store b :=
      (VersionOK.mk hc hrefs).of_same hsame (fun n es _ e _ a' _ v hv1 hv2 => hx.keeps hv1 hv2)
    have h2 := ih ((backup H a.opts a.src).run w).2.store (Prog.run_noDupKeys _ w hn)
      (hx.keeps hroot (by simp)) (by rw [hsame _ (by simp [Key.isUnder])]; exact hdir) hv.complete hv.refs
    exact h1.trans h2

/-- The restated property implies the literal one whenever its hypotheses hold. -/
theorem inv_statement_of_good (H : Str → Str) (s : Store) (b : Nat) (hist : List C07.Attempt)
    (hn : NoDupKeys s) (hroot : s.get? .blockRoot = some .dir) (hdir : s.get? (.bandDir b) = some .dir)
    (hc : isComplete s b = true) (hrefs : RefsPresent s b) :
    (restoreOf H b (C07.runHistory H hist s)).1 = (restoreOf H b s).1 :=
  (inv_statement_good H s b hist hn hroot hdir hc hrefs).1

namespace Refute

/-- A "store" that is not a tree: a tail and a zero-length head of version 0 without its directory. -/
def s0 : Store := [(.root, .dir), (.blockRoot, .dir), (.bandTail 0, .tail none), (.bandHead 0, .empty)]

/-- A backup attempt that fails after `Band::create` (the listing of `d/` fails). -/
def att : C07.Attempt := { opts := {}, src := [], faults := [⟨⟨.listDir, .blockRoot, 0⟩, .other⟩] }

/-- Did the restore return at all? (`Outcome` has no decidable equality; this separates the two runs.) -/
def isOk {α : Type} : Outcome α → Bool
  | .ok _ => true
  | _ => false

end Refute

/-- **`C02.InvStatement` as literally written (no hypothesis on the archive) is FALSE in the model.**
Witness: `Refute.s0`, where version 0 "is complete" (its tail file exists) but has no directory, so
the next backup takes id 0 again and completes the zero-length head: restoring version 0 fails with a
JSON error before the attempt and succeeds (with nothing) after it.  The witness violates `DirsOk`
(a real directory tree cannot look like this); the hypotheses that matter in practice are the ones of
`InvStatementGood`.  A second way the literal statement fails, checked by evaluation only (`#eval`; the
kernel cannot unfold `mergeTrees`): a complete version with a DANGLING reference restores with a
complaint, and differently once a later backup happens to store a block with that name. -/
theorem inv_statement_refuted : ¬ C02.InvStatement id := by
  intro h
  have := h Refute.s0 0 [Refute.att] (by decide)
  have h2 := congrArg Refute.isOk this
  revert h2
  decide +kernel

/-! ## Non-vacuity -/

namespace Example
open C01a.Example

/-- The archive after a first, fault-free backup of `C01a.Example.source` (six entries: files through
the combiner and in several blocks, a directory, a symlink, an empty file). -/
def s1 : Store := ((backup exH opts source).run (World.clean archive)).2.store

/-- The empty archive is good for the example source. -/
theorem archive_good : ArchiveGood exH source archive :=
  ArchiveGood.of_noBands archive_ok archive_noBands archive_noLock source

/-- The first version gets id 0. -/
theorem new0 : newBandOf archive = 0 := C01a.newBandOf_noBands archive_ok archive_noBands

/-- The example hash has names of at least three characters. -/
theorem hlen : HashLen exH := fun c => exH_len c

/-- The empty archive satisfies `CI`. -/
theorem archive_ci : CI exH archive := C13.emptyArchive_ci

/-- The example source is what the walk yields: sorted, valid, targets exactly for symlinks. -/
theorem source_sorted : C13.SrcSorted source := ⟨source_good.sorted, by decide +kernel⟩

/-- `s1` satisfies `CI` (C13). -/
theorem s1_ci : CI exH s1 :=
  C13.backup_ci_all_worlds (w := World.clean archive) exH_inj hlen source_sorted.weak rfl archive_ci

/-- Version 0 of `s1` satisfies the invariant (by the theorems, not by evaluation). -/
theorem s1_version : VersionOK s1 0 := by
  have := clean_backup_versionOK exH exH_inj hlen archive opts source (by decide) source_good archive_good
  rwa [new0] at this

/-- A world that injects a fault into the second write of a hunk and is killed before micro-step 9. -/
def badWorld : World := { store := [], faults := [⟨⟨.write, .hunk 1 1, 0⟩, .other⟩], crashAt := some 9 }

/-- `backup_any_world_keeps_restore` applies to `s1`, version 0, and that world. -/
example : SameRestore exH 0 s1 ((backup exH {} source).run { badWorld with store := s1 }).2.store :=
  backup_any_world_keeps_restore_ci exH {} source { badWorld with store := s1 } 0 rfl s1_ci
    (by
      obtain ⟨s', hss, stats, evs, h⟩ := backup_summary (o := opts) exH_inj exH_len (by decide) source_good archive_good
      obtain ⟨_, h2, _⟩ := h.runs.clean
      show NoDangling exH ((backup exH opts source).run (World.clean archive)).2.store
      rw [h2]; exact h.noDangling)
    s1_version.complete

/-- A history: an interrupted backup with a fault, a delete of (non-existent) version 7 in a world with
a read fault, a delete of version 1 — whatever the interrupted backup left of it — killed at its
second mutating step, and a complete backup. -/
def hist : List C13.Step :=
  [ .backup {} source badWorld,
    .delete [7] {} { store := [], faults := [⟨⟨.read, .bandHead 0, 0⟩, .other⟩] },
    .delete [1] { breakLock := true } { store := [], crashAt := some 1 },
    .backup opts source (World.clean []) ]

/-- Every step of the example history is admissible. -/
theorem hist_ok : C13.HistOK hist := by
  intro st hst
  simp only [hist, List.mem_cons] at hst
  rcases hst with rfl | rfl | rfl | rfl | h
  · exact ⟨source_sorted, rfl⟩
  · trivial
  · trivial
  · exact ⟨source_sorted, rfl⟩
  · cases h

/-- No step of the example history deletes version 0. -/
theorem hist_keeps0 : ∀ st ∈ hist, Keeps 0 st := by
  intro st hst
  simp only [hist, List.mem_cons] at hst
  rcases hst with rfl | rfl | rfl | rfl | h
  · trivial
  · show 0 ∉ [7]; decide
  · show 0 ∉ [1]; decide
  · trivial
  · cases h

/-- `history_keeps_restore` applies: version 0 restores after this history as it did before … -/
example : SameRestore exH 0 s1 (runSteps exH hist s1) :=
  (history_keeps_restore exH exH_inj hlen hist s1 hist_ok s1_ci 0 s1_version hist_keeps0).1

/-- … namely to exactly its source, reporting nothing (`history_restores_source`). -/
example : (restoreOf exH 0 (runSteps exH hist s1)).1 = .ok (source.map (expectedNode opts)) ∧
    (restoreOf exH 0 (runSteps exH hist s1)).2.events = [] := by
  have := history_restores_source exH exH_inj hlen archive opts source (by decide) source_good source_sorted
    archive_good archive_ci hist hist_ok (by rw [new0]; exact hist_keeps0)
  rwa [new0] at this

/-- The hypotheses of `InvStatementGood` hold of `s1` and version 0, for every history of attempts. -/
example (h : List C07.Attempt) : SameRestore exH 0 s1 (C07.runHistory exH h s1) :=
  inv_statement_good exH s1 0 h s1_ci.nodup (ci_blockRoot s1_ci) (dir_of_complete s1_ci.dirs s1_version.complete)
    s1_version.complete s1_version.refs

/-- "Latest complete" on `s1` selects version 0 (the hypothesis of `crashed_backup_keeps_latest`). -/
theorem s1_latest : (lastCompleteBand.run (World.clean s1)).1 = .ok (some 0) := by
  obtain ⟨s', hss, stats, evs, h⟩ := backup_summary (o := opts) exH_inj exH_len (by decide) source_good archive_good
  obtain ⟨_, h2, _⟩ := h.runs.clean
  have hs1 : s1 = s' := h2
  rw [latest_complete_spec s1 (ci_root s1_ci)]
  refine ⟨mem_bandIdsOf_of_get? (dir_of_complete s1_ci.dirs s1_version.complete), ?_, s1_version.complete, ?_⟩
  · rw [hs1, ← new0]; exact h.head_ok
  · intro x hx hlt
    rw [hs1] at hx
    have := h.bandIds_le archive_ok x hx
    rw [new0] at this
    omega

/-- `crashed_backup_keeps_latest` applies to `s1` and a backup killed before EVERY micro-step `j`. -/
example (j : Nat) :
    let s' := ((backup exH {} source).run { store := s1, crashAt := some j }).2.store
    (∃ nb, nb ∉ bandIdsOf s1 ∧ isComplete s' nb = true) ∨
    (((restore exH .latestClosed [slash] (fun _ => false)).run (World.clean s')).1 =
        ((restore exH .latestClosed [slash] (fun _ => false)).run (World.clean s1)).1 ∧
     ((restore exH .latestClosed [slash] (fun _ => false)).run (World.clean s')).2.events =
        ((restore exH .latestClosed [slash] (fun _ => false)).run (World.clean s1)).2.events) :=
  crashed_backup_keeps_latest exH exH_inj hlen {} source source_sorted.weak { store := s1, crashAt := some j } rfl
    s1_ci 0 s1_latest s1_version.refs

/-- `delete_keeps_restore` (C05's statement) applies to C05's example archive: deleting version 0
keeps the restore of version 1 (which shares a block with it). -/
example :
    let s' := ((deleteBands true [0] {}).run (World.clean C05.exStore)).2.store
    (restoreOf C05.exH 1 s').1 = (restoreOf C05.exH 1 C05.exStore).1 ∧
      (restoreOf C05.exH 1 s').2.events = (restoreOf C05.exH 1 C05.exStore).2.events :=
  delete_keeps_restore C05.exH C05.exStore [0] {} 1 C05.ex_archOK0 C05.ex_dirsOk C05.ex_lockFree C05.ex_newest rfl
    (by decide) (by rw [C05.ex_bands]; decide) (by decide) (by decide +kernel)

/-- `delete_any_world_keeps_restore`: the same delete, killed before its third mutating micro-step. -/
example : SameRestore C05.exH 1 C05.exStore
    ((deleteBands true [0] {}).run { store := C05.exStore, crashAt := some 2 }).2.store :=
  delete_any_world_keeps_restore C05.exH [0] {} { store := C05.exStore, crashAt := some 2 } 1
    ((uniqueKeys_iff_nodup _).1 C05.ex_archOK0.nodup) C05.ex_dirsOk (by decide) (by decide)

end Example

end Conserve.C02h
