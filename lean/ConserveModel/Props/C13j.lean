import ConserveModel.Proofs.JsonSound
import ConserveModel.Proofs.JsonBand
/-
C13 j — the JSON layer of "everything written conforms to the documented format".

doc/format.md: an index hunk is the Snappy compression of a JSON array of entry objects.  The model
so far treated a hunk as an abstract `List IndexEntry`; the bytes were in the trusted base (the harness
decoded them with serde_json).  `ConserveModel/Json.lean` models the bytes: `renderHunk` is what
`serde_json::to_vec(&Vec<IndexEntry>)` writes (src/index/write.rs) and `parseHunk` what
`serde_json::from_slice::<Vec<IndexEntry>>` accepts (src/index/mod.rs), both followed from the
source of serde_json 1.0.149 and the derived impls.  `harness/src/c13json.rs` ties both to the real
code (real archives byte for byte; variant and malformed inputs accept/reject and value).

This file proves, for ALL entry lists:

* `parse_render_hunk` — reading back what was written gives exactly the entries written, provided the
  entries are values the Rust types can hold (`WfEntries`: strings valid UTF-8, `mtime` an `i64`,
  `mtime_nanos` and `unix_mode` `u32`s, `start`/`len` `u64`s, a block name 128 lower-case hex digits);
  `parse_render_hunk_iff` — and for no other list (each hypothesis is necessary; `…_refuted_*` show a
  concrete failure for each).
* `render_injective` — two different (well-formed) entry lists never have the same bytes.
* `string_round_trip_raw`, `string_round_trip`(`_iff`), `nat_round_trip`, `int_round_trip` — the escaping
  and the decimal layer on their own; the raw string layer needs NO hypothesis (any bytes, even
  values ≥ 256), the UTF-8 check of `parse_str` is exactly the extra condition.
* about the parser on ARBITRARY bytes: `parseHunk_sound` (whatever is accepted is a value of the Rust
  types), `parse_canonical` (re-rendering what was accepted and reading it again gives the same
  entries: canonicalisation is idempotent), `render_canonical_fixed` (the canonical bytes are a
  fixed point of parse-then-render), `trailing_bytes` (after the canonical bytes only whitespace may
  follow).
* the same for the band head and tail (`parse_render_head`, `parse_render_tail`).
-/
namespace Conserve.C13j
open Conserve Conserve.Json

/-! ## Strings -/

/-- **String escaping round trip, raw layer** (`format_escaped_str` against `parse_str_raw`): for
EVERY list of naturals `s` (no bound on the "bytes", no UTF-8 requirement) and every continuation
`rest`, parsing the rendered string gives back `s` and leaves `rest`. -/
theorem string_round_trip_raw (s rest : Str) :
    parseStringRaw (renderString s ++ rest) = some (s, rest) := by
  have hlen := renderChars_length s
  simp only [parseStringRaw, renderString, List.cons_append, if_true]
  exact parseCharsF_render s rest _ (by simp; omega)

/-- **String round trip as `parse_str` reads it**: additionally the decoded bytes must be valid UTF-8
(`str::from_utf8`), which a Rust `String` always is. -/
theorem string_round_trip (s rest : Str) (hs : validUtf8 s = true) :
    parseString (renderString s ++ rest) = some (s, rest) := by
  simp only [parseString, renderString, List.cons_append, if_true]
  exact parseStrBody_render s rest hs _ (by simp)

/-- The UTF-8 hypothesis is exactly what is needed. -/
theorem string_round_trip_iff (s rest : Str) :
    parseString (renderString s ++ rest) = some (s, rest) ↔ validUtf8 s = true := by
  constructor
  · intro h
    simp only [parseString, renderString, List.cons_append, if_true] at h
    exact parseStrBody_valid h
  · exact string_round_trip s rest

/-- Without valid UTF-8 the real reader (and the model) refuses the string the writer would produce:
the single byte ff. -/
theorem string_round_trip_refuted : parseString (renderString [255]) = none := by decide

example : renderString [34, 92, 10, 1, 31, 127, 233] = [34, 92, 34, 92, 92, 92, 110, 92, 117, 48, 48, 48, 49,
    92, 117, 48, 48, 49, 102, 127, 233, 34] := by decide
example : parseStringRaw (renderString [34, 92, 10, 1, 31, 127, 233, 300] ++ [44]) =
    some ([34, 92, 10, 1, 31, 127, 233, 300], [44]) := string_round_trip_raw _ _
/-- Escapes the writer never produces are read too: `"é😀\/"` is `é😀/`. -/
example : parseString [34, 92, 117, 48, 48, 101, 57, 92, 117, 100, 56, 51, 100, 92, 117, 100, 101, 48, 48, 92, 47, 34] =
    some ([195, 169, 240, 159, 152, 128, 47], []) := by decide

/-! ## Numbers -/

/-- **Decimal round trip, unsigned** (`itoa` against `deserialize_u64`/`u32`): a number below the
bound of its type is read back, whatever follows it, as long as that is not a further digit or the
start of a fraction or exponent (`NumEnd`; in compact JSON a `,`, `}` or `]` follows). -/
theorem nat_round_trip (bound n : Nat) (hn : n < bound) (rest : Str) (hrest : NumEnd rest) :
    parseUnsigned bound (renderNat n ++ rest) = some (n, rest) :=
  parseUnsigned_render bound n hn rest hrest

/-- **Decimal round trip, signed** (`deserialize_i64`): every `i64`. -/
theorem int_round_trip (i : Int) (h1 : -9223372036854775808 ≤ i) (h2 : i < 9223372036854775808)
    (rest : Str) (hrest : NumEnd rest) :
    parseI64 (renderInt i ++ rest) = some (i, rest) :=
  parseI64_render i h1 h2 rest hrest

/-- Outside the range of the type the number is refused … -/
theorem int_round_trip_refuted : parseI64 (renderInt 9223372036854775808 ++ [44]) = none := by decide
theorem nat_round_trip_refuted : parseUnsigned 4294967296 (renderNat 4294967296 ++ [44]) = none := by decide
/-- … and so is an integer followed by a fraction (`5.0` is a float for serde_json). -/
theorem nat_round_trip_refuted_rest : parseUnsigned 4294967296 (renderNat 5 ++ [46, 48]) = none := by decide

example : NumEnd [44, 1] := (Delim.cons44 _).numEnd
example : NumEnd [] := NumEnd.nil
example : renderInt (-1700000000) = [45, 49, 55, 48, 48, 48, 48, 48, 48, 48, 48] := by decide
example : parseI64 (renderInt (-9223372036854775808) ++ [125]) = some (-9223372036854775808, [125]) :=
  int_round_trip _ (by decide) (by decide) _ (Delim.cons125 _).numEnd

/-! ## Addresses and entries -/

/-- One address object is read back (whatever follows). -/
theorem addr_round_trip (a : Addr) (ha : wfAddr a = true) (rest : Str) :
    parseAddr (renderAddr a ++ rest).length (renderAddr a ++ rest) = some (a, rest) :=
  parseAddr_render a ha rest _ (Nat.le_refl _)

/-- One entry object is read back (whatever follows). -/
theorem entry_round_trip (e : IndexEntry) (he : wfEntry e = true) (rest : Str) :
    parseEntry (renderEntry e ++ rest).length (renderEntry e ++ rest) = some (e, rest) :=
  parseEntry_render e he rest _ (Nat.le_refl _)

/-! ## Hunks -/

/-- **Round trip of an index hunk.**  For every list of entries that the Rust type
`Vec<IndexEntry>` can hold, the model of `serde_json::from_slice` applied to the model of
`serde_json::to_vec` returns exactly that list: nothing is lost, altered, merged or reordered by
the JSON layer — whatever the paths, names, targets (quotes, backslashes, control bytes, any
UTF-8), times (negative, nanoseconds), modes, owners (absent, half-present) and address lists are. -/
theorem parse_render_hunk (es : List IndexEntry) (hes : WfEntries es) :
    parseHunk (renderHunk es) = some es := by
  have h := parseArray_render parseEntry renderEntry es (fun e _ => renderEntry_head e)
    (fun e he f rest' _ hlen => parseEntry_render e (hes e he) rest' f hlen) [] (renderHunk es).length
    (by simp [renderHunk])
  simp only [List.append_nil, renderHunk] at h
  simp only [parseHunk, renderHunk, h]
  rfl

/-- **Soundness of the reader on arbitrary bytes**: whatever `parseHunk` accepts consists of values
the Rust types can hold (it never invents an out-of-range number, an ill-formed string or a block
name that is not 128 lower-case hex digits). -/
theorem parseHunk_sound (b : Str) (es : List IndexEntry) (h : parseHunk b = some es) : WfEntries es :=
  parseHunk_wf h

/-- The hypotheses of `parse_render_hunk` are exactly right: the round trip holds for a list iff
every entry is a value of the Rust type. -/
theorem parse_render_hunk_iff (es : List IndexEntry) :
    parseHunk (renderHunk es) = some es ↔ WfEntries es :=
  ⟨parseHunk_sound _ _, parse_render_hunk es⟩

/-- **Rendering is injective**: two different entry lists never render to the same bytes. -/
theorem render_injective (es₁ es₂ : List IndexEntry) (h₁ : WfEntries es₁) (h₂ : WfEntries es₂)
    (h : renderHunk es₁ = renderHunk es₂) : es₁ = es₂ := by
  have a := parse_render_hunk es₁ h₁
  have b := parse_render_hunk es₂ h₂
  rw [h, b] at a
  exact (Option.some.inj a).symm

/-- **Canonicalisation is idempotent**: if arbitrary bytes `b` are accepted as `es` (members in any
order, whitespace, other escapes, unknown members, …) then the canonical rendering of `es` is accepted
as the same `es`. -/
theorem parse_canonical (b : Str) (es : List IndexEntry) (h : parseHunk b = some es) :
    parseHunk (renderHunk es) = some es :=
  parse_render_hunk es (parseHunk_sound b es h)

/-- The canonical bytes are a fixed point: parse them and render again, the bytes are the same. -/
theorem render_canonical_fixed (b : Str) (es : List IndexEntry) (h : parseHunk b = some es) :
    (parseHunk (renderHunk es)).map renderHunk = some (renderHunk es) := by
  rw [parse_canonical b es h]; rfl

/-- **No trailing garbage**: after the canonical bytes of a hunk, the reader accepts exactly
whitespace (`Deserializer::end`). -/
theorem trailing_bytes (es : List IndexEntry) (hes : WfEntries es) (g : Str) :
    parseHunk (renderHunk es ++ g) = if (skipWs g).isEmpty then some es else none := by
  have h := parseArray_render parseEntry renderEntry es (fun e _ => renderEntry_head e)
    (fun e he f rest' _ hlen => parseEntry_render e (hes e he) rest' f hlen) g (renderHunk es ++ g).length
    (by simp [renderHunk])
  simp only [parseHunk, renderHunk] at h ⊢
  rw [h]

/-- By definition, what the reader accepts is an array followed by whitespace only. -/
theorem parseHunk_rest (b : Str) (es : List IndexEntry) (h : parseHunk b = some es) :
    ∃ r, parseArray parseEntry b.length b = some (es, r) ∧ skipWs r = [] := by
  unfold parseHunk at h
  split at h
  · cases h
  · rename_i es' r hp
    split at h
    · rename_i hempty
      cases h
      exact ⟨r, hp, by simpa using hempty⟩
    · cases h

/-! ### Non-vacuity and what fails without each hypothesis -/

def hashA : Str := List.replicate 64 48 ++ List.replicate 64 102   -- "000…0fff…f"

/-- A file with a quote, a backslash, a control byte and `é` in its name, a pre-1970 time with
nanoseconds, a half-present owner and two addresses. -/
def exFile : IndexEntry :=
  { apath := [47, 34, 92, 1, 195, 169], kind := .file, mtime := -5, mtimeNanos := 999999999, unixMode := some 420,
    user := some [114, 111, 111, 116], group := none,
    addrs := [{ hash := hashA, start := 0, len := 7 }, { hash := hashA, start := 7, len := 18446744073709551615 }],
    target := none }
def exLink : IndexEntry :=
  { apath := [47, 108], kind := .symlink, mtime := 9223372036854775807, mtimeNanos := 0, unixMode := none,
    user := none, group := none, addrs := [], target := some [46, 46, 47, 34, 10] }

set_option maxRecDepth 8192 in
example : WfEntries [exFile, exLink] := by decide
set_option maxRecDepth 8192 in
example : parseHunk (renderHunk [exFile, exLink]) = some [exFile, exLink] :=
  parse_render_hunk _ (by decide)
example : parseHunk (renderHunk []) = some [] := parse_render_hunk [] (by decide)
example : renderHunk [exLink] =
    -- [{"apath":"/l","kind":"Symlink","mtime":9223372036854775807,"unix_mode":null,"target":"../\"\n"}]
    [91, 123, 34, 97, 112, 97, 116, 104, 34, 58, 34, 47, 108, 34, 44, 34, 107, 105, 110, 100, 34, 58, 34, 83, 121,
     109, 108, 105, 110, 107, 34, 44, 34, 109, 116, 105, 109, 101, 34, 58, 57, 50, 50, 51, 51, 55, 50, 48, 51, 54,
     56, 53, 52, 55, 55, 53, 56, 48, 55, 44, 34, 117, 110, 105, 120, 95, 109, 111, 100, 101, 34, 58, 110, 117, 108,
     108, 44, 34, 116, 97, 114, 103, 101, 116, 34, 58, 34, 46, 46, 47, 92, 34, 92, 110, 34, 125, 93] := by decide

/-- Not UTF-8 (a lone byte ff in the path): the writer would produce bytes the reader refuses. -/
theorem parse_render_hunk_refuted_utf8 :
    parseHunk (renderHunk [{ exLink with apath := [47, 255] }]) = none := by decide
/-- `mtime` beyond `i64`. -/
theorem parse_render_hunk_refuted_mtime :
    parseHunk (renderHunk [{ exLink with mtime := 9223372036854775808 }]) = none := by decide
/-- `mtime_nanos` beyond `u32`. -/
theorem parse_render_hunk_refuted_nanos :
    parseHunk (renderHunk [{ exLink with mtimeNanos := 4294967296 }]) = none := by decide
/-- `unix_mode` beyond `u32`. -/
theorem parse_render_hunk_refuted_mode :
    parseHunk (renderHunk [{ exLink with unixMode := some 4294967296 }]) = none := by decide
set_option maxRecDepth 8192 in
/-- `len` beyond `u64`. -/
theorem parse_render_hunk_refuted_len :
    parseHunk (renderHunk [{ exLink with addrs := [{ hash := hashA, start := 0, len := 18446744073709551616 }] }]) = none := by
  decide
set_option maxRecDepth 8192 in
/-- A block name that is not 128 hex digits is refused … -/
theorem parse_render_hunk_refuted_hash_len :
    parseHunk (renderHunk [{ exLink with addrs := [{ hash := [48, 48], start := 0, len := 1 }] }]) = none := by decide
set_option maxRecDepth 8192 in
/-- … and an upper-case one is read as its lower-case form, i.e. not as itself. -/
theorem parse_render_hunk_refuted_hash_case :
    parseHunk (renderHunk [{ exLink with addrs := [{ hash := List.replicate 128 65, start := 0, len := 1 }] }]) =
      some [{ exLink with addrs := [{ hash := List.replicate 128 97, start := 0, len := 1 }] }] := by decide

/-- Variants the writer never produces are accepted and canonicalised:
` [ {"kind":{"Dir":null}, "x":[1.5,{}], "apath":"/", "mtime_nanos":0} ] `. -/
example : parseHunk [32, 91, 32, 123, 34, 107, 105, 110, 100, 34, 58, 123, 34, 68, 105, 114, 34, 58, 110, 117, 108, 108,
      125, 44, 32, 34, 120, 34, 58, 91, 49, 46, 53, 44, 123, 125, 93, 44, 32, 34, 97, 112, 97, 116, 104, 34, 58, 34, 92,
      117, 48, 48, 50, 102, 34, 44, 32, 34, 109, 116, 105, 109, 101, 95, 110, 97, 110, 111, 115, 34, 58, 48, 125, 32, 93,
      32] =
    some [{ apath := [47], kind := .dir, mtime := 0, mtimeNanos := 0, unixMode := none, user := none, group := none,
            addrs := [], target := none }] := by decide
/-- Duplicate members, floats in integer positions, `-0`, trailing commas and trailing bytes are refused. -/
example : parseHunk ([91] ++ [123, 34, 97, 112, 97, 116, 104, 34, 58, 34, 47, 34, 44, 34, 97, 112, 97, 116, 104, 34, 58, 34,
    47, 34, 44, 34, 107, 105, 110, 100, 34, 58, 34, 68, 105, 114, 34, 125] ++ [93]) = none := by decide
example : parseI64 [45, 48, 44] = none := by decide
example : parseUnsigned 100 [49, 101, 49] = none := by decide
example : parseHunk [91, 93, 120] = none := by decide
example : parseHunk [91, 93, 10] = some [] := by decide

/-! ## Band head and tail -/

/-- **Round trip of a band head** (`BANDHEAD`: `write_json` then `read_json`): every head whose
`start_time` is an `i64` and whose strings are UTF-8 is read back exactly, trailing newline included. -/
theorem parse_render_head (h : HeadJson) (hh : wfHead h = true) : parseHead (renderHead h) = some h :=
  parseHead_render h hh

/-- **Round trip of a band tail** (`BANDTAIL`). -/
theorem parse_render_tail (t : TailJson) (ht : wfTail t = true) : parseTail (renderTail t) = some t :=
  parseTail_render t ht

/-- Two different heads (tails) never have the same bytes. -/
theorem renderHead_injective (h₁ h₂ : HeadJson) (w₁ : wfHead h₁ = true) (w₂ : wfHead h₂ = true)
    (h : renderHead h₁ = renderHead h₂) : h₁ = h₂ := by
  have a := parse_render_head h₁ w₁
  rw [h, parse_render_head h₂ w₂] at a
  exact (Option.some.inj a).symm

theorem renderTail_injective (t₁ t₂ : TailJson) (w₁ : wfTail t₁ = true) (w₂ : wfTail t₂ = true)
    (h : renderTail t₁ = renderTail t₂) : t₁ = t₂ := by
  have a := parse_render_tail t₁ w₁
  rw [h, parse_render_tail t₂ w₂] at a
  exact (Option.some.inj a).symm

def exHead : HeadJson := { startTime := 1700000000, bandFormatVersion := some [48, 46, 54, 46, 51], formatFlags := [] }
def exTail : TailJson := { endTime := 1700000001, indexHunkCount := some 3 }

example : wfHead exHead = true ∧ wfTail exTail = true := by decide
/-- `{"start_time":1700000000,"band_format_version":"0.6.3","format_flags":[]}` + newline. -/
example : renderHead exHead = [123, 34, 115, 116, 97, 114, 116, 95, 116, 105, 109, 101, 34, 58, 49, 55, 48, 48, 48, 48,
    48, 48, 48, 48, 44, 34, 98, 97, 110, 100, 95, 102, 111, 114, 109, 97, 116, 95, 118, 101, 114, 115, 105, 111, 110, 34,
    58, 34, 48, 46, 54, 46, 51, 34, 44, 34, 102, 111, 114, 109, 97, 116, 95, 102, 108, 97, 103, 115, 34, 58, 91, 93, 125,
    10] := by decide
/-- `{"end_time":1700000001,"index_hunk_count":3}` + newline. -/
example : renderTail exTail = [123, 34, 101, 110, 100, 95, 116, 105, 109, 101, 34, 58, 49, 55, 48, 48, 48, 48, 48, 48,
    48, 49, 44, 34, 105, 110, 100, 101, 120, 95, 104, 117, 110, 107, 95, 99, 111, 117, 110, 116, 34, 58, 51, 125, 10] := by
  decide
example : parseHead (renderHead { exHead with formatFlags := [[97], [34, 92]] }) =
    some { exHead with formatFlags := [[97], [34, 92]] } := parse_render_head _ (by decide)
/-- A tail as conserve < 0.6.4 wrote it (no count) is read with `index_hunk_count = None`:
`{"end_time":5}`. -/
example : parseTail [123, 34, 101, 110, 100, 95, 116, 105, 109, 101, 34, 58, 53, 125] =
    some { endTime := 5, indexHunkCount := none } := by decide
theorem parse_render_tail_refuted :
    parseTail (renderTail { exTail with indexHunkCount := some 18446744073709551616 }) = none := by decide
theorem parse_render_head_refuted :
    parseHead (renderHead { exHead with bandFormatVersion := some [255] }) = none := by decide

end Conserve.C13j
