import ConserveModel.Props.C16e
import ConserveModel.Proofs.GapFsLoop
/-
The C16e gap closed: confinement of `restore` when the index is UNSORTED.

Props/C16e.lean proves `restore_archive_confined` for archives whose indexes are sorted (`ArchWF`),
refutes it for every store (an index that lists the apath of a symlink entry AGAIN, later), and leaves
`restore_archive_confined_distinct_Statement` open: any store at all, provided the nodes `restore`
hands to the file system have pairwise distinct apaths.  It is PROVED here
(`restore_archive_confined_distinct`), from a stronger theorem:

* `restore_archive_confined_ordered` — ANY store, ANY world (faults, crash point), any selection /
  subtree / exclusion, either order of chmod and lchown, existing or absent destination: if no returned
  node repeats the apath of an EARLIER SYMLINK node, nothing outside the destination changes.  Entries
  may be in any order, may lie below LATER symlink entries, and apaths of files and directories may
  repeat.  With `C16e.restore_archive_confined_any_store_refuted` (a symlink entry's apath repeated
  later: refuted) this hypothesis is exactly the line between confined and not confined that the model
  draws for arbitrary stores.
* `restore_confined_ordered` — the file-system half alone, for any list of nodes.

Why the old proof did not reach this (Proofs/FsLink.lean): the loop invariant there is already
ordered; the order-free clause of `ConfinableL` was needed for `apply_deferrals`, which runs after the
whole loop, so that a symlink entry `/a` listed AFTER the directory entry `/a/b` counts as "earlier".
What closes it (Proofs/GapFs*.lean): a successful `restore_dir(dest/a/b)` leaves every prefix of the
path in existence and symlink-free (or the path blocked by a file: `create_dir_all` can say EEXIST);
restore never removes a node or changes its kind; `symlink()` refuses an existing name.  So the later
`symlink(dest/a)` fails with EEXIST and the deferred chmod / utimes on `dest/a/b` still act inside.
-/
namespace Conserve.Gaps
open Conserve C16 C16e

/-! ### The file-system half, for any list of nodes -/

/-- **Order-aware confinement of the file-system half.**  For ANY list of nodes with valid apaths in
which no node lies at or below (by whole components, the root apath apart) an EARLIER symlink node:
restoring them without the overwrite option into any well-formed file system changes no node outside
the destination — content, target, mode, owner, mtime — whatever the symlinks point at.  Same caller
obligations (`DestPlain`) and the same single exception (the mtime of the parent of an ABSENT
destination, which only keeps everything else: second clause) as `C16.restore_confined`.
Strictly more general than `C16.restore_confined_of_confinableL`: nothing is asked about order,
about entries below LATER symlink entries, or about repeated apaths of non-symlinks. -/
theorem restore_confined_ordered (fs : Fs) (dest : Path) (nodes : List RNode)
    (uidOf gidOf : Str → Option Nat) (oldOrder : Bool)
    (hv : ∀ n ∈ nodes, isValid n.apath = true) (hp : nodes.Pairwise NotBelowLink)
    (hwf : fs.wf = true) (hD : DestPlain fs dest) :
    let fs' := (restoreToFs fs dest false nodes uidOf gidOf oldOrder).1
    (∀ p, ¬ under dest p → (p ≠ dest.dropLast ∨ fs.node dest ≠ none) → fs'.node p = fs.node p) ∧
    (dest ≠ [] → EqMod (fs.node dest.dropLast) (fs'.node dest.dropLast)) :=
  ⟨restoreToFs_outside_ord hv hp hwf hD, restoreToFs_parent_ord hv hp hwf hD⟩

/-- `ConfinableL`, the hypothesis of the earlier theorem, implies the ordered one. -/
theorem notBelowLink_of_confinableL {nodes : List RNode} (hC : ConfinableL nodes) :
    nodes.Pairwise NotBelowLink :=
  hC.distinct.imp_of_mem fun {a b} ha hb hne hk hne0 hpre => hC.anc a ha b hb hne0 hpre hne hk

/-! ### What `restore` returns, as a pairwise fact -/

/-- Any store, any world: the nodes `restore` returns have valid apaths, and a node below (by whole
components) an EARLIER symlink node with a non-root apath can only be AT that apath.
(`C16e.restore_nodes_valid_guarded` in pairwise form.) -/
theorem restore_nodes_guarded_pairwise (H : Str → Str) (sel : BandSelection) (subtree : Str)
    (excl : Str → Bool) (w w' : World) (nodes : List RNode)
    (h : (restore H sel subtree excl).run w = (.ok nodes, w')) :
    (∀ n ∈ nodes, isValid n.apath = true) ∧
    nodes.Pairwise fun m n => m.kind = .symlink → comps m ≠ [] → comps m <+: comps n →
      comps m = comps n := by
  obtain ⟨es, w1, hv, hrun⟩ := restore_is_loop H h
  have hpost := (restoreEntries_post H es []).run w1 nodes w' hrun
  have hvn : ∀ n ∈ nodes, isValid n.apath = true := by
    intro n hn
    have : nodeKey n ∈ es.map entryKey := hpost.2.subset (List.mem_map.2 ⟨n, hn, rfl⟩)
    obtain ⟨e, he, hk⟩ := List.mem_map.1 this
    have : e.apath = n.apath := congrArg Prod.fst hk
    rw [← this]; exact hv e he
  exact ⟨hvn, guardedFrom_no_later_below nodes [] hpost.1 hvn⟩

/-- No node repeats the apath of an EARLIER SYMLINK node. -/
abbrev NoRepeatAfterLink (nodes : List RNode) : Prop :=
  nodes.Pairwise fun m n => m.kind = .symlink → m.apath ≠ n.apath

theorem noRepeatAfterLink_of_distinct {nodes : List RNode}
    (h : nodes.Pairwise fun a b => a.apath ≠ b.apath) : NoRepeatAfterLink nodes :=
  List.Pairwise.imp (R := fun (a b : RNode) => a.apath ≠ b.apath)
    (S := fun (m n : RNode) => m.kind = .symlink → m.apath ≠ n.apath) (fun hne _ => hne) h

/-- Any store, any world: if no returned node repeats the apath of an earlier symlink node, the
returned nodes satisfy the ordered hypothesis of the file-system theorem. -/
theorem restore_nodes_notBelowLink (H : Str → Str) (sel : BandSelection) (subtree : Str)
    (excl : Str → Bool) (w w' : World) (nodes : List RNode)
    (h : (restore H sel subtree excl).run w = (.ok nodes, w')) (hd : NoRepeatAfterLink nodes) :
    (∀ n ∈ nodes, isValid n.apath = true) ∧ nodes.Pairwise NotBelowLink := by
  obtain ⟨hv, hg⟩ := restore_nodes_guarded_pairwise H sel subtree excl w w' nodes h
  exact ⟨hv, notBelowLink_of_guard hv hg hd⟩

/-! ### End to end -/

/-- **`restore_archive_confined_ordered`** — confinement for ANY store (damaged, hand-made, unsorted,
stitched, interrupted: no well-formedness at all) in ANY world (faults, crash point), any selection,
subtree and exclusion, either order of chmod / lchown: if the archive side of `restore` returns `nodes`
and no node repeats the apath of an EARLIER SYMLINK node, then replaying them on any well-formed file
system without the overwrite option changes nothing outside the destination — content, target, mode,
owner, mtime of every node not under `dest` are as before.  Same caller obligations (`DestPlain`) and
the same single exception (the mtime of the parent of an ABSENT destination) as
`C16e.restore_archive_confined`, which it generalises (a sorted index has no repeats). -/
theorem restore_archive_confined_ordered (H : Str → Str) (sel : BandSelection) (subtree : Str)
    (excl : Str → Bool) (w w' : World) (nodes : List RNode)
    (h : (restore H sel subtree excl).run w = (.ok nodes, w')) (hd : NoRepeatAfterLink nodes)
    (fs : Fs) (dest : Path) (uidOf gidOf : Str → Option Nat) (oldOrder : Bool)
    (hwf : fs.wf = true) (hD : DestPlain fs dest) :
    let fs' := (restoreToFs fs dest false nodes uidOf gidOf oldOrder).1
    (∀ p, ¬ under dest p → (p ≠ dest.dropLast ∨ fs.node dest ≠ none) → fs'.node p = fs.node p) ∧
    (dest ≠ [] → EqMod (fs.node dest.dropLast) (fs'.node dest.dropLast)) :=
  have hn := restore_nodes_notBelowLink H sel subtree excl w w' nodes h hd
  restore_confined_ordered fs dest nodes uidOf gidOf oldOrder hn.1 hn.2 hwf hD

/-- With an existing destination there is no exception. -/
theorem restore_archive_confined_ordered_existing (H : Str → Str) (sel : BandSelection) (subtree : Str)
    (excl : Str → Bool) (w w' : World) (nodes : List RNode)
    (h : (restore H sel subtree excl).run w = (.ok nodes, w')) (hd : NoRepeatAfterLink nodes)
    (fs : Fs) (dest : Path) (uidOf gidOf : Str → Option Nat) (oldOrder : Bool)
    (hwf : fs.wf = true) (hD : DestPlain fs dest) (hex : fs.isDir dest = true) :
    ∀ p, ¬ under dest p → (restoreToFs fs dest false nodes uidOf gidOf oldOrder).1.node p = fs.node p := by
  intro p hp
  refine (restore_archive_confined_ordered H sel subtree excl w w' nodes h hd fs dest uidOf gidOf oldOrder
    hwf hD).1 p hp (Or.inr ?_)
  obtain ⟨x, hx, _⟩ := Fs.isDir_iff.1 hex
  rw [hx]; simp

/-- **`restore_archive_confined_distinct`: the statement left open in Props/C16e.lean, proved.**
For every store, if the nodes `restore` returns have pairwise distinct apaths, restoring them into an
existing destination without the overwrite option changes nothing outside the destination. -/
theorem restore_archive_confined_distinct : C16e.restore_archive_confined_distinct_Statement := by
  intro H s sel subtree excl w' nodes fs dest uidOf gidOf h hdist hwf hD hex
  exact restore_archive_confined_ordered_existing H sel subtree excl (World.clean s) w' nodes h
    (noRepeatAfterLink_of_distinct hdist) fs dest uidOf gidOf false hwf hD hex

/-- The whole command (`C16e.restoreEndToEnd`), any store, any world, existing destination: either
the archive side fails and the file system is untouched, or confinement holds whenever the returned
nodes do not repeat a symlink's apath.  Stated on the function: for the `nodes` the run returns. -/
theorem endToEnd_confined_ordered (H : Str → Str) (sel : BandSelection) (subtree : Str)
    (excl : Str → Bool) (w : World) (fs : Fs) (dest : Path) (uidOf gidOf : Str → Option Nat)
    (hd : ∀ nodes w', (restore H sel subtree excl).run w = (.ok nodes, w') → NoRepeatAfterLink nodes)
    (hwf : fs.wf = true) (hD : DestPlain fs dest) (hex : fs.isDir dest = true) :
    ∀ p, ¬ under dest p →
      (restoreEndToEnd H sel subtree excl w fs dest false uidOf gidOf).node p = fs.node p := by
  intro p hp
  unfold restoreEndToEnd
  rcases hr : (restore H sel subtree excl).run w with ⟨out, w'⟩
  cases out with
  | ok nodes =>
    exact restore_archive_confined_ordered_existing H sel subtree excl w w' nodes hr (hd nodes w' hr)
      fs dest uidOf gidOf false hwf hD hex p hp
  | err e => rfl
  | panic m => rfl

/-! ### Non-vacuity: an UNSORTED index -/

private def sOutside : Str := [111, 117, 116, 115, 105, 100, 101]
private def nobody : Str → Option Nat := fun _ => none

private def ent (p : Str) (k : Kind) (target : Option Str) (mode : Option Nat) : IndexEntry :=
  { apath := p, kind := k, mtime := 0, mtimeNanos := 0, unixMode := mode, user := none, group := none,
    addrs := [], target := target }

/-- One hunk, OUT OF ORDER: `/`, `/a/b` (dir), `/a/b/f` (file), then `/a` as a SYMLINK to `../outside`,
then `/a/c` (file; below the symlink entry that now precedes it). -/
def unsHunk : List IndexEntry :=
  [ent [47] .dir none (some 0o755),
   ent [47, 97, 47, 98] .dir none (some 0o700),
   ent [47, 97, 47, 98, 47, 102] .file none (some 0o644),
   ent [47, 97] .symlink (some ([46, 46, 47] ++ sOutside)) none,
   ent [47, 97, 47, 99] .file none (some 0o644)]

/-- An archive with one complete version whose only hunk is `unsHunk`. -/
def unsStore : Store :=
  [ (.root, .dir), (.header, .header [48, 46, 54]), (.blockRoot, .dir),
    (.bandDir 0, .dir), (.bandHead 0, .head .ok []), (.indexDir 0, .dir), (.hunkDir 0 0, .dir),
    (.hunk 0 0, .hunk unsHunk), (.bandTail 0, .tail (some 1)) ]

/-- What `restore` returns for it: `/a/c` is dropped by the guard, the rest comes through in index
order — the symlink `/a` AFTER two entries below it. -/
def unsNodes : List RNode :=
  [{ apath := [47], kind := .dir, unixMode := some 0o755 },
   { apath := [47, 97, 47, 98], kind := .dir, unixMode := some 0o700 },
   { apath := [47, 97, 47, 98, 47, 102], kind := .file, unixMode := some 0o644 },
   { apath := [47, 97], kind := .symlink, target := some ([46, 46, 47] ++ sOutside) }]

theorem unsStore_nodes :
    okVal ((restore id (.specified 0) [47] (fun _ => false)).run (World.clean unsStore)).1 = some unsNodes := by
  decide +kernel

/-- The witness archive is outside `ArchWF` (its hunk is not increasing), and the nodes are outside
`ConfinableL`, the hypothesis of the earlier file-system theorem: the symlink entry `/a` is a proper
ancestor of the entry `/a/b`. -/
example : bandsSorted unsStore = false := by decide +kernel
example : ¬ ConfinableL unsNodes := fun h =>
  h.anc { apath := [47, 97], kind := .symlink, target := some ([46, 46, 47] ++ sOutside) } (by decide)
    { apath := [47, 97, 47, 98], kind := .dir, unixMode := some 0o700 } (by decide)
    (by decide) (by decide) (by decide) rfl

/-- The apaths are pairwise distinct: the hypothesis of `restore_archive_confined_distinct`. -/
theorem unsNodes_distinct : unsNodes.Pairwise (fun a b => a.apath ≠ b.apath) := by decide

/-- `restore_archive_confined_distinct` applies to it: nothing outside `/sandbox/dest` changes. -/
example : ∀ p, ¬ under destW p →
    (restoreToFs fsW destW false unsNodes nobody nobody).1.node p = fsW.node p :=
  restore_archive_confined_distinct id unsStore (.specified 0) [47] (fun _ => false) _ unsNodes fsW destW
    nobody nobody (run_of_okVal unsStore_nodes) unsNodes_distinct (by decide) (destPlain_of_B (by decide))
    (by decide)

/-- What happens in the witness: `dest/a` and `dest/a/b` are made by `create_dir_all`, the file lands in
`dest/a/b`, `symlink(dest/a)` is refused with EEXIST (reported), the deferred mode 0o700 is applied to
`dest/a/b` itself, and `/sandbox/outside` is as before. -/
example : (restoreToFs fsW destW false unsNodes nobody nobody).2 =
    ([{ what := .restoreSymlink, apath := [47, 97], errno := some .EEXIST }], none) := by decide
example : (restoreToFs fsW destW false unsNodes nobody nobody).1.node (destW ++ [[97], [98]]) =
    some (.dir 0o700 0 0 (.at 0)) := by decide
example : (restoreToFs fsW destW false unsNodes nobody nobody).1.node (destW ++ [[97], [98], [102]]) =
    some (.file [] 0o644 0 0 (.at 0)) := by decide
example : (restoreToFs fsW destW false unsNodes nobody nobody).1.node [[115, 97, 110, 100, 98, 111, 120], sOutside] =
    fsW.node [[115, 97, 110, 100, 98, 111, 120], sOutside] := by decide

/-- The hypothesis of `restore_archive_confined_ordered` is strictly weaker than distinctness: an
apath of a FILE (or directory) listed twice is allowed, only a symlink's may not come again. -/
example : NoRepeatAfterLink
    [{ apath := [47, 102], kind := .file }, { apath := [47, 102], kind := .file, content := [1] },
     { apath := [47, 108], kind := .symlink, target := some [120] }] := by decide

/-- A list that exercises the BLOCKED case of the proof: `/f` as a file, then `/f` again as a
DIRECTORY with a child.  `create_dir_all(dest/f)` says EEXIST, which `restore_dir` accepts, so a
deferral is registered for a path that is a file (its mode 0o700 ends up on the file); `dest/f/x` is
ENOTDIR.  The ordered hypothesis holds (there is no symlink entry before anything), so
`restore_confined_ordered` applies. -/
def blockedNodes : List RNode :=
  [{ apath := [47, 102], kind := .file, unixMode := some 0o644 },
   { apath := [47, 102], kind := .dir, unixMode := some 0o700 },
   { apath := [47, 102, 47, 120], kind := .dir, unixMode := some 0o711 },
   { apath := [47, 102, 47, 120], kind := .symlink, target := some ([46, 46, 47, 46, 46, 47] ++ sOutside) }]

instance : DecidableRel NotBelowLink := fun a b => by unfold NotBelowLink; exact inferInstance

example : ∀ p, ¬ under destW p →
    (restoreToFs fsW destW false blockedNodes nobody nobody).1.node p = fsW.node p := fun p hp =>
  (restore_confined_ordered fsW destW blockedNodes nobody nobody false (by decide) (by decide) (by decide)
    (destPlain_of_B (by decide))).1 p hp (Or.inr (by decide))
example : (restoreToFs fsW destW false blockedNodes nobody nobody).1.node (destW ++ [[102]]) =
    some (.file [] 0o700 0 0 (.at 0)) := by decide
example : (restoreToFs fsW destW false blockedNodes nobody nobody).2 =
    ([{ what := .restoreDirectory, apath := [47, 102, 47, 120], errno := some .ENOTDIR },
      { what := .restoreSymlink, apath := [47, 102, 47, 120], errno := some .ENOTDIR }], none) := by decide

/-- The hypothesis cannot be dropped: the refuting witness of
`C16e.restore_archive_confined_any_store_refuted` lists `/a` as a symlink and then `/a` again — exactly
what `NoRepeatAfterLink` forbids. -/
example : ¬ NoRepeatAfterLink dupNodes := by decide

/-- `restore_confined_ordered` on a list no archive is needed for: the symlink entry comes LAST and
both other entries lie below it. -/
example : unsNodes.Pairwise NotBelowLink :=
  (restore_nodes_notBelowLink id (.specified 0) [47] (fun _ => false) _ _ unsNodes
    (run_of_okVal unsStore_nodes) (noRepeatAfterLink_of_distinct unsNodes_distinct)).2

end Conserve.Gaps

#print axioms Conserve.Gaps.restore_confined_ordered
#print axioms Conserve.Gaps.restore_archive_confined_ordered
#print axioms Conserve.Gaps.restore_archive_confined_distinct
#print axioms Conserve.Gaps.endToEnd_confined_ordered
