import ConserveModel.Props.C16
import ConserveModel.Proofs.RestoreChain
/-
C16e — C16 end to end: from the ARCHIVE to the file system.

Props/C16.lean is about `restoreToFs` applied to a list of `RNode`s, and about the per-entry loop
`restoreEntries` applied to a list of index entries.  Here the two are connected to
`restore H sel subtree excl` (Restore.lean), the store-level half of `restore()`, run on an archive.

What holds for EVERY store (damaged, hand-made, stitched, interrupted; no well-formedness at all) and
EVERY world (faults, crash points):
* `restore_nodes_valid_guarded`: the nodes handed to the file system all have valid apaths
  (`filterEntries`/`Exclude::matches` panics on an invalid one, and `readHunk` refuses a hunk containing
  one) and none lies strictly below (by whole components, root apart) an EARLIER SYMLINK node;
* `restore_archive_refuses_nonempty`: "never clobbers by default" — without `--overwrite` a non-empty
  destination is refused and the file system is the very same afterwards.

What needs the archive's indexes to be SORTED (`ArchWF`, the hypothesis of C08; every archive a
backup history produces has it, and it survives missing / undecodable / unusable hunks,
`archWF_of_lost_hunk`):
* `restore_archive_confined`: nothing outside the destination changes (for any selection, subtree,
  exclusion, complete or interrupted version).

And the full-strength statement is FALSE without sortedness:
* `restore_archive_confined_any_store_refuted`: an archive whose index lists the SAME apath twice —
  `/a` as a symlink to `../outside/b`, then `/a` as a file — passes the guard (it only looks at PROPER
  ancestors) and `File::create(dest/a)` follows the link: `/sandbox/outside/b` is created beside the
  destination, with no error reported.  The witness store violates `ArchWF` only in `bandsSorted`
  (keys distinct, tree-shaped); every entry passes `IndexEntry::check`.  The code has no check that a
  hunk it read is sorted or duplicate-free (src/index/mod.rs; `validate` has only a
  `// TODO: Check they're in apath order`, src/validate.rs), so this is the behaviour of the real
  `restore` on such a (hand-made or corrupted) archive too — CONFIRMED against /repo at 93841b1: back
  up a tree holding the symlink `a -> ../outside/b`, append to its only index hunk a second entry
  `{"apath":"/a","kind":"File","addrs":[]}`, restore into `sandbox/dest`: `Ok(())`, no monitor error,
  and `sandbox/outside/b` exists (probe source: /scratch/c16c07/probe).  No backup history produces such
  an index (C08/C14: own entries strictly increasing), so C16 as scoped ("for any archive history") is
  not affected; the finding is about damaged or hostile archives.
-/
namespace Conserve.C16e
open Conserve C16

section
variable (H : Str → Str)

/-! ### Any store, any world -/

/-- **What every successful `restore` hands to the file system** — any store, any world (faults, crash
point), any selection / subtree / exclusion: every node has a valid apath, and no node has a proper
ancestor (other than the root) that is the apath of an EARLIER SYMLINK node of the same list.
(Nothing is claimed about order or about repeated apaths: see the refutation below.) -/
theorem restore_nodes_valid_guarded (sel : BandSelection) (subtree : Str) (excl : Str → Bool)
    (w w' : World) (nodes : List RNode) (h : (restore H sel subtree excl).run w = (.ok nodes, w')) :
    (∀ n ∈ nodes, isValid n.apath = true) ∧
    (∀ pre n post, nodes = pre ++ n :: post → ∀ m ∈ pre, m.kind = .symlink → comps m ≠ [] →
      comps m <+: comps n → comps m = comps n) := by
  obtain ⟨es, w1, hv, hrun⟩ := restore_is_loop H h
  have hpost := (restoreEntries_post H es []).run w1 nodes w' hrun
  have hvn : ∀ n ∈ nodes, isValid n.apath = true := by
    intro n hn
    have : nodeKey n ∈ es.map entryKey := hpost.2.subset (List.mem_map.2 ⟨n, hn, rfl⟩)
    obtain ⟨e, he, hk⟩ := List.mem_map.1 this
    have : e.apath = n.apath := congrArg Prod.fst hk
    rw [← this]; exact hv e he
  refine ⟨hvn, ?_⟩
  intro pre n post e m hm hk hroot hpre
  have hmn : m ∈ nodes := by rw [e]; exact List.mem_append_left _ hm
  have hnn : n ∈ nodes := by rw [e]; simp
  exact restoreEntries_no_entry_below_symlink H es w1 w' nodes hrun pre n post e m hm hk
    (hvn m hmn) (hvn n hnn) hroot hpre

/-- **Never clobbers by default, end to end.**  Any store, any world, any selection: whatever nodes
the archive side produced, without the overwrite option a destination that exists and has at least
one entry is refused with `DestinationNotEmpty`; no error goes to the monitor and the file system is
the SAME afterwards.  (This is `C16.restore_refuses_nonempty`, which holds for any list of nodes.) -/
theorem restore_archive_refuses_nonempty (sel : BandSelection) (subtree : Str) (excl : Str → Bool)
    (w w' : World) (nodes : List RNode) (_h : (restore H sel subtree excl).run w = (.ok nodes, w'))
    (fs : Fs) (dest : Path) (uidOf gidOf : Str → Option Nat) (oldOrder : Bool)
    (hD : DestPlain fs dest) (hlen : dest.length < resolveFuel)
    (hdir : fs.isDir dest = true) (hne : fs.hasChild dest = true) :
    restoreToFs fs dest false nodes uidOf gidOf oldOrder = (fs, [], some .destinationNotEmpty) :=
  restore_refuses_nonempty fs dest nodes uidOf gidOf oldOrder hD hlen hdir hne

/-! ### Sorted indexes: confinement -/

/-- On a well-formed archive what `restore` returns satisfies the hypothesis of the file-system
theorems: `ConfinableL` (distinct valid apaths; a proper ancestor of another entry is never a
symlink). -/
theorem restore_nodes_confinableL {s : Store} (wf : ArchWF s) (sel : BandSelection) (subtree : Str)
    (excl : Str → Bool) (w' : World) (nodes : List RNode)
    (h : (restore H sel subtree excl).run (World.clean s) = (.ok nodes, w')) : ConfinableL nodes := by
  obtain ⟨b, w1, hrun⟩ := restore_is_loop_on_listing H wf h
  obtain ⟨hv, hs⟩ := filtered_listing_valid_sorted wf b
    (fun e => isPrefixOfImpl subtree e.apath && !excl e.apath)
  exact restoreEntries_confinableL H _ w1 w' nodes hv hs hrun

/-- **`restore_archive_confined`.**  For every archive `s` with `ArchWF s` (distinct keys, tree-shaped,
each version's usable hunks strictly increasing — nothing about which versions exist, are complete,
readable, or have all their hunks), every selection (`Specified b`, `Latest`, `LatestClosed`), every
subtree and exclusion: if the archive side of `restore` returns, then replaying its nodes on ANY
well-formed file system without the overwrite option changes nothing outside the destination —
content, target, mode, owner, mtime of every node not under `dest` are as before — whatever the
symlinks in the archive point at.  Same caller obligations (`DestPlain`) and the same single exception
(the mtime of the parent of an ABSENT destination) as `C16.restore_confined`. -/
theorem restore_archive_confined {s : Store} (wf : ArchWF s) (sel : BandSelection) (subtree : Str)
    (excl : Str → Bool) (w' : World) (nodes : List RNode)
    (h : (restore H sel subtree excl).run (World.clean s) = (.ok nodes, w'))
    (fs : Fs) (dest : Path) (uidOf gidOf : Str → Option Nat) (oldOrder : Bool)
    (hwf : fs.wf = true) (hD : DestPlain fs dest) :
    let fs' := (restoreToFs fs dest false nodes uidOf gidOf oldOrder).1
    (∀ p, ¬ under dest p → (p ≠ dest.dropLast ∨ fs.node dest ≠ none) → fs'.node p = fs.node p) ∧
    (dest ≠ [] → EqMod (fs.node dest.dropLast) (fs'.node dest.dropLast)) :=
  have hC := restore_nodes_confinableL H wf sel subtree excl w' nodes h
  ⟨restoreToFs_outsideL hC hwf hD, restoreToFs_parentL hC hwf hD⟩

/-- With an existing destination there is no exception. -/
theorem restore_archive_confined_existing {s : Store} (wf : ArchWF s) (sel : BandSelection) (subtree : Str)
    (excl : Str → Bool) (w' : World) (nodes : List RNode)
    (h : (restore H sel subtree excl).run (World.clean s) = (.ok nodes, w'))
    (fs : Fs) (dest : Path) (uidOf gidOf : Str → Option Nat) (oldOrder : Bool)
    (hwf : fs.wf = true) (hD : DestPlain fs dest) (hex : fs.isDir dest = true) :
    ∀ p, ¬ under dest p → (restoreToFs fs dest false nodes uidOf gidOf oldOrder).1.node p = fs.node p := by
  intro p hp
  refine (restore_archive_confined H wf sel subtree excl w' nodes h fs dest uidOf gidOf oldOrder hwf hD).1
    p hp (Or.inr ?_)
  obtain ⟨x, hx, _⟩ := Fs.isDir_iff.1 hex
  rw [hx]; simp

end

/-! ### The whole command as one function -/

/-- `restore(archive, destination, options)` as a whole: the archive side in world `w`, then — if it
returned — the file-system side.  (If the archive side fails the file system is returned as it was;
the real code has by then already run `ensure_dir_exists(destination)`, so an ABSENT destination has
been created — inside the destination, which is why the split model ignores it.) -/
def restoreEndToEnd (H : Str → Str) (sel : BandSelection) (subtree : Str) (excl : Str → Bool) (w : World)
    (fs : Fs) (dest : Path) (overwrite : Bool) (uidOf gidOf : Str → Option Nat) : Fs :=
  match (restore H sel subtree excl).run w with
  | (.ok nodes, _) => (restoreToFs fs dest overwrite nodes uidOf gidOf).1
  | _ => fs

/-- Confinement of the whole command on a well-formed archive, existing destination. -/
theorem endToEnd_confined (H : Str → Str) {s : Store} (wf : ArchWF s) (sel : BandSelection) (subtree : Str)
    (excl : Str → Bool) (fs : Fs) (dest : Path) (uidOf gidOf : Str → Option Nat)
    (hwf : fs.wf = true) (hD : DestPlain fs dest) (hex : fs.isDir dest = true) :
    ∀ p, ¬ under dest p →
      (restoreEndToEnd H sel subtree excl (World.clean s) fs dest false uidOf gidOf).node p = fs.node p := by
  intro p hp
  unfold restoreEndToEnd
  rcases hr : (restore H sel subtree excl).run (World.clean s) with ⟨out, w'⟩
  cases out with
  | ok nodes =>
    exact restore_archive_confined_existing H wf sel subtree excl w' nodes hr fs dest uidOf gidOf false hwf hD hex p hp
  | err e => rfl
  | panic m => rfl

/-- The whole command never touches a non-empty destination without `--overwrite`: any store, any
world; the final file system IS the initial one. -/
theorem endToEnd_refuses_nonempty (H : Str → Str) (sel : BandSelection) (subtree : Str) (excl : Str → Bool)
    (w : World) (fs : Fs) (dest : Path) (uidOf gidOf : Str → Option Nat)
    (hD : DestPlain fs dest) (hlen : dest.length < resolveFuel)
    (hdir : fs.isDir dest = true) (hne : fs.hasChild dest = true) :
    restoreEndToEnd H sel subtree excl w fs dest false uidOf gidOf = fs := by
  unfold restoreEndToEnd
  rcases (restore H sel subtree excl).run w with ⟨out, w'⟩
  cases out with
  | ok nodes => simp only [restore_refuses_nonempty fs dest nodes uidOf gidOf false hD hlen hdir hne]
  | err e => rfl
  | panic m => rfl

/-! ### Without sortedness: refuted -/

/-- Confinement claimed for EVERY store (the literal end-to-end reading: "damaged, stitched,
interrupted — no well-formedness"), even into an existing empty destination. -/
def restore_archive_confined_any_store_Statement : Prop :=
  ∀ (H : Str → Str) (s : Store) (sel : BandSelection) (subtree : Str) (excl : Str → Bool) (w' : World)
    (nodes : List RNode) (fs : Fs) (dest : Path) (uidOf gidOf : Str → Option Nat),
    (restore H sel subtree excl).run (World.clean s) = (.ok nodes, w') →
    fs.wf = true → DestPlain fs dest → fs.isDir dest = true →
    ∀ p, ¬ under dest p → (restoreToFs fs dest false nodes uidOf gidOf).1.node p = fs.node p

/-- The same with the extra hypothesis that the returned nodes have pairwise distinct apaths (NOT proved
and not refuted here).  Informally it holds: a symlink is created at `P` only if nothing was at `P`, so
nothing was created below `P` before, and everything listed below `P` afterwards is dropped by the
guard.  The proof in Proofs/FsLink.lean goes through `ConfinableL`, whose `anc` clause ("no entry
ANYWHERE in the list is a symlink and a proper ancestor of another") is order-free and fails for e.g.
`[/a/b file, /a symlink]`; what is missing is `restoreBody_outsideL` for the ordered invariant
"no LATER entry lies below a symlink entry" plus "when `symlink(P)` succeeds no node exists below `P`". -/
def restore_archive_confined_distinct_Statement : Prop :=
  ∀ (H : Str → Str) (s : Store) (sel : BandSelection) (subtree : Str) (excl : Str → Bool) (w' : World)
    (nodes : List RNode) (fs : Fs) (dest : Path) (uidOf gidOf : Str → Option Nat),
    (restore H sel subtree excl).run (World.clean s) = (.ok nodes, w') →
    nodes.Pairwise (fun a b => a.apath ≠ b.apath) →
    fs.wf = true → DestPlain fs dest → fs.isDir dest = true →
    ∀ p, ¬ under dest p → (restoreToFs fs dest false nodes uidOf gidOf).1.node p = fs.node p

private def sSandbox : Str := [115, 97, 110, 100, 98, 111, 120]
private def sDest : Str := [100, 101, 115, 116]
private def sOutside : Str := [111, 117, 116, 115, 105, 100, 101]
private def t0 : Mtime := .at 1600000000000000000

/-- `/sandbox/dest` (empty) and `/sandbox/outside` (a directory). -/
def fsW : Fs :=
  { nodes := [([], .dir 0o755 0 0 t0), ([sSandbox], .dir 0o755 0 0 t0),
      ([sSandbox, sDest], .dir 0o755 0 0 t0), ([sSandbox, sOutside], .dir 0o750 8 8 t0)] }

def destW : Path := [sSandbox, sDest]

private def ent (p : Str) (k : Kind) (target : Option Str) (mode : Option Nat) : IndexEntry :=
  { apath := p, kind := k, mtime := 0, mtimeNanos := 0, unixMode := mode, user := none, group := none,
    addrs := [], target := target }

/-- One index hunk listing `/`, then `/a` as a symlink to `../outside/b`, then `/a` AGAIN as a file. -/
def dupHunk : List IndexEntry :=
  [ent [47] .dir none (some 0o755),
   ent [47, 97] .symlink (some ([46, 46, 47] ++ sOutside ++ [47, 98])) none,
   ent [47, 97] .file none (some 0o644)]

/-- An archive with one complete version whose only hunk is `dupHunk`. -/
def dupStore : Store :=
  [ (.root, .dir), (.header, .header [48, 46, 54]), (.blockRoot, .dir),
    (.bandDir 0, .dir), (.bandHead 0, .head .ok []), (.indexDir 0, .dir), (.hunkDir 0 0, .dir),
    (.hunk 0 0, .hunk dupHunk), (.bandTail 0, .tail (some 1)) ]

def dupNodes : List RNode :=
  [{ apath := [47], kind := .dir, unixMode := some 0o755 },
   { apath := [47, 97], kind := .symlink, target := some ([46, 46, 47] ++ sOutside ++ [47, 98]) },
   { apath := [47, 97], kind := .file, unixMode := some 0o644 }]

def okVal {α : Type} : Outcome α → Option α
  | .ok a => some a
  | _ => none

theorem run_of_okVal {α : Type} {p : Prog α} {w : World} {a : α} (h : okVal (p.run w).1 = some a) :
    p.run w = (.ok a, (p.run w).2) := by
  rcases hr : p.run w with ⟨out, w'⟩
  rw [hr] at h
  cases out <;> simp [okVal] at h
  subst h; rfl

private def nobody : Str → Option Nat := fun _ => none

/-- What `restore` returns for `dupStore`: all three entries — the second `/a` is not BELOW the symlink
`/a`, so the guard lets it through. -/
theorem dupStore_nodes :
    okVal ((restore id (.specified 0) [47] (fun _ => false)).run (World.clean dupStore)).1 = some dupNodes := by
  decide +kernel

/-- **Refuted: confinement does not hold for every store.**  On `dupStore` (every entry passes
`IndexEntry::check`; keys distinct; tree-shaped; only `bandsSorted` fails) `restore` of the only version
into the existing empty `/sandbox/dest` creates `/sandbox/outside/b`, through the symlink it has just
made at `dest/a`, and reports nothing. -/
theorem restore_archive_confined_any_store_refuted : ¬ restore_archive_confined_any_store_Statement := by
  intro hall
  have hrun := run_of_okVal dupStore_nodes
  have := hall id dupStore (.specified 0) [47] (fun _ => false) _ dupNodes fsW destW nobody nobody hrun
    (by decide) (destPlain_of_B (by decide)) (by decide) [sSandbox, sOutside, [98]] (by decide)
  revert this
  decide

/-- What exactly happens in the witness: an empty regular file appears in `outside`, whose mtime is
stamped; the monitor sees no error and `restore` returns `Ok`. -/
example : (restoreToFs fsW destW false dupNodes nobody nobody).1.node [sSandbox, sOutside, [98]] =
    some (.file [] 0o644 0 0 (.at 0)) := by decide
example : (restoreToFs fsW destW false dupNodes nobody nobody).1.node [sSandbox, sOutside] =
    some (.dir 0o750 8 8 .now) := by decide
example : (restoreToFs fsW destW false dupNodes nobody nobody).2 = ([], none) := by decide

/-- The witness archive is outside `ArchWF` only because its hunk is not strictly increasing. -/
example : keysNodup dupStore = true ∧ treeShaped dupStore = true ∧ bandsSorted dupStore = false ∧
    dupHunk.all entryUsable = true := by decide +kernel

/-- The unconditional theorem applies to the witness: valid apaths, and the guard's property holds
(vacuously for the second `/a`: it is not a PROPER descendant). -/
example : ∀ n ∈ dupNodes, isValid n.apath = true :=
  (restore_nodes_valid_guarded id (.specified 0) [47] (fun _ => false) _ _ dupNodes
    (run_of_okVal dupStore_nodes)).1

/-! ### Non-vacuity of the positive theorems: an interrupted version (the D11 scenario) -/

/-- Version 0 (complete): `/`, `/a` a directory, `/a/b` a file.  Version 1 (interrupted, no tail): `/`,
`/a` now a SYMLINK to `../outside`.  The stitched listing of version 1 is `/`, `/a` (symlink, from 1),
`/a/b` (file, from 0). -/
def d11Store : Store :=
  [ (.root, .dir), (.header, .header [48, 46, 54]), (.blockRoot, .dir),
    (.bandDir 0, .dir), (.bandHead 0, .head .ok []), (.indexDir 0, .dir), (.hunkDir 0 0, .dir),
    (.hunk 0 0, .hunk [ent [47] .dir none (some 0o755), ent [47, 97] .dir none (some 0o755),
                       ent [47, 97, 47, 98] .file none (some 0o644)]),
    (.bandTail 0, .tail (some 1)),
    (.bandDir 1, .dir), (.bandHead 1, .head .ok []), (.indexDir 1, .dir), (.hunkDir 1 0, .dir),
    (.hunk 1 0, .hunk [ent [47] .dir none (some 0o755),
                       ent [47, 97] .symlink (some ([46, 46, 47] ++ sOutside)) none]) ]

def d11Nodes : List RNode :=
  [{ apath := [47], kind := .dir, unixMode := some 0o755 },
   { apath := [47, 97], kind := .symlink, target := some ([46, 46, 47] ++ sOutside) }]

theorem d11Store_wf : ArchWF d11Store := by decide +kernel

/-- `restore` of the interrupted version returns `/` and `/a` only: `/a/b` is dropped by the guard. -/
theorem d11Store_nodes :
    okVal ((restore id (.specified 1) [47] (fun _ => false)).run (World.clean d11Store)).1 = some d11Nodes := by
  decide +kernel

/-- `restore_archive_confined` applied to it: nothing outside `/sandbox/dest` changes. -/
example : ∀ p, ¬ under destW p →
    (restoreToFs fsW destW false d11Nodes nobody nobody).1.node p = fsW.node p :=
  restore_archive_confined_existing id d11Store_wf (.specified 1) [47] (fun _ => false) _ d11Nodes
    (run_of_okVal d11Store_nodes) fsW destW nobody nobody false (by decide) (destPlain_of_B (by decide))
    (by decide)

/-- `restore_archive_refuses_nonempty`: a destination with something in it. -/
private def fsFull : Fs :=
  { nodes := [([], .dir 0o755 0 0 t0), ([sSandbox], .dir 0o755 0 0 t0),
      ([sSandbox, sDest], .dir 0o755 0 0 t0), ([sSandbox, sDest, [97]], .file [7] 0o600 1 1 t0)] }

example : restoreEndToEnd id (.specified 1) [47] (fun _ => false) (World.clean d11Store) fsFull destW false
    nobody nobody = fsFull :=
  endToEnd_refuses_nonempty id _ _ _ _ fsFull destW nobody nobody (destPlain_of_B (by decide)) (by decide)
    (by decide) (by decide)

end Conserve.C16e
