import ConserveModel.Proofs.GapTotalTop
import ConserveModel.Props.C10f
/-
The "C10f gap", closed: `C10.BackupCompletes` — clause 3 of C10 as Props/C10.lean words it — quantifies
over EVERY source listing `src : List SrcEntry` and EVERY `o : BackupOpts`; Props/C10f.lean proves it
(`backup_completes`) only for good sources (`Exact.SrcGood`), `0 < o.maxBlockSize`, and an injective
hash with names of three characters or more, and leaves `C10f.BackupCompletesAnySourceStatement` OPEN.

§1  `backup_total_clean`: a fault-free `backup` RETURNS STATISTICS — no `Err`, no panic — on every
    "fair" archive, for every source listing (unsorted, duplicate or invalid paths, `size ≠
    content.length`, unknown kinds, symlinks without target, any mtime), all options (`maxBlockSize =
    0`, `maxEntriesPerHunk = 0` included) and every hash function.  Behind it:
    `GapTotal.backupMain_total` under the weak loop invariant `GapTotal.TInv` (Proofs/GapTotal.lean).
§2  `backup_completes_any_source : C10f.BackupCompletesAnySourceStatement H`, for EVERY `H` — no
    injectivity, no length hypothesis: the statement is TRUE as it stands.
§3  The one hypothesis of §1 that is not in `backup_restore_exact_fair`'s list, `LongNames`, is needed:
    `backup_total_needs_longNames`.  (In §2 it follows from `Conforms`.)
§4  Non-vacuity: an ill-formed source with degenerate options on the archive a real backup wrote, one
    file deleted; and an evaluated run.

Why no hypothesis on the source is needed.  In the main part of `backup()` only three things can end a
fault-free run early: a storage error in `flush_group` / `finish_hunk` / `Band::close` (an error inside
`copy_entry` is only counted), the panic of `metadata_from` (repaired: total), and the panic of
`IndexEntry::mtime()` on a BASIS entry — and basis entries come out of `listEntries`, which drops every
entry that fails `IndexEntry::check`.  The source only decides WHAT is written, never WHERE: hunks go
to `i/DDDDD/<sequence>` with `sequence` counting up in a directory this run created, blocks go to
`d/xxx/<H data>` guarded by the in-memory set `exists_`, which knows every non-empty block file
`list_blocks` could see.  A non-injective hash merely deduplicates more; a hash with short names creates
`d/x` directories the NEXT run will not list — harmless within one run, and excluded on the archive
the run starts from by `Conforms` (every `d/…` directory has a three-character name).
-/
set_option linter.unusedSimpArgs false
namespace Conserve.Gaps
open Conserve Conserve.NP Conserve.C10 Conserve.Exact

variable {H : Str → Str}

/-! ## 1. The general lemma -/

/-- **backup_total_clean.**  On a fault-free, crash-free world holding store `s`, `backup H o src` returns
statistics — it neither fails with a conserve `Error` nor panics — for EVERY source listing `src`,
EVERY options record `o` and EVERY hash `H`, provided
* `StoreOK H s`: `s` is a map and a tree, directories where the layout has directories and files where
  it has files, `d/` exists, every block file is a zero-length leftover or holds content named by
  its hash (and shorter than 2^64);
* `ArchWF s`: within every version the entries of the usable hunks are sorted (so that the basis
  listing is the one C08 specifies);
* no `GC_LOCK`;
* `LongNames s`: every non-empty block file has a name of at least three characters, i.e. lives in a
  `d/xxx` that `list_blocks` lists (necessary: `backup_total_needs_longNames`).
Nothing is assumed about versions listing silently, hunks, heads or tails being present, or entries
referring to present blocks; nothing at all about `src`, `o`, `H`. -/
theorem backup_total_clean {s : Store} (hst : StoreOK H s) (hwf : ArchWF s) (noLock : s.get? .gcLock = none)
    (hn : GapTotal.LongNames s) (o : BackupOpts) (src : List SrcEntry) :
    ∃ st w', (backup H o src).run (World.clean s) = (.ok st, w') := by
  obtain ⟨st, s', evs, hr⟩ := GapTotal.backup_runs_total hst hwf noLock hn o src
  exact ⟨st, _, Prod.ext hr.clean.1 rfl⟩

/-- The same for an archive whose hash only produces names of three characters or more (the `hlen`
of C01a / C10f) — then `LongNames` is part of `StoreOK`. -/
theorem backup_total_clean_of_hlen (hlen : ∀ d, subdirNameChars ≤ (H d).length) {s : Store}
    (hst : StoreOK H s) (hwf : ArchWF s) (noLock : s.get? .gcLock = none) (o : BackupOpts)
    (src : List SrcEntry) : ∃ st w', (backup H o src).run (World.clean s) = (.ok st, w') :=
  backup_total_clean hst hwf noLock (GapTotal.longNames_of_hlen hlen hst.blocks) o src

/-! ## 2. The statement -/

/-- After the deletion or emptying of a file of a `Good` archive every non-empty block file still has a
long name: `Conforms` gives every `d/…` directory a three-character name. -/
theorem longNames_after_loss {s s' : Store} {k : Key} (g : C10.Good H s) (hd : FileDamage s s' k)
    (hdel : s'.get? k = none ∨ s'.get? k = some .empty) : GapTotal.LongNames s' := by
  intro h v hg hne
  have hk : Key.block h ≠ k := by
    intro e
    rw [← e] at hdel
    rcases hdel with h' | h' <;> rw [h'] at hg <;> cases hg
    exact hne rfl
  rw [hd.1 _ hk] at hg
  have hp := parent_dir (Contain.good_dirsOk g) hg rfl
  have := g.1
  simp only [Conforms, Bool.and_eq_true, blocksConform, List.all_eq_true] at this
  have := this.1.2 _ (Store.mem_of_get?' hp)
  simp only [FileVal.isDir, Bool.true_and, beq_iff_eq, List.length_take, subdirNameChars] at this ⊢
  omega

/-- **backup_completes_any_source** — `C10f.BackupCompletesAnySourceStatement`, for EVERY hash `H`.
`s` is `Good` (the documented format, a map, a tree, no gc lock) with `KindsOK` and `BlocksSmall`; one
file `k` other than the header — a block, a hunk, a tail, a head, a stray file — is deleted or
emptied, giving `s'`.  Then for EVERY options record and EVERY source listing the fault-free backup
onto `s'` returns statistics: `(backup H o src).run (World.clean s') = (.ok st, w')`.  This is clause 3
of C10 exactly as `C10.BackupCompletes` words it; `C10f.backup_completes` had it for `SrcGood src`,
`0 < o.maxBlockSize`, injective `H` with long names.  None of these is needed for the backup to
COMPLETE (they are needed for the new version to restore the source EXACTLY — `backup_after_loss`). -/
theorem backup_completes_any_source : C10f.BackupCompletesAnySourceStatement H := by
  intro s s' k g hkinds hsmall hd hdel o src
  have hlock : s'.get? .gcLock = none := by
    obtain ⟨v0, hv0, _⟩ := hd.2.2.1
    rw [hd.1 .gcLock (fun e => by rw [← e, g.2.2.2] at hv0; cases hv0)]
    exact g.2.2.2
  exact backup_total_clean (C10f.storeOK_after_loss g hkinds hsmall hd hdel) (C10f.archWF_after_loss g hd hdel)
    hlock (longNames_after_loss g hd hdel) o src

/-- Clause 3 of `C10.C10StatementComplete` / `C10.C10Statement`, with the two hypotheses it needs
(`C10f.backup_completes_refuted`: false from `Good` alone) and nothing else. -/
theorem c10_clause3 (s s' : Store) (k : Key) (g : C10.Good H s) (hkinds : Rng.KindsOK s)
    (hsmall : Exact.BlocksSmall s) (hd : FileDamage s s' k) : BackupCompletes H s' k :=
  backup_completes_any_source s s' k g hkinds hsmall hd

/-- The undamaged case: a fault-free backup of ANYTHING onto a `Good` archive with `KindsOK` and
`BlocksSmall` returns statistics. -/
theorem backup_completes_undamaged {s : Store} (g : C10.Good H s) (hkinds : Rng.KindsOK s)
    (hsmall : Exact.BlocksSmall s) (o : BackupOpts) (src : List SrcEntry) :
    ∃ st w', (backup H o src).run (World.clean s) = (.ok st, w') := by
  have hst := Rng.storeOK_of_ci (C10f.good_ci g) hkinds hsmall
  refine backup_total_clean hst (C10f.good_archWF g) g.2.2.2 (GapTotal.longNames_of_dirNames hst ?_) o src
  intro p v hg
  have := g.1
  simp only [Conforms, Bool.and_eq_true, blocksConform, List.all_eq_true] at this
  have := this.1.2 _ (Store.mem_of_get?' hg)
  simp only [Bool.and_eq_true, beq_iff_eq] at this
  exact this.2

/-! ## 3. `LongNames` is needed in §1 -/

/-- A hash whose names have two characters. -/
def shortH : Str → Str := fun _ => [97, 98]

/-- A fresh archive with the block `ab` (content `[1]`) in the two-character directory `d/ab` —
`list_blocks` skips `d/ab`, so the in-memory set does not know the block. -/
def shortStore : Store :=
  [ (.root, .dir), (.header, .header [48, 46, 54]), (.blockRoot, .dir),
    (.blockDir [97, 98], .dir), (.block [97, 98], .blockData [1]) ]

/-- One small file `/f` with content `[2]` (which `shortH` names `ab`, too). -/
def oneFile : List SrcEntry :=
  [ { apath := [47, 102], kind := .file, mtimeNs := 0, unixMode := 420, user := none, group := none,
      size := 1, content := [2] } ]

theorem shortStore_ok : StoreOK shortH shortStore := StoreOK.of_checks (by decide +kernel)

theorem shortStore_noBands : Inv.NoBands shortStore := by
  intro kv hkv b
  simp only [shortStore, List.mem_cons, List.not_mem_nil, or_false] at hkv
  rcases hkv with rfl | rfl | rfl | rfl | rfl <;> intro e <;> cases e

theorem shortStore_wf : ArchWF shortStore :=
  (ArchiveGood.of_noBands shortStore_ok shortStore_noBands (by decide) []).wf

/-- Evaluating a run of `backup` in two steps: the prelude, then the main part on a GIVEN merged listing.
(The kernel cannot unfold `mergeTrees`, which is defined by well-founded recursion; everything else in
a run of `backup` on a small store evaluates.) -/
theorem backup_run_of_prelude {H : Str → Str} {o : BackupOpts} {src : List SrcEntry} {s : Store}
    {x : Nat × List Str × List IndexEntry} {w1 : World} {ms : List Matched}
    (hp : Inv.backupPrelude.run (World.clean s) = (.ok x, w1)) (hm : mergeTrees x.2.2 src = ms) :
    (backup H o src).run (World.clean s) =
      ((backupLoop H o { band := x.1, exists_ := x.2.1 } ms).bind fun w =>
        (flushGroup H w).bind fun w => (finishHunk w).bind fun w =>
        (bandClose w.band w.hunksWritten).bind fun _ => Prog.ret w.stats).run w1 := by
  rw [Inv.backup_eq, Prog.run_bind, hp]
  simp only [Inv.backupMain, hm]

/-- **backup_total_needs_longNames.**  `backup_total_clean` without `LongNames` is FALSE: `StoreOK`, `ArchWF`
and "no lock" hold of `shortStore` under `shortH`, yet the backup of `oneFile` ends with
`AlreadyExists` — `store_or_deduplicate` does not find `ab` in the in-memory set (its directory is
not listed), and the `CreateNew` write hits the existing file; in `flush_group` that error is fatal.
No real archive is like this (BLAKE2b names have 128 characters); the hypothesis is about `H`, which
the theorems leave arbitrary. -/
theorem backup_total_needs_longNames :
    ¬ ∀ (H : Str → Str) (s : Store), StoreOK H s → ArchWF s → s.get? .gcLock = none →
        ∀ o src, ∃ st w', (backup H o src).run (World.clean s) = (.ok st, w') := by
  intro h
  obtain ⟨st, w', hrun⟩ := h shortH shortStore shortStore_ok shortStore_wf (by decide) {} oneFile
  have hp : Inv.backupPrelude.run (World.clean shortStore)
      = (.ok (0, [], []), (Inv.backupPrelude.run (World.clean shortStore)).2) :=
    Prod.ext (okOf?_eq_some.mp (by decide +kernel)) rfl
  have herr : errOf? ((backup shortH {} oneFile).run (World.clean shortStore)).1
      = some (.transport .alreadyExists) := by
    rw [backup_run_of_prelude hp (ms := oneFile.map .right) (by rw [mergeTrees])]
    decide +kernel
  rw [hrun] at herr
  cases herr

/-- … and `LongNames` fails of that store, as it must. -/
example : ¬ GapTotal.LongNames shortStore := fun h => by
  have := h [97, 98] (.blockData [1]) (by decide +kernel) (by decide)
  revert this
  decide

/-! ## 4. Non-vacuity -/

/-- A source listing that violates every clause of `Exact.SrcGood`: not sorted, a path twice, an invalid
path (no leading slash, an empty component), `size` larger and smaller than the content, a file of
size 0 that has content, an entry of unknown kind, a symlink without target whose mtime is far beyond
year 9999, a pre-epoch mtime. -/
def wildSource : List SrcEntry :=
  [ { apath := [47, 122], kind := .file, mtimeNs := -1, unixMode := 420, user := none, group := none,
      size := 7, content := [1, 2] },
    { apath := [98, 47, 47], kind := .dir, mtimeNs := 0, unixMode := 493, user := none, group := none },
    { apath := [47, 122], kind := .file, mtimeNs := 5, unixMode := 420, user := some [117], group := none,
      size := 1, content := [1, 2, 3] },
    { apath := [47, 99], kind := .file, mtimeNs := 5, unixMode := 420, user := none, group := none,
      size := 0, content := [9] },
    { apath := [47, 117], kind := .unknown, mtimeNs := 0, unixMode := 0, user := none, group := none },
    { apath := [47, 97], kind := .symlink, mtimeNs := 1000000000000000000000000000000, unixMode := 511,
      user := none, group := none, target := none } ]

/-- Degenerate options: a flush after every entry, a block size of zero. -/
def wildOpts : BackupOpts := { maxEntriesPerHunk := 0, maxBlockSize := 0, smallFileCap := 1 }

/-- `wildSource` is none of the sources the earlier theorems speak about. -/
example : ¬ Exact.SrcGood wildSource := fun h => absurd h.sorted (by decide +kernel)

example : ¬ 0 < wildOpts.maxBlockSize := by decide

namespace Example
open C01a.Example C02h.Example C10f.Example

/-- **Instance on the archive a real backup wrote.**  `C02h.Example.s1` is the archive after a fault-free
backup of `C01a.Example.source`; delete the TAIL of its only version.  By `backup_completes_any_source`
the backup of `wildSource` with `wildOpts` onto it returns statistics.  Every hypothesis is discharged
by a theorem, none by evaluating the run. -/
example : ∃ st w', (backup exH wildOpts wildSource).run (World.clean (s1.erase (.bandTail 0))) = (.ok st, w') := by
  obtain ⟨v, hv, hvd⟩ := s1_tail
  exact backup_completes_any_source (H := exH) s1 _ (.bandTail 0) s1_good s1_archiveGood.st.kinds
    s1_archiveGood.st.small (C10f.fileDamage_erase s1_good hv hvd (by decide)) (.inl (by simp)) wildOpts wildSource

/-- The same with a BLOCK that version 0 refers to deleted: the basis now has a dangling reference (C01a's
`ArchiveGood` fails), and the backup of the ill-formed source still completes. -/
example : ∃ h : Str, ¬ NoDangling exH (s1.erase (.block h)) ∧
    ∃ st w', (backup exH wildOpts wildSource).run (World.clean (s1.erase (.block h))) = (.ok st, w') := by
  obtain ⟨h, c, n, es, e, a, hg, hh, he, ha, hah⟩ := s1_referenced_block
  refine ⟨h, fun hnd => ?_, ?_⟩
  · have hh' : hunkAt (s1.erase (.block h)) 0 n = some es := by
      unfold hunkAt at hh ⊢
      rwa [Store.get?_erase_ne s1 (by simp)]
    have := hnd 0 n es hh' e he a ha
    simp [readAddrPure, blockContent, hah] at this
  · exact backup_completes_any_source (H := exH) s1 _ (.block h) s1_good s1_archiveGood.st.kinds
      s1_archiveGood.st.small (C10f.fileDamage_erase s1_good hg (by simp) (fun e => by cases e))
      (.inl (by simp)) wildOpts wildSource

end Example

/-- **A constant hash.**  `C10f.closed` (one complete version, no blocks) is `Good` for EVERY hash, so also
for the constant, two-character `shortH`; delete its only hunk.  The backup of `wildSource` completes
— by the theorem … -/
example : ∃ st w', (backup shortH wildOpts wildSource).run (World.clean (C10f.closed.erase (.hunk 0 0)))
    = (.ok st, w') := by
  have g : C10.Good shortH C10f.closed :=
    ⟨by decide +kernel, by decide +kernel, by decide +kernel, by decide +kernel⟩
  have hk : Rng.KindsOK C10f.closed := fun k v hg => by
    have hm := Store.mem_of_get?' hg
    revert hm
    simp only [C10f.closed, List.mem_cons, List.not_mem_nil, or_false, Prod.mk.injEq]
    rintro (⟨rfl, rfl⟩ | ⟨rfl, rfl⟩ | ⟨rfl, rfl⟩ | ⟨rfl, rfl⟩ | ⟨rfl, rfl⟩ | ⟨rfl, rfl⟩ | ⟨rfl, rfl⟩ |
      ⟨rfl, rfl⟩ | ⟨rfl, rfl⟩) <;> rfl
  have hs : Exact.BlocksSmall C10f.closed := fun h c hg => by
    have hm := Store.mem_of_get?' hg
    revert hm
    simp [C10f.closed]
  exact backup_completes_any_source (H := shortH) C10f.closed _ (.hunk 0 0) g hk hs
    (C10f.fileDamage_erase g (v := .hunk [dirEntry [slash], emptyFile [47, 102]]) (by decide +kernel)
      (by decide) (by decide)) (.inl (by simp)) wildOpts wildSource

/-- … and by evaluation (in two steps, see `backup_run_of_prelude`): the basis listing is empty (the only
hunk of version 0 is gone), the run returns, counts no error, and the new version 1 is complete. -/
example :
    (okOf? ((backup shortH wildOpts wildSource).run (World.clean (C10f.closed.erase (.hunk 0 0)))).1).map
      (·.errors) = some 0 ∧
    isComplete ((backup shortH wildOpts wildSource).run (World.clean (C10f.closed.erase (.hunk 0 0)))).2.store 1
      = true := by
  have hp : Inv.backupPrelude.run (World.clean (C10f.closed.erase (.hunk 0 0)))
      = (.ok (1, [], []), (Inv.backupPrelude.run (World.clean (C10f.closed.erase (.hunk 0 0)))).2) :=
    Prod.ext (okOf?_eq_some.mp (by decide +kernel)) rfl
  rw [backup_run_of_prelude hp (ms := wildSource.map .right) (by rw [mergeTrees])]
  decide +kernel

end Conserve.Gaps

/-! ## Axioms -/
#print axioms Conserve.Gaps.backup_total_clean
#print axioms Conserve.Gaps.backup_total_clean_of_hlen
#print axioms Conserve.Gaps.backup_completes_any_source
#print axioms Conserve.Gaps.c10_clause3
#print axioms Conserve.Gaps.backup_completes_undamaged
#print axioms Conserve.Gaps.backup_total_needs_longNames
#print axioms Conserve.GapTotal.backupMain_total
#print axioms Conserve.GapTotal.backup_runs_total
