import ConserveModel.Proofs.ApathPrefix
/-
C12 — Selecting a subtree returns exactly that subtree.

`prefix_iff_ancestor` is the statement about the test every listing and restore uses to
select a subtree (src/apath.rs `is_prefix_of`): for valid paths it is exactly ancestry by
whole components.  `charIndexed_refuted` records the defect found in the code as it was
before the repair (byte length used as a character index).
The listing-level theorems (`subtree_listing`) are in Props/C08.lean (`stitch_filter`).
-/
namespace Conserve.C12
open Conserve

/-- Full statement: for all valid paths, the subtree test is ancestry by whole components. -/
def PrefixStatement (test : Str → Str → Bool) : Prop :=
  ∀ s a : Str, isValid s = true → isValid a = true → test s a = isAncestorOrSelf s a

theorem prefix_iff_ancestor : PrefixStatement isPrefixOfImpl := by
  intro s a hs ha
  rw [C11.valid_iff_spec] at hs ha
  obtain ⟨hs1, hs2⟩ := hs
  obtain ⟨ha1, ha2⟩ := ha
  cases s with
  | nil => simp at hs1
  | cons c rs =>
    simp only [List.head?_cons, Option.some.injEq] at hs1
    subst hs1
    cases a with
    | nil => simp at ha1
    | cons c ra =>
      simp only [List.head?_cons, Option.some.injEq] at ha1
      subst ha1
      by_cases hroot : rs = []
      · -- subtree is the root: everything is selected
        subst hroot
        have : isAncestorOrSelf [slash] (slash :: ra) = true := by
          simp [isAncestorOrSelf, components]
        rw [this]
        unfold isPrefixOfImpl
        cases ra with
        | nil => simp
        | cons r ra => simp [List.isPrefixOf]
      · have hs3 : ∀ c ∈ splitSlash rs, c ≠ [] := by
          rcases hs2 with h | h
          · simp at h; exact absurd h hroot
          · intro c hc; rw [components_cons rs hroot] at h; exact (h c hc).1
        have hlast : (slash :: rs).getLast? ≠ some slash := by
          intro h
          have h' : rs.getLast? = some slash := by
            cases rs with
            | nil => exact absurd rfl hroot
            | cons r rs => simpa [List.getLast?_cons_cons] using h
          exact hs3 [] (getLast?_slash_split rs h') rfl
        have hiff := isPrefixOfImpl_iff (slash :: rs) (slash :: ra) hlast
        have hspec : isAncestorOrSelf (slash :: rs) (slash :: ra) = true ↔
            (slash :: ra = slash :: rs ∨ ∃ y, slash :: ra = (slash :: rs) ++ slash :: y) := by
          unfold isAncestorOrSelf
          rw [components_cons rs hroot]
          by_cases hra : ra = []
          · subst hra
            have hne := splitSlash_ne_nil rs
            constructor
            · intro h
              cases hsp : splitSlash rs with
              | nil => exact absurd hsp hne
              | cons p ps => rw [hsp] at h; simp [components, List.isPrefixOf] at h
            · rintro (h | ⟨y, h⟩)
              · simp at h; exact absurd h hroot
              · simp at h
          · rw [components_cons ra hra, splitSlash_prefix_iff]
            simp
        cases h1 : isPrefixOfImpl (slash :: rs) (slash :: ra) <;>
          cases h2 : isAncestorOrSelf (slash :: rs) (slash :: ra) <;> simp_all

/-- The code as it was (character-indexed) does not satisfy the statement:
subtree "/ñ" does not select "/ñ/x". -/
theorem charIndexed_refuted : ¬ PrefixStatement isPrefixOfCharIndexed := by
  intro h
  have := h [47, 195, 177] [47, 195, 177, 47, 120] (by decide) (by decide)
  revert this
  decide

-- Non-vacuity: valid multi-byte paths on which the repaired test agrees with ancestry,
-- including a sibling that merely shares a textual prefix.
example : isPrefixOfImpl [47, 195, 177] [47, 195, 177, 47, 120] = true := by decide
example : isPrefixOfImpl [47, 97] [47, 97, 98] = false := by decide          -- "/a" vs "/ab"
example : isPrefixOfImpl [47, 97] [47, 97, 47, 98] = true := by decide       -- "/a" vs "/a/b"

end Conserve.C12
