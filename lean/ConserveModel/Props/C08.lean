import ConserveModel.Proofs.StitchOps
import ConserveModel.Props.C12
/-
C08 — Listing a version follows the stitching rule and is strictly ordered.

"For any arrangement of complete, incomplete, empty and deleted versions, listing version N
yields N's own entries and, if N is incomplete, continues with the entries of the nearest
earlier existing version that sort after the last path taken so far, recursively, stopping at
the first complete version or when no earlier version exists.  The result is strictly increasing
in path order (no duplicates), every entry comes unmodified from the newest version that covers
its path, and the listing always terminates."

The RULE is `listSpec` in StitchSpec.lean (pure functions of the store, one clause per phrase of
the sentence above: `ownEntries`, `bandPresent`, `isComplete`, `sortsAfter`, `lastOr`, `contSpec`,
`listSpec`, `chain`).  The CODE is `stitchAll` / `listEntries` / `listVersion` in IndexRead.lean: the
model of `Stitch::next` over `IndexHunkIter::next` with its three-way skip-ahead and trimming.

All theorems are about the fault-free, crash-free world `World.clean s` and quantify over ALL
stores `s` with `ArchWF s` (no duplicate paths, a tree, and each version's usable hunks
strictly increasing within and across hunks).  Versions may be absent, have a directory but no
head, an empty / undecodable / unsupported head, no index directory, no hunks, gaps anywhere in
the hunk numbering, undecodable, empty (`[]`) or zero-length hunk files, and a tail or none — in
every combination, with every split of the entries into hunks.

A hunk file is "usable" when its bytes decompress and parse AND every entry passes
`IndexEntry::check` (valid path, representable time, known kind, …), or when it is the zero-length
leftover of a killed write (no entries); anything else is treated like a missing hunk but
REPORTED: `stitch_eq_spec` also pins down the error events (one per unreadable version, one if
`Band::check_index_hunks` finds hunks missing or a zero-length hunk misplaced, one per unusable hunk;
and, since the repair of `previous_existing_band`, one `bandHeadMissing` for every id the walk passes
over whose head file is gone although its index still holds hunk 0 — `headLost`, see `stitch_errors`
and Props/C10h.lean).
Because every listed entry passed the check, the exclusion filter's `assert!(is_valid)` can never
fire (`listed_valid`), and since the repair of `Band::open` an unparsable `band_format_version` is
an error like any other unsupported version — so no hypothesis beyond `ArchWF` is needed.

Termination: `stitchAll`, `stitchDown` and `readHunks` are total Lean functions by structural
recursion on the band id and on the list of hunk numbers, and `Prog.run` interprets a finite tree;
that Lean accepts the definitions IS the proof that the listing terminates.  `stitch_total` below
records it.
-/
namespace Conserve.C08
open Conserve

/-! ## 2. The code computes the rule -/

/-- **stitch_eq_spec.**  For every well-formed store and every version id `n` (existing or not),
collecting the real iterator's output gives exactly the rule's listing; nothing is written; and
the error events are exactly `listErrors s n` (StitchSpec.lean; newest event first in the world).
This is the statement that the skip-ahead logic — whole hunk before the resume path: skip; whole
hunk after it: take and stop searching; hunk straddling it: binary search and trim — is correct for
every alignment of hunk boundaries with the resume path. -/
theorem stitch_eq_spec {s : Store} (wf : ArchWF s) (n : Nat) :
    ((stitchAll n).run (World.clean s)).1 = .ok (listSpec s n) ∧
    ((stitchAll n).run (World.clean s)).2.store = s ∧
    ((stitchAll n).run (World.clean s)).2.events = ((listErrors s n).map Event.error).reverse := by
  obtain ⟨w', h, q⟩ := run_stitchAll n (Quiet.clean s)
  rw [h]
  refine ⟨by rw [stitchAllP_fst wf], q.store, ?_⟩
  rw [q.events, stitchAllP_snd wf]; simp [evsOf]

/-- The same in any quiet world (no faults, not crashed), whatever happened before. -/
theorem stitch_eq_spec_quiet {s : Store} (wf : ArchWF s) (n : Nat)
    {evs : List Event} {w : World} (hq : Quiet s evs w) :
    ((stitchAll n).run w).1 = .ok (listSpec s n) ∧
    Quiet s (((listErrors s n).map Event.error).reverse ++ evs) ((stitchAll n).run w).2 := by
  obtain ⟨w', h, q⟩ := run_stitchAll n hq
  rw [h]
  refine ⟨by rw [stitchAllP_fst wf], ?_⟩
  rw [stitchAllP_snd wf] at q; exact q

/-- What is reported, spelled out.  The version asked for, then — if it is incomplete — the walk
down (`errorsBelow`): a version that exists is consulted (`bandErrors`) and, if complete, ends the
walk; an id without head file is passed over, and since the repair of `previous_existing_band` it is
reported with one `bandHeadMissing` if its index still holds hunk 0 (`headLost`: the head was there
once and is gone; a directory left by a backup killed before its head write has no hunk and stays
silent).  A version consulted that cannot be read gives exactly one error (`unreadableError`) and
contributes nothing; a readable one gives no error unless hunks are missing or misplaced (numbering
not 0,1,2,…, not as many as the tail says, or a zero-length hunk that is not the last one of a
version without tail: one `invalidMetadata`) or a hunk file cannot be used (one error each, in hunk
order). -/
theorem stitch_errors (s : Store) (n : Nat) :
    listErrors s n = bandErrors s n ++ (if isComplete s n then [] else errorsBelow s n) ∧
    errorsBelow s 0 = [] ∧
    (∀ b, errorsBelow s (b + 1) =
      if bandPresent s b then bandErrors s b ++ (if isComplete s b then [] else errorsBelow s b)
      else (if headLost s b then [Err.bandHeadMissing b] else []) ++ errorsBelow s b) ∧
    ∀ b, bandErrors s b =
      if bandReadable s b then
        (indexCheckError s b).toList ++ (hunkNumsOf s b).filterMap (hunkError s b)
      else [unreadableError s b] := ⟨rfl, rfl, fun _ => rfl, fun _ => rfl⟩

/-- The same, relative to the chain of versions consulted: the errors of the chain's versions
(`chainErrors`, what was reported before the repair) all occur, in order; anything else reported is
the `bandHeadMissing` of an id below `n` that lost its head; and if no id below `n` has lost its head
the listing reports exactly the chain's errors. -/
theorem stitch_errors_chain (s : Store) (n : Nat) :
    (chainErrors s n = (chain s n).flatMap fun b =>
      if bandReadable s b then
        (indexCheckError s b).toList ++ (hunkNumsOf s b).filterMap (hunkError s b)
      else [unreadableError s b]) ∧
    (chainErrors s n).Sublist (listErrors s n) ∧
    (∀ e ∈ listErrors s n, (∃ c ∈ chain s n, e ∈ bandErrors s c) ∨
      ∃ c, c < n ∧ headLost s c = true ∧ e = Err.bandHeadMissing c) ∧
    ((∀ c, c < n → headLost s c = false) → listErrors s n = chainErrors s n) :=
  ⟨rfl, chainErrors_sublist s n, fun _ he => mem_listErrors he, listErrors_eq_chainErrors n⟩

/-- A listing of intact versions is silent: if every version of the chain is readable, has its
hunks numbered 0,1,2,… (as many as the tail says) and all of them usable, and no id below `n` has
lost its head (`hl`: needed since the repair of `previous_existing_band`, which reports such ids),
no error is reported. -/
theorem stitch_silent {s : Store} (n : Nat)
    (h : ∀ b ∈ chain s n, bandReadable s b = true ∧ indexCheckError s b = none ∧
      ∀ k ∈ hunkNumsOf s b, hunkError s b k = none)
    (hl : ∀ c, c < n → headLost s c = false) :
    listErrors s n = [] := by
  rw [listErrors_eq_chainErrors n hl]
  unfold chainErrors
  rw [List.flatMap_eq_nil_iff]
  intro b hb
  obtain ⟨h1, h2, h3⟩ := h b hb
  simp only [bandErrors, h1, if_true, h2, Option.toList, List.nil_append, List.filterMap_eq_nil_iff]
  exact h3

/-! ## 3. Strictly ordered -/

/-- **stitch_sorted.**  The listing of any version of a well-formed store is strictly increasing
in path order; in particular no path occurs twice. -/
theorem stitch_sorted {s : Store} (wf : ArchWF s) (n : Nat) :
    ((listSpec s n).map (·.apath)).Pairwise (fun a b => apathCmp a b = .lt) := by
  rw [List.pairwise_map, listSpec_eq_stitchList]
  exact (stitchList_sorted wf (chain s n) none).1

theorem stitch_nodup {s : Store} (wf : ArchWF s) (n : Nat) : ((listSpec s n).map (·.apath)).Nodup := by
  refine (stitch_sorted wf n).imp ?_
  intro a b h e
  subst e
  exact C11.cmp_irrefl a h

/-- The same about what the code returns. -/
theorem stitch_sorted_run {s : Store} (wf : ArchWF s) (n : Nat) :
    ∃ es, ((stitchAll n).run (World.clean s)).1 = .ok es ∧
      (es.map (·.apath)).Pairwise (fun a b => apathCmp a b = .lt) :=
  ⟨_, (stitch_eq_spec wf n).1, stitch_sorted wf n⟩

/-! ## 4. Provenance -/

/-- The entries the listing of `n` takes from version `b`: those entries of `b` that sort after
everything every newer version of the chain holds — `b` is the newest version of the chain that
reaches ("covers") their path. -/
def takenFrom (s : Store) (n b : Nat) : List IndexEntry := takenFromChain s (chain s n) b

theorem mem_takenFrom {s : Store} {n b : Nat} {e : IndexEntry} :
    e ∈ takenFrom s n b ↔
      e ∈ bandEntries s b ∧
      ∀ b' ∈ chain s n, b < b' → ∀ e' ∈ bandEntries s b', apathCmp e'.apath e.apath = .lt := by
  simp only [takenFrom, takenFromChain, List.mem_filter, List.all_eq_true, Bool.or_eq_true,
    decide_eq_true_eq, beq_iff_eq]
  constructor
  · rintro ⟨he, h⟩
    refine ⟨he, fun b' hb' hlt e' he' => ?_⟩
    rcases h b' hb' with hle | h
    · omega
    · exact h e' he'
  · rintro ⟨he, h⟩
    refine ⟨he, fun b' hb' => ?_⟩
    by_cases hle : b' ≤ b
    · exact Or.inl hle
    · exact Or.inr (h b' hb' (by omega))

/-- Version `b` covers path `p`: its (readable) index reaches `p` or beyond. -/
def covers (s : Store) (b : Nat) (p : Str) : Prop :=
  ∃ e' ∈ bandEntries s b, apathCmp e'.apath p ≠ .lt

/-- Taken from `b` = an entry of `b` whose path no newer version of the chain covers; `b` itself
covers it, so `b` is the newest version of the chain that covers the path. -/
theorem taken_iff_newest_cover {s : Store} {n b : Nat} {e : IndexEntry} :
    e ∈ takenFrom s n b ↔
      e ∈ bandEntries s b ∧ covers s b e.apath ∧
      ∀ b' ∈ chain s n, b < b' → ¬ covers s b' e.apath := by
  rw [mem_takenFrom]
  constructor
  · rintro ⟨he, h⟩
    refine ⟨he, ⟨e, he, C11.cmp_irrefl _⟩, fun b' hb' hlt ⟨e', he', hne⟩ => hne (h b' hb' hlt e' he')⟩
  · rintro ⟨he, _, h⟩
    refine ⟨he, fun b' hb' hlt e' he' => ?_⟩
    cases hc : apathCmp e'.apath e.apath with
    | lt => rfl
    | eq => exact absurd ⟨e', he', by simp [hc]⟩ (h b' hb' hlt)
    | gt => exact absurd ⟨e', he', by simp [hc]⟩ (h b' hb' hlt)

/-- **stitch_provenance.**  The listing is the concatenation, along the chain, of what is taken
from each version; every listed entry is taken from exactly one version `b` of the chain; it is
an element of a stored, usable hunk of `b` (unmodified); and every newer version of the chain
holds only paths sorting before it (so `b` is the newest version covering its path). -/
theorem stitch_provenance {s : Store} (wf : ArchWF s) (n : Nat) :
    listSpec s n = ((chain s n).map (takenFrom s n)).flatten ∧
    ∀ e ∈ listSpec s n,
      (∃ b, (b ∈ chain s n ∧ e ∈ takenFrom s n b) ∧
        ∀ b₂, (b₂ ∈ chain s n ∧ e ∈ takenFrom s n b₂) → b₂ = b) ∧
      ∀ b ∈ chain s n, e ∈ takenFrom s n b →
        (∃ k es, usableHunk s b k = some es ∧ e ∈ es) ∧
        ∀ b' ∈ chain s n, b < b' → ∀ e' ∈ bandEntries s b', apathCmp e'.apath e.apath = .lt := by
  have heq : listSpec s n = ((chain s n).map (takenFrom s n)).flatten := by
    rw [listSpec_eq_stitchList, stitchList_eq_stitchPos wf _ none [] (Summ.nil s)]
    exact stitchPos_eq (chain s n) (chain_decreasing s n) [] (chain s n) rfl
  refine ⟨heq, fun e he => ⟨?_, ?_⟩⟩
  · rw [heq, List.mem_flatten] at he
    obtain ⟨l, hl, hel⟩ := he
    obtain ⟨b, hb, rfl⟩ := List.mem_map.mp hl
    refine ⟨b, ⟨hb, hel⟩, ?_⟩
    rintro b₂ ⟨hb₂, he₂⟩
    rcases Nat.lt_trichotomy b₂ b with hlt | heq' | hgt
    · -- `e` is an entry of `b`, and everything in `b` sorts before what is taken from `b₂`
      have := (mem_takenFrom.mp he₂).2 b hb hlt e (mem_takenFrom.mp hel).1
      exact absurd this (C11.cmp_irrefl _)
    · exact heq'
    · have := (mem_takenFrom.mp hel).2 b₂ hb₂ hgt e (mem_takenFrom.mp he₂).1
      exact absurd this (C11.cmp_irrefl _)
  · intro b _ hel
    obtain ⟨hbe, hnewer⟩ := mem_takenFrom.mp hel
    refine ⟨?_, hnewer⟩
    unfold bandEntries at hbe
    split at hbe
    · unfold ownEntries at hbe
      obtain ⟨es, hes, hee⟩ := List.mem_flatten.mp hbe
      obtain ⟨k, _, hk⟩ := List.mem_filterMap.mp hes
      exact ⟨k, es, hk, hee⟩
    · simp at hbe

/-- Every listed entry is literally stored in some hunk file of the archive, all of whose
entries pass `IndexEntry::check`. -/
theorem listed_is_stored {s : Store} {n : Nat} {e : IndexEntry} (he : e ∈ listSpec s n) :
    ∃ b k es, s.get? (.hunk b k) = some (.hunk es) ∧ es.all entryUsable = true ∧ e ∈ es := by
  rw [listSpec_eq_stitchList] at he
  obtain ⟨b, _, hbe⟩ := mem_stitchList he
  unfold bandEntries at hbe
  split at hbe
  · unfold ownEntries at hbe
    obtain ⟨es, hes, hee⟩ := List.mem_flatten.mp hbe
    obtain ⟨k, _, hk⟩ := List.mem_filterMap.mp hes
    unfold usableHunk at hk
    split at hk
    · rename_i es'' hg
      by_cases hu : es''.all entryUsable = true
      · simp only [hu, if_true, Option.some.injEq] at hk
        subst hk
        exact ⟨b, k, es'', hg, hu, hee⟩
      · simp [hu] at hk
    · simp only [Option.some.injEq] at hk
      subst hk
      simp at hee
    · simp at hk
  · simp at hbe

/-! ## 5. Subtree and exclusions -/

/-- Every listed path is valid: `Exclude::matches`' `assert!(is_valid)` cannot fire on a listing. -/
theorem listed_valid {s : Store} {n : Nat} {e : IndexEntry}
    (he : e ∈ listSpec s n) : isValid e.apath = true := by
  obtain ⟨b, k, es, _, hu, hee⟩ := listed_is_stored he
  rw [List.all_eq_true] at hu
  have := hu e hee
  simp only [entryUsable, Bool.and_eq_true] at this
  exact this.1.1.1.1

/-- **stitch_filter.**  Listing with a subtree and an exclusion predicate is the unfiltered rule
listing, filtered: inside the subtree (`Apath::is_prefix_of`) and not excluded.  (The model's
`filterEntries` panics on an invalid stored path like `Exclude::matches` does; `listed_valid`
shows the listing never reaches one.) -/
theorem stitch_filter {s : Store} (wf : ArchWF s) (n : Nat) (subtree : Str) (excl : Str → Bool) :
    ((listEntries n subtree excl).run (World.clean s)).1 =
      .ok ((listSpec s n).filter fun e => isPrefixOfImpl subtree e.apath && !excl e.apath) ∧
    ((listEntries n subtree excl).run (World.clean s)).2.store = s := by
  obtain ⟨w', h, q⟩ := run_stitchAll n (Quiet.clean s)
  rw [stitchAllP_fst wf] at h
  simp only [listEntries, Prog.bind_def, Prog.run_bind, h]
  rw [run_filterEntries subtree excl (listSpec s n) w' (fun e he _ => listed_valid he)]
  exact ⟨rfl, q.store⟩

/-- With C12 (`prefix_iff_ancestor`): for a valid subtree path, the subtree listing consists of
exactly the listed entries at or below the subtree by WHOLE path components, minus the excluded
ones, in the same (strictly increasing) order. -/
theorem subtree_listing {s : Store} (wf : ArchWF s) (n : Nat) (subtree : Str)
    (hsub : isValid subtree = true) (excl : Str → Bool) :
    ((listEntries n subtree excl).run (World.clean s)).1 =
      .ok ((listSpec s n).filter fun e => isAncestorOrSelf subtree e.apath && !excl e.apath) := by
  rw [(stitch_filter wf n subtree excl).1]
  congr 1
  apply List.filter_congr
  intro e he
  rw [C12.prefix_iff_ancestor subtree e.apath hsub (listed_valid he)]

/-- `Archive::iter_entries(Specified(n), subtree, exclude)`: `StoredTree::open` first opens the
version, so a requested version whose head cannot be opened is refused with that error (it is NOT
treated as an empty version that continues downward); otherwise the filtered rule. -/
theorem list_version_specified {s : Store} (wf : ArchWF s) (n : Nat) (subtree : Str)
    (excl : Str → Bool) :
    ((listVersion (.specified n) subtree excl).run (World.clean s)).1 =
      match bandOpenP s n with
      | .ok () => .ok ((listSpec s n).filter fun e => isPrefixOfImpl subtree e.apath && !excl e.apath)
      | .error e => .err e := by
  obtain ⟨w1, h1, q1⟩ := run_bandOpen (Quiet.clean s) n
  simp only [listVersion, resolveBandId, Prog.bind_def, Prog.pure_def, Prog.ret_bind, Prog.run_bind, h1]
  cases hb : bandOpenP s n with
  | error e => rfl
  | ok u =>
    obtain ⟨w', h, q⟩ := run_stitchAll n q1
    rw [stitchAllP_fst wf] at h
    simp only [toOutcome, listEntries, Prog.bind_def, Prog.run_bind, h]
    rw [run_filterEntries subtree excl (listSpec s n) w' (fun e he _ => listed_valid he)]

/-! ## 6. Termination -/

/-- The listing always terminates: `run` is a total function, so there is a result, in every
world (faults, crashes and malformed stores included).  The content of the statement is that Lean
accepted `stitchAll`, `stitchDown`, `readHunks` (structural recursion) and `Prog.run`. -/
theorem stitch_total (n : Nat) (w : World) : ∃ r, (stitchAll n).run w = r := ⟨_, rfl⟩

/-- The meaningful bound: listing version `n` of a well-formed store issues at most
`(n + 1) · (6 + 3·|s|)` storage operations (`|s|` = number of files and directories in the
archive): per version consulted one existence test, one head read, one tail test, one tail read,
the directory listings (twice) and one read per hunk file.  The trace of the clean world records
every operation. -/
theorem stitch_ops_bounded {s : Store} (wf : ArchWF s) (n : Nat) :
    ((stitchAll n).run (World.clean s)).2.trace.length ≤ (n + 1) * (6 + 3 * s.length) := by
  rw [opsIn_eq_trace (stitchAll n) (World.clean s) rfl rfl]
  simpa [World.clean] using ops_stitchAll wf n (Quiet.clean s)

/-- **stitch_terminates.**  Both halves together: on every well-formed store the listing of every
version id returns (no error, no panic) after a number of storage operations bounded by a
computable function of the store. -/
theorem stitch_terminates {s : Store} (wf : ArchWF s) (n : Nat) :
    ∃ es, ((stitchAll n).run (World.clean s)).1 = .ok es ∧
      ((stitchAll n).run (World.clean s)).2.trace.length ≤ (n + 1) * (6 + 3 * s.length) :=
  ⟨_, (stitch_eq_spec wf n).1, stitch_ops_bounded wf n⟩

/-! ## Non-vacuity: a concrete archive -/

/-- A file entry at path `p`, marked with the version it was written by. -/
def ent (p : Str) (m : Int) : IndexEntry :=
  { apath := p, kind := .file, mtime := m, mtimeNanos := 0, unixMode := none, user := none,
    group := none, addrs := [], target := none }

/-- b0000 complete (`/ /a /b /c /d` in one hunk); b0001 incomplete, two hunks (`/ /a /b`, `/c`);
b0002 incomplete, one hunk (`/ /a`); b0003 a directory without head; b0005 with an empty head. -/
def demo : Store :=
  [ (.root, .dir), (.header, .header [48, 46, 54]), (.blockRoot, .dir),
    (.bandDir 0, .dir), (.bandHead 0, .head .ok []), (.indexDir 0, .dir), (.hunkDir 0 0, .dir),
    (.hunk 0 0, .hunk [ent [47] 0, ent [47, 97] 0, ent [47, 98] 0, ent [47, 99] 0, ent [47, 100] 0]),
    (.bandTail 0, .tail (some 1)),
    (.bandDir 1, .dir), (.bandHead 1, .head .ok []), (.indexDir 1, .dir), (.hunkDir 1 0, .dir),
    (.hunk 1 0, .hunk [ent [47] 1, ent [47, 97] 1, ent [47, 98] 1]),
    (.hunk 1 1, .hunk [ent [47, 99] 1]),
    (.bandDir 2, .dir), (.bandHead 2, .head .ok []), (.indexDir 2, .dir), (.hunkDir 2 0, .dir),
    (.hunk 2 0, .hunk [ent [47] 2, ent [47, 97] 2]),
    (.bandDir 3, .dir),
    (.bandDir 5, .dir), (.bandHead 5, .empty) ]

-- `sortNat` is `List.mergeSort` (well-founded recursion, which `decide` cannot unfold), so the
-- hunk numbers of the three versions are computed once by hand.
theorem sortNat_of_sorted {xs : List Nat} (h : xs.Pairwise (fun a b => decide (a ≤ b) = true)) :
    sortNat xs = xs := List.mergeSort_of_pairwise h

theorem demo_nums0 : hunkNumsOf demo 0 = [0] := by
  rw [hunkNumsOf_eq, show demo.filterMap (hunkSelAll 0) = [0] by decide +kernel]
  exact sortNat_of_sorted (by decide)
theorem demo_nums1 : hunkNumsOf demo 1 = [0, 1] := by
  rw [hunkNumsOf_eq, show demo.filterMap (hunkSelAll 1) = [0, 1] by decide +kernel]
  exact sortNat_of_sorted (by decide)
theorem demo_nums2 : hunkNumsOf demo 2 = [0] := by
  rw [hunkNumsOf_eq, show demo.filterMap (hunkSelAll 2) = [0] by decide +kernel]
  exact sortNat_of_sorted (by decide)

theorem demo_own0 : ownEntries demo 0 =
    [ent [47] 0, ent [47, 97] 0, ent [47, 98] 0, ent [47, 99] 0, ent [47, 100] 0] := by
  unfold ownEntries; rw [demo_nums0]; decide +kernel
theorem demo_own1 : ownEntries demo 1 = [ent [47] 1, ent [47, 97] 1, ent [47, 98] 1, ent [47, 99] 1] := by
  unfold ownEntries; rw [demo_nums1]; decide +kernel
theorem demo_own2 : ownEntries demo 2 = [ent [47] 2, ent [47, 97] 2] := by
  unfold ownEntries; rw [demo_nums2]; decide +kernel

/-- The hypotheses of all theorems above are satisfiable: the demo archive is well-formed. -/
theorem demo_wf : ArchWF demo := by
  refine ⟨by decide +kernel, by decide +kernel, ?_⟩
  have hb : demo.all (fun kv => match kv.1 with
      | .hunk b _ => b == 0 || b == 1 || b == 2 | _ => true) = true := by decide +kernel
  rw [List.all_eq_true] at hb
  unfold bandsSorted
  rw [List.all_eq_true]
  intro kv hm
  have := hb kv hm
  split
  · rename_i b n hk
    rw [hk] at this
    simp only [Bool.or_eq_true, beq_iff_eq] at this
    rcases this with (rfl | rfl) | rfl
    · rw [demo_own0]; decide +kernel
    · rw [demo_own1]; decide +kernel
    · rw [demo_own2]; decide +kernel
  · rfl


/-- Listing b0002 (incomplete): its own `/ /a`; then b0001 resumes after `/a` — its first hunk
`/ /a /b` STRADDLES the resume path and is trimmed to `/b`, its second hunk `/c` is taken whole;
b0001 is incomplete too, so b0000 resumes after `/c` with `/d` and, being complete, ends the listing. -/
theorem demo_list2 : listSpec demo 2 =
    [ent [47] 2, ent [47, 97] 2, ent [47, 98] 1, ent [47, 99] 1, ent [47, 100] 0] := by
  simp only [listSpec, contSpec, bandEntries, demo_own0, demo_own1, demo_own2]
  decide +kernel

/-- Listing b0005 (empty head: unreadable, exists, no tail): nothing of its own, then down past
the absent b0004 and the head-less b0003 to b0002 and on as above. -/
example : listSpec demo 5 = listSpec demo 2 := by
  rw [demo_list2]
  simp only [listSpec, contSpec, bandEntries, demo_own0, demo_own1, demo_own2]
  decide +kernel

theorem demo_noLost : ∀ c, headLost demo c = false := by
  intro c
  have hb : demo.all (fun kv => match kv.1 with
      | .hunk b _ => b == 0 || b == 1 || b == 2 | _ => true) = true := by decide +kernel
  rw [List.all_eq_true] at hb
  unfold headLost
  cases hg : demo.get? (.hunk c 0) with
  | none => simp
  | some v =>
    have := hb _ (get?_mem hg)
    simp only [Bool.or_eq_true, beq_iff_eq] at this
    rcases this with (rfl | rfl) | rfl
    · simp [show bandPresent demo 0 = true by decide +kernel]
    · simp [show bandPresent demo 1 = true by decide +kernel]
    · simp [show bandPresent demo 2 = true by decide +kernel]

/-- Listing b0002 reports nothing; listing b0005 reports its undecodable head, once (the head-less
directory b0003 it passes over holds no hunk: it was never started, nothing is reported for it). -/
example : listErrors demo 2 = [] := by
  rw [listErrors_eq_chainErrors _ (fun c _ => demo_noLost c)]
  simp only [chainErrors, show chain demo 2 = [2, 1, 0] by decide +kernel, List.flatMap_cons,
    List.flatMap_nil, bandErrors, indexCheckError, demo_nums0, demo_nums1, demo_nums2]
  decide +kernel
example : listErrors demo 5 = [Err.json] := by
  rw [listErrors_eq_chainErrors _ (fun c _ => demo_noLost c)]
  simp only [chainErrors, show chain demo 5 = [5, 2, 1, 0] by decide +kernel, List.flatMap_cons,
    List.flatMap_nil, bandErrors, indexCheckError, demo_nums0, demo_nums1, demo_nums2]
  decide +kernel

example : chain demo 5 = [5, 2, 1, 0] := by decide +kernel
example : chain demo 0 = [0] := by decide +kernel

/-- And the code agrees, on this store, by the theorem (not by evaluation). -/
example : ((stitchAll 2).run (World.clean demo)).1 =
    .ok [ent [47] 2, ent [47, 97] 2, ent [47, 98] 1, ent [47, 99] 1, ent [47, 100] 0] := by
  rw [(stitch_eq_spec demo_wf 2).1, demo_list2]

/-- Subtree `/b` of version 2 is the one entry that version 1 supplied. -/
example : ((listEntries 2 [47, 98] (fun _ => false)).run (World.clean demo)).1 = .ok [ent [47, 98] 1] := by
  rw [(stitch_filter demo_wf 2 _ _).1, demo_list2]
  exact congrArg Outcome.ok (by decide +kernel)

end Conserve.C08
