import ConserveModel.Proofs.RaceStepA
import ConserveModel.Props.C02h
import ConserveModel.Props.C13
/-
C06 on the FULL model — A garbage collection (or delete) and a backup running together never lose data.

"For every interleaving of a delete or garbage collection with a backup on the same archive, once
both have finished (each either succeeding or refusing with an error) every version marked complete
restores completely: no version, old or just written, refers to a block the collector removed."

Props/C06.lean proves this on a protocol skeleton.  This file proves it on the programs themselves:
`backup H o src` (Backup.lean) and `deleteBands true D opts` (Gc.lean: strict reading, any list `D`
of versions to delete — `[]` is a pure gc —, `dry_run` and `break_lock` as given), started as two
`Actor`s on one store and advanced one storage operation at a time by an ARBITRARY schedule
(`Conc.runSched`, `CreateNew` honoured), then each run to its end.

* `c06_full_ci` — the store at the end satisfies `CI` (C13's invariant: it conforms to the format —
  in particular every address of every file entry of every version resolves to a present, intact,
  long-enough block —, parents are directories, keys are distinct) whenever the store at the start does.
* `c06_full` — hence every block a complete version names is present and non-empty (`C02h.RefsPresent`,
  what `C02h.restore_congr` needs); `c06_full_noDangling` — no entry of ANY version dangles
  (`NoDangling`, Invariants.lean).
* `c06_full_finished` — both commands have indeed finished.
* `c06_full_everywhere` — `CI`-or-recoverable at every point: the joint invariant `Race.J` holds after
  every prefix of every schedule (`runPrefix`), and
* `c06_full_exclusive` — mutual exclusion on the full model: whenever the collector's pending operation
  removes something (a version directory or a block), the backup's pending operation is not a write
  of a hunk, a block or a tail (it has not passed its second look at the lock, or it has finished).

Hypotheses: `H` injective with names of at least three characters (as in C13), the source listing
strictly increasing and valid (`C13.SrcSortedWeak`), the archive at the start satisfies `CI`.
Nothing about `D`, the options of either command, the lock file, or the schedule.

Proof: Proofs/Race*.lean.  The two programs are cut at their storage operations (`RaceBackup`,
`RaceGc`: every residual program as an explicit term, or — inside the long reading/writing parts —
characterised by the operations it can still issue and by what it would do if run alone from the
current store).  `Race.J` relates the store and the two positions; `J.stepA` / `J.stepB`: every single
operation of either actor preserves it; `runSched_inv`: induction over the schedule.
-/
namespace Conserve.C06f
open Conserve Conserve.Race Conserve.Conf Conserve.Inv

variable {H : Str → Str}

/-- `CI` gives `NoDangling`: every entry of every decodable hunk conforms. -/
theorem noDangling_of_ci {s : Store} (hci : CI H s) : NoDangling H s := by
  intro b n es hh e he a ha
  have := entry_of_hunk_conforms hci hh he
  unfold entryConforms at this
  simp only [Bool.and_eq_true] at this
  have h2 := this.2
  cases hk : e.kind <;> simp only [hk, Bool.and_eq_true, List.all_eq_true, List.isEmpty_iff] at h2
  · exact h2.2 a ha
  · rw [h2.1] at ha; cases ha
  · rw [h2.1] at ha; cases ha
  · cases h2

/-- The invariant at the start. -/
theorem J_start (o : BackupOpts) (src : List SrcEntry) (D : List Nat) (opts : DeleteOpts) {s : Store} (hs : CI H s) :
    J H o src D opts s (Actor.start (backup H o src)).prog (Actor.start (deleteBands true D opts)).prog := by
  rw [Actor.start_prog, Actor.start_prog, backup_start, deleteBands_start]
  have hx : ∀ γ : GSt, γ.chk = none → γ.sweeping = false → Cross .l1 γ s := fun γ h1 h2 =>
    ⟨fun m hm => (by rw [h1] at hm; cases hm), fun _ h => (by cases h), fun h => (by rw [h2] at h; cases h)⟩
  split
  · exact ⟨.l1, .b1, rfl, rfl, hs, trivial, hx _ rfl rfl, hs.nodup⟩
  · exact ⟨.l1, .atN, rfl, rfl, hs, trivial, hx _ rfl rfl, hs.nodup⟩

/-- When the backup has finished the store satisfies `CI`. -/
theorem ci_of_J_done {o : BackupOpts} {src : List SrcEntry} {D : List Nat} {opts : DeleteOpts} {s : Store}
    {pA : Prog Stats} {pB : Prog DeleteStats} (h : J H o src D opts s pA pB) (hd : pA.Done) : CI H s := by
  obtain ⟨β, γ, hpA, _, hbf, _, _, _⟩ := h
  cases β <;> simp only [BSt.prog] at hpA
  case done => exact hbf
  case crit n => exact absurd hd hpA.2.2
  all_goals (subst hpA; cases hd)

section
variable (hinj : Function.Injective H) (hlen : HashLen H) (o : BackupOpts) (src : List SrcEntry)
  (D : List Nat) (opts : DeleteOpts)
include hinj hlen

/-- The joint invariant at the end of every schedule, where both programs are finished. -/
theorem J_end (s : Store) (hs : CI H s) (hsrc : C13.SrcSortedWeak src) (sched : List Bool) :
    let r := runSched true sched s (Actor.start (backup H o src)) (Actor.start (deleteBands true D opts))
    J H o src D opts r.1 r.2.1.prog r.2.2.prog ∧ r.2.1.prog.Done ∧ r.2.2.prog.Done := by
  have hsrc' : SrcOK src := ⟨hsrc.1, fun sf hsf => hsrc.2 sf hsf⟩
  exact runSched_inv (J H o src D opts)
    (fun s o' k pB h => J.stepA o src D opts hinj hlen hsrc' h)
    (fun s pA o' k h => J.stepB o src D opts h)
    sched s _ _ (by rw [Actor.start_prog, Prog.strip_strip]) (by rw [Actor.start_prog, Prog.strip_strip])
    (J_start o src D opts hs)

/-- **C06 on the full model, store invariant.**  For every archive satisfying `CI`, every source
listing (strictly increasing, valid), all options of both commands, every list `D` of versions to
delete and EVERY schedule: after `backup` and `delete_bands` have run interleaved one storage
operation at a time and then each to its end, the archive satisfies `CI` again. -/
theorem c06_full_ci (s : Store) (hs : CI H s) (hsrc : C13.SrcSortedWeak src) (sched : List Bool) :
    let r := runSched true sched s (Actor.start (backup H o src)) (Actor.start (deleteBands true D opts))
    CI H r.1 := by
  intro r
  obtain ⟨hj, hda, _⟩ := J_end hinj hlen o src D opts s hs hsrc sched
  exact ci_of_J_done hj hda

/-- **C06 on the full model**: once both have finished, every block a version marked complete names —
an old version or the one just written — is present and not the zero-length leftover of a killed
write: the collector removed no block that a surviving version refers to. -/
theorem c06_full (s : Store) (hs : CI H s) (hsrc : C13.SrcSortedWeak src) (sched : List Bool) :
    let r := runSched true sched s (Actor.start (backup H o src)) (Actor.start (deleteBands true D opts))
    ∀ b ∈ bandIdsOf r.1, isComplete r.1 b = true → C02h.RefsPresent r.1 b := by
  intro r b _ _
  exact C02h.refsPresent_of_noDangling (H := H)
    (noDangling_of_ci (c06_full_ci hinj hlen o src D opts s hs hsrc sched)) b

/-- The same in the sense of Invariants.lean: no entry of any version (complete or not) refers to a
block that is missing, corrupt or shorter than needed. -/
theorem c06_full_noDangling (s : Store) (hs : CI H s) (hsrc : C13.SrcSortedWeak src) (sched : List Bool) :
    let r := runSched true sched s (Actor.start (backup H o src)) (Actor.start (deleteBands true D opts))
    NoDangling H r.1 :=
  noDangling_of_ci (c06_full_ci hinj hlen o src D opts s hs hsrc sched)

omit hinj hlen in
/-- Both commands have finished (a result, an error or a panic) at the end of every schedule: "once
both have finished" is not a hypothesis one could fail to meet. -/
theorem c06_full_finished (s : Store) (sched : List Bool) :
    let r := runSched true sched s (Actor.start (backup H o src)) (Actor.start (deleteBands true D opts))
    r.2.1.outcome ≠ none ∧ r.2.2.outcome ≠ none := by
  intro r
  have h := runSched_inv (fun _ (_ : Prog Stats) (_ : Prog DeleteStats) => True) (fun _ _ _ _ _ => trivial)
    (fun _ _ _ _ _ => trivial) sched s (Actor.start (backup H o src)) (Actor.start (deleteBands true D opts))
    (by rw [Actor.start_prog, Prog.strip_strip]) (by rw [Actor.start_prog, Prog.strip_strip]) trivial
  exact ⟨Actor.outcome_of_done h.2.1, Actor.outcome_of_done h.2.2⟩

/-! ### At every point of every run -/

end

/-- Follow the schedule and stop there (no running to completion): the states `runSched` visits. -/
def runPrefix {α β : Type} : List Bool → Store → Actor α → Actor β → Store × Actor α × Actor β
  | [], s, a, b => (s, a, b)
  | false :: rest, s, a, b =>
    let (s', a') := a.step true s
    runPrefix rest s' a' b
  | true :: rest, s, a, b =>
    let (s', b') := b.step true s
    runPrefix rest s' a b'

theorem runPrefix_inv {α β : Type} (J : Store → Prog α → Prog β → Prop)
    (hA : ∀ s o k pB, J s (.op o k) pB → J (applyOp true s o).1 (k (applyOp true s o).2).strip pB)
    (hB : ∀ s pA o k, J s pA (.op o k) → J (applyOp true s o).1 pA (k (applyOp true s o).2).strip)
    (sched : List Bool) (s : Store) (a : Actor α) (b : Actor β) (h : J s a.prog b.prog) :
    J (runPrefix sched s a b).1 (runPrefix sched s a b).2.1.prog (runPrefix sched s a b).2.2.prog := by
  induction sched generalizing s a b with
  | nil => exact h
  | cons t rest ih =>
    cases t with
    | false =>
      simp only [runPrefix]
      cases hp : a.prog with
      | op o k =>
        obtain ⟨h1, h2⟩ := Actor.step_op hp s
        refine ih _ _ _ ?_
        rw [h1, h2]
        exact hA s o k _ (hp ▸ h)
      | ret x => rw [Actor.step_done (by rw [hp]; intro o k hh; cases hh) s]; exact ih s a b h
      | fail e => rw [Actor.step_done (by rw [hp]; intro o k hh; cases hh) s]; exact ih s a b h
      | panic m => rw [Actor.step_done (by rw [hp]; intro o k hh; cases hh) s]; exact ih s a b h
      | emit ev k => rw [Actor.step_done (by rw [hp]; intro o k hh; cases hh) s]; exact ih s a b h
    | true =>
      simp only [runPrefix]
      cases hp : b.prog with
      | op o k =>
        obtain ⟨h1, h2⟩ := Actor.step_op hp s
        refine ih _ _ _ ?_
        rw [h1, h2]
        exact hB s _ o k (hp ▸ h)
      | ret x => rw [Actor.step_done (by rw [hp]; intro o k hh; cases hh) s]; exact ih s a b h
      | fail e => rw [Actor.step_done (by rw [hp]; intro o k hh; cases hh) s]; exact ih s a b h
      | panic m => rw [Actor.step_done (by rw [hp]; intro o k hh; cases hh) s]; exact ih s a b h
      | emit ev k => rw [Actor.step_done (by rw [hp]; intro o k hh; cases hh) s]; exact ih s a b h

/-- `runSched` is: follow the schedule, then let A finish, then B. -/
theorem runSched_eq_prefix {α β : Type} (sched : List Bool) (s : Store) (a : Actor α) (b : Actor β) :
    runSched true sched s a b =
      (let p := runPrefix sched s a b
       let x := p.2.1.finish true p.1
       let y := p.2.2.finish true x.1
       (y.1, x.2, y.2)) := by
  induction sched generalizing s a b with
  | nil => rfl
  | cons t rest ih =>
    cases t <;> simp only [runSched, runPrefix] <;> exact ih _ _ _

/-- The collector's removals: a version directory, a block. -/
def isSweepOp : Op → Bool
  | .removeFile (.block _) => true
  | .removeDirAll _ => true
  | _ => false

/-- What `backup` writes after its second look at the lock: hunk and block sub-directories, hunks,
blocks, the tail. -/
def isDataWrite : Op → Bool
  | .write (.hunk _ _) _ _ | .write (.block _) _ _ | .write (.bandTail _) _ _ => true
  | .createDir (.hunkDir _ _) | .createDir (.blockDir _) => true
  | _ => false

section
variable (hinj : Function.Injective H) (hlen : HashLen H) (o : BackupOpts) (src : List SrcEntry)
  (D : List Nat) (opts : DeleteOpts)
include hinj hlen

/-- **The joint invariant holds at every point of every run** (after every prefix of every schedule),
not only at the end. -/
theorem c06_full_everywhere (s : Store) (hs : CI H s) (hsrc : C13.SrcSortedWeak src) (sched : List Bool) :
    let r := runPrefix sched s (Actor.start (backup H o src)) (Actor.start (deleteBands true D opts))
    J H o src D opts r.1 r.2.1.prog r.2.2.prog := by
  have hsrc' : SrcOK src := ⟨hsrc.1, fun sf hsf => hsrc.2 sf hsf⟩
  exact runPrefix_inv (J H o src D opts)
    (fun s o' k pB h => J.stepA o src D opts hinj hlen hsrc' h)
    (fun s pA o' k h => J.stepB o src D opts h)
    sched s _ _ (J_start o src D opts hs)

/-- **Mutual exclusion on the full model** (the reason C06 holds): at every point of every run,
whenever the collector's pending operation removes a version directory or a block, the backup's
pending operation is not one of the writes it does after its second look at the gc lock (hunk and
block sub-directories, hunks, blocks, tail): the backup has not got that far — and will refuse when
it sees the lock —, or it has finished. -/
theorem c06_full_exclusive (s : Store) (hs : CI H s) (hsrc : C13.SrcSortedWeak src) (sched : List Bool) :
    let r := runPrefix sched s (Actor.start (backup H o src)) (Actor.start (deleteBands true D opts))
    ∀ oB kB, r.2.2.prog = .op oB kB → isSweepOp oB = true →
      ∀ oA kA, r.2.1.prog = .op oA kA → isDataWrite oA = false := by
  intro r oB kB hB hsw oA kA hA
  obtain ⟨β, γ, hpA, hpB, _, _, hx, _⟩ := c06_full_everywhere hinj hlen o src D opts s hs hsrc sched
  rw [show (runPrefix sched s (Actor.start (backup H o src)) (Actor.start (deleteBands true D opts))).2.2.prog
    = .op oB kB from hB] at hpB
  rw [show (runPrefix sched s (Actor.start (backup H o src)) (Actor.start (deleteBands true D opts))).2.1.prog
    = .op oA kA from hA] at hpA
  have hsweep : γ.sweeping = true := by
    cases γ <;> simp only [GSt.prog, gcB1, gcB2, gcN, gcTC, gcLC, gcW, gcK, gcSweepB, gcSweepU] at hpB
    case sweepB | sweepU => rfl
    case read m q =>
      obtain ⟨hp, ⟨o1, k1, hq⟩, hro⟩ := hpB
      subst hq
      simp only [gcRead, Prog.op_bind, wl_op] at hp
      injection hp with ho _
      subst ho
      cases hro with
      | op ho1 _ => cases oB <;> simp_all [ReadOnly, isSweepOp]
    case unl =>
      cases hpB with
      | op ho _ => rw [show oB = .removeFile .gcLock from ho] at hsw; simp [isSweepOp] at hsw
    all_goals (injection hpB with ho _; subst ho; simp [isSweepOp] at hsw)
  have hc := hx.excl hsweep
  cases β <;> simp only [BSt.prog, bkL1, bkBasis, bkIdl, bkMkdir, bkMkI, bkHead, bkL2] at hpA
  case crit => simp [BSt.isCrit] at hc
  case done => cases hpA
  all_goals (injection hpA with ho _; subst ho; rfl)

end

/-! ### Non-vacuity -/

namespace Example
open Conserve.C13.Example

/-- `C13.Example.archive2` (one complete version holding `/a` in one block) plus one GARBAGE block —
referenced by no version — whose content `[3, 4]` is the first chunk of `/b` in `C04.Example.source`
(block size 2): the block a backup of that source wants to deduplicate against and a gc wants to
remove — the situation of defect D7. -/
def archive3 : Store := archive2 ++ [(.block [0, 0, 0, 3, 4], .blockData [3, 4])]

theorem archive3_conforms : Conforms exH archive3 = true := by
  have hb : bandIdsOf archive3 = [0] := by simp [bandIdsOf, archive3, archive2, sortNat]
  have hn : hunkNumsOf archive3 0 = [0] := by simp [hunkNumsOf, archive3, archive2, sortNat, FileVal.isDir]
  have h1 : archive3.get? .header = some (.header [48, 46, 54]) := by decide
  have h2 : archive3.get? .root = some .dir := by decide
  have h3 : archive3.get? .blockRoot = some .dir := by decide
  have h4 : blocksConform exH archive3 = true := by decide
  have h5 : bandConforms exH archive3 0 = true := by
    unfold bandConforms
    rw [hn]
    decide
  unfold Conforms
  rw [hb, h1, h2, h3, h4]
  simp [h5]

theorem archive3_ci : CI exH archive3 :=
  ⟨archive3_conforms, by decide, by unfold NoDupKeys archive3 archive2; decide⟩

/-- The garbage block is there and no version refers to it. -/
example : archive3.get? (.block [0, 0, 0, 3, 4]) = some (.blockData [3, 4]) ∧
    ∀ b n es, hunkAt archive3 b n = some es → ∀ e ∈ es, ∀ a ∈ e.addrs, a.hash ≠ [0, 0, 0, 3, 4] := by
  refine ⟨by decide, ?_⟩
  intro b n es h e he a ha
  have hk : ∀ k, archive3.get? k = some (.hunk es) → es = [ea] := by
    intro k hk
    have := Store.mem_of_get? hk
    simp only [archive3, archive2, List.mem_append, List.mem_cons, List.not_mem_nil, or_false, Prod.mk.injEq] at this
    rcases this with (⟨_, h⟩ | ⟨_, h⟩ | ⟨_, h⟩ | ⟨_, h⟩ | ⟨_, h⟩ | ⟨_, h⟩ | ⟨_, h⟩ | ⟨_, h⟩ | ⟨_, h⟩ | ⟨_, h⟩ | ⟨_, h⟩) | ⟨_, h⟩ <;>
      first | (cases h; rfl) | cases h
  unfold hunkAt at h
  split at h
  · rename_i es' hg
    cases h
    rw [hk _ hg] at he
    simp only [List.mem_singleton] at he
    subst he
    simp only [ea, List.mem_singleton] at ha
    subst ha
    decide
  · cases h

/-- The schedule of D7 on the real code ("`00` then 15 gc operations": the backup's first look at the
lock, then the collector up to and beyond `check()`, then the backup to its end, then the collector):
the theorem applies — whatever each command answers, no complete version dangles. -/
example :
    let r := runSched true ([false] ++ List.replicate 15 true) archive3
      (Actor.start (backup exH C04.Example.opts C04.Example.source)) (Actor.start (deleteBands true [] {}))
    (∀ b ∈ bandIdsOf r.1, isComplete r.1 b = true → C02h.RefsPresent r.1 b) ∧
      r.2.1.outcome ≠ none ∧ r.2.2.outcome ≠ none :=
  ⟨c06_full exH_inj exH_len _ _ _ _ archive3 archive3_ci source_sorted.weak _,
   c06_full_finished _ _ _ _ archive3 _⟩

/-- A delete of the existing version (and of the id the new one will get) racing the backup, every schedule. -/
example (sched : List Bool) :
    CI exH (runSched true sched archive3 (Actor.start (backup exH C04.Example.opts C04.Example.source))
      (Actor.start (deleteBands true [0, 1] { breakLock := true }))).1 :=
  c06_full_ci exH_inj exH_len _ _ _ _ archive3 archive3_ci source_sorted.weak sched

/-- The very first step is possible and is what one expects: both actors are parked at their first
storage operation (the two looks at the lock file / the listing of the archive directory). -/
example : (Actor.start (backup exH C04.Example.opts C04.Example.source)).prog = bkL1 exH C04.Example.opts C04.Example.source ∧
    (Actor.start (deleteBands true [] {})).prog = gcN [] {} := by
  constructor
  · rw [Actor.start_prog, backup_start]; rfl
  · rw [Actor.start_prog, deleteBands_start]; rfl

end Example

end Conserve.C06f
