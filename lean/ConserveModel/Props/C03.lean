import ConserveModel.Props.C04
/-
C03 — A backup killed at any point leaves a consistent, usable archive (store-level part).

The crash instances of the all-worlds theorems of Props/C04.lean: no faults, the world stops
before mutating micro-step `j` (`crashAt := some j`; a write is two micro-steps — the file comes
into existence empty, then it is filled — every other mutating operation one), for EVERY `j`.
Because the invariant behind C04 is preserved by every single `World.exec` step, including both
halves of a write, nothing more is needed than to instantiate it.

Proved: for every crash point — the archive extends the old one (`crash_extends`); no index
entry anywhere refers to a block that is missing, corrupt or shorter than the entry needs
(`crash_no_dangling`); every file entry the interrupted run recorded restores to its source bytes
(`crash_recorded_content`); blocks stay named by their content (`crash_blocks_good`); old versions
still read as before (`crash_old_versions`).
Not done here: `crash_prefix` (the killed run's store IS the store of the crash-free run after its
first `j` micro-steps — `Prog.run` does not expose intermediate worlds; none of the theorems above
depends on it, they hold of every killed run directly), and the listing/resume clauses of
DESIGN §4 C03, which need the C08 stitching theorem.
-/
namespace Conserve.C03
open Conserve Conserve.Inv

variable {H : Str → Str}

/-- The world of an uninterrupted run on archive `s`. -/
def cleanWorld (s : Store) : World := World.clean s

/-- The world that is killed before mutating micro-step `j` (no injected faults). -/
def crashWorld (s : Store) (j : Nat) : World := { store := s, crashAt := some j }

/-- What C03 assumes of the archive the backup starts from: it is a map, its block files are named
by the hash of their content (or are zero-length leftovers of earlier kills), no index entry
dangles, and the tool's own "looks unchanged ⇒ is unchanged" assumption holds of its file entries. -/
structure ArchiveOK (H : Str → Str) (src : List SrcEntry) (s : Store) : Prop where
  noDup : NoDupKeys s
  blocksGood : BlocksGood H s
  noDangling : NoDangling H s
  heuristic : HeuristicSoundStore H src s

theorem setting (hinj : Function.Injective H) {o : BackupOpts} (hmax : 0 < o.maxBlockSize)
    {src : List SrcEntry} (hwf : SrcWF src) {s : Store} (ha : ArchiveOK H src s) (j : Nat) :
    C04.Setting H o src (crashWorld s j) :=
  C04.Setting.of_store hinj hmax hwf rfl ha.noDup ha.blocksGood ha.noDangling ha.heuristic

/-- Killed at any micro-step, the archive still holds every file it held, unchanged (a
zero-length leftover may have been completed). -/
theorem crash_extends (hinj : Function.Injective H) {o : BackupOpts} (hmax : 0 < o.maxBlockSize)
    {src : List SrcEntry} (hwf : SrcWF src) {s : Store} (ha : ArchiveOK H src s) (j : Nat) :
    Extends s ((backup H o src).run (crashWorld s j)).2.store :=
  C04.faults_extends (setting hinj hmax hwf ha j)

/-- Killed at any micro-step — before an operation, or between the creation of a file and its
content arriving — no index entry anywhere refers to a block that is missing, corrupt, or shorter
than the entry needs. -/
theorem crash_no_dangling (hinj : Function.Injective H) {o : BackupOpts} (hmax : 0 < o.maxBlockSize)
    {src : List SrcEntry} (hwf : SrcWF src) {s : Store} (ha : ArchiveOK H src s) (j : Nat) :
    NoDangling H ((backup H o src).run (crashWorld s j)).2.store :=
  C04.faults_no_dangling (setting hinj hmax hwf ha j) ha.noDangling

/-- Killed at any micro-step, every file entry the interrupted run got as far as recording (in a
hunk that was not there before) restores to exactly the bytes of the source file with that path. -/
theorem crash_recorded_content (hinj : Function.Injective H) {o : BackupOpts} (hmax : 0 < o.maxBlockSize)
    {src : List SrcEntry} (hwf : SrcWF src) {s : Store} (ha : ArchiveOK H src s) (j : Nat) :
    ∀ b n es, hunkAt s b n = none →
      hunkAt ((backup H o src).run (crashWorld s j)).2.store b n = some es →
      ∀ e ∈ es, e.kind = .file →
        ∃ sf ∈ src, sf.apath = e.apath ∧ sf.kind = .file ∧
          readBack H ((backup H o src).run (crashWorld s j)).2.store e.addrs = some sf.content :=
  C04.faults_recorded_content_exact (setting hinj hmax hwf ha j)

/-- Killed at any micro-step, every block file is named by the hash of its content or is the
zero-length leftover of the killed write. -/
theorem crash_blocks_good (hinj : Function.Injective H) {o : BackupOpts} (hmax : 0 < o.maxBlockSize)
    {src : List SrcEntry} (hwf : SrcWF src) {s : Store} (ha : ArchiveOK H src s) (j : Nat) :
    BlocksGood H ((backup H o src).run (crashWorld s j)).2.store :=
  C04.faults_blocks_good (setting hinj hmax hwf ha j)

/-- Killed at any micro-step, every earlier version's index hunks and file contents read back
exactly as before. -/
theorem crash_old_versions (hinj : Function.Injective H) {o : BackupOpts} (hmax : 0 < o.maxBlockSize)
    {src : List SrcEntry} (hwf : SrcWF src) {s : Store} (ha : ArchiveOK H src s) (j : Nat) :
    (∀ b n es, hunkAt s b n = some es →
      hunkAt ((backup H o src).run (crashWorld s j)).2.store b n = some es) ∧
    (∀ as x, readBack H s as = some x →
      readBack H ((backup H o src).run (crashWorld s j)).2.store as = some x) :=
  ⟨fun _ _ _ h => C04.faults_old_hunks (setting hinj hmax hwf ha j) h,
   fun _ _ h => C04.faults_old_content (setting hinj hmax hwf ha j) h⟩

/-- The archive a killed backup leaves satisfies `ArchiveOK` again except for the heuristic clause
(which speaks about the NEXT source): the next backup — the resumed one — starts from a store that
is a map, content-addressed and free of dangling references. -/
theorem crash_leaves_archive_ok (hinj : Function.Injective H) {o : BackupOpts} (hmax : 0 < o.maxBlockSize)
    {src : List SrcEntry} (hwf : SrcWF src) {s : Store} (ha : ArchiveOK H src s) (j : Nat) :
    NoDupKeys ((backup H o src).run (crashWorld s j)).2.store ∧
    BlocksGood H ((backup H o src).run (crashWorld s j)).2.store ∧
    NoDangling H ((backup H o src).run (crashWorld s j)).2.store :=
  ⟨C04.faults_no_dup (setting hinj hmax hwf ha j), crash_blocks_good hinj hmax hwf ha j,
   crash_no_dangling hinj hmax hwf ha j⟩

/-- The uninterrupted run is the instance without crash point. -/
theorem clean_no_dangling (hinj : Function.Injective H) {o : BackupOpts} (hmax : 0 < o.maxBlockSize)
    {src : List SrcEntry} (hwf : SrcWF src) {s : Store} (ha : ArchiveOK H src s) :
    NoDangling H ((backup H o src).run (cleanWorld s)).2.store :=
  C04.faults_no_dangling
    (C04.Setting.of_store hinj hmax hwf rfl ha.noDup ha.blocksGood ha.noDangling ha.heuristic) ha.noDangling

/-! ### Non-vacuity -/

open C04.Example in
example : ArchiveOK id source archive :=
  ⟨archive_noDup, archive_blocksGood, archive_noDangling,
   fun b n es h => by rw [archive_noHunks] at h; cases h⟩

open C04.Example in
example : ArchiveOK id source archive2 :=
  ⟨archive2_noDup, archive2_blocksGood, archive2_noDangling, archive2_heuristic⟩

open C04.Example in
example (j : Nat) : NoDangling id ((backup id opts source).run (crashWorld archive2 j)).2.store :=
  crash_no_dangling (fun _ _ h => h) (by decide) source_wf
    ⟨archive2_noDup, archive2_blocksGood, archive2_noDangling, archive2_heuristic⟩ j

end Conserve.C03
