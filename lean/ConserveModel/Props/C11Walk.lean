import ConserveModel.Proofs.WalkConvex
import ConserveModel.Proofs.WalkPerm
/-
C11 (walk part) — the source walk emits entries in strictly increasing apath order, for any
tree; direct children precede grandchildren and every subtree is contiguous.

Model: ConserveModel/Tree.lean (`walkDeque` = src/source.rs `Iter` as written, `walkRec` = the
recursive specification).  Property theorems only; helper lemmas live in Proofs/Walk*.lean.
-/
namespace Conserve.C11
open Conserve

/-- "The walk" is the literal model of the iterator. -/
abbrev walk (root : Node) (excl : Str → Bool) : List SrcEntry := walkDeque root excl

/-- The exclusion predicate that excludes nothing (`Exclude::nothing()`). -/
abbrev noExcl : Str → Bool := fun _ => false

/-- The iterator with its two deques emits exactly what the recursive specification says:
the root entry, then for every directory its non-excluded children sorted by name followed by
the contents of each child directory in apath order.  For ALL trees (well-formed or not) and
all exclusion predicates. -/
theorem walk_deque_eq_rec (T : Node) (excl : Str → Bool) : walkDeque T excl = walkRec T excl := by
  unfold walkDeque
  rw [iterRun_eq_pending, walkRec_eq]
  · simp [pending]
  · have h1 := Forest.walkBelow_length_le excl T.kids [slash]
    have h2 := T.kids_size_lt
    simp only [turnsNeeded, walkFuel, List.length_cons, List.length_nil, List.map_cons,
      List.map_nil, List.sum_cons, List.sum_nil]
    omega

/-- The fuel given to the iterator loop does not matter once it reaches `walkFuel T`
(= 2·size + 2): the loop has stopped by itself. -/
theorem iterRun_fuel_irrelevant (T : Node) (excl : Str → Bool) (fuel : Nat)
    (h : walkFuel T ≤ fuel) :
    iterRun excl fuel [T.entry [slash]] [([slash], T.kids)] = walkDeque T excl := by
  unfold walkDeque
  have h1 := Forest.walkBelow_length_le excl T.kids [slash]
  have h2 := T.kids_size_lt
  have hb : turnsNeeded excl [T.entry [slash]] [([slash], T.kids)] ≤ walkFuel T := by
    simp only [turnsNeeded, walkFuel, List.length_cons, List.length_nil, List.map_cons,
      List.map_nil, List.sum_cons, List.sum_nil]
    omega
  rw [iterRun_eq_pending excl fuel _ _ (Nat.le_trans hb h), iterRun_eq_pending excl _ _ _ hb]

/-- The root entry comes first, whatever `excl` says about "/". -/
theorem walk_root_first (T : Node) (excl : Str → Bool) :
    (walk T excl).head? = some (T.entry [slash]) ∧ (T.entry [slash]).apath = [slash] := by
  unfold walk
  rw [walk_deque_eq_rec]
  exact ⟨rfl, Node.entry_apath _ _⟩

theorem root_lt_pathOf {x : Str} {t : List Str} (h : GoodComps (x :: t)) :
    apathCmp [slash] (pathOf (x :: t)) = .lt := by
  have hk : keys [slash] = dirKeys [] ++ keysOf [] [] := by decide
  have hx : x ≠ [] := ((goodName_iff x).1 (h x List.mem_cons_self)).1
  have hk2 := keys_pathOf (cs := []) h
  simp only [List.nil_append] at hk2
  rw [apathCmp_eq_keys, hk, hk2, compare_append_left,
    Std.OrientedCmp.eq_swap (cmp := (compare : List Str → List Str → Ordering)),
    compare_keysOf_good_root t hx]
  rfl

/-- **Walk order.** For any well-formed tree (any depth and width) and any exclusion predicate,
the emitted apaths are strictly increasing in `Apath::cmp`. -/
theorem walk_sorted (T : Node) (excl : Str → Bool) (hwf : T.WF = true) :
    ((walk T excl).map (·.apath)).Pairwise (fun a b => apathCmp a b = .lt) := by
  unfold walk
  rw [walk_deque_eq_rec, walkRec_eq]
  have hb := walkBelow_sorted excl T.kids [] (fun _ h => nomatch h) (Node.WF_kids hwf)
  simp only [List.map_cons, List.pairwise_cons, Node.entry_apath]
  refine ⟨?_, List.pairwise_map.2 hb.1⟩
  intro a ha
  obtain ⟨e, he, rfl⟩ := List.mem_map.1 ha
  obtain ⟨x, t, hg, hea⟩ := hb.2 e he
  rw [hea]
  exact root_lt_pathOf hg

/-- Every emitted apath is a valid apath. -/
theorem walk_valid (T : Node) (excl : Str → Bool) (hwf : T.WF = true) :
    ∀ e ∈ walk T excl, isValid e.apath = true := by
  unfold walk
  rw [walk_deque_eq_rec, walkRec_eq]
  have hb := walkBelow_sorted excl T.kids [] (fun _ h => nomatch h) (Node.WF_kids hwf)
  intro e he
  rcases List.mem_cons.1 he with rfl | he
  · rw [Node.entry_apath]; decide
  · obtain ⟨x, t, hg, hea⟩ := hb.2 e he
    rw [hea]
    exact pathOf_valid hg

/-- No apath is emitted twice (a consequence of strict order). -/
theorem walk_nodup (T : Node) (excl : Str → Bool) (hwf : T.WF = true) :
    ((walk T excl).map (·.apath)).Nodup := by
  refine (walk_sorted T excl hwf).imp ?_
  intro a b h e
  subst e
  exact cmp_irrefl a h

/-- **Independence of `read_dir` order** (used by C17): two well-formed trees that differ only
in the order in which each directory lists its children give the same walk — the same entries
in the same order. -/
theorem walk_perm_invariant (T₁ T₂ : Node) (excl : Str → Bool) (hwf : T₁.WF = true)
    (h : Node.PermEq T₁ T₂) : walk T₁ excl = walk T₂ excl := by
  unfold walk
  rw [walk_deque_eq_rec, walk_deque_eq_rec, walkRec_eq, walkRec_eq]
  rcases h with rfl | ⟨m, k₁, k₂, rfl, rfl, hk⟩
  · rfl
  · simp only [Node.kids]
    rw [hk.walkBelow_eq (by simpa [Node.WF] using hwf)]
    rfl

/-- Well-formedness is itself independent of the listing order. -/
theorem wf_perm_invariant (f g : Forest) (h : Forest.PermEq f g) (hwf : f.WF = true) :
    g.WF = true := (h.main.2 hwf).1

/-- **Pruning = filtering.**  If the exclusion predicate is closed under descendants (as
`Exclude` is: every glob `p` is added together with `p/**`), then skipping excluded
directories at walk time gives the same as walking everything and dropping every excluded
entry.  The root is excepted, as in the code (it is emitted without being tested). -/
theorem walk_prune_eq_filter (T : Node) (excl : Str → Bool) (hwf : T.WF = true)
    (hcl : ∀ a p, isValid a = true → isValid p = true → excl a = true → StrictDesc a p →
      excl p = true) :
    (walk T excl).tail = ((walk T noExcl).tail).filter (fun e => !excl e.apath) := by
  unfold walk
  rw [walk_deque_eq_rec, walk_deque_eq_rec, walkRec_eq, walkRec_eq, List.tail_cons, List.tail_cons]
  exact walkBelow_prune excl hcl T.kids [] (fun _ h => nomatch h) (Node.WF_kids hwf)

/-- A direct child of a directory sorts before every path at least two levels below that
directory (children before grandchildren and anything deeper). -/
theorem children_before_grandchildren (d x y z : Str) (hd : isValid d = true)
    (hx : goodName x = true) (hy : goodName y = true) (hz : goodName z = true) :
    apathCmp (apathAppend d x) (apathAppend (apathAppend d y) z) = .lt := by
  obtain ⟨hg, e⟩ := valid_eq_pathOf hd
  rw [e, apathAppend_pathOf hg, apathAppend_pathOf hg,
    apathAppend_pathOf (hg.append (GoodComps.single hy))]
  have h2 : GoodComps (components d ++ y :: z :: []) :=
    hg.append (fun c hc => by
      rcases List.mem_cons.1 hc with rfl | hc
      · exact hy
      · rw [List.mem_singleton.1 hc]; exact hz)
  have := apathCmp_child_deeper (hg.append (GoodComps.single hx)) h2
  simpa using this

/-- **Contiguity.**  The strict descendants (by whole components) of a valid directory path
form an interval of the order: whatever lies between two of them is one of them.  `b` is
arbitrary (not assumed valid).  (The subtree INCLUDING `d` is not an interval: `/a < /b < /a/x`.) -/
theorem strict_descendants_convex (d a b c : Str) (hd : isValid d = true)
    (ha : isValid a = true) (hc : isValid c = true)
    (hda : StrictDesc d a) (hdc : StrictDesc d c)
    (hab : apathCmp a b = .lt) (hbc : apathCmp b c = .lt) : StrictDesc d b := by
  obtain ⟨hg, e⟩ := valid_eq_pathOf hd
  rw [e] at hda hdc ⊢
  obtain ⟨_, _, _, h⟩ := strict_descendants_convex_comps hg ha hc hda hdc hab hbc
  exact h

/-- In the walk of a well-formed tree the strict descendants of any directory are emitted
contiguously: between two of them only descendants are emitted. -/
theorem walk_descendants_contiguous (T : Node) (excl : Str → Bool) (hwf : T.WF = true)
    (d : Str) (hd : isValid d = true) (i j k : Nat) (hij : i < j) (hjk : j < k)
    (hk : k < (walk T excl).length)
    (hi' : StrictDesc d ((walk T excl)[i]'(by omega)).apath)
    (hk' : StrictDesc d ((walk T excl)[k]'hk).apath) :
    StrictDesc d ((walk T excl)[j]'(by omega)).apath := by
  have hs := walk_sorted T excl hwf
  rw [List.pairwise_map, List.pairwise_iff_getElem] at hs
  have hv := walk_valid T excl hwf
  exact strict_descendants_convex d _ _ _ hd
    (hv _ (List.getElem_mem _)) (hv _ (List.getElem_mem _)) hi' hk'
    (hs i j (by omega) (by omega) hij) (hs j k (by omega) hk hjk)

/-! ### Non-vacuity: a concrete tree with names "a", "ab", "a.b" and a directory "a" -/

private def leaf : Node := .file {} 0 []

/-- `/ab` (file), `/a/` (dir with `b` and an empty dir `a`), `/a.b/` (dir with `x`), listed in
that order by `read_dir`. -/
private def t1 : Node :=
  .dir {} (.ofList [([97, 98], leaf),
    ([97], .dir {} (.ofList [([98], leaf), ([97], .dir {} .nil)])),
    ([97, 46, 98], .dir {} (.ofList [([120], leaf)]))])

/-- The same tree with every listing in another order. -/
private def t1' : Node :=
  .dir {} (.ofList [([97], .dir {} (.ofList [([97], .dir {} .nil), ([98], leaf)])),
    ([97, 98], leaf),
    ([97, 46, 98], .dir {} (.ofList [([120], leaf)]))])

example : t1.WF = true := by decide

/-- "/", "/a", "/a.b", "/ab", "/a/a", "/a/b", "/a.b/x" — not the byte order of the strings. -/
example : (walk t1 noExcl).map (·.apath) =
    [[47], [47, 97], [47, 97, 46, 98], [47, 97, 98], [47, 97, 47, 97], [47, 97, 47, 98],
     [47, 97, 46, 98, 47, 120]] := by decide

example : walkDeque t1 noExcl = walkRec t1 noExcl := by decide

example : Node.PermEq t1 t1' :=
  .inr ⟨_, _, _, rfl, rfl, .trans (.swap _ _ _ _ _) (.consDir _ _ (.swap _ _ _ _ _) (.refl _))⟩

example : walk t1 noExcl = walk t1' noExcl := by decide

/-- Excluding `/a` and everything below it (a descendant-closed predicate). -/
private def exclA : Str → Bool := fun p => isAncestorOrSelf [47, 97] p

example : ∀ a p, isValid a = true → isValid p = true → exclA a = true → StrictDesc a p →
    exclA p = true := by
  intro a p _ _ h1 ⟨h2, _⟩
  unfold exclA isAncestorOrSelf at *
  rw [List.isPrefixOf_iff_prefix] at *
  exact h1.trans h2

example : (walk t1 exclA).map (·.apath) =
    [[47], [47, 97, 46, 98], [47, 97, 98], [47, 97, 46, 98, 47, 120]] := by decide

example : (walk t1 exclA).tail = ((walk t1 noExcl).tail).filter (fun e => !exclA e.apath) := by
  decide

/-- The root is emitted even when the predicate is true on "/". -/
example : ((walk t1 (fun _ => true)).map (·.apath)) = [[47]] := by decide

/-- Without distinct sibling names the order is not strict: `WF` is needed in `walk_sorted`. -/
example : ¬ ((walk (.dir {} (.ofList [([97], leaf), ([97], leaf)])) noExcl).map (·.apath)).Pairwise
    (fun a b => apathCmp a b = .lt) := by decide

example : StrictDesc [47, 97] [47, 97, 47, 98] := by decide
example : apathCmp [47, 97, 47, 97] [47, 97, 46, 98, 47, 120] = .lt := by decide

end Conserve.C11
