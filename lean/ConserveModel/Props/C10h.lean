import ConserveModel.Proofs.StitchHeadless
import ConserveModel.Proofs.ValidateGood
import ConserveModel.Proofs.ConformsHeadless
import ConserveModel.Props.C10
import ConserveModel.Props.C13
/-
C10 (repair of `previous_existing_band`) — a lost predecessor head is never silent.

"… each file whose hunk or block has become missing or undecodable is reported as an error rather
than silently dropped or altered."

The defect: listing / restoring an INTERRUPTED version continues in the previous version;
`previous_existing_band` (src/index/stitch.rs) walks the ids downwards and passes over every id whose
`BANDHEAD` is not a file.  If the predecessor's `BANDHEAD` was deleted, everything the interrupted
version took from it vanished without a word.  The repair: for an id without head the walk also asks
whether `bNNNN/i/00000/000000000` (index hunk 0) is a file.  Hunks are only written after the head, so
a version that holds hunk 0 but no head has LOST its head (`headLost`, StitchSpec.lean): it is
reported as `Error::BandHeadMissing`, and the walk goes on as before.  A directory left by a backup
that was killed before its head write holds no hunk and stays silent.

The model is `stitchDown` (IndexRead.lean); the walk as it was is `stitchDownOld`
(Proofs/StitchHeadless.lean).  All theorems below quantify over ALL stores (no well-formedness, unless
stated) and over every fault-free, crash-free world `Quiet s evs w` (whatever was reported before).

* `headless_predecessor_reported` (+ `_list`, `_restore`, `_spec`): the damage is never silent.
* `headless_leftover_silent` (+ `_absent`, `_absent_list`): a head-less directory without hunk 0 adds
  no event and no entry; the listing is the one of the archive without that directory.
* `repair_conservative` (+ `repair_same_when_no_head_lost`): otherwise nothing changes — the same
  entries, the same errors in the same order, nothing added but `bandHeadMissing` of lost heads.
-/
namespace Conserve.C10h
open Conserve Conserve.Exact

/-! ## 1. A lost head is reported -/

/-- **headless_predecessor_reported.**  Version `b` has lost its head (`headLost s b`: no `BANDHEAD`
file, but index hunk 0 is a file) and the walk down from `n` gets as far as `b` (`WalkReaches`: `b < n`
and no version strictly between is complete — incomplete, unreadable, head-less and absent ones in
between do not matter).  Then in every fault-free world, whatever `last_apath` the walk starts with,
`stitchDown n` — `Stitch` after an interrupted version `n` — reports `bandHeadMissing b`. -/
theorem headless_predecessor_reported {s : Store} {n b : Nat} (hl : headLost s b = true)
    (hr : WalkReaches s n b) (last : Option Str) {evs : List Event} {w : World} (hq : Quiet s evs w) :
    Event.error (.bandHeadMissing b) ∈ ((stitchDown n last).run w).2.events := by
  obtain ⟨w', h, q⟩ := run_stitchDown n last evs w hq
  rw [h, q.events]
  exact List.mem_append_left _ (C10.mem_evsOf.mpr (lost_mem_stitchDownP hl n last hr))

/-- The same for the whole listing of an interrupted version `n` (`stitchAll n`: what
`Stitch::new(archive, n, …)` yields), on the archive as it lies there. -/
theorem headless_predecessor_reported_list {s : Store} {n b : Nat} (hl : headLost s b = true)
    (hopen : isComplete s n = false) (hr : WalkReaches s n b) :
    Event.error (.bandHeadMissing b) ∈ ((stitchAll n).run (World.clean s)).2.events := by
  obtain ⟨w', h, q⟩ := run_stitchAll n (Quiet.clean s)
  rw [h, q.events, List.append_nil]
  apply C10.mem_evsOf.mpr
  have hcl : isFileP s (.bandTail n) = false := by rw [isComplete_eq]; exact hopen
  simp only [stitchAllP, hcl, Bool.false_eq_true, if_false, List.mem_append]
  exact Or.inr (lost_mem_stitchDownP hl n _ hr)

/-- The rule says so too: `bandHeadMissing b` is among `listErrors s n` (C08; StitchSpec.lean). -/
theorem headless_predecessor_reported_spec {s : Store} {n b : Nat} (hl : headLost s b = true)
    (hopen : isComplete s n = false) (hr : WalkReaches s n b) :
    Err.bandHeadMissing b ∈ listErrors s n :=
  lost_mem_listErrors hl hopen hr

/-- … and `restore` of the interrupted version `n` (any subtree, any exclusions), if it returns,
has reported it: what the version took from `b` is not restored, and this is said. -/
theorem headless_predecessor_reported_restore (H : Str → Str) {s : Store} (wf : ArchWF s) {n b : Nat}
    (hl : headLost s b = true) (hopen : isComplete s n = false) (hr : WalkReaches s n b)
    (subtree : Str) (excl : Str → Bool) {nodes : List RNode} {w' : World}
    (h : (restore H (.specified n) subtree excl).run (World.clean s) = (.ok nodes, w')) :
    Event.error (.bandHeadMissing b) ∈ w'.events := by
  obtain ⟨_, _, hev⟩ := C10.restore_spec H wf n subtree excl h
  rw [hev]
  exact C10.mem_evsOf.mpr (List.mem_append_left _ (lost_mem_listErrors hl hopen hr))

/-- In particular the immediate predecessor: an interrupted version `b + 1` over a version `b` whose
head was deleted. -/
theorem deleted_predecessor_head_reported {s : Store} {b : Nat} (hl : headLost s b = true)
    (hopen : isComplete s (b + 1) = false) :
    Event.error (.bandHeadMissing b) ∈ ((stitchAll (b + 1)).run (World.clean s)).2.events :=
  headless_predecessor_reported_list hl hopen ⟨Nat.lt_succ_self b, fun c h1 h2 => by omega⟩

/-! ## 2. A directory that was never started stays silent -/

/-- **headless_leftover_silent.**  Id `b` has no head file and no hunk 0 (what a backup killed before
its head write leaves: `bNNNN/`, perhaps `bNNNN/i/`).  Then walking past it adds no entry and no event:
in every fault-free world `stitchDown (b + 1)` returns what `stitchDown b` returns and reports what it
reports. -/
theorem headless_leftover_silent {s : Store} {b : Nat} (hp : bandPresent s b = false)
    (h0 : headLost s b = false) (last : Option Str) {evs : List Event} {w : World} (hq : Quiet s evs w) :
    ((stitchDown (b + 1) last).run w).1 = ((stitchDown b last).run w).1 ∧
    ((stitchDown (b + 1) last).run w).2.events = ((stitchDown b last).run w).2.events ∧
    ((stitchDown (b + 1) last).run w).2.store = ((stitchDown b last).run w).2.store := by
  obtain ⟨w1, h1, q1⟩ := run_stitchDown (b + 1) last evs w hq
  obtain ⟨w2, h2, q2⟩ := run_stitchDown b last evs w hq
  rw [h1, h2, q1.events, q2.events, q1.store, q2.store, stitchDownP_leftover hp h0]
  exact ⟨rfl, rfl, rfl⟩

/-- **The same result as if the directory were absent.**  `s'` is `s` without anything at or under
`b`'s directory (`hout`, `habs`); in `s` that directory holds neither a head nor hunk 0.  Both stores
maps.  Then from every starting point `n`, with every `last_apath`, the walk returns the same entries
and reports the same errors on both. -/
theorem headless_leftover_silent_absent {s s' : Store} (hs : s.NoDupKeys) (hs' : s'.NoDupKeys) {b : Nat}
    (hout : ∀ k, Key.isUnder (.bandDir b) k = false → s'.get? k = s.get? k)
    (habs : ∀ k, Key.isUnder (.bandDir b) k = true → s'.get? k = none)
    (hp : bandPresent s b = false) (h0 : headLost s b = false) (n : Nat) (last : Option Str)
    {evs : List Event} {w w' : World} (hq : Quiet s evs w) (hq' : Quiet s' evs w') :
    ((stitchDown n last).run w').1 = ((stitchDown n last).run w).1 ∧
    ((stitchDown n last).run w').2.events = ((stitchDown n last).run w).2.events := by
  obtain ⟨w1, h1, q1⟩ := run_stitchDown n last evs w hq
  obtain ⟨w2, h2, q2⟩ := run_stitchDown n last evs w' hq'
  rw [h1, h2, q1.events, q2.events,
    Hist.stitchDownP_same hs hs' n (chainSame_of_absent hout habs hp h0 n) last]
  exact ⟨rfl, rfl⟩

/-- … and so does the whole listing of every OTHER version `n` (complete or interrupted, above or
below `b`). -/
theorem headless_leftover_silent_absent_list {s s' : Store} (hs : s.NoDupKeys) (hs' : s'.NoDupKeys) {b : Nat}
    (hout : ∀ k, Key.isUnder (.bandDir b) k = false → s'.get? k = s.get? k)
    (habs : ∀ k, Key.isUnder (.bandDir b) k = true → s'.get? k = none)
    (hp : bandPresent s b = false) (h0 : headLost s b = false) {n : Nat} (hn : n ≠ b) :
    ((stitchAll n).run (World.clean s')).1 = ((stitchAll n).run (World.clean s)).1 ∧
    ((stitchAll n).run (World.clean s')).2.events = ((stitchAll n).run (World.clean s)).2.events := by
  obtain ⟨w1, h1, q1⟩ := run_stitchAll n (Quiet.clean s)
  obtain ⟨w2, h2, q2⟩ := run_stitchAll n (Quiet.clean s')
  have hb : BandSame s s' n := fun k hk => hout k (isUnder_bandDir_other hk hn)
  rw [h1, h2, q1.events, q2.events,
    Hist.stitchAllP_same hs hs' hb (fun _ => chainSame_of_absent hout habs hp h0 n)]
  exact ⟨rfl, rfl⟩

/-! ## 3. Otherwise the listing is what it was -/

/-- **repair_conservative.**  The repaired walk against the walk as it was (`stitchDownOld`), in the
same fault-free world, on ANY store: both return, with the same entries; nothing is written by either;
every event of the old walk is an event of the new one, in the same order (`Sublist`); and every event
of the new walk that the old one did not report is `bandHeadMissing c` for an id `c` below that lost
its head. -/
theorem repair_conservative {s : Store} (n : Nat) (last : Option Str) {evs : List Event} {w : World}
    (hq : Quiet s evs w) :
    (∃ es, ((stitchDown n last).run w).1 = .ok es ∧ ((stitchDownOld n last).run w).1 = .ok es) ∧
    ((stitchDown n last).run w).2.store = s ∧ ((stitchDownOld n last).run w).2.store = s ∧
    (((stitchDownOld n last).run w).2.events).Sublist ((stitchDown n last).run w).2.events ∧
    ∀ ev ∈ ((stitchDown n last).run w).2.events,
      ev ∈ ((stitchDownOld n last).run w).2.events ∨
      ∃ c, c < n ∧ headLost s c = true ∧ ev = Event.error (.bandHeadMissing c) := by
  obtain ⟨w1, h1, q1⟩ := run_stitchDown n last evs w hq
  obtain ⟨w2, h2, q2⟩ := run_stitchDownOld n last evs w hq
  rw [h1, h2, q1.events, q2.events, q1.store, q2.store]
  refine ⟨⟨_, rfl, by rw [stitchDownP_fst_old]⟩, rfl, rfl, ?_, ?_⟩
  · refine List.Sublist.append ?_ (List.Sublist.refl _)
    unfold evsOf
    exact ((stitchDownOldP_sublist s n last).map _).reverse
  · intro ev hev
    rcases List.mem_append.mp hev with hev | hev
    · unfold evsOf at hev
      obtain ⟨e, he, rfl⟩ := List.mem_map.mp (List.mem_reverse.mp hev)
      rcases mem_stitchDownP_snd n last he with h | ⟨c, hc, hl, rfl⟩
      · exact Or.inl (List.mem_append_left _ (C10.mem_evsOf.mpr h))
      · exact Or.inr ⟨c, hc, hl, rfl⟩
    · exact Or.inl (List.mem_append_right _ hev)

/-- If no id below `n` has lost its head — in particular in every archive in which whatever holds a
hunk has a head — the repaired walk returns and reports exactly what the old one did. -/
theorem repair_same_when_no_head_lost {s : Store} (n : Nat) (hn : ∀ c, c < n → headLost s c = false)
    (last : Option Str) {evs : List Event} {w : World} (hq : Quiet s evs w) :
    ((stitchDown n last).run w).1 = ((stitchDownOld n last).run w).1 ∧
    ((stitchDown n last).run w).2.events = ((stitchDownOld n last).run w).2.events := by
  obtain ⟨w1, h1, q1⟩ := run_stitchDown n last evs w hq
  obtain ⟨w2, h2, q2⟩ := run_stitchDownOld n last evs w hq
  rw [h1, h2, q1.events, q2.events, stitchDownP_eq_old n hn last]
  exact ⟨rfl, rfl⟩

/-- Healthy archives (C09 `Good`: what validate accepts) have no lost head, so on them the repair
changes nothing. -/
theorem good_no_head_lost {H : Str → Str} {s : Store} (g : Good H s) (c : Nat) : headLost s c = false :=
  g.headLost_false c

/-! ## 4. No archive the tool produces has a lost head -/

section produced
open Conserve.Inv Conserve.Conf
variable {H : Str → Str}

/-- **`NoHeadLost`**: the fact the silence theorems need since the repair (`C08.stitch_silent`,
`C02h.restore_congr_chain`'s `hlost`, the extra premise of `C05.delete_keeps_restore_Statement`): no
version directory without head file holds index hunk 0. -/
def NoHeadLost (s : Store) : Prop := ∀ c, headLost s c = false

/-- It follows from the C13 invariant `CI` (conforms to the format, a tree, a map): the format allows
a version directory without head only with no hunk files at all. -/
theorem ci_no_head_lost {s : Store} (h : CI H s) : NoHeadLost s := h.headLost_false

/-- … so it is kept by `backup` in EVERY world (any faults, any crash point, any options), -/
theorem backup_keeps_no_head_lost {o : BackupOpts} {src : List SrcEntry} {w : World}
    (hinj : Function.Injective H) (hlen : HashLen H) (hsrc : C13.SrcSortedWeak src)
    (he : w.enforceCreateNew = true) (hci : CI H w.store) : NoHeadLost ((backup H o src).run w).2.store :=
  ci_no_head_lost (C13.backup_ci_all_worlds hinj hlen hsrc he hci)

/-- … by `delete_bands` (strict) in every world, -/
theorem delete_keeps_no_head_lost (D : List Nat) (opts : DeleteOpts) (w : World) (hci : CI H w.store) :
    NoHeadLost ((deleteBands true D opts).run w).2.store :=
  ci_no_head_lost (C13.delete_ci D opts w hci)

/-- … and holds of every archive a history of backups and deletes (each in a world of its own, killed
anywhere) visits, -/
theorem history_no_head_lost (hinj : Function.Injective H) (hlen : HashLen H) (hist : List C13.Step) :
    C13.HistOK hist → ∀ s, CI H s → ∀ s' ∈ C13.states H hist s, NoHeadLost s' := by
  induction hist with
  | nil =>
    intro _ s hci s' hs'
    simp only [C13.states, List.mem_singleton] at hs'
    subst hs'; exact ci_no_head_lost hci
  | cons st rest ih =>
    intro hok s hci s' hs'
    simp only [C13.states, List.mem_cons] at hs'
    rcases hs' with rfl | hs'
    · exact ci_no_head_lost hci
    · exact ih (fun st' h' => hok st' (List.mem_cons_of_mem _ h')) _
        (C13.step_ci hinj hlen st s (hok st (List.mem_cons_self ..)) hci) s' hs'

/-- … in particular of everything reachable from the empty archive. -/
theorem reachable_no_head_lost (hinj : Function.Injective H) (hlen : HashLen H) (hist : List C13.Step)
    (hok : C13.HistOK hist) : ∀ s' ∈ C13.states H hist C13.emptyArchive, NoHeadLost s' :=
  history_no_head_lost hinj hlen hist hok _ C13.emptyArchive_ci

/-- On such archives the repaired listing is the old listing: same entries, same events
(`repair_same_when_no_head_lost`), from every starting point. -/
theorem produced_listing_unchanged {s : Store} (h : CI H s) (n : Nat) (last : Option Str)
    {evs : List Event} {w : World} (hq : Quiet s evs w) :
    ((stitchDown n last).run w).1 = ((stitchDownOld n last).run w).1 ∧
    ((stitchDown n last).run w).2.events = ((stitchDownOld n last).run w).2.events :=
  repair_same_when_no_head_lost n (fun c _ => ci_no_head_lost h c) last hq

end produced

/-! ## Non-vacuity -/

/-- b0000: directory, index, hunk 0 — and NO head (it was deleted); b0001: an interrupted version
(head, index, no tail). -/
def lostDemo : Store :=
  [ (.root, .dir), (.header, .header [48, 46, 54]), (.blockRoot, .dir),
    (.bandDir 0, .dir), (.indexDir 0, .dir), (.hunkDir 0 0, .dir), (.hunk 0 0, .hunk [C08.ent [47] 0]),
    (.bandTail 0, .tail (some 1)),
    (.bandDir 1, .dir), (.bandHead 1, .head .ok []), (.indexDir 1, .dir) ]

/-- The same with b0000 never started: a directory, nothing in it. -/
def leftoverDemo : Store :=
  [ (.root, .dir), (.header, .header [48, 46, 54]), (.blockRoot, .dir),
    (.bandDir 0, .dir),
    (.bandDir 1, .dir), (.bandHead 1, .head .ok []), (.indexDir 1, .dir) ]

/-- … and with b0000 absent. -/
def absentDemo : Store :=
  [ (.root, .dir), (.header, .header [48, 46, 54]), (.blockRoot, .dir),
    (.bandDir 1, .dir), (.bandHead 1, .head .ok []), (.indexDir 1, .dir) ]

example : headLost lostDemo 0 = true := by decide +kernel
example : isComplete lostDemo 1 = false := by decide +kernel
example : WalkReaches lostDemo 1 0 := ⟨by omega, fun c h1 h2 => by omega⟩

/-- Listing the interrupted b0001 of `lostDemo` reports the lost head of b0000 (by the theorem). -/
example : Event.error (.bandHeadMissing 0) ∈ ((stitchAll 1).run (World.clean lostDemo)).2.events :=
  deleted_predecessor_head_reported (by decide +kernel) (by decide +kernel)

/-- The hypotheses of `headless_leftover_silent` and of `…_absent` hold of the leftover / absent pair. -/
example : bandPresent leftoverDemo 0 = false ∧ headLost leftoverDemo 0 = false := by decide +kernel
example : leftoverDemo.NoDupKeys ∧ absentDemo.NoDupKeys := by
  unfold Store.NoDupKeys; decide +kernel

theorem demo_out : ∀ k, Key.isUnder (.bandDir 0) k = false → absentDemo.get? k = leftoverDemo.get? k := by
  intro k hk
  have hne : (k == Key.bandDir 0) = false := by
    cases hk' : k == Key.bandDir 0 with
    | false => rfl
    | true => simp [Key.isUnder, hk'] at hk
  simp [leftoverDemo, absentDemo, Store.get?, List.lookup_cons, hne]

theorem demo_abs : ∀ k, Key.isUnder (.bandDir 0) k = true → absentDemo.get? k = none := by
  intro k hk
  have hall : absentDemo.all (fun kv => !Key.isUnder (.bandDir 0) kv.1) = true := by decide +kernel
  cases hg : absentDemo.get? k with
  | none => rfl
  | some v =>
    have := List.all_eq_true.mp hall _ (get?_mem hg)
    simp [hk] at this

/-- So listing b0001 gives the same on the archive with the empty directory b0000 as without it. -/
example : ((stitchAll 1).run (World.clean absentDemo)).1 = ((stitchAll 1).run (World.clean leftoverDemo)).1 ∧
    ((stitchAll 1).run (World.clean absentDemo)).2.events =
      ((stitchAll 1).run (World.clean leftoverDemo)).2.events :=
  headless_leftover_silent_absent_list (by unfold Store.NoDupKeys; decide +kernel)
    (by unfold Store.NoDupKeys; decide +kernel) demo_out demo_abs (by decide +kernel) (by decide +kernel)
    (by omega)

/-- `repair_conservative` is not about equal things only: on `lostDemo` the repaired walk reports the
lost head (above), while the walk as it was is silent — the damage went unreported. -/
example : ((stitchDownOld 1 none).run (World.clean lostDemo)).2.events = [] := by
  obtain ⟨w', h, q⟩ := run_stitchDownOld 1 none [] _ (Quiet.clean lostDemo)
  rw [h, q.events]
  have : stitchDownOldP lostDemo 1 none = ([], []) := by
    simp [stitchDownOldP, show isFileP lostDemo (.bandHead 0) = false by decide +kernel]
  rw [this]; rfl

/-- The hypothesis of `repair_same_when_no_head_lost` holds of `leftoverDemo`. -/
example : ∀ c, c < 1 → headLost leftoverDemo c = false := by
  intro c hc
  have : c = 0 := by omega
  subst this; decide +kernel

end Conserve.C10h
